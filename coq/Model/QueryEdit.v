(* Model of annotation objects that are edited through the API after they were
   parsed: hed/models/hed_group.py HedGroup.append (a new last child of a group)
   and HedGroup.replace / _replace (a child exchanged in place), addressed by
   child-index paths, and of the stored source text (HedString._hed_string,
   returned by get_original_hed_string) that no edit updates.  HedGroup.remove
   is not modelled (it removes by equality and prunes emptied groups); it is
   exercised by the harness only.
   Models only -- proofs live in Proofs/QueryEditProofs.v. *)
From Coq Require Import List NArith Arith Bool.
From HV Require Import Base.Res Base.Str Model.Query Model.QueryParse.
Import ListNotations.

Fixpoint upd_nth {A} (k : nat) (f : A -> A) (l : list A) : list A :=
  match l, k with
  | [], _ => []
  | a :: l', O => f a :: l'
  | a :: l', S k' => a :: upd_nth k' f l'
  end.

(* group.append(x) on the group reached by the path *)
Fixpoint append_at (p : list nat) (x : node) (n : node) : node :=
  match n with
  | Tag _ _ _ _ => n
  | Group i ch =>
      match p with
      | [] => Group i (ch ++ [x])
      | k :: p' => Group i (upd_nth k (append_at p' x) ch)
      end
  end.

(* HedGroup.replace(item, x) with item the child reached by the (non-empty) path *)
Fixpoint replace_at (p : list nat) (x : node) (n : node) : node :=
  match n with
  | Tag _ _ _ _ => n
  | Group i ch =>
      match p with
      | [] => n
      | [k] => Group i (upd_nth k (fun _ => x) ch)
      | k :: p' => Group i (upd_nth k (replace_at p' x) ch)
      end
  end.

Inductive edit : Type :=
| EdAppend (p : list nat) (x : node)
| EdReplace (p : list nat) (x : node).

Definition apply_edit (n : node) (e : edit) : node :=
  match e with
  | EdAppend p x => append_at p x n
  | EdReplace p x => replace_at p x n
  end.

(* the path leads to a group *)
Fixpoint path_ok (p : list nat) (n : node) : bool :=
  match p with
  | [] => negb (is_tag n)
  | k :: p' =>
      match n with
      | Group _ ch => match nth_error ch k with Some c => path_ok p' c | None => false end
      | Tag _ _ _ _ => false
      end
  end.

(* the annotation object: its source text (never updated by an edit) and its current content *)
Record obj := { o_src : str; o_root : node }.

Definition obj_edit (o : obj) (e : edit) : obj := {| o_src := o_src o; o_root := apply_edit (o_root o) e |}.

(* QueryHandler(q).search(obj): the finders walk the current children only *)
Definition obj_search (fx : bool) (limit : nat) (q : str) (o : obj) : res bool :=
  search fx limit q (o_root o).

(* a history: edits interleaved with searches whose results are discarded *)
Inductive step : Type := StEdit (e : edit) | StSearch (q : str).

Definition run_step (fx : bool) (limit : nat) (o : obj) (s : step) : obj :=
  match s with
  | StEdit e => obj_edit o e
  | StSearch q => match obj_search fx limit q o with _ => o end
  end.

Definition edits_of (h : list step) : list edit :=
  flat_map (fun s => match s with StEdit e => [e] | StSearch _ => [] end) h.

(* HedTag.short_base_tag setter, as used by HedString.expand_defs / shrink_defs
   (Def <-> Def-expand): the schema entry -- hence short_tag -- is replaced.
   [fx4 = false]: behaviour before fix commit c19994c: tag_terms was left as it was;
   [fx4 = true]: current code: tag_terms is refreshed from the new entry. *)
Definition rebase_tag (fx4 : bool) (new_terms : list str) (new_short : str) (t : node) : node :=
  match t with
  | Tag i terms _ o => Tag i (if fx4 then new_terms else terms) new_short o
  | Group _ _ => t
  end.

(* hed/models/query_service.py search_hed_objs on compiled queries: one row per
   annotation in the order given, one column per query; a None entry or an
   annotation without children ([if next_item:], HedGroup.__bool__) is all 0 *)
Definition batch_row (fx : bool) (es : list expr) (row : option node) : list bool :=
  match row with
  | None => map (fun _ => false) es
  | Some r =>
      match children r with
      | [] => map (fun _ => false) es
      | _ :: _ => map (fun e => matches fx e r) es
      end
  end.

Definition search_batch (fx : bool) (es : list expr) (rows : list (option node)) : list (list bool) :=
  map (batch_row fx es) rows.
