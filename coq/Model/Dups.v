(* Model of the order/spelling-sensitive group rules of
     hed/validator/util/group_util.py  (GroupValidator)
     hed/models/hed_group.py           (HedGroup._sorted, __str__, tags, groups,
                                        get_all_tags, get_all_groups)
     hed/models/hed_tag.py             (HedTag.__eq__, __str__)
     hed/models/hed_string.py          (HedString.find_top_level_tags)
   Models only -- proofs live in Proofs/DupsProofs.v.

   A tag is given by what the anchored code looks at (resolution of a spelling
   to these values is property C03's business; the harness reads them from the
   implementation's HedTag objects):
     t_short   str(tag) = tag.short_tag
     t_shortf  tag.short_tag.casefold()
     t_orgf    tag.org_tag.casefold()
     t_tg      tag.base_tag_has_attribute(TagGroup)
     t_tl      tag.base_tag_has_attribute(TopLevelTagGroup)
     t_base    tag.short_base_tag            (interned, ids 1..6 reserved below)
     t_basef   tag.short_base_tag.casefold() (interned, ids 1..6 reserved below)
     t_uniq    indices of the schema's unique prefixes that long_tag starts with
     t_req     indices of the schema's required prefixes that long_tag starts with
     t_def     only for Def / Def-expand tags, what DefValidator._handle_onset_or_offset finds
               for the tag's name in the definition dictionary: 0 = declared and the
               placeholder value is present exactly when the definition takes one,
               1 = not declared, 2 = placeholder value missing or unexpected *)
From Coq Require Import List NArith Arith Bool.
From HV Require Import Base.Res Base.Str.
Import ListNotations.

Record tag := mkTag {
  t_short : str; t_shortf : str; t_orgf : str;
  t_tg : bool; t_tl : bool;
  t_base : nat; t_basef : nat;
  t_uniq : list nat; t_req : list nat; t_def : nat }.

(* HedGroup / HedTag tree; the top level (HedString) is a [list tree]. *)
Inductive tree := T (a : tag) | G (l : list tree).

(* What HedGroup._sorted returns: tags and nested lists. *)
Inductive view := VT (a : tag) | VL (l : list view).

(* internal error kinds (hed/errors/error_types.py) *)
Inductive kind :=
| K_GROUP_EMPTY | K_TAG_GROUP_TAG | K_TOP_LEVEL_TAG | K_TOP_LEVEL_TAG_DEFINITION
| K_TOP_LEVEL_TAG_TEMPORAL | K_MULTIPLE_TOP_TAGS | K_TAG_REPEATED | K_TAG_REPEATED_GROUP
| K_TAG_NOT_UNIQUE | K_REQUIRED_TAG_MISSING | K_DURATION_HAS_OTHER_TAGS
| K_DURATION_WRONG_NUMBER_GROUPS
| K_ONSET_NO_DEF_TAG_FOUND | K_ONSET_TOO_MANY_DEFS | K_ONSET_WRONG_NUMBER_GROUPS
| K_ONSET_TAG_OUTSIDE_OF_GROUP | K_ONSET_DEF_UNMATCHED | K_ONSET_PLACEHOLDER_WRONG.

(* DefTagNames: reserved ids of short_base_tag values *)
Definition B_DEFINITION := 1.
Definition B_ONSET := 2.
Definition B_OFFSET := 3.
Definition B_INSET := 4.
Definition B_DURATION := 5.
Definition B_DELAY := 6.
Definition B_DEF := 7.
Definition B_DEF_EXPAND := 8.
(* TEMPORAL_KEYS, DURATION_KEYS, ALL_TIME_KEYS *)
Definition is_temporal (b : nat) : bool := (b =? B_ONSET) || (b =? B_OFFSET) || (b =? B_INSET).
Definition is_duration_key (b : nat) : bool := (b =? B_DURATION) || (b =? B_DELAY).
Definition is_all_time (b : nat) : bool := is_temporal b || is_duration_key b.

(* Which state of the code is modelled.  /repo now contains four repairs of
   the duplicate check; each flag switches one of them on, and the code as it
   is (current /repo, harness FIXED = True) has all of them: [mode_of true].
   [mode_of false] is the behaviour BEFORE these fix commits and is kept only
   as the record of the repaired defects.
     m_canon    fix commit 7597eca: after the sort by str(child) a second, stable
                sort orders tags and groups by the text of their *sorted* form
                (HedGroup._sort_key)
     m_foldkey  fix commit 7597eca: _sort_key of a tag is str(tag).casefold()
                (a variant with m_canon but without m_foldkey was never committed;
                it is only used to show that such a partial repair is not enough)
     m_foldeq   fix commit 2492808: HedTag.__eq__ is equality of short_tag.casefold()
                (before: short_tag equal, or original text case-folded equal)
     m_total    fix commit 3e47c8c: a repeated group that holds nothing but empty
                groups is reported (GroupValidator._sorted_text) instead of raising
                IndexError *)
Record mode := mkMode { m_canon : bool; m_foldkey : bool; m_foldeq : bool; m_total : bool }.
Definition mode_of (fixed : bool) : mode := mkMode fixed fixed fixed fixed.

(* ---------------------------------------------------------------- hed_group.py *)

Definition tags_of (l : list tree) : list tag :=       (* HedGroup.tags *)
  flat_map (fun c => match c with T a => [a] | G _ => [] end) l.
Definition groups_of (l : list tree) : list (list tree) :=  (* HedGroup.groups *)
  flat_map (fun c => match c with T _ => [] | G g => [g] end) l.

Fixpoint all_tags_t (t : tree) : list tag :=            (* HedGroup.get_all_tags (pre-order) *)
  match t with T a => [a] | G l => flat_map all_tags_t l end.
Definition all_tags (l : list tree) : list tag := flat_map all_tags_t l.

(* HedGroup.__str__ / HedTag.__str__ *)
Fixpoint print (t : tree) : str :=
  match t with
  | T a => t_short a
  | G l => ch_open :: join [ch_comma] (map print l) ++ [ch_close]
  end.

(* list.sort(key=...) : stable; insertion sort on (key, value) pairs *)
Section Sort.
  Context {A : Type}.
  Fixpoint insert_k (x : str * A) (l : list (str * A)) : list (str * A) :=
    match l with
    | [] => [x]
    | y :: l' => if str_leb (fst x) (fst y) then x :: l else y :: insert_k x l'
    end.
  Fixpoint sort_k (l : list (str * A)) : list (str * A) :=
    match l with
    | [] => []
    | x :: l' => insert_k x (sort_k l')
    end.
End Sort.

Definition tagkey (m : mode) (a : tag) : str := if m_foldkey m then t_shortf a else t_short a.

(* HedGroup._sort_key: text of a sorted nested list (exists since fix commit 7597eca) *)
Fixpoint vkey (m : mode) (v : view) : str :=
  match v with
  | VT a => tagkey m a
  | VL l => ch_open :: join [ch_comma] (map (vkey m) l) ++ [ch_close]
  end.

Definition is_vt (v : view) : bool := match v with VT _ => true | VL _ => false end.

(* One pass of "tag_list.sort(key=...); group_list.sort(key=...); tag_list + group_list"
   over (str(child), sorted form of child) pairs. *)
Definition arrange_pairs (key : str * view -> str) (ps : list (str * view)) : list (str * view) :=
  let keyed := map (fun p => (key p, p)) ps in
  map snd (sort_k (filter (fun q => is_vt (snd (snd q))) keyed)) ++
  map snd (sort_k (filter (fun q => negb (is_vt (snd (snd q)))) keyed)).

(* key=lambda x: str(x[0]) : the text of the child as written (unsorted members) *)
Definition oldkey (p : str * view) : str :=
  match snd p with VT a => t_short a | VL _ => fst p end.
(* key=lambda x: self._sort_key(x[1]) : text of the sorted form (since fix commit 7597eca) *)
Definition newkey (m : mode) (p : str * view) : str := vkey m (snd p).

(* body of HedGroup._sorted.  Since fix commit 7597eca the code sorts a second time (stable) by the
   canonical key, so the text as written only orders members of equal canonical form. *)
Definition arrange (m : mode) (ps : list (str * view)) : list view :=
  let pass1 := arrange_pairs oldkey ps in
  map snd (if m_canon m then arrange_pairs (newkey m) pass1 else pass1).

(* HedGroup._sorted(update_self=False) on a group *)
Fixpoint sv (m : mode) (t : tree) : view :=
  match t with
  | T a => VT a
  | G l => VL (arrange m (map (fun c => (print c, sv m c)) l))
  end.
(* ... and on the HedString *)
Definition sorted_view (m : mode) (top : list tree) : list view :=
  arrange m (map (fun c => (print c, sv m c)) top).

(* ---------------------------------------------------------------- hed_tag.py *)

(* HedTag.__eq__ between two HedTags *)
Definition tag_eq (m : mode) (a b : tag) : bool :=
  if m_foldeq m then str_eqb (t_shortf a) (t_shortf b)
  else str_eqb (t_short a) (t_short b) || str_eqb (t_orgf a) (t_orgf b).

Section ListEq.
  Context {A : Type} (f : A -> A -> bool).
  Fixpoint list_eqb2 (x y : list A) : bool :=
    match x, y with
    | [], [] => true
    | a :: x', b :: y' => f a b && list_eqb2 x' y'
    | _, _ => false
    end.
End ListEq.

(* child == prev_child on the nested lists (list equality is pairwise) *)
Fixpoint veq (m : mode) (v w : view) : bool :=
  match v, w with
  | VT a, VT b => tag_eq m a b
  | VL x, VL y => list_eqb2 (veq m) x y
  | _, _ => false
  end.

(* ---------------------------------------------------------------- group_util.py *)

(* before fix commit 3e47c8c:
     while isinstance(found_group, list): found_group = found_group[0]; base_steps_up += 1 *)
Fixpoint first_leaf_steps (v : view) : res nat :=
  match v with
  | VT _ => Ok 0
  | VL [] => Exn IndexError
  | VL (x :: _) => let* n := first_leaf_steps x in Ok (S n)
  end.

(* since 3e47c8c:  while isinstance(found_group, list) and found_group: ...
   returns (base_steps_up, True when the walk ended at a tag) *)
Fixpoint walk_down (v : view) : nat * bool :=
  match v with
  | VT _ => (0, true)
  | VL [] => (0, false)
  | VL (x :: _) => let (n, b) := walk_down x in (S n, b)
  end.

(* GroupValidator._sorted_text(item) *)
Fixpoint sorted_text (v : view) : str :=
  match v with
  | VT a => t_short a
  | VL l => ch_open :: join [ch_comma] (map sorted_text l) ++ [ch_close]
  end.

(* what is handed to format_error for a repeated group: the number of _parent steps
   from the first tag, or (nothing but empty groups inside) the text of the sorted group *)
Definition repeated_group_subject (m : mode) (c : view) : res (nat + str) :=
  if m_total m then
    let (n, at_tag) := walk_down c in
    Ok (if at_tag then inl n else inr (sorted_text c))
  else
    let* n := first_leaf_steps c in Ok (inl n).

Definition veq_prev (m : mode) (c : view) (prev : option view) : bool :=
  match prev with None => false | Some p => veq m c p end.

(* the for loop of _check_for_duplicate_groups_recursive; the recursive calls
   on the children have been evaluated into the second components *)
Fixpoint dup_loop (m : mode) (prev : option view) (l : list (view * res (list kind)))
  : res (list kind) :=
  match l with
  | [] => Ok []
  | (c, sub) :: l' =>
      let* here :=
        (if veq_prev m c prev then
           match c with
           | VT _ => Ok [K_TAG_REPEATED]
           | VL _ => let* _ := repeated_group_subject m c in Ok [K_TAG_REPEATED_GROUP]
           end
         else Ok []) in
      let* s := sub in
      let* rest := dup_loop m (Some c) l' in
      Ok (here ++ s ++ rest)
  end.

(* _check_for_duplicate_groups_recursive(sorted_group, issues) *)
Fixpoint dup_rec (m : mode) (v : view) : res (list kind) :=
  match v with
  | VT _ => Ok []
  | VL l => dup_loop m None (map (fun c => (c, dup_rec m c)) l)
  end.

(* _check_for_duplicate_groups(original_group) *)
Definition check_for_duplicate_groups (m : mode) (top : list tree) : res (list kind) :=
  dup_rec m (VL (sorted_view m top)).

(* the "multiple top level tags" decision inside check_tag_level_issue *)
Definition ctl_mult (tops : list tag) : res bool :=
  let sset := nodup Nat.eq_dec (map t_base tops) in      (* {tag.short_base_tag ...} *)
  if negb (length sset =? length tops) then Ok true
  else if negb (existsb (Nat.eqb B_DELAY) sset) || negb (length sset =? 2) then Ok true
  else match remove Nat.eq_dec B_DELAY sset with          (* next(iter(short_tags)) *)
       | other :: _ => Ok (negb (is_all_time other))
       | [] => Exn Unmodelled
       end.

(* GroupValidator.check_tag_level_issue(original_tag_list, is_top_level, is_group) *)
Definition check_tag_level_issue (tags : list tag) (is_top is_group : bool) : res (list kind) :=
  let tops := filter t_tl tags in
  let tgs := filter t_tg tags in
  let i1 := flat_map (fun _ : tag => if is_group then [] else [K_TAG_GROUP_TAG]) tgs in
  let i2 := flat_map (fun a =>
              if is_top then []
              else (if t_base a =? B_DEFINITION then [K_TOP_LEVEL_TAG_DEFINITION]
                    else if is_all_time (t_base a) then [K_TOP_LEVEL_TAG_TEMPORAL] else [])
                   ++ [K_TOP_LEVEL_TAG]) tops in
  let* i3 := (if is_top && (1 <? length tops)
              then let* b := ctl_mult tops in Ok (if b then [K_MULTIPLE_TOP_TAGS] else [])
              else Ok []) in
  Ok (i1 ++ i2 ++ i3).

Definition null {A} (l : list A) : bool := match l with [] => true | _ => false end.

(* one iteration of the loop of run_tag_level_validators *)
Definition level_issues (l : list tree) (is_top is_group : bool) : res (list kind) :=
  let* r := check_tag_level_issue (tags_of l) is_top is_group in
  Ok ((if null l && is_group then [K_GROUP_EMPTY] else []) ++ r).

Section MapM.
  Context {A B : Type} (f : A -> res (list B)).
  Fixpoint concatM (l : list A) : res (list B) :=
    match l with
    | [] => Ok []
    | x :: xs => let* y := f x in let* ys := concatM xs in Ok (y ++ ys)
    end.
End MapM.

(* the groups below a top-level group (pre-order, get_all_groups) *)
Fixpoint walk (is_top : bool) (t : tree) : res (list kind) :=
  match t with
  | T _ => Ok []
  | G l => let* a := level_issues l is_top true in
           let* b := concatM (walk false) l in
           Ok (a ++ b)
  end.

(* the first loop of run_tag_level_validators over
   hed_string_obj.get_all_groups(also_return_depth=True) *)
Definition tag_level_issues (top : list tree) : res (list kind) :=
  let* a := level_issues top false false in
  let* b := concatM (walk true) top in
  Ok (a ++ b).

(* check_multiple_unique_tags_exist(tags) with tags = get_all_tags();
   [n] = number of unique prefixes of the schema *)
Definition memb (x : nat) (l : list nat) : bool := existsb (Nat.eqb x) l.
Definition check_multiple_unique (n : nat) (tags : list tag) : list kind :=
  flat_map (fun p => if 1 <? length (filter (fun a => memb p (t_uniq a)) tags)
                     then [K_TAG_NOT_UNIQUE] else []) (seq 0 n).
(* check_for_required_tags(tags) *)
Definition check_required (n : nat) (tags : list tag) : list kind :=
  flat_map (fun p => if existsb (fun a => memb p (t_req a)) tags
                     then [] else [K_REQUIRED_TAG_MISSING]) (seq 0 n).
(* _validate_tags_in_hed_string *)
Definition all_tags_issues (nreq nuniq : nat) (top : list tree) : list kind :=
  check_required nreq (all_tags top) ++ check_multiple_unique nuniq (all_tags top).

(* HedString.find_top_level_tags(anchor_tags=DURATION_KEYS): at most one per group *)
Definition find_duration_anchor (g : list tree) : option tag :=
  find (fun a => is_duration_key (t_basef a)) (tags_of g).

(* validate_duration_tags: body of the loop for one top-level group *)
Definition duration_group (g : list tree) : list kind :=
  match find_duration_anchor g with
  | None => []
  | Some _ =>
      let top_level_tags := map t_base (filter t_tl (all_tags g)) in
      if existsb is_temporal top_level_tags then []
      else if negb (length top_level_tags =? length (tags_of g)) then
        flat_map (fun a => if memb (t_base a) top_level_tags then []
                           else [K_DURATION_HAS_OTHER_TAGS]) (tags_of g)
      else if negb (length (groups_of g) =? 1) then [K_DURATION_WRONG_NUMBER_GROUPS]
      else []
  end.
Definition validate_duration_tags (top : list tree) : list kind :=
  flat_map duration_group (groups_of top).

(* run_all_tags_validators + run_tag_level_validators (group_util part of
   HedValidator.run_full_string_checks) *)
Definition group_checks (m : mode) (nreq nuniq : nat) (top : list tree) : res (list kind) :=
  let a := all_tags_issues nreq nuniq top in
  let* b := tag_level_issues top in
  let* c := check_for_duplicate_groups m top in
  Ok (a ++ b ++ c ++ validate_duration_tags top).

(* ---------------------------------------------------------------- def_validator.py
   DefValidator.validate_onset_offset: the shape of Onset / Inset / Offset groups. *)

(* HedGroup._get_def_tags_from_group, per member: a Def tag, or the Def-expand tags of a member group *)
Definition def_entries_of (c : tree) : list tag :=
  match c with
  | T a => if t_base a =? B_DEF then [a] else []
  | G l => filter (fun a => t_base a =? B_DEF_EXPAND) (tags_of l)
  end.
(* found_group.find_def_tags() *)
Definition find_def_tags (g : list tree) : list tag := flat_map def_entries_of g.

(* HedString.find_top_level_tags(anchor_tags=TEMPORAL_KEYS): the first member tag whose
   case-folded short_base_tag is Onset / Offset / Inset *)
Definition is_temporal_tag (c : tree) : bool :=
  match c with T a => is_temporal (t_basef a) | G _ => false end.
Definition is_delay_tag (c : tree) : bool :=
  match c with T a => t_base a =? B_DELAY | G _ => false end.

Section RemoveFirst.
  Context {A : Type} (p : A -> bool).
  Fixpoint remove_first (l : list A) : list A :=
    match l with
    | [] => []
    | x :: r => if p x then r else x :: remove_first r
    end.
End RemoveFirst.

(* DefValidator._handle_onset_or_offset(def_tag) *)
Definition handle_onset_or_offset (d : tag) : list kind :=
  match t_def d with
  | 0 => []
  | 1 => [K_ONSET_DEF_UNMATCHED]
  | _ => [K_ONSET_PLACEHOLDER_WRONG]
  end.

(* body of the loop of validate_onset_offset for one top-level group *)
Definition onset_group (g : list tree) : list kind :=
  match find is_temporal_tag g with
  | None => []                                      (* no temporal tag: not visited *)
  | Some found =>
      match find_def_tags g with
      | [] => [K_ONSET_NO_DEF_TAG_FOUND]
      | _ :: _ :: _ => [K_ONSET_TOO_MANY_DEFS]
      | [d] =>
          (* children that are neither the def tag / def-expand group nor found_onset (both
             compared by identity: found_onset is the first temporal tag, and with a single def
             entry its member is the only one that has def entries), then without Delay tags *)
          let children :=
            filter (fun c => null (def_entries_of c) && negb (is_delay_tag c))
                   (remove_first is_temporal_tag g) in
          let max_children :=
            match found with T a => if t_base a =? B_OFFSET then 0 else 1 | G _ => 1 end in
          if max_children <? length children then [K_ONSET_WRONG_NUMBER_GROUPS]
          else (match children with T _ :: _ => [K_ONSET_TAG_OUTSIDE_OF_GROUP] | _ => [] end)
               ++ handle_onset_or_offset d
      end
  end.

Definition validate_onset_offset (top : list tree) : list kind :=
  flat_map onset_group (groups_of top).

(* HedValidator.run_full_string_checks *)
Definition full_string_checks (m : mode) (nreq nuniq : nat) (top : list tree) : res (list kind) :=
  let* a := group_checks m nreq nuniq top in
  Ok (a ++ validate_onset_offset top).

(* ---------------------------------------------------------------- sessions
   The rows of a file are validated one after the other by ONE GroupValidator
   built on ONE schema object.  What the group rules read of that object is
   fixed when it is built (self._hed_schema: the variant of the code and the
   schema's required / unique prefixes); no method of GroupValidator, HedGroup
   or HedTag modelled above assigns to it.  A step returns the object as it
   found it together with the issues of the row. *)
Record session := mkSession { s_mode : mode; s_nreq : nat; s_nuniq : nat }.

Definition session_step (s : session) (row : list tree) : session * res (list kind) :=
  (s, group_checks (s_mode s) (s_nreq s) (s_nuniq s) row).

Fixpoint session_run (s : session) (rows : list (list tree)) : session * list (res (list kind)) :=
  match rows with
  | [] => (s, [])
  | r :: rows' =>
      let (s1, v) := session_step s r in
      let (s2, vs) := session_run s1 rows' in
      (s2, v :: vs)
  end.
