(* C08 -- model of sidecar validation (structure and reference screening).
   Transcribed function by function from
     hed/models/sidecar.py, hed/models/column_metadata.py,
     hed/validator/sidecar_validator.py
   over a JSON datatype.  Python exceptions are explicit ([res]).  Model only,
   no proofs.

   [fixed = true] is the code as it is in /repo now, i.e. with the three
   repairs ae9929b (hed_dict of a non-object entry), 8a59f35 (non-object
   document refused with HedFileError) and f477d0a (references of '#'-less value
   strings are screened).  [fixed = false] is the behaviour BEFORE those fix
   commits; it is kept only for the record of the repaired defects.

   String-level HED validation is abstracted as the section variables [V_*]
   (functions from strings to issue lists); the correspondence harness
   instantiates them with answers computed by the real string validator. *)
From Coq Require Import List NArith Arith Bool.
From HV Require Import Base.Res Base.Str Gen.SidecarCodes.
Import ListNotations.

(* json.load result; objects are insertion-ordered association lists with
   unique keys; numbers only matter through truthiness (0 / non-0). *)
Inductive json : Type :=
| JNull
| JBool (b : bool)
| JNum (n : N)
| JStr (s : str)
| JArr (l : list json)
| JObj (kvs : list (str * json)).

(* an issue as far as the property sees it: published code, error severity? *)
Definition issue := (str * bool)%type.
Definition mk (k : skind) : issue := (kind_code k, kind_is_error k).
Definition is_error (i : issue) : bool := snd i.
(* error_reporter.check_for_any_errors *)
Definition any_error (l : list issue) : bool := existsb is_error l.
Definition error_codes (l : list issue) : list str := map fst (filter is_error l).

Definition s_HED : str := [72;69;68]%N.
Definition s_NA : str := [110;47;97]%N.

Definition mem_str (x : str) (l : list str) : bool := existsb (str_eqb x) l.

Fixpoint lookup {A} (k : str) (kvs : list (str * A)) : option A :=
  match kvs with
  | [] => None
  | (k', v) :: t => if str_eqb k k' then Some v else lookup k t
  end.

Definition has_key {A} (k : str) (kvs : list (str * A)) : bool :=
  match lookup k kvs with Some _ => true | None => false end.

(* d[k] *)
Definition getitem {A} (k : str) (kvs : list (str * A)) : res A :=
  match lookup k kvs with Some v => Ok v | None => Exn KeyError end.

(* Python truthiness of a decoded JSON value *)
Definition truthy (j : json) : bool :=
  match j with
  | JNull => false
  | JBool b => b
  | JNum n => negb (N.eqb n 0)
  | JStr s => match s with [] => false | _ => true end
  | JArr l => match l with [] => false | _ => true end
  | JObj kvs => match kvs with [] => false | _ => true end
  end.

Definition is_str (j : json) : bool := match j with JStr _ => true | _ => false end.

(* ---------------------------------------------------------------------- *)
(* column_metadata.py                                                      *)

(* ColumnType members that can occur here; Python None = [None] *)
Inductive ctype : Set := CIgnore | CCategorical | CValue.

Definition has_hash (s : str) : bool := existsb (N.eqb ch_hash) s.

(* ColumnMetadata._detect_column_type(dict_for_entry, basic_validation) *)
Definition detect_column_type (basic : bool) (d : json) : option ctype :=
  match d with
  | JObj kvs =>
      if negb (truthy d) then Some CIgnore
      else match lookup s_HED kvs with
           | None => Some CIgnore
           | Some (JObj hv) =>
               if basic && negb (forallb is_str (map snd hv)) then None else Some CCategorical
           | Some (JStr s) =>
               if basic && negb (has_hash s) then None else Some CValue
           | Some _ => None
           end
  | _ => Some CIgnore
  end.

(* ColumnMetadata.expected_pound_sign_count; the third branch returns
   (0, None) and format_error(None) is not modelled *)
Definition pound_sign_check (ct : option ctype) (count : nat) : res (list issue) :=
  match ct with
  | Some CValue => Ok (if Nat.eqb count 1 then [] else [mk K_INVALID_POUND_SIGNS_VALUE])
  | Some CCategorical => Ok (if Nat.eqb count 0 then [] else [mk K_INVALID_POUND_SIGNS_CATEGORY])
  | _ => if Nat.eqb count 0 then Ok [] else Exn Unmodelled
  end.

(* pd.Series(hed_dict, dtype=str).items(): a string gives one entry, a dict of
   strings one entry per key in order.  Non-string values would be converted
   by pandas; that conversion is not modelled (shown unreachable). *)
Fixpoint series_of_dict (hv : list (str * json)) : res (list (str * str)) :=
  match hv with
  | [] => Ok []
  | (k, JStr s) :: t => let* r := series_of_dict t in Ok ((k, s) :: r)
  | _ :: _ => Exn Unmodelled
  end.

Definition series_of (h : json) : res (list (str * str)) :=
  match h with
  | JStr s => Ok [([], s)]
  | JObj hv => series_of_dict hv
  | _ => Exn Unmodelled
  end.

Section Sidecar.
Variable fixed : bool.
(* string-level validation, abstract (ds = the strings definitions are
   gathered from, in order):
   V_defs ds               issues of Sidecar.extract_definitions + DefinitionDict merge
   V_basic ds s            HedValidator.run_basic_checks(remove_refs(s), allow_placeholders=True)
   V_defcount s            number of Definition tags found in s
   V_hashes ds s           '#' count of str(s) after remove_refs/remove_definitions/shrink_defs
   V_full ds s refs combo  run_full_string_checks of s with refs replaced (df_util.replace_ref) *)
Variable V_defs : list str -> list issue.
Variable V_basic : list str -> str -> list issue.
Variable V_defcount : str -> nat.
Variable V_hashes : list str -> str -> nat.
Variable V_full : list str -> str -> list str -> list str -> list issue.

(* ColumnMetadata.hed_dict with _source = the loaded dict and v = _source[column_name]
   (the column names iterated are the dict's own keys, so that index is safe):
   v.get("HED", {}).
   now (fixed = true, since ae9929b): non-dict entries have no HED strings;
   before ae9929b (fixed = false): AttributeError when v is not a dict. *)
Definition hed_dict (v : json) : res json :=
  match v with
  | JObj kvs => Ok (match lookup s_HED kvs with Some h => h | None => JObj [] end)
  | _ => if fixed then Ok (JObj []) else Exn AttributeError
  end.

(* ColumnMetadata.get_hed_strings: Enum members are truthy, so only the
   type None gives the empty series *)
Definition get_hed_strings (ct : option ctype) (v : json) : res (list (str * str)) :=
  match ct with
  | None => Ok []
  | Some _ => let* h := hed_dict v in series_of h
  end.

(* ---------------------------------------------------------------------- *)
(* sidecar.py: loading                                                     *)

(* Sidecar.load_sidecar_files: merged_dict.update(json.load(fp)).
   now (fixed = true, since 8a59f35): anything but an object is refused with
   HedFileError; before 8a59f35 (fixed = false): dict.update of a non-dict
   iterates it expecting 2-sequences (TypeError / ValueError). *)
Definition load (j : json) : res (list (str * json)) :=
  match j with
  | JObj kvs => Ok kvs
  | _ =>
    if fixed then Exn HedFileError else
    match j with
    | JObj kvs => Ok kvs
    | JNull | JBool _ | JNum _ => Exn TypeError
    | JStr [] => Ok []
    | JStr _ => Exn ValueError
    | JArr [] => Ok []
    | JArr (x :: _) =>
        match x with
        | JNull | JBool _ | JNum _ => Exn TypeError
        | JStr s => if Nat.eqb (length s) 2 then Exn Unmodelled else Exn ValueError
        | JArr l => if Nat.eqb (length l) 2
                    then match l with
                         | JArr _ :: _ | JObj _ :: _ => Exn TypeError   (* unhashable key *)
                         | _ => Exn Unmodelled
                         end
                    else Exn ValueError
        | JObj kvs => if Nat.eqb (length kvs) 2 then Exn Unmodelled else Exn ValueError
        end
    end
  end.

(* ---------------------------------------------------------------------- *)
(* sidecar_validator.py: validate_structure                                *)

(* SidecarValidator._check_for_key / _check_dict / _check_list *)
Fixpoint check_for_key (key : str) (d : json) : bool :=
  match d with
  | JObj kvs =>
      has_key key kvs ||
      (fix go (l : list (str * json)) : bool :=
         match l with [] => false | (_, v) :: t => check_for_key key v || go t end) kvs
  | JArr l =>
      (fix go (l : list json) : bool :=
         match l with [] => false | v :: t => check_for_key key v || go t end) l
  | _ => false
  end.

(* body of the loop in _validate_categorical_column *)
Definition categorical_entry_issues (kv : str * json) : list issue :=
  let (key_name, hed_string) := kv in
  if negb (truthy hed_string) then [mk K_BLANK_HED_STRING]
  else if negb (is_str hed_string) then [mk K_WRONG_HED_DATA_TYPE]
  else if mem_str key_name reserved_category_values then [mk K_SIDECAR_NA_USED]
  else [].

(* d.items() *)
Definition items (d : json) : res (list (str * json)) :=
  match d with JObj kvs => Ok kvs | _ => Exn AttributeError end.

(* dict_for_entry["HED"] *)
Definition subscript (d : json) (k : str) : res json :=
  match d with JObj kvs => getitem k kvs | _ => Exn TypeError end.

(* SidecarValidator._validate_categorical_column *)
Definition validate_categorical_column (dict_for_entry : json) : res (list issue) :=
  let* raw_hed_dict := subscript dict_for_entry s_HED in
  let blank := if negb (truthy raw_hed_dict) then [mk K_BLANK_HED_STRING] else [] in
  let* kvs := items raw_hed_dict in
  Ok (blank ++ flat_map categorical_entry_issues kvs).

(* SidecarValidator._validate_column_structure *)
Definition validate_column_structure (col : str * json) : res (list issue) :=
  let (column_name, dict_for_entry) := col in
  if mem_str column_name reserved_column_names then Ok [mk K_SIDECAR_HED_USED_COLUMN]
  else match detect_column_type false dict_for_entry with
       | None => Ok [mk K_UNKNOWN_COLUMN_TYPE]
       | Some CIgnore =>
           Ok (if check_for_key s_HED dict_for_entry then [mk K_SIDECAR_HED_USED] else [])
       | Some CCategorical => validate_categorical_column dict_for_entry
       | Some CValue => Ok []
       end.

(* SidecarValidator.validate_structure *)
Definition validate_structure (sc : list (str * json)) : res (list issue) :=
  let* l := mapM validate_column_structure sc in Ok (concat l).

(* ---------------------------------------------------------------------- *)
(* sidecar_validator.py: _validate_refs                                    *)

Definition opt_some_nat (o : option nat) : list nat :=
  match o with Some x => [x] | None => [] end.

(* SidecarValidator._find_non_matching_braces (i = current index,
   op = open_brace_index, None for -1) *)
Fixpoint fnmb (s : str) (i : nat) (op : option nat) : list nat :=
  match s with
  | [] => opt_some_nat op
  | c :: t =>
      if N.eqb c ch_lbrace then opt_some_nat op ++ fnmb t (S i) (Some i)
      else if N.eqb c ch_rbrace then
        match op with
        | Some _ => fnmb t (S i) None
        | None => i :: fnmb t (S i) None
        end
      else fnmb t (S i) op
  end.
Definition find_non_matching_braces (s : str) : list nat := fnmb s 0 None.

(* the class [a-z_\-0-9] under re.IGNORECASE (str pattern): ASCII letters of
   both cases, digits, '_', '-', and the four non-ASCII code points that
   case-fold into a-z.  Compared with CPython's re for every code point on
   each run. *)
Definition is_ref_char (c : N) : bool :=
  ((48 <=? c) && (c <=? 57) || (65 <=? c) && (c <=? 90) || (97 <=? c) && (c <=? 122)
   || (c =? 95) || (c =? 45) || (c =? 304) || (c =? 305) || (c =? 383) || (c =? 8490))%N.

(* re.findall(r"\{([a-z_\-0-9]+)\}", s, re.IGNORECASE) as a scanner:
   st = Some acc after a '{' followed only by class characters (acc reversed) *)
Fixpoint find_refs_aux (s : str) (st : option str) : list str :=
  match s with
  | [] => []
  | c :: t =>
      if N.eqb c ch_lbrace then find_refs_aux t (Some [])
      else match st with
           | None => find_refs_aux t None
           | Some acc =>
               if is_ref_char c then find_refs_aux t (Some (c :: acc))
               else if N.eqb c ch_rbrace then
                 match acc with
                 | [] => find_refs_aux t None
                 | _ => rev acc :: find_refs_aux t None
                 end
               else find_refs_aux t None
           end
  end.
Definition find_refs (s : str) : list str := find_refs_aux s None.

(* Sidecar.all_hed_columns (basic type != Ignore; the type None counts) *)
Definition is_hed_column (v : json) : bool :=
  match detect_column_type true v with Some CIgnore => false | _ => true end.
Definition all_hed_columns (sc : list (str * json)) : list str :=
  map fst (filter (fun col => is_hed_column (snd col)) sc).

(* possible_column_refs, with "HED" appended when absent *)
Definition possible_column_refs (sc : list (str * json)) : list str :=
  let p := all_hed_columns sc in
  if mem_str s_HED p then p else p ++ [s_HED].

(* the strings _validate_refs looks at in one column: get_hed_strings() of the
   basic-validated column.
   now (fixed = true, since f477d0a): a value column whose string lacks '#'
   (basic type None) still has its references screened; before f477d0a
   (fixed = false) it was skipped and the product loop could raise KeyError. *)
Definition ref_strings_of_column (v : json) : res (list (str * str)) :=
  let ct := detect_column_type true v in
  match fixed, ct, v with
  | true, None, JObj kvs =>
      match lookup s_HED kvs with
      | Some (JStr s) => Ok [([], s)]
      | _ => get_hed_strings ct v
      end
  | _, _, _ => get_hed_strings ct v
  end.

(* per string: MALFORMED_COLUMN_REF for each bad brace, INVALID_COLUMN_REF for
   each unknown reference; also returns sub_matches *)
Definition refs_of_string (possible : list str) (s : str) : list issue * list str :=
  let subs := find_refs s in
  (map (fun _ => mk K_MALFORMED_COLUMN_REF) (find_non_matching_braces s)
   ++ flat_map (fun m => if mem_str m possible then [] else [mk K_INVALID_COLUMN_REF]) subs,
   subs).

(* per column: issues, and (column_name, references) *)
Definition refs_column (possible : list str) (col : str * json)
  : res (list issue * (str * list str)) :=
  let (column_name, v) := col in
  let* hs := ref_strings_of_column v in
  let per := map (fun kv => refs_of_string possible (snd kv)) hs in
  let references := flat_map snd per in
  Ok (flat_map fst per
      ++ (if mem_str column_name references then [mk K_SELF_COLUMN_REF] else []),
      (column_name, references)).

Definition nonempty_refs (x : str * list str) : bool :=
  match snd x with [] => false | _ => true end.

Definition nested_issues (found : list (str * list str)) : list issue :=
  flat_map (fun cr : str * list str =>
              flat_map (fun ref => if has_key ref found && negb (str_eqb ref (fst cr))
                                   then [mk K_NESTED_COLUMN_REF] else [])
                       (snd cr)) found.

(* SidecarValidator._validate_refs *)
Definition validate_refs (sc : list (str * json)) : res (list issue) :=
  let possible := possible_column_refs sc in
  let* cols := mapM (refs_column possible) sc in
  let found := filter nonempty_refs (map snd cols) in
  Ok (flat_map fst cols ++ nested_issues found).

(* ---------------------------------------------------------------------- *)
(* sidecar_validator.py: validate, after the early exit                    *)

(* itertools.product over the lists, lexicographic order *)
Fixpoint product {A} (ls : list (list A)) : list (list A) :=
  match ls with
  | [] => [[]]
  | l :: rest => flat_map (fun x => map (cons x) (product rest)) l
  end.

(* body of `for key_name, hed_string in hed_strings.items()`;
   refs_strings[key] raises KeyError *)
Definition check_string (ds : list str) (ct : option ctype) (is_ref_column : bool)
           (refs_strings : list (str * list str)) (s : str) : res (list issue) :=
  let basic := V_basic ds s in
  let* pound := if Nat.eqb (V_defcount s) 0 then pound_sign_check ct (V_hashes ds s) else Ok [] in
  let* full :=
     if is_ref_column then Ok []
     else let refs := find_refs s in
          let* lists := mapM (fun key => getitem key refs_strings) refs in
          Ok (flat_map (fun combination => V_full ds s refs combination) (product lists)) in
  Ok (basic ++ pound ++ full).

(* body of `for column_data in sidecar` with _get_unvalidated_data();
   also returns the column's definition_checks entry *)
Definition check_column (ds : list str) (all_ref_columns : list str)
           (refs_strings : list (str * list str)) (col : str * json)
  : res (list issue * list nat) :=
  let (column_name, v) := col in
  let ct := detect_column_type false v in
  let* hs := get_hed_strings ct v in
  let is_ref_column := mem_str column_name all_ref_columns in
  let* iss := mapM (fun kv => check_string ds ct is_ref_column refs_strings (snd kv)) hs in
  Ok (concat iss, map (fun kv => V_defcount (snd kv)) hs).

(* SidecarValidator._check_definitions_bad_spot for one column:
   len(set(bool(d) for d in has_def)) != 1 *)
Definition bad_spot (counts : list nat) : list issue :=
  if existsb (fun c => Nat.eqb c 0) counts && existsb (fun c => negb (Nat.eqb c 0)) counts
  then repeat (mk K_BAD_DEFINITION_LOCATION) (fold_right Nat.add 0 counts)
  else [].

(* get_hed_strings() of every basic-validated column (extract_definitions,
   get_column_refs and refs_strings all iterate this) *)
Definition basic_strings (sc : list (str * json)) : res (list (list (str * str))) :=
  mapM (fun col : str * json => get_hed_strings (detect_column_type true (snd col)) (snd col)) sc.

Definition validate_strings (sc : list (str * json)) : res (list issue) :=
  let* bhs := basic_strings sc in
  let strs := map (map snd) bhs in
  let ds := concat strs in
  (* Sidecar.get_column_refs *)
  let all_ref_columns := flat_map find_refs ds in
  (* refs_strings = {column_name: get_hed_strings()}; "HED" -> ["n/a"] when absent *)
  let rs := combine (map fst sc) strs in
  let refs_strings := if has_key s_HED rs then rs else rs ++ [(s_HED, [s_NA])] in
  let* cols := mapM (check_column ds all_ref_columns refs_strings) sc in
  Ok (V_defs ds ++ flat_map fst cols ++ flat_map (fun c => bad_spot (snd c)) cols).

(* Sidecar(io.StringIO(text)).validate(schema) *)
Definition validate_loaded (sc : list (str * json)) : res (list issue) :=
  let* i1 := validate_structure sc in
  let* i2 := validate_refs sc in
  if any_error (i1 ++ i2) then Ok (i1 ++ i2)
  else let* i3 := validate_strings sc in Ok (i1 ++ i2 ++ i3).

Definition validate_sidecar (j : json) : res (list issue) :=
  let* sc := load j in validate_loaded sc.

End Sidecar.

(* ---------------------------------------------------------------------- *)
(* Specification side: the structural rules of the property statement,     *)
(* written independently of the validator.                                 *)

(* braces balanced and not nested: depth stays in {0,1} and ends at 0 *)
Fixpoint braces_ok_from (s : str) (depth1 : bool) : bool :=
  match s with
  | [] => negb depth1
  | c :: t =>
      if N.eqb c ch_lbrace then (if depth1 then false else braces_ok_from t true)
      else if N.eqb c ch_rbrace then (if depth1 then braces_ok_from t false else false)
      else braces_ok_from t depth1
  end.
Definition braces_ok (s : str) : bool := braces_ok_from s false.

(* names of the columns that carry HED strings (categorical with string
   values, or a value string with '#') *)
Definition hed_bearing (v : json) : bool :=
  match detect_column_type true v with
  | Some CCategorical | Some CValue => true
  | _ => false
  end.

(* every HED string of the document, per column *)
Definition column_strings (v : json) : list str :=
  match v with
  | JObj kvs =>
      match lookup s_HED kvs with
      | Some (JStr s) => [s]
      | Some (JObj hv) => flat_map (fun kv => match snd kv with JStr s => [s] | _ => [] end) hv
      | _ => []
      end
  | _ => []
  end.

Definition is_obj (j : json) : bool := match j with JObj _ => true | _ => false end.

(* every top-level entry is a JSON object *)
Definition cols_objects (sc : list (str * json)) : bool := forallb (fun c => is_obj (snd c)) sc.

(* value strings that lack '#' reference only columns of the sidecar or HED *)
Definition hashless_refs_known (sc : list (str * json)) : bool :=
  forallb (fun c : str * json =>
             match snd c with
             | JObj kvs =>
                 match lookup s_HED kvs with
                 | Some (JStr s) =>
                     has_hash s
                     || forallb (fun r => str_eqb r s_HED || mem_str r (map fst sc)) (find_refs s)
                 | _ => true
                 end
             | _ => true
             end) sc.

(* ---------------------------------------------------------------------- *)
(* StructOK: the structural rules of the property statement as a boolean   *)
(* predicate on the loaded sidecar (written from the statement).           *)

Definition is_nil {A} (l : list A) : bool := match l with [] => true | _ => false end.

(* all curly-brace references made by the strings of a column *)
Definition col_refs (v : json) : list str := flat_map find_refs (column_strings v).

(* specification-level "HED-bearing": the entry is an object whose HED entry
   is a string or a map of strings (independent of the validator's column
   type detection; for entries obeying the '#' rules it coincides with
   [hed_bearing], lemma spec_bearing_hed_bearing) *)
Definition spec_bearing (v : json) : bool :=
  match v with
  | JObj kvs =>
      match lookup s_HED kvs with
      | Some (JStr _) => true
      | Some (JObj hv) => forallb is_str (map snd hv)
      | _ => false
      end
  | _ => false
  end.

(* a reference names an existing HED-bearing column, and no column of that
   name holds references itself (no nesting) *)
Definition ref_target_ok (sc : list (str * json)) (r : str) : bool :=
  existsb (fun c : str * json => str_eqb r (fst c) && spec_bearing (snd c)) sc
  && forallb (fun c : str * json => negb (str_eqb r (fst c)) || is_nil (col_refs (snd c))) sc.

(* braces balanced and un-nested; every reference (find_refs, characterised
   declaratively by find_refs_spec) is not the column itself and is HED or a
   legal target *)
Definition string_ok (sc : list (str * json)) (name : str) (s : str) : bool :=
  braces_ok s
  && forallb (fun r => negb (str_eqb r name) && (str_eqb r s_HED || ref_target_ok sc r)) (find_refs s).

(* [chk] = also require the '#' counts; [chk = false] is "well-formed except
   possibly for the '#' rules" (used by the '#'-fault corollaries) *)

(* a categorical entry: non-empty string, key is not n/a, no '#' *)
Definition cat_entry_ok_gen (chk : bool) (sc : list (str * json)) (name : str) (kv : str * json) : bool :=
  match snd kv with
  | JStr s => negb (is_nil s) && negb (str_eqb (fst kv) s_NA) && (negb chk || Nat.eqb (count ch_hash s) 0)
              && string_ok sc name s
  | _ => false
  end.

(* a top-level entry: the HED entry is a string with exactly one '#', or a
   non-empty map of categorical entries; entries without a HED entry (plain
   metadata, any JSON value) do not use the key HED anywhere inside *)
Definition col_ok_gen (chk : bool) (sc : list (str * json)) (col : str * json) : bool :=
  let (name, v) := col in
  match v with
  | JObj kvs =>
      match lookup s_HED kvs with
      | None => negb (check_for_key s_HED v)
      | Some (JStr s) => (negb chk || Nat.eqb (count ch_hash s) 1) && string_ok sc name s
      | Some (JObj hv) => negb (is_nil hv) && forallb (cat_entry_ok_gen chk sc name) hv
      | Some _ => false
      end
  | _ => negb (check_for_key s_HED v)
  end.

(* HED is not a column name and every entry is well-formed *)
Definition struct_ok_gen (chk : bool) (sc : list (str * json)) : bool :=
  negb (mem_str s_HED (map fst sc)) && forallb (col_ok_gen chk sc) sc.

(* StructOK of the statement *)
Definition cat_entry_ok := cat_entry_ok_gen true.
Definition col_ok := col_ok_gen true.
Definition struct_ok := struct_ok_gen true.
(* every structural rule except the '#' counts *)
Definition struct_ok_but_hash := struct_ok_gen false.

(* every HED string of the sidecar, in document order *)
Definition doc_strings (sc : list (str * json)) : list str :=
  flat_map (fun c : str * json => column_strings (snd c)) sc.
