(* Model of hed/validator/onset_validator.py:
     OnsetValidator.__init__ / validate_temporal_relations / _handle_onset_or_offset.
   A time point (one assembled HED string) is abstracted to the list of its
   top-level temporal groups, in textual order, as returned by
   HedString.find_top_level_tags(anchor_tags=TEMPORAL_KEYS):
     marker = (short_base_tag of the anchor tag,
               extensions of the Def / Def-expand tags found by
               temporal_group.find_def_tags(include_groups=0), in order).
   Models only -- proofs live in Proofs/OnsetProofs.v. *)
From Coq Require Import List NArith Arith Bool.
From HV Require Import Base.Res Base.Str Gen.C10Fold.
Import ListNotations.

Inductive tkind : Set := Onset | Offset | Inset.

Record marker : Set := mkMarker {
  mkind : tkind;          (* temporal_tag.short_base_tag *)
  mdefs : list str        (* [t.extension for t in find_def_tags(include_groups=0)] *)
}.

(* TemporalErrors sub-kinds produced by OnsetValidator (all published as
   TEMPORAL_TAG_ERROR). *)
Inductive ikind : Set := OffsetBeforeOnset | InsetBeforeOnset | SameDefsOneRow.

Record issue : Set := mkIssue {
  ikd : ikind;
  ipos : nat;             (* index of the temporal group within the time point *)
  iname : str             (* def_tag.extension as written *)
}.

(* str.casefold(): a per-character mapping (one code point may fold to several:
   sharp s -> "ss", the fi ligature -> "fi").  ASCII letters are folded by rule;
   the non-ASCII code points of the harness alphabet are folded by the table
   Gen/C10Fold.v, regenerated from CPython's str.casefold on every run (every other
   code point is left unchanged, which is right only for characters without case). *)
Definition fold_ch (c : N) : list N :=
  match find (fun p : N * list N => N.eqb (fst p) c) fold_table with
  | Some p => snd p
  | None => [if ((65 <=? c) && (c <=? 90))%N then (c + 32)%N else c]
  end.
Definition casefold (s : str) : str := flat_map fold_ch s.

(* self._onsets: only the keys are ever consulted; kept in insertion order. *)
Definition state := list str.

Definition mem (k : str) (st : list str) : bool := existsb (str_eqb k) st.

(* self._onsets[k] = v *)
Definition dict_set (k : str) (st : state) : state :=
  if mem k st then st else st ++ [k].

(* del self._onsets[k]  (only reached when k is present) *)
Definition dict_del (k : str) (st : state) : state :=
  filter (fun x => negb (str_eqb k x)) st.

(* OnsetValidator._handle_onset_or_offset(def_tag, onset_offset_tag) *)
Definition handle_onset_or_offset (st : state) (full_def_name : str) (k : tkind) (pos : nat)
  : state * list issue :=
  let key := casefold full_def_name in
  match k with
  | Onset =>                       (* is_onset: can never fail *)
      (dict_set key st, [])
  | _ =>
      let is_offset := match k with Offset => true | _ => false end in
      if negb (mem key st) then
        if is_offset then (st, [mkIssue OffsetBeforeOnset pos full_def_name])
        else (st, [mkIssue InsetBeforeOnset pos full_def_name])
      else if is_offset then (dict_del key st, [])
      else (st, [])
  end.

(* the for loop of validate_temporal_relations; [used] = used_def_names *)
Fixpoint vtr_loop (st : state) (used : list str) (pos : nat) (tp : list marker)
  : state * list issue :=
  match tp with
  | [] => (st, [])
  | m :: rest =>
      match mdefs m with
      | [] => vtr_loop st used (S pos) rest                (* if not def_tags: continue *)
      | def_name :: _ =>                                   (* def_tags[0].extension *)
          if mem (casefold def_name) used then
            let '(st', iss) := vtr_loop st used (S pos) rest in
            (st', mkIssue SameDefsOneRow pos def_name :: iss)   (* ...; continue *)
          else
            let '(st1, i1) := handle_onset_or_offset st def_name (mkind m) pos in
            let '(st2, i2) := vtr_loop st1 (casefold def_name :: used) (S pos) rest in
            (st2, i1 ++ i2)
      end
  end.

(* OnsetValidator.validate_temporal_relations(hed_string_obj) *)
Definition validate_temporal_relations (st : state) (tp : list marker) : state * list issue :=
  vtr_loop st [] 0 tp.

(* A history = the time points handed to one OnsetValidator, in order.
   Result: final state and the issue list of every time point. *)
Fixpoint run (st : state) (h : list (list marker)) : state * list (list issue) :=
  match h with
  | [] => (st, [])
  | tp :: rest =>
      let '(st1, iss) := validate_temporal_relations st tp in
      let '(st2, out) := run st1 rest in
      (st2, iss :: out)
  end.

(* same, also exposing the state after every time point (for the correspondence run) *)
Fixpoint run_trace (st : state) (h : list (list marker)) : list (state * list issue) :=
  match h with
  | [] => []
  | tp :: rest =>
      let '(st1, iss) := validate_temporal_relations st tp in
      (st1, iss) :: run_trace st1 rest
  end.

(* OnsetValidator() starts with no open scope *)
Definition state0 : state := [].
