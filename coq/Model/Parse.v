(* Model of hed/models/hed_string.py: HedString.split_hed_string,
   HedString.split_into_groups, HedString.__init__ and of
   StringValidator.check_count_tag_group_parentheses (count comparison).
   Models only -- proofs live in Proofs/ParseProofs.v. *)
From Coq Require Import List NArith Arith Bool.
From HV Require Import Base.Res Base.Str.
Import ListNotations.

(* tag_delimiters = ",()" *)
Definition is_delim (c : N) : bool :=
  N.eqb c ch_comma || N.eqb c ch_open || N.eqb c ch_close.

(* (is_hed_tag, (start, end)) *)
Definition tok := (bool * (nat * nat))%type.

Record sst := {
  spacing : nat;            (* current_spacing *)
  found : bool;             (* found_symbol *)
  tstart : option nat;      (* tag_start_pos *)
  lastend : option nat;     (* last_end_pos *)
  out : list tok            (* result_positions, reversed *)
}.

Definition sst0 : sst :=
  {| spacing := 0; found := true; tstart := None; lastend := Some 0; out := [] |}.

Definition opt_neq (o : option nat) (i : nat) : bool :=
  match o with Some e => negb (Nat.eqb e i) | None => true end.

(* One iteration of the for loop.  [None] = a state in which the Python code
   would build a span containing None (never reached, see split_total). *)
Definition sstep (s : sst) (i : nat) (c : N) : option sst :=
  if N.eqb c ch_space then
    Some {| spacing := S (spacing s); found := found s; tstart := tstart s;
            lastend := lastend s; out := out s |}
  else if is_delim c then
    if found s then
      match lastend s with
      | Some e =>
          Some {| spacing := spacing s; found := true; tstart := tstart s; lastend := Some i;
                  out := if negb (Nat.eqb e i) then (false, (e, i)) :: out s else out s |}
      | None => None
      end
    else
      match tstart s with
      | Some t =>
          Some {| spacing := 0; found := true; tstart := None; lastend := Some (i - spacing s);
                  out := (true, (t, i - spacing s)) :: out s |}
      | None => None
      end
  else
    let o1 := match found s, lastend s with
              | true, Some e => if negb (Nat.eqb e i) then (false, (e, i)) :: out s else out s
              | _, _ => out s
              end in
    let le1 := match found s, lastend s with
               | true, Some _ => None
               | _, le => le
               end in
    Some {| spacing := 0; found := false;
            tstart := match tstart s with None => Some i | Some t => Some t end;
            lastend := le1; out := o1 |}.

Fixpoint sloop (s : sst) (i : nat) (cs : str) : option sst :=
  match cs with
  | [] => Some s
  | c :: cs' => match sstep s i c with
                | Some s' => sloop s' (S i) cs'
                | None => None
                end
  end.

Definition sfinish (s : sst) (n : nat) : list tok :=
  let o1 := match lastend s with
            | Some e => if negb (Nat.eqb n e) then (false, (e, n)) :: out s else out s
            | None => out s
            end in
  let o2 := match tstart s with
            | Some t =>
                let o := (true, (t, n - spacing s)) :: o1 in
                if Nat.eqb (spacing s) 0 then o else (false, (n - spacing s, n)) :: o
            | None => o1
            end in
  rev o2.

Definition split_hed_string (s : str) : option (list tok) :=
  match sloop sst0 0 s with
  | Some st => Some (sfinish st (length s))
  | None => None
  end.

(* ---------- split_into_groups ---------- *)

Inductive node :=
| Tag (a b : nat)
| Group (a b : nat) (ch : list node).

(* group stack: innermost first; each frame = (start position, children reversed).
   The bottom frame is the plain list [[]] of the Python code. *)
Definition frame := (nat * list node)%type.

(* for i, char in enumerate(portion): if not char.isspace(): delimiter_index = i; break *)
Fixpoint first_nonspace (p : str) (i : nat) : nat :=
  match p with
  | [] => 0
  | c :: p' => if isspace c then first_nonspace p' (S i) else i
  end.

Definition push_child (n : node) (st : list frame) : list frame :=
  match st with
  | (a, ch) :: rest => (a, n :: ch) :: rest
  | [] => []
  end.

Definition bstep (s : str) (st : list frame) (t : tok) : res (list frame) :=
  let '(is_tag, (a, b)) := t in
  if is_tag then Ok (push_child (Tag a b) st)
  else
    let portion := sub s a b in
    let di := first_nonspace portion 0 in
    match nth_error portion di with
    | None => Exn IndexError            (* string_portion[delimiter_index] *)
    | Some c =>
        let st1 := if N.eqb c ch_open then (a + di, []) :: st else st in
        if N.eqb c ch_close then
          match st1 with
          | (ga, gch) :: (pa, pch) :: rest =>
              Ok ((pa, Group ga (a + di + 1) (rev gch) :: pch) :: rest)
          | _ => Exn ValueError
          end
        else Ok st1
    end.

Fixpoint bloop (s : str) (st : list frame) (ts : list tok) : res (list frame) :=
  match ts with
  | [] => Ok st
  | t :: ts' => let* st' := bstep s st t in bloop s st' ts'
  end.

Definition split_into_groups (s : str) : res (list node) :=
  match split_hed_string s with
  | None => Exn Unmodelled
  | Some ts =>
      let* st := bloop s [(0, [])] ts in
      match st with
      | [(_, ch)] => Ok (rev ch)
      | _ => Exn ValueError
      end
  end.

(* HedString.__init__: try ... except ValueError: contents = [] *)
Definition hedstring_init (s : str) : res (list node) :=
  catch (split_into_groups s) ValueError [].

(* ---------- printing: __str__ / get_as_form("org_tag") ---------- *)

Fixpoint print_node (s : str) (n : node) : str :=
  match n with
  | Tag a b => sub s a b
  | Group _ _ ch =>
      [ch_open] ++ join [ch_comma] (map (print_node s) ch) ++ [ch_close]
  end.

Definition print_forest (s : str) (f : list node) : str :=
  join [ch_comma] (map (print_node s) f).

(* shape without spans, with tag texts *)
Inductive shape :=
| STag (t : str)
| SGroup (ch : list shape).

Fixpoint shape_of (s : str) (n : node) : shape :=
  match n with
  | Tag a b => STag (sub s a b)
  | Group _ _ ch => SGroup (map (shape_of s) ch)
  end.

Fixpoint shape_eqb (x y : shape) : bool :=
  match x, y with
  | STag a, STag b => str_eqb a b
  | SGroup a, SGroup b =>
      (fix go (l1 l2 : list shape) : bool :=
         match l1, l2 with
         | [], [] => true
         | p :: l1', q :: l2' => shape_eqb p q && go l1' l2'
         | _, _ => false
         end) a b
  | _, _ => false
  end.

Fixpoint shapes_eqb (l1 l2 : list shape) : bool :=
  match l1, l2 with
  | [], [] => true
  | p :: l1', q :: l2' => shape_eqb p q && shapes_eqb l1' l2'
  | _, _ => false
  end.

(* ---------- check_count_tag_group_parentheses ---------- *)

(* reports PARENTHESES_MISMATCH iff the counts of '(' and ')' differ *)
Definition paren_count_mismatch (s : str) : bool :=
  negb (Nat.eqb (count ch_open s) (count ch_close s)).

(* _parentheses_properly_nested (added by fix commit 5df7886): no ')' before its '(' *)
Fixpoint nested_from (d : nat) (s : str) : bool :=
  match s with
  | [] => true
  | c :: s' =>
      if N.eqb c ch_open then nested_from (S d) s'
      else if N.eqb c ch_close then
             match d with 0 => false | S d' => nested_from d' s' end
           else nested_from d s'
  end.

(* check_count_tag_group_parentheses after the fix *)
Definition paren_mismatch (s : str) : bool :=
  paren_count_mismatch s || negb (nested_from 0 s).

(* the property's notion: nesting never goes negative and ends at zero *)
Fixpoint balanced_from (d : nat) (s : str) : bool :=
  match s with
  | [] => Nat.eqb d 0
  | c :: s' =>
      if N.eqb c ch_open then balanced_from (S d) s'
      else if N.eqb c ch_close then
             match d with 0 => false | S d' => balanced_from d' s' end
           else balanced_from d s'
  end.

Definition balanced (s : str) : bool := balanced_from 0 s.

(* ---------- reference specification (independent, character level) ----------
   Tags = maximal runs of non-delimiter characters trimmed of U+0020;
   nesting = parenthesis nesting; used as the oracle of the bounded exhaustive
   theorem and of the implementation-side search. *)

Fixpoint trim_left (s : str) (a : nat) : nat * str :=
  match s with
  | c :: s' => if N.eqb c ch_space then trim_left s' (S a) else (a, s)
  | [] => (a, [])
  end.

Definition trim_right_len (s : str) : nat :=
  length s - (fix tl (r : str) : nat :=
                match r with
                | c :: r' => if N.eqb c ch_space then S (tl r') else 0
                | [] => 0
                end) (rev s).

(* flush the current run [run] (reversed chars) that started at [ra] *)
Definition flush_run (ra : nat) (run : str) (st : list frame) : list frame :=
  let r := rev run in
  let '(a, r') := trim_left r ra in
  match r' with
  | [] => st
  | _ => push_child (Tag a (a + trim_right_len r')) st
  end.

Fixpoint spec_loop (cs : str) (i : nat) (ra : nat) (run : str) (st : list frame)
  : option (list frame) :=
  match cs with
  | [] => Some (flush_run ra run st)
  | c :: cs' =>
      if is_delim c then
        let st1 := flush_run ra run st in
        if N.eqb c ch_open then spec_loop cs' (S i) (S i) [] ((i, []) :: st1)
        else if N.eqb c ch_close then
          match st1 with
          | (ga, gch) :: (pa, pch) :: rest =>
              spec_loop cs' (S i) (S i) [] ((pa, Group ga (S i) (rev gch) :: pch) :: rest)
          | _ => None
          end
        else spec_loop cs' (S i) (S i) [] st1
      else spec_loop cs' (S i) ra (c :: run) st
  end.

Definition spec_parse (s : str) : list node :=
  match spec_loop s 0 0 [] [(0, [])] with
  | Some [(_, ch)] => rev ch
  | _ => []
  end.

Fixpoint node_eqb (x y : node) : bool :=
  match x, y with
  | Tag a b, Tag c d => Nat.eqb a c && Nat.eqb b d
  | Group a b l1, Group c d l2 =>
      Nat.eqb a c && Nat.eqb b d &&
      (fix go (l1 l2 : list node) : bool :=
         match l1, l2 with
         | [], [] => true
         | p :: l1', q :: l2' => node_eqb p q && go l1' l2'
         | _, _ => false
         end) l1 l2
  | _, _ => false
  end.

Fixpoint nodes_eqb (l1 l2 : list node) : bool :=
  match l1, l2 with
  | [], [] => true
  | p :: l1', q :: l2' => node_eqb p q && nodes_eqb l1' l2'
  | _, _ => false
  end.
