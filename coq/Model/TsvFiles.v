(* C05: a TSV save is a total overwrite of the section files of its location.  Model only.

   Python sources:
     hed/schema/schema_io/df_util.py   create_empty_dataframes / save_dataframes / load_dataframes
     hed/schema/schema_io/schema2df.py Schema2DF._initialize_output (self.output = create_empty_dataframes();
                                       every later write goes into one of these ten tables)
   A location is a map from section-file suffix to file content; a table is its list of rows (abstract).
   [skip_empty] = true is NOT the code: it is the variant that leaves out the file of an empty table
   (kept as the record of why the full file set matters). *)
From Coq Require Import List NArith Arith Bool.
From HV Require Import Base.Res Base.Str Base.StrOps Model.AttrCodec.
Import ListNotations.

Definition sfx_Structure : str := [83;116;114;117;99;116;117;114;101]%N.
Definition sfx_Tag : str := [84;97;103]%N.
Definition sfx_Unit : str := [85;110;105;116]%N.
Definition sfx_UnitClass : str := [85;110;105;116;67;108;97;115;115]%N.
Definition sfx_UnitModifier : str := [85;110;105;116;77;111;100;105;102;105;101;114]%N.
Definition sfx_ValueClass : str := [86;97;108;117;101;67;108;97;115;115]%N.
Definition sfx_AnnotationProperty : str := [65;110;110;111;116;97;116;105;111;110;80;114;111;112;101;114;116;121]%N.
Definition sfx_DataProperty : str := [68;97;116;97;80;114;111;112;101;114;116;121]%N.
Definition sfx_ObjectProperty : str := [79;98;106;101;99;116;80;114;111;112;101;114;116;121]%N.
Definition sfx_AttributeProperty : str := [65;116;116;114;105;98;117;116;101;80;114;111;112;101;114;116;121]%N.

(* the keys of create_empty_dataframes(), in its order *)
Definition df_suffixes : list str :=
  [sfx_Structure; sfx_Tag; sfx_Unit; sfx_UnitClass; sfx_UnitModifier; sfx_ValueClass; sfx_AnnotationProperty; sfx_DataProperty; sfx_ObjectProperty; sfx_AttributeProperty].

Definition row := list nat.                       (* abstract row *)
Definition tables := list (str * list row).       (* dict suffix -> dataframe *)
Definition location := list (str * list row).     (* files present: suffix -> content *)

(* Schema2DF.process_schema: the output dict always has the ten keys, whatever each section holds *)
Definition output_tables (rows_of : str -> list row) : tables :=
  map (fun k => (k, rows_of k)) df_suffixes.

(* open(filename, 'w') + to_csv: the file is created or replaced *)
Definition write_file (k : str) (content : list row) (loc : location) : location := dict_set k content loc.

(* df_util.save_dataframes: one file per item of the dict *)
Definition save_dataframes (skip_empty : bool) (t : tables) (loc : location) : location :=
  fold_left (fun l kv =>
               if skip_empty && match snd kv with [] => true | _ => false end then l
               else write_file (fst kv) (snd kv) l) t loc.

(* df_util.load_dataframes: a missing file (OSError) leaves the empty table *)
Definition load_dataframes (loc : location) : tables :=
  map (fun k => (k, match dict_get k loc with Some c => c | None => [] end)) df_suffixes.

(* the files a save creates in an empty location *)
Definition files_written (skip_empty : bool) (t : tables) : list str := map fst (save_dataframes skip_empty t []).

(* ------------------------------------------------------------------ cells: no text is a marker *)

(* DataFrame.to_csv(na_rep=...) / pd.read_csv(na_filter=False | na_values=...).fillna('') at the level of one cell.
   A cell without a value (None: the description of an entry without description) is written as [na_rep]; a cell
   text that is one of [na_values] is read as empty.  The code: na_rep = '' (pandas default) and na_filter=False,
   i.e. no marker at all.  Any other choice is NOT the code. *)
Definition csv_write_cell (na_rep : str) (c : option str) : str :=
  match c with None => na_rep | Some s => s end.

Definition csv_read_cell (na_values : list str) (s : str) : str :=
  if existsb (str_eqb s) na_values then [] else s.

(* what the schema reader makes of a cell: '' is no description *)
Definition cell_value (s : str) : option str := match s with [] => None | _ => Some s end.

(* ------------------------------------------------------------------ the save location *)

(* df_util.save_dataframes / convert_filenames_to_dict: the ten file names of a location.  A location is given by
   the folder it lies in ([parent], path components) and its last name [name].  A name that ends in .tsv names the
   files <parent>/<stem>_<Suffix>.tsv, any other name -- WHATEVER dots it holds -- is a folder holding
   <name>/<name>_<Suffix>.tsv.  The writer recognises the suffix in any letter case; the reader compared it
   exactly before fix commit b5f4533 ([fixed8] = false, the repaired finding C05-F8) and ignores case since then
   ([fixed8] = true, the current code). *)
Definition is_dot_tsv_ci (name : str) : bool :=
  match rev name with
  | v :: s :: t :: d :: _ :: _ =>
      N.eqb d 46 && (N.eqb t 116 || N.eqb t 84) && (N.eqb s 115 || N.eqb s 83) && (N.eqb v 118 || N.eqb v 86)
  | _ => false
  end.

Definition is_dot_tsv_cs (name : str) : bool :=
  match rev name with
  | v :: s :: t :: d :: _ :: _ => N.eqb d 46 && N.eqb t 116 && N.eqb s 115 && N.eqb v 118
  | _ => false
  end.

Definition tsv_file (dir : list str) (stem sfx : str) : list str * str :=
  (dir, stem ++ 95%N :: sfx ++ [46; 116; 115; 118]%N).

Definition location_files (suffix_found : bool) (parent : list str) (name : str) : list (list str * str) :=
  if suffix_found then map (tsv_file parent (firstn (length name - 4) name)) df_suffixes
  else map (tsv_file (parent ++ [name]) name) df_suffixes.

Definition writer_files (parent : list str) (name : str) := location_files (is_dot_tsv_ci name) parent name.
Definition reader_files (fixed8 : bool) (parent : list str) (name : str) :=
  location_files (if fixed8 then is_dot_tsv_ci name else is_dot_tsv_cs name) parent name.
