(* Model of the row assembly of hed/models: column_metadata.py (_detect_column_type,
   hed_dict), column_mapper.py (_get_sidecar_basic_map, _add_tag_columns,
   _finalize_mapping, get_transformers, _category_handler, _value_handler),
   sidecar.py (get_column_refs), df_util.py (_handle_curly_braces_refs) and
   base_input.py (_handle_transforms, assemble, combine_dataframe, series_a,
   dataframe_a) as used by TabularInput(file, sidecar).
   Models only -- proofs live in Proofs/AssembleProofs.v. *)
From Coq Require Import List NArith Arith Bool.
From HV Require Import Base.Res Base.Str Model.RefSplice.
Import ListNotations.

(* ---------- data ---------- *)

(* the part of a JSON value the anchored code looks at *)
Inductive jv :=
| JStr (s : str)
| JDict (kv : list (str * jv))
| JOther.                                  (* number, list, null, bool *)

(* Sidecar.loaded_dict: insertion ordered, keys distinct (json.load output) *)
Definition sidecar := list (str * jv).

(* a DataFrame of text cells, column-major like pandas; every column has t_rows cells *)
Record table := { t_cols : list (str * list str); t_rows : nat }.

(* the TabularInput object: _dataframe, which of its columns carry the pandas
   'category' dtype (the only thing assembly mutates), and the sidecar *)
Record tabular := { tb_df : table; tb_cat : list str; tb_sidecar : sidecar }.

Inductive ctype := Ignore | Categorical | Value | HEDTags | Unknown.

Definition hed_key : str := [72; 69; 68]%N.             (* "HED" *)

Fixpoint assoc {A} (k : str) (l : list (str * A)) : option A :=
  match l with
  | [] => None
  | (k', v) :: l' => if str_eqb k k' then Some v else assoc k l'
  end.

Fixpoint mem (k : str) (l : list str) : bool :=
  match l with
  | [] => false
  | x :: l' => str_eqb k x || mem k l'
  end.

Definition is_jstr (v : jv) : bool := match v with JStr _ => true | _ => false end.

(* ---------- ColumnMetadata._detect_column_type (basic_validation=True) ---------- *)
Definition detect_column_type (e : jv) : ctype :=
  match e with
  | JDict [] => Ignore                                   (* not dict_for_entry *)
  | JDict kv =>
      match assoc hed_key kv with
      | None => Ignore                                   (* no "HED" key *)
      | Some (JDict hv) =>
          if forallb is_jstr (map snd hv) then Categorical else Unknown
      | Some (JStr s) => if memc ch_hash s then Value else Unknown
      | Some JOther => Unknown
      end
  | _ => Ignore                                          (* not isinstance(dict) *)
  end.

(* ColumnMetadata: (column_type, hed_dict) *)
Definition colmeta := (ctype * option jv)%type.

(* hed_dict = source[name].get("HED", {}) *)
Definition hed_dict (e : jv) : option jv :=
  match e with
  | JDict kv => match assoc hed_key kv with Some h => Some h | None => Some (JDict []) end
  | _ => None
  end.

(* python dict assignment d[k] = v : overwrite in place or append *)
Fixpoint dict_set {A} (k : str) (v : A) (d : list (str * A)) : list (str * A) :=
  match d with
  | [] => [(k, v)]
  | (k', v') :: d' => if str_eqb k k' then (k', v) :: d' else (k', v') :: dict_set k v d'
  end.

(* ColumnMapper._get_sidecar_basic_map: table columns that have a sidecar entry *)
Fixpoint sidecar_basic_map (cols : list str) (sc : sidecar) (acc : list (str * colmeta))
  : list (str * colmeta) :=
  match cols with
  | [] => acc
  | c :: cols' =>
      match assoc c sc with
      | Some e => sidecar_basic_map cols' sc (dict_set c (detect_column_type e, hed_dict e) acc)
      | None => sidecar_basic_map cols' sc acc
      end
  end.

(* sorted(final_map.items()): insertion sort on the (distinct) keys, str order *)
Fixpoint insert_key {A} (kv : str * A) (l : list (str * A)) : list (str * A) :=
  match l with
  | [] => [kv]
  | kv' :: l' => if str_ltb (fst kv') (fst kv) then kv' :: insert_key kv l' else kv :: l
  end.

Definition sort_keys {A} (l : list (str * A)) : list (str * A) :=
  fold_right insert_key [] l.

(* ColumnMapper._finalize_mapping for TabularInput: optional_tag_columns = ["HED"],
   no tag_columns, no column_prefix_dictionary *)
Definition final_column_map (cols : list str) (sc : sidecar) : list (str * colmeta) :=
  let basic := sidecar_basic_map cols sc [] in
  let tagged := if mem hed_key cols then dict_set hed_key (HEDTags, None) basic else basic in
  sort_keys tagged.

(* ---------- transformers ---------- *)
Inductive xform :=
| XValue (tmpl : str)
| XCat (kv : list (str * str))
| XId.

Definition cat_entries (h : option jv) : list (str * str) :=
  match h with
  | Some (JDict hv) =>
      flat_map (fun p => match snd p with JStr s => [(fst p, s)] | _ => [] end) hv
  | _ => []
  end.

(* ColumnMapper.get_transformers -> (final_transformers, need_categorical) *)
Fixpoint get_transformers (fm : list (str * colmeta)) : list (str * xform) * list str :=
  match fm with
  | [] => ([], [])
  | (name, (ty, h)) :: fm' =>
      let '(tf, need) := get_transformers fm' in
      match ty with
      | Ignore => (tf, need)
      | Value => ((name, XValue (match h with Some (JStr s) => s | _ => [] end)) :: tf, need)
      | Categorical => ((name, XCat (cat_entries h)) :: tf, name :: need)
      | HEDTags | Unknown => ((name, XId) :: tf, need)
      end
  end.

(* value_str.replace("#", str(x)) *)
Definition subst_hash (tmpl x : str) : str :=
  flat_map (fun c => if N.eqb c ch_hash then x else [c]) tmpl.

(* ColumnMapper._value_handler.  fixed = true: the code as it is since fix commit a2f08b3 (an
   empty cell is skipped too); fixed = false: the behaviour before that commit. *)
Definition value_handler (fixed : bool) (tmpl x : str) : str :=
  if str_eqb x ch_na || (fixed && is_empty x) then ch_na else subst_hash tmpl x.

(* ColumnMapper._category_handler: category_values.get(x, "") *)
Definition category_handler (kv : list (str * str)) (x : str) : str :=
  match assoc x kv with Some v => v | None => [] end.

Definition apply_xform (fixed : bool) (f : xform) (x : str) : str :=
  match f with
  | XValue t => value_handler fixed t x
  | XCat kv => category_handler kv x
  | XId => x
  end.

(* df[name] *)
Definition get_col (name : str) (cols : list (str * list str)) : res (list str) :=
  match assoc name cols with Some c => Ok c | None => Exn KeyError end.

(* all_columns.transform(transformers): one output column per transformer, in dict order *)
Fixpoint transform (fixed : bool) (cols : list (str * list str)) (tf : list (str * xform))
  : res (list (str * list str)) :=
  match tf with
  | [] => Ok []
  | (name, f) :: tf' =>
      let* c := get_col name cols in
      let* rest := transform fixed cols tf' in
      Ok ((name, map (apply_xform fixed f) c) :: rest)
  end.

Fixpoint add_cats (old need : list str) : list str :=
  match need with
  | [] => old
  | c :: need' => if mem c old then add_cats old need' else add_cats (old ++ [c]) need'
  end.

(* BaseInput._handle_transforms: marks the categorical columns of self._dataframe
   (dtype only) and returns the transformed columns *)
Definition handle_transforms (fixed : bool) (st : tabular)
  : res (tabular * list (str * list str) * list (str * xform)) :=
  let df := tb_df st in
  let fm := final_column_map (map fst (t_cols df)) (tb_sidecar st) in
  let '(tf, need) := get_transformers fm in
  match tf with
  | [] => Ok (st, t_cols df, tf)
  | _ =>
      let st' := {| tb_df := df; tb_cat := add_cats (tb_cat st) need; tb_sidecar := tb_sidecar st |} in
      let* all := transform fixed (t_cols df) tf in
      Ok (st', all, tf)
  end.

(* ---------- Sidecar.get_column_refs ---------- *)
Definition hed_strings (e : jv) : list str :=
  match detect_column_type e with
  | Categorical => map snd (cat_entries (hed_dict e))
  | Value => match hed_dict e with Some (JStr s) => [s] | _ => [] end
  | _ => []                      (* Ignore: skipped; None type: empty series *)
  end.

Fixpoint dedupe (l : list str) (seen : list str) : list str :=
  match l with
  | [] => []
  | x :: l' => if mem x seen then dedupe l' seen else x :: dedupe l' (x :: seen)
  end.

(* the SET of references, listed by first occurrence *)
Definition column_refs (sc : sidecar) : list str :=
  dedupe (flat_map (fun p => flat_map (fun s => find_refs s 0) (hed_strings (snd p))) sc) [].

(* list(found_vals): iteration order of a Python set of strings is not modelled.
   [ord] is any list; the references are enumerated in the order given by [ord]
   (then the rest).  Theorems quantify over every [ord]. *)
Definition set_order (ord found : list str) : list str :=
  filter (fun r => mem r found) (dedupe ord []) ++ filter (fun r => negb (mem r ord)) found.

(* ---------- df_util._handle_curly_braces_refs ---------- *)
Fixpoint zipM {A B C} (f : A -> B -> res C) (xs : list A) (ys : list B) : res (list C) :=
  match xs, ys with
  | x :: xs', y :: ys' => let* z := f x y in let* zs := zipM f xs' ys' in Ok (z :: zs)
  | _, _ => Ok []
  end.

Fixpoint foldM {A B} (f : A -> B -> res A) (l : list B) (a : A) : res A :=
  match l with
  | [] => Ok a
  | b :: l' => let* a' := f a b in foldM f l' a'
  end.

(* the inner loop over the references, for one remaining column *)
Definition splice_column (fixed : bool) (saved : list (str * list str)) (col : list str)
  : res (list str) :=
  foldM (fun c (rv : str * list str) =>
           zipM (fun x y => replace_ref fixed x (fst rv) y) c (snd rv)) saved col.

Definition handle_curly_braces_refs (fixed : bool) (df : list (str * list str))
  (refs column_names : list str) : res (list (str * list str)) :=
  let refs' := filter (fun r => mem r column_names) refs in
  let remaining := filter (fun c => negb (mem c refs')) column_names in
  let* saved := mapM (fun r => let* c := get_col r df in Ok (r, c)) refs' in
  mapM (fun name => let* c := get_col name df in
                    let* c' := splice_column fixed saved c in Ok (name, c')) remaining.

(* BaseInput.assemble(skip_curly_braces=False) = dataframe_a *)
Definition assemble (fixed : bool) (st : tabular) (ord : list str)
  : res (tabular * list (str * list str)) :=
  let* r := handle_transforms fixed st in
  let '(st', all, tf) := r in
  let refs := set_order ord (column_refs (tb_sidecar st)) in
  let* out := handle_curly_braces_refs fixed all refs (map fst tf) in
  Ok (st', out).

(* ---------- BaseInput.combine_dataframe ---------- *)
(* filter(lambda e: bool(e) and e != "n/a", ...) *)
(* since fix commit 8227060: bool(e.strip(" ")) and e != "n/a" -- empty texts, texts holding
   only blanks (U+0020) and the text "n/a" are skipped.  (Before that commit: bool(e) and
   e != "n/a"; recorded as [keep_part_pre] in Proofs/BlankProofs.v.) *)
Definition keep_part (e : str) : bool := negb (is_blank e) && negb (str_eqb e ch_na).

Definition row_cells (cols : list (str * list str)) (i : nat) : list str :=
  map (fun c => nth i (snd c) []) cols.

Definition combine_row (cells : list str) : str := join sep_cs (filter keep_part cells).

Definition combine_dataframe (cols : list (str * list str)) (n : nat) : list str :=
  map (fun i => combine_row (row_cells cols i)) (seq 0 n).

(* BaseInput.series_a *)
Definition series_a (fixed : bool) (st : tabular) (ord : list str)
  : res (tabular * list str) :=
  let* r := assemble fixed st ord in
  let '(st', out) := r in
  Ok (st', combine_dataframe out (t_rows (tb_df st))).

(* ---------- the statement's own description of one row (specification) ----------
   parts in column order; a referenced column is spliced and not listed *)
Definition row_part (fixed : bool) (saved : list (str * list str)) (i : nat) (x : str) : res str :=
  foldM (fun t (rv : str * list str) => replace_ref fixed t (fst rv) (nth i (snd rv) [])) saved x.

(* ---------- delimiter well-formedness (property's "always delimiter-well-formed") ----------
   items separated by single commas, groups non-empty, parentheses balanced, a tag
   never directly adjacent to a parenthesis on the wrong side; blanks ignored. *)
Inductive dstate := DExpect | DTag | DClosed.

Fixpoint wf_from (st : dstate) (depth : nat) (seen : bool) (s : str) : bool :=
  match s with
  | [] => negb seen || (Nat.eqb depth 0 && match st with DExpect => false | _ => true end)
  | c :: s' =>
      if N.eqb c ch_space then wf_from st depth seen s'
      else if N.eqb c ch_comma then
        match st with DExpect => false | _ => wf_from DExpect depth true s' end
      else if N.eqb c ch_open then
        match st with DExpect => wf_from DExpect (S depth) true s' | _ => false end
      else if N.eqb c ch_close then
        match st, depth with
        | DExpect, _ => false
        | _, 0 => false
        | _, S d => wf_from DClosed d true s'
        end
      else
        match st with DClosed => false | _ => wf_from DTag depth true s' end
  end.

Definition wf_delim (s : str) : bool := wf_from DExpect 0 false s.
