(* Internal error kinds used by the string validator (hed/errors/error_types.py:
   ValidationErrors / DefinitionErrors / TemporalErrors).  Constructor K_<ATTR>
   stands for the Python class attribute <ATTR>.  The map kind -> (published
   code, severity) is NOT written here: it is regenerated on every run from the
   decorators of hed/errors/error_messages.py into Gen/ValidationCodes.v. *)
From Coq Require Import List NArith.
From HV Require Import Base.Str.
Import ListNotations.

Inductive sev := Error | Warning.

Inductive kind :=
| K_CHARACTER_INVALID | K_TILDES_UNSUPPORTED | K_PARENTHESES_MISMATCH | K_TAG_EMPTY
| K_COMMA_MISSING | K_NODE_NAME_EMPTY | K_TAG_NAMESPACE_PREFIX_INVALID
| K_INVALID_TAG_CHARACTER | K_HED_LIBRARY_UNMATCHED | K_NO_VALID_TAG_FOUND
| K_INVALID_PARENT_NODE | K_TAG_EXTENSION_INVALID | K_TAG_EXTENDED
| K_TAG_REQUIRES_CHILD | K_ELEMENT_DEPRECATED | K_STYLE_WARNING
| K_UNITS_INVALID | K_UNITS_MISSING | K_INVALID_VALUE_CLASS_VALUE
| K_INVALID_VALUE_CLASS_CHARACTER | K_CURLY_BRACE_UNSUPPORTED_HERE
| K_BAD_DEFINITION_LOCATION
| K_HED_DEF_UNMATCHED | K_HED_DEF_VALUE_MISSING | K_HED_DEF_VALUE_EXTRA
| K_HED_DEF_EXPAND_UNMATCHED | K_HED_DEF_EXPAND_VALUE_MISSING
| K_HED_DEF_EXPAND_VALUE_EXTRA | K_HED_DEF_EXPAND_INVALID
| K_REQUIRED_TAG_MISSING | K_TAG_NOT_UNIQUE | K_HED_GROUP_EMPTY
| K_HED_TAG_GROUP_TAG | K_HED_TOP_LEVEL_TAG | K_HED_MULTIPLE_TOP_TAGS
| K_HED_TAG_REPEATED | K_HED_TAG_REPEATED_GROUP
| K_DURATION_HAS_OTHER_TAGS | K_DURATION_WRONG_NUMBER_GROUPS
| K_ONSET_NO_DEF_TAG_FOUND | K_ONSET_TOO_MANY_DEFS | K_ONSET_WRONG_NUMBER_GROUPS
| K_ONSET_TAG_OUTSIDE_OF_GROUP | K_ONSET_DEF_UNMATCHED | K_ONSET_PLACEHOLDER_WRONG.

(* published codes that the validator passes as [actual_error=...] (overrides) *)
Inductive ocode :=
| O_PLACEHOLDER_INVALID | O_DEFINITION_INVALID | O_TEMPORAL_TAG_ERROR
| O_DEF_INVALID | O_DEF_EXPAND_INVALID.

(* one reported issue: the internal kind and the optional code override *)
Record issue := mkIssue { ik : kind; io : option ocode }.

Definition iss (k : kind) : issue := mkIssue k None.
Definition isso (k : kind) (o : ocode) : issue := mkIssue k (Some o).
