(* Model of hed/models/query_expressions.py (handle_expr of every expression
   class), hed/models/query_util.py (SearchResult.merge_and_result /
   has_same_tags) and of the three tag finders of hed/models/hed_group.py
   (find_tags_with_term / find_exact_tags / find_wildcard_tags) together with
   the parts of HedGroup / HedTag they rely on (get_all_tags, get_all_groups,
   __eq__, __str__, __bool__, _parent, is_group).
   Models only -- proofs live in Proofs/QueryProofs.v.

   Object identity ([x is y]) is modelled by node identities (nat).  A group
   object is represented by its *chain*: the group node followed by its
   ancestors, nearest first; the last element is the searched HedString
   (whose is_group is False and whose _parent is None). *)
From Coq Require Import List NArith Arith Bool.
From HV Require Import Base.Res Base.Str.
Import ListNotations.

(* ---------------------------------------------------------------- strings *)

(* str.casefold() restricted to ASCII (the harness only generates ASCII). *)
Definition fold_ch (c : N) : N :=
  if ((65 <=? c) && (c <=? 90))%N then (c + 32)%N else c.
Definition fold (s : str) : str := map fold_ch s.

Definition ch_quote : N := 34%N.
Definition ch_star : N := 42%N.
Definition ch_at : N := 64%N.
Definition ch_qmark : N := 63%N.
Definition ch_tilde : N := 126%N.

Definition mem_ch (c : N) (s : str) : bool := existsb (N.eqb c) s.

(* ---------------------------------------------------------------- annotation *)

(* Tag: identity, tag_terms (lower-case schema path terms), short_tag, org_tag.
   Group: identity, children.  The searched HedString is a Group node too. *)
Inductive node : Type :=
| Tag (id : nat) (terms : list str) (short : str) (org : str)
| Group (id : nat) (ch : list node).

Definition nid (n : node) : nat :=
  match n with Tag i _ _ _ => i | Group i _ => i end.
Definition children (n : node) : list node :=
  match n with Group _ ch => ch | Tag _ _ _ _ => [] end.
Definition is_tag (n : node) : bool :=
  match n with Tag _ _ _ _ => true | Group _ _ => false end.

Definition chain := list node.

(* HedGroup.get_all_tags (pre-order), each tag with the chain of its _parent *)
Fixpoint tags_ctx (c : chain) (n : node) : list (node * chain) :=
  match n with
  | Tag _ _ _ _ => [(n, c)]
  | Group _ ch => flat_map (tags_ctx (n :: c)) ch
  end.

(* HedGroup.get_all_groups (pre-order, including self) *)
Fixpoint groups_ctx (c : chain) (n : node) : list chain :=
  match n with
  | Tag _ _ _ _ => []
  | Group _ ch => (n :: c) :: flat_map (groups_ctx (n :: c)) ch
  end.

Definition all_tags (root : node) : list (node * chain) := tags_ctx [] root.
Definition all_groups (root : node) : list chain := groups_ctx [] root.

(* HedTag.__str__ (identified tag: short_tag) / HedGroup.__str__ (is_group) *)
Fixpoint node_str (n : node) : str :=
  match n with
  | Tag _ _ s _ => s
  | Group _ ch => ch_open :: join [ch_comma] (map node_str ch) ++ [ch_close]
  end.

(* HedTag.__eq__ (identity, else case-folded short_tag) / HedGroup.__eq__ (both
   are real groups here) / list == *)
Fixpoint node_eq (a b : node) {struct a} : bool :=
  match a with
  | Tag i _ s o =>
      match b with
      | Tag j _ s' _ => Nat.eqb i j || str_eqb (fold s) (fold s')
      | Group _ _ => false
      end
  | Group i ch =>
      match b with
      | Tag _ _ _ _ => false
      | Group j ch' =>
          Nat.eqb i j ||
          (fix leq (l l' : list node) {struct l} : bool :=
             match l, l' with
             | [], [] => true
             | x :: xs, y :: ys => node_eq x y && leq xs ys
             | _, _ => false
             end) ch ch'
      end
  end.

Fixpoint list_node_eq (l l' : list node) : bool :=
  match l, l' with
  | [], [] => true
  | x :: xs, y :: ys => node_eq x y && list_node_eq xs ys
  | _, _ => false
  end.

Definition chain_gid (c : chain) : nat := match c with g :: _ => nid g | [] => 0 end.
Definition chain_children (c : chain) : list node := match c with g :: _ => children g | [] => [] end.
(* is_group: False exactly for the searched HedString (no ancestors) *)
Definition chain_is_group (c : chain) : bool := match c with _ :: _ :: _ => true | _ => false end.

(* HedGroup.__eq__ on two group objects: identity, else same children (==, ordered)
   and same is_group *)
Definition group_eq (c1 c2 : chain) : bool :=
  Nat.eqb (chain_gid c1) (chain_gid c2) ||
  (list_node_eq (chain_children c1) (chain_children c2) &&
   Bool.eqb (chain_is_group c1) (chain_is_group c2)).

(* ---------------------------------------------------------------- SearchResult *)

Record sres := { sr_chain : chain; sr_tags : list node }.
Definition gid (r : sres) : nat := chain_gid (sr_chain r).

Definition id_in (x : node) (l : list node) : bool := existsb (fun y => Nat.eqb (nid y) (nid x)) l.

(* list.sort(key=str): stable; insertion after all elements with key <= *)
Fixpoint insert_by_str (x : node) (l : list node) : list node :=
  match l with
  | [] => [x]
  | y :: ys => if str_ltb (node_str x) (node_str y) then x :: l else y :: insert_by_str x ys
  end.
Definition sort_by_str (l : list node) : list node :=
  fold_left (fun acc x => insert_by_str x acc) l [].

(* SearchResult.merge_and_result (the "Internal error" raise is unreachable:
   the only caller checks [group.group is other_group.group] first and
   HedGroup.__eq__ starts with the identity test) *)
Definition merge_and_result (r o : sres) : sres :=
  {| sr_chain := sr_chain r;
     sr_tags := sort_by_str (sr_tags r ++ filter (fun t => negb (id_in t (sr_tags r))) (sr_tags o)) |}.

Fixpoint ids_eq (a b : list node) : bool :=
  match a, b with
  | [], [] => true
  | x :: xs, y :: ys => Nat.eqb (nid x) (nid y) && ids_eq xs ys
  | _, _ => false
  end.

(* SearchResult.has_same_tags: groups, lengths, then pairwise identity.
   [fx = false]: behaviour before fix commit 81fa420: the groups were compared with !=
   (HedGroup.__eq__, by content); [fx = true]: current code: they are compared
   by identity ([is not]). *)
Definition has_same_tags (fx : bool) (r o : sres) : bool :=
  (if fx then Nat.eqb (gid r) (gid o) else group_eq (sr_chain r) (sr_chain o))
  && ids_eq (sr_tags r) (sr_tags o).

(* any(tag is tag2 and tag is not None ...) *)
Definition overlap (a b : list node) : bool := existsb (fun x => id_in x b) a.

(* ExpressionAnd.merge_and_groups *)
Definition merge_step (fx : bool) (g : sres) (acc : list sres) (o : sres) : list sres :=
  if Nat.eqb (gid g) (gid o) then
    if overlap (sr_tags g) (sr_tags o) then acc
    else
      let m := merge_and_result g o in
      if existsb (has_same_tags fx m) acc then acc else acc ++ [m]
  else acc.

Definition merge_and_groups (fx : bool) (g1 g2 : list sres) : list sres :=
  fold_left (fun acc g => fold_left (merge_step fx g) g2 acc) g1 [].

(* ExpressionOr.handle_expr: drop from groups1 what has_same_tags in groups2 *)
Definition or_groups (fx : bool) (g1 g2 : list sres) : list sres :=
  filter (fun r => negb (existsb (has_same_tags fx r) g2)) g1 ++ g2.

(* Expression._get_parent_groups *)
Definition parent_groups (rs : list sres) : list sres :=
  flat_map (fun r =>
    match sr_chain r with
    | g :: p :: rest =>
        match children p with
        | [] => []                                   (* if group.group._parent: (HedGroup.__bool__) *)
        | _ :: _ => [ {| sr_chain := p :: rest; sr_tags := [g] |} ]
        end
    | _ => []                                        (* not is_group *)
    end) rs.

(* ExpressionExactMatch._filter_exact_matches *)
Definition filter_exact (rs : list sres) : list sres :=
  filter (fun r => Nat.eqb (length (chain_children (sr_chain r))) (length (sr_tags r))) rs.

(* ExpressionNegation.handle_expr *)
Definition negate (found : list sres) (root : node) : list sres :=
  map (fun c => {| sr_chain := c; sr_tags := [] |})
      (filter (fun c => negb (existsb (fun r => Nat.eqb (chain_gid c) (gid r)) found)) (all_groups root)).

(* ExpressionWildcardNew.handle_expr: "?" children, "??" tags(), "???" groups() *)
Definition wild_results (text : str) (root : node) : list sres :=
  let sel : option (node -> bool) :=
    match length text with
    | 1 => Some (fun _ => true)
    | 2 => Some is_tag
    | 3 => Some (fun n => negb (is_tag n))
    | _ => None
    end in
  match sel with
  | None => []
  | Some p =>
      flat_map (fun c => map (fun ch => {| sr_chain := c; sr_tags := [ch] |})
                             (filter p (chain_children c))) (all_groups root)
  end.

(* ---------------------------------------------------------------- search terms *)

(* Expression.__init__ on the token text: (match_mode, must_not_be_in_line, text)
   match_mode: 0 = term on schema path, 1 = exact ("/" in text, or quoted), 2 = prefix *)
Definition strip_last (s : str) : str := removelast s.

Definition term_info (t : str) : (nat * bool * str) :=
  let m0 := if mem_ch ch_slash t then 1 else 0 in
  let '(nil_, t1) :=
    match t with
    | c :: r => if N.eqb c ch_at then (true, r) else (false, t)
    | [] => (false, t)
    end in
  let quoted :=
    match t1 with
    | c :: r => N.eqb c ch_quote && N.eqb (last t1 0%N) ch_quote && Nat.ltb 2 (length t1)
    | [] => false
    end in
  let '(m1, t2) := if quoted then (1, strip_last (tl t1)) else (m0, t1) in
  let '(m2, t3) := if mem_ch ch_star t2 then (2, filter (fun c => negb (N.eqb c ch_star)) t2) else (m1, t2) in
  (m2, nil_, t3).

(* find_wildcard_tags / find_exact_tags / find_tags_with_term on one tag *)
Definition tag_matches (mode : nat) (text : str) (t : node) : bool :=
  match t with
  | Tag _ terms short _ =>
      match mode with
      | 2 => prefixb (fold text) (fold short)                 (* short_tag.casefold().startswith *)
      | 0 => existsb (str_eqb (fold text)) terms              (* term.casefold() in tag.tag_terms *)
      | _ => str_eqb (fold short) (fold text)                 (* HedTag.__eq__(str): casefold equality *)
      end
  | Group _ _ => false
  end.

(* while group: append(SearchResult(group, tag)); tag = group; group = group._parent *)
Fixpoint climb (tags : list node) (c : chain) : list sres :=
  match c with
  | [] => []
  | g :: rest =>
      match children g with
      | [] => []                                              (* HedGroup.__bool__ *)
      | _ :: _ => {| sr_chain := c; sr_tags := tags |} :: climb [g] rest
      end
  end.

(* Expression.handle_expr (search terms) *)
Definition term_results (tok : str) (exact : bool) (root : node) : list sres :=
  let '(mode, nil_, text) := term_info tok in
  let found : list (list node * chain) :=
    map (fun tc => ([fst tc], snd tc)) (filter (fun tc => tag_matches mode text (fst tc)) (all_tags root)) in
  let found :=
    if nil_ then
      match found with
      | _ :: _ => []
      | [] => map (fun c => ([], c)) (all_groups root)
      end
    else found in
  if exact then map (fun tc => {| sr_chain := snd tc; sr_tags := fst tc |}) found
  else flat_map (fun tc => climb (fst tc) (snd tc)) found.

(* ---------------------------------------------------------------- expressions *)

(* every constructor keeps its token text (needed by str(expr) checks of the parser) *)
Inductive expr : Type :=
| ETerm (tok : str)
| EWild (tok : str)
| EAnd (tok : str) (l r : expr)
| EOr (tok : str) (l r : expr)
| ENeg (tok : str) (r : expr)
| EDesc (tok : str) (r : expr)
| EExactAny (tok : str) (r : expr)                 (* { r }        optional = "any" *)
| EExactNone (tok : str) (r : expr)                (* { r : }      optional = "none", left = None *)
| EExactOpt (tok : str) (l r : expr).              (* { r : l }    optional = "none", left = l *)

Fixpoint handle (fx : bool) (e : expr) (exact : bool) (root : node) : list sres :=
  match e with
  | ETerm t => term_results t exact root
  | EWild t => wild_results t root
  | EAnd _ l r =>
      match handle fx l exact root with
      | [] => []
      | g1 => merge_and_groups fx g1 (handle fx r exact root)
      end
  | EOr _ l r => or_groups fx (handle fx l exact root) (handle fx r exact root)
  | ENeg _ r => negate (handle fx r exact root) root
  | EDesc _ r => parent_groups (handle fx r false root)
  | EExactAny _ r => parent_groups (handle fx r true root)
  | EExactNone _ r =>
      let found := handle fx r true root in
      let fl := filter_exact found in
      match fl with
      | _ :: _ => parent_groups fl
      | [] => []
      end
  | EExactOpt _ l r =>
      let found := handle fx r true root in
      let fl := filter_exact found in
      match fl with
      | _ :: _ => parent_groups fl
      | [] => parent_groups (filter_exact (merge_and_groups fx found (handle fx l true root)))
      end
  end.

Definition nonempty {A} (l : list A) : bool := match l with [] => false | _ :: _ => true end.

(* bool(QueryHandler.search(hed_string)) *)
Definition matches (fx : bool) (e : expr) (root : node) : bool := nonempty (handle fx e false root).
