(* C13 -- histories: objects that are used under one schema configuration and then under another.
   MODEL ONLY.  Transcribed from
     hed/schema/hed_schema_section.py  HedSchemaSection.get_entries_with_attribute (the per-section _attribute_cache)
     hed/schema/hed_schema.py          HedSchema.set_schema_prefix / get_tags_with_attribute
     hed/models/hed_tag.py             HedTag.__str__ / _calculate_to_canonical_forms (re-identification of a tag
                                       object that already carries an entry and an extension)
     hed/validator/hed_validator.py    HedValidator.validate / run_basic_checks applied to a HedString that was
                                       created with OTHER schemas than the validator's. *)
From Coq Require Import List NArith Arith Bool.
From HV Require Import Base.Res Base.Str Base.SchemaData Model.Namespace.
Import ListNotations.

(* ------------------------------------------------------------------ (b) re-prefixing a loaded schema object *)

(* a HedSchema object: namespace (mutable), the immutable resolver, and the tag section's _attribute_cache:
   attribute -> the names of the cached ENTRIES (never the formatted, prefixed names) *)
Record hsch := mkH { h_ns : str; h_sch : sch; h_cache : attr -> option (list str) }.
Definition hgroup := list hsch.

Definition strip (G : hgroup) : group := map (fun h => (h_ns h, h_sch h)) G.

Definition h_names (h : hsch) (a : attr) : list str :=
  match h_cache h a with Some l => l | None => s_twa (h_sch h) a end.

(* get_tags_with_attribute: cached entries, names formatted with the CURRENT namespace *)
Definition h_twa (G : hgroup) (a : attr) : list str := flat_map (fun h => map (app (h_ns h)) (h_names h a)) G.

Definition h_cfg (G : hgroup) : cfg :=
  mkCfg (group_find_tag_entry (strip G)) (h_twa G) (schema83_group (strip G)).

Definition fill_cache (h : hsch) : hsch := mkH (h_ns h) (h_sch h) (fun a => Some (h_names h a)).

Fixpoint upd_nth {A} (i : nat) (f : A -> A) (l : list A) : list A :=
  match l, i with
  | [], _ => []
  | x :: r, 0 => f x :: r
  | x :: r, S j => x :: upd_nth j f r
  end.

Inductive op : Type :=
| OpPrefix (i : nat) (ns : str)      (* the i-th schema object: set_schema_prefix(ns) *)
| OpValidate (a : ann str).          (* HedValidator(current schemas).validate(HedString(a, current schemas)) *)

Section Hist.
Variable isalpha_c isprint_c : N -> bool.
Variable foldc titlec lowerc : N -> N.
Variable fixed : bool.
Variable R1 R2 R3 : bool -> ann rtag -> list code.
Notation verdict := (verdict isalpha_c isprint_c foldc titlec lowerc fixed R1 R2 R3).

(* whether a validation gets as far as the rules that ask for the attribute lists (and so fills the caches);
   the theorems hold for every such policy *)
Variable fill : hgroup -> ann str -> bool.

(* set_schema_prefix raises before it assigns: a refused prefix leaves the object as it was *)
Definition h_reprefix (ns : str) (h : hsch) : hsch :=
  match set_schema_prefix isalpha_c fixed ns with
  | Ok ns' => mkH ns' (h_sch h) (h_cache h)
  | Exn _ => h
  end.

Definition h_step (G : hgroup) (o : op) : hgroup * option (list code) :=
  match o with
  | OpPrefix i ns => (upd_nth i (h_reprefix ns) G, None)
  | OpValidate a => (if fill G a then map fill_cache G else G, Some (verdict (h_cfg G) a))
  end.

Fixpoint h_run (G : hgroup) (ops : list op) : list (option (list code)) :=
  match ops with
  | [] => []
  | o :: r => let '(G', out) := h_step G o in out :: h_run G' r
  end.

(* the specification: no memory at all -- each verdict is that of a freshly assembled group *)
Definition s_reprefix (ns : str) (L : loaded) : loaded :=
  match set_schema_prefix isalpha_c fixed ns with
  | Ok ns' => (ns', snd L)
  | Exn _ => L
  end.

Definition s_step (G : group) (o : op) : group * option (list code) :=
  match o with
  | OpPrefix i ns => (upd_nth i (s_reprefix ns) G, None)
  | OpValidate a => (G, Some (verdict (cfg_group G) a))
  end.

Fixpoint s_run (G : group) (ops : list op) : list (option (list code)) :=
  match ops with
  | [] => []
  | o :: r => let '(G', out) := s_step G o in out :: s_run G' r
  end.

(* CONTRAST (not the code): the variant in which the cache keeps the FORMATTED names, i.e. names with the namespace
   that was current when the cache was filled -- the shape of a history bug (seeded change C13/4).  The history
   theorem is refuted for it (Proofs/NamespaceHistProofs.v), which shows the theorem is not true by construction
   of the state space: it depends on WHAT is cached. *)
Definition h_names_stale (h : hsch) (a : attr) : list str :=
  match h_cache h a with Some l => l | None => map (app (h_ns h)) (s_twa (h_sch h) a) end.
Definition h_twa_stale (G : hgroup) (a : attr) : list str := flat_map (fun h => h_names_stale h a) G.
Definition h_cfg_stale (G : hgroup) : cfg :=
  mkCfg (group_find_tag_entry (strip G)) (h_twa_stale G) (schema83_group (strip G)).
Definition fill_stale (h : hsch) : hsch := mkH (h_ns h) (h_sch h) (fun a => Some (h_names_stale h a)).
Definition h_step_stale (G : hgroup) (o : op) : hgroup * option (list code) :=
  match o with
  | OpPrefix i ns => (upd_nth i (h_reprefix ns) G, None)
  | OpValidate a => (if fill G a then map fill_stale G else G, Some (verdict (h_cfg_stale G) a))
  end.
Fixpoint h_run_stale (G : hgroup) (ops : list op) : list (option (list code)) :=
  match ops with
  | [] => []
  | o :: r => let '(G', out) := h_step_stale G o in out :: h_run_stale G' r
  end.

(* ------------------------------------------------------------------ (a) objects built under other schemas *)

(* HedTag.__str__: the short form when the tag is identified, its own text otherwise *)
Definition tag_text (t : str) (r : rtag) : str :=
  match rt_entry r with
  | Some e => rt_ns r ++ en_short e ++ ext_value r
  | None => t
  end.

(* HedTag._calculate_to_canonical_forms on a tag that already carries state: the lookup starts from str(tag), the
   namespace is the one computed at construction, and the extension is replaced only by a non-empty remainder *)
Definition reidentify (c : cfg) (t : str) (r : rtag) : rtag * list code :=
  let '(e, rem, iss) := c_find c (tag_text t r) (rt_ns r) in
  (mkR (rt_ns r) (rt_body r) e
       (match e, rem with
        | Some _, Some (x :: y) => Some (x :: y)
        | _, _ => Some (ext_value r)
        end), iss).

(* fixed5 = true: the tags are re-identified before the tag character check -- the code since fix commit 02f8597
   (C13-F5); false = the behaviour before that commit *)
Variable fixed5 : bool.

(* HedValidator(cB).validate(HedString(a, cA)) *)
Definition verdict_cross (cA cB : cfg) (a : ann str) : list code :=
  let tags := ann_tags a in
  let s1 := flat_map (char_issues isprint_c (c_flag cB)) tags ++ flat_map (check_tag_formatting fixed) tags in
  if any_error s1 then s1 else
  let built := ann_map (fun t => (t, fst (resolve_tag cA t))) a in        (* state from construction *)
  let rsA := ann_map snd built in
  let rs1 := ann_map (fun tr => fst (reidentify cB (fst tr) (snd tr))) built in
  let s2 := flat_map (fun t => check_invalid_prefix_issues isalpha_c (get_schema_namespace t)) tags
            ++ R1 (c_flag cB) (if fixed5 then rs1 else rsA)
            ++ flat_map (fun tr => snd (reidentify cB (fst tr) (snd tr))) (ann_tags built) in
  if any_error (s1 ++ s2) then s1 ++ s2 else
  let s3 := flat_map (check_capitalization titlec lowerc fixed) (ann_tags rs1) ++ R2 (c_flag cB) rs1 in
  if any_error (s1 ++ s2 ++ s3) then s1 ++ s2 ++ s3 else
  s1 ++ s2 ++ s3 ++ R3 (c_flag cB) rs1
     ++ check_required foldc (c_twa cB Required) (ann_tags rs1)
     ++ check_unique foldc (c_twa cB Unique) (ann_tags rs1).

End Hist.

(* ------------------------------------------------------------------ construction routes *)
(* hed_schema_io.load_schema / from_string with the public parameters schema_namespace= and schema=: load the
   file (or merge it into the object `into`, which is returned), then set the prefix ONLY when one was given *)
Definition load_schema_pub (isa : N -> bool) (fixed : bool) (rp : repo) (f : sfile) (ns : str) (into : option lschema)
  : lres lschema :=
  lbind (load_file isa rp f into)
    (fun L => match ns with
              | [] => LOk L
              | _ => match set_schema_prefix isa fixed ns with
                     | Ok ns' => LOk (mkL ns' (l_library L) (l_version L) (l_with_std L) (l_merged L) (l_elem_domain L) (l_table L))
                     | Exn _ => LErr INVALID_LIBRARY_PREFIX
                     end
              end).


(* ------------------------------------------------------------------ the place named by INVALID_PARENT_NODE *)

(* HedSchema._validate_remaining_terms: the running position word_start_index and the first extension word that is
   a tag of the schema; result = (index_in_tag, index_in_tag_end) *)
Fixpoint first_schema_word (T : table) (names : list str) (pos : nat) : option (nat * nat) :=
  match names with
  | [] => None
  | nm :: r =>
      match km_get [nm] (t_keys T) with
      | Some _ => Some (pos, pos + length nm)
      | None => first_schema_word T r (pos + length nm + 1)
      end
  end.

(* length of "c1/c2/.../ck/" *)
Definition words_offset (comps : list str) : nat := fold_right (fun c a => length c + 1 + a) 0 comps.

(* the place reported when _find_tag_entry ends with INVALID_PARENT_NODE; adj = len(namespace) (prefix_tag_adj) *)
Definition invalid_parent_span (T : table) (clean : str) (adj : nat) : option (nat * nat) :=
  let comps := split_on ch_slash clean in
  let w := map fold_ascii comps in
  match km_get w (t_keys T) with
  | Some _ => None
  | None =>
      match walk T w 0 (length w) None with
      | (Some e, k) =>
          if Nat.ltb k (length w) && (match takes_value_child T e with None => true | Some _ => false end)
          then first_schema_word T (skipn k w) (adj + words_offset (firstn k comps))
          else None
      | (None, _) => None
      end
  end.
