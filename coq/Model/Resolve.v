(* C03 model, part 2: identifying a tag text with a schema node and the HedTag form properties.
   Transcribes hed/schema/hed_schema.py (find_tag_entry, _find_tag_entry, _find_tag_subfunction,
   _validate_remaining_terms, HedTagEntry.finalize_entry: takes_value_child_entry) and
   hed/models/hed_tag.py (namespace, _calculate_to_canonical_forms, short_tag, long_tag, base_tag,
   short_base_tag, org_base_tag, extension).  Models only -- no proofs here. *)
From Coq Require Import List NArith Bool.
From HV Require Import Base.Str Base.Res Model.Schema.
Import ListNotations.

(* the issue codes find_tag_entry can return instead of an entry *)
Inductive tagerr := LibraryUnmatched | NoValidTagFound | InvalidParentNode.

(* (entry, remainder, issues) of find_tag_entry; remainder None is rendered as "" *)
Inductive found :=
| Found (e : entry) (remainder : str)
| NotFound (err : tagerr).

(* HedTag._get_schema_namespace: org_tag[:first_colon+1] when a colon exists and no slash precedes
   it, else "".  One left-to-right scan replaces the two str.find calls. *)
Fixpoint get_ns (t : str) : option str :=
  match t with
  | [] => None
  | c :: r =>
      if N.eqb c ch_colon then Some [c]
      else if N.eqb c ch_slash then None
      else match get_ns r with Some ns => Some (c :: ns) | None => None end
  end.
Definition get_schema_namespace (t : str) : str :=
  match get_ns t with Some ns => ns | None => [] end.

(* the text contains a '#' component that is followed by a further component ("/#/") *)
Definition has_hash_mid (s : str) : Prop :=
  exists a b, s = a ++ ch_slash :: ch_hash :: ch_slash :: b.

(* Which of the two repairs of hed_schema.py the model follows (both true = the code as it is in /repo):
   fix_index  (fix commit de8c862) the walk runs over the text as written, every lookup folds its own key, so that the
              index used to cut the remainder off the written text refers to that text
              (before: the walk ran over the folded text, whose length can differ);
   fix_hash   (fix commit 03a83bd) the walk never steps onto a '#' placeholder entry (before: it did, and the first
              "/#" of "X/#/#/more" was dropped from the remainder). *)
Record fixes := mkFixes { fix_index : bool; fix_hash : bool }.
Definition repaired : fixes := mkFixes true true.
Definition unrepaired : fixes := mkFixes false false.

Section Fold.
  Variable foldc : N -> str.
  Notation fold := (fold foldc).
  Notation get_entry := (get_entry foldc).
  Variable fx : fixes.

  (* HedTagEntry.finalize_entry: takes_value_child_entry = schema._get_tag_entry(self.name + "/#") *)
  Definition takes_value_child (T : table) (e : entry) : option entry :=
    get_entry T (e_name e ++ s_slash_hash).

  (* self._get_tag_entry(parent_name) inside the walk; with fix_hash a placeholder entry is not a hit *)
  Definition walk_entry (T : table) (key : str) : option entry :=
    match lookup key (long_form_tags T) with
    | Some e => if fix_hash fx && ends_slash_hash (e_name e) then None else Some e
    | None => None
    end.

  (* the successive (folded parent_name, next_index) of the loop of _find_tag_subfunction *)
  Definition walk_keys (clean : str) : list (str * nat) :=
    if fix_index fx
    then map (fun q => (fold q, length q)) (slash_prefixes clean)
    else map (fun q => (q, length q)) (slash_prefixes (fold clean)).

  (* the while loop of _find_tag_subfunction; cur = (current_entry, current_slash_index);
     result flag: stopped on an unknown parent_name *)
  Fixpoint walk (T : table) (ps : list (str * nat)) (cur : option (entry * nat)) : option (entry * nat) * bool :=
    match ps with
    | [] => (cur, false)
    | (key, idx) :: rest =>
        match walk_entry T key with
        | None => (cur, true)
        | Some e => walk T rest (Some (e, idx))
        end
    end.

  (* the folded terms after current_slash_index that _validate_remaining_terms looks up *)
  Definition remaining_terms (clean : str) (idx : nat) : list str :=
    if fix_index fx
    then map fold (split_slash (skipn (idx + 1) clean))
    else split_slash (skipn (idx + 1) (fold clean)).

  (* HedSchema._validate_remaining_terms: false = raises INVALID_PARENT_NODE *)
  Definition validate_remaining_terms (T : table) (clean : str) (idx : nat) : bool :=
    forallb (fun name => match lookup name (long_form_tags T) with Some _ => false | None => true end)
            (remaining_terms clean idx).

  (* HedSchema._find_tag_subfunction *)
  Definition find_tag_subfunction (T : table) (clean : str) : tagerr + (entry * nat) :=
    match walk T (walk_keys clean) None with
    | (None, _) => inl NoValidTagFound
    | (Some (e, idx), missed) =>
        if missed && negb (match takes_value_child T e with Some _ => true | None => false end)
                  && negb (validate_remaining_terms T clean idx)
        then inl InvalidParentNode
        else inr (e, idx)
    end.

  (* HedSchema._find_tag_entry *)
  Definition find_tag_entry_ (T : table) (tag ns : str) : found :=
    let clean := skipn (length ns) tag in
    let working := fold clean in
    match lookup working (long_form_tags T) with
    | Some e => Found e (if ends_slash_hash working then skipn (length working - 2) working else [])
    | None =>
        match find_tag_subfunction T clean with
        | inl err => NotFound err
        | inr (e, idx) =>
            let remainder := skipn idx clean in
            match remainder, takes_value_child T e with
            | _ :: _, Some v => Found v remainder
            | _, _ => Found e remainder
            end
        end
    end.

  (* HedSchema.find_tag_entry: the schema's own namespace must match *)
  Definition find_tag_entry (T : table) (schema_ns : str) (tag ns : str) : found :=
    if str_eqb ns schema_ns then find_tag_entry_ T tag ns else NotFound LibraryUnmatched.

  (* HedTag after __init__ / _calculate_to_canonical_forms *)
  Record hedtag := mkHedTag {
    ht_text : str;                (* org_tag *)
    ht_ns : str;                  (* _namespace *)
    ht_entry : option entry;      (* _schema_entry *)
    ht_ext : str                  (* _extension_value *)
  }.

  Definition hedtag_init (T : table) (schema_ns : str) (text : str) : hedtag :=
    let ns := get_schema_namespace text in
    match find_tag_entry T schema_ns text ns with
    | Found e r => mkHedTag text ns (Some e) r
    | NotFound _ => mkHedTag text ns None []
    end.

  Definition short_tag (h : hedtag) : str :=
    match ht_entry h with Some e => ht_ns h ++ e_short e ++ ht_ext h | None => ht_text h end.
  Definition long_tag (h : hedtag) : str :=
    match ht_entry h with Some e => ht_ns h ++ e_long e ++ ht_ext h | None => ht_text h end.
  Definition base_tag (h : hedtag) : str :=
    match ht_entry h with Some e => e_long e | None => ht_text h end.
  Definition short_base_tag (h : hedtag) : str :=
    match ht_entry h with Some e => e_short e | None => ht_text h end.
  Definition org_base_tag (h : hedtag) : str :=
    match ht_entry h with
    | Some _ =>
        match ht_ext h with
        | [] => ht_text h
        | _ => if Nat.eqb (length (ht_text h)) (length (ht_ext h)) then []
               else firstn (length (ht_text h) - length (ht_ext h)) (ht_text h)
        end
    | None => ht_text h
    end.
  Definition extension (h : hedtag) : str :=
    match ht_ext h with [] => [] | _ :: r => r end.

  (* side conditions of "the text after a recognised spelling p is a value or extension r" *)
  (* no slash-prefix of p/r longer than p is a registered form *)
  Definition no_longer_form (T : table) (p r : str) : bool :=
    forallb (fun q => match lookup (fold p ++ ch_slash :: q) (long_form_tags T) with
                      | None => true | Some _ => false end)
            (slash_prefixes (fold r)).
  (* no term of r is itself a tag of the schema (checked only for nodes without a '#' child) *)
  Definition ext_terms_free (T : table) (r : str) : bool :=
    forallb (fun name => match lookup name (long_form_tags T) with Some _ => false | None => true end)
            (map fold (split_slash r)).

  (* everything C03 observes of one tag text, from the registration-ordered name list *)
  Definition resolve (S : list str) (schema_ns text : str) : res hedtag :=
    let* T := build_table foldc S in Ok (hedtag_init T schema_ns text).
End Fold.
