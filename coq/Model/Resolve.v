(* C03 model, part 2: identifying a tag text with a schema node and the HedTag form properties.
   Transcribes hed/schema/hed_schema.py (find_tag_entry, _find_tag_entry, _find_tag_subfunction,
   _validate_remaining_terms, HedTagEntry.finalize_entry: takes_value_child_entry) and
   hed/models/hed_tag.py (namespace, _calculate_to_canonical_forms, short_tag, long_tag, base_tag,
   short_base_tag, org_base_tag, extension).  Models only -- no proofs here. *)
From Coq Require Import List NArith Bool.
From HV Require Import Base.Str Base.Res Model.Schema.
Import ListNotations.

(* the issue codes find_tag_entry can return instead of an entry *)
Inductive tagerr := LibraryUnmatched | NoValidTagFound | InvalidParentNode.

(* (entry, remainder, issues) of find_tag_entry; remainder None is rendered as "" *)
Inductive found :=
| Found (e : entry) (remainder : str)
| NotFound (err : tagerr).

(* HedTag._get_schema_namespace: org_tag[:first_colon+1] when a colon exists and no slash precedes
   it, else "".  One left-to-right scan replaces the two str.find calls. *)
Fixpoint get_ns (t : str) : option str :=
  match t with
  | [] => None
  | c :: r =>
      if N.eqb c ch_colon then Some [c]
      else if N.eqb c ch_slash then None
      else match get_ns r with Some ns => Some (c :: ns) | None => None end
  end.
Definition get_schema_namespace (t : str) : str :=
  match get_ns t with Some ns => ns | None => [] end.

(* the text contains a '#' component that is followed by a further component ("/#/") *)
Definition has_hash_mid (s : str) : Prop :=
  exists a b, s = a ++ ch_slash :: ch_hash :: ch_slash :: b.

Section Fold.
  Variable foldc : N -> N.
  Notation fold := (fold foldc).
  Notation get_entry := (get_entry foldc).

  (* HedTagEntry.finalize_entry: takes_value_child_entry = schema._get_tag_entry(self.name + "/#") *)
  Definition takes_value_child (T : table) (e : entry) : option entry :=
    get_entry T (e_name e ++ s_slash_hash).

  (* the while loop of _find_tag_subfunction over the successive parent_name values;
     cur = (current_entry, current_slash_index); result flag: stopped on an unknown parent_name *)
  Fixpoint walk (T : table) (ps : list str) (cur : option (entry * nat)) : option (entry * nat) * bool :=
    match ps with
    | [] => (cur, false)
    | q :: rest =>
        match lookup q (long_form_tags T) with     (* working_tag is already folded *)
        | None => (cur, true)
        | Some e => walk T rest (Some (e, length q))
        end
    end.

  (* HedSchema._validate_remaining_terms: false = raises INVALID_PARENT_NODE *)
  Definition validate_remaining_terms (T : table) (working : str) (idx : nat) : bool :=
    forallb (fun name => match lookup name (long_form_tags T) with Some _ => false | None => true end)
            (split_slash (skipn (idx + 1) working)).

  (* HedSchema._find_tag_subfunction *)
  Definition find_tag_subfunction (T : table) (working : str) : tagerr + (entry * nat) :=
    match walk T (slash_prefixes working) None with
    | (None, _) => inl NoValidTagFound
    | (Some (e, idx), missed) =>
        if missed && negb (match takes_value_child T e with Some _ => true | None => false end)
                  && negb (validate_remaining_terms T working idx)
        then inl InvalidParentNode
        else inr (e, idx)
    end.

  (* HedSchema._find_tag_entry *)
  Definition find_tag_entry_ (T : table) (tag ns : str) : found :=
    let clean := skipn (length ns) tag in
    let working := fold clean in
    match lookup working (long_form_tags T) with
    | Some e => Found e (if ends_slash_hash working then skipn (length working - 2) working else [])
    | None =>
        match find_tag_subfunction T working with
        | inl err => NotFound err
        | inr (e, idx) =>
            let remainder := skipn idx clean in
            match remainder, takes_value_child T e with
            | _ :: _, Some v => Found v remainder
            | _, _ => Found e remainder
            end
        end
    end.

  (* HedSchema.find_tag_entry: the schema's own namespace must match *)
  Definition find_tag_entry (T : table) (schema_ns : str) (tag ns : str) : found :=
    if str_eqb ns schema_ns then find_tag_entry_ T tag ns else NotFound LibraryUnmatched.

  (* HedTag after __init__ / _calculate_to_canonical_forms *)
  Record hedtag := mkHedTag {
    ht_text : str;                (* org_tag *)
    ht_ns : str;                  (* _namespace *)
    ht_entry : option entry;      (* _schema_entry *)
    ht_ext : str                  (* _extension_value *)
  }.

  Definition hedtag_init (T : table) (schema_ns : str) (text : str) : hedtag :=
    let ns := get_schema_namespace text in
    match find_tag_entry T schema_ns text ns with
    | Found e r => mkHedTag text ns (Some e) r
    | NotFound _ => mkHedTag text ns None []
    end.

  Definition short_tag (h : hedtag) : str :=
    match ht_entry h with Some e => ht_ns h ++ e_short e ++ ht_ext h | None => ht_text h end.
  Definition long_tag (h : hedtag) : str :=
    match ht_entry h with Some e => ht_ns h ++ e_long e ++ ht_ext h | None => ht_text h end.
  Definition base_tag (h : hedtag) : str :=
    match ht_entry h with Some e => e_long e | None => ht_text h end.
  Definition short_base_tag (h : hedtag) : str :=
    match ht_entry h with Some e => e_short e | None => ht_text h end.
  Definition org_base_tag (h : hedtag) : str :=
    match ht_entry h with
    | Some _ =>
        match ht_ext h with
        | [] => ht_text h
        | _ => if Nat.eqb (length (ht_text h)) (length (ht_ext h)) then []
               else firstn (length (ht_text h) - length (ht_ext h)) (ht_text h)
        end
    | None => ht_text h
    end.
  Definition extension (h : hedtag) : str :=
    match ht_ext h with [] => [] | _ :: r => r end.

  (* side conditions of "the text after a recognised spelling p is a value or extension r" *)
  (* no slash-prefix of p/r longer than p is a registered form *)
  Definition no_longer_form (T : table) (p r : str) : bool :=
    forallb (fun q => match lookup (fold p ++ ch_slash :: q) (long_form_tags T) with
                      | None => true | Some _ => false end)
            (slash_prefixes (fold r)).
  (* no term of r is itself a tag of the schema (checked only for nodes without a '#' child) *)
  Definition ext_terms_free (T : table) (r : str) : bool :=
    forallb (fun name => match lookup name (long_form_tags T) with Some _ => false | None => true end)
            (split_slash (fold r)).

  (* everything C03 observes of one tag text, from the registration-ordered name list *)
  Definition resolve (S : list str) (schema_ns text : str) : res hedtag :=
    let* T := build_table foldc S in Ok (hedtag_init T schema_ns text).
End Fold.
