(* C05 (a): the format-independent traversal that decides which entries and which
   attributes are written.  Model only.  Names are abstract: a tag name is its
   list of path components (nat ids), attribute names are nat ids with
   [a_inLibrary] standing for HedKey.InLibrary.

   Python sources:
     hed_schema.py          HedSchema.can_save
     schema_io/schema2base.py  Schema2Base.process_schema / _output_tags /
                            _output_units / _output_section / _should_skip /
                            _attribute_disallowed                              *)
From Coq Require Import List NArith ZArith Arith Bool.
From HV Require Import Base.Res Base.Str Base.StrOps.
Import ListNotations.

Definition tname := list nat.

Fixpoint tname_eqb (a b : tname) : bool :=
  match a, b with
  | [], [] => true
  | x :: a', y :: b' => Nat.eqb x y && tname_eqb a' b'
  | _, _ => false
  end.

Definition a_inLibrary : nat := 0.

Record tag_entry : Set := mkTag {
  te_name : tname;                       (* tag_entry.name split on '/' *)
  te_inlib : bool;                       (* tag_entry.has_attribute(InLibrary) (inherited view) *)
  te_parent : option (tname * bool);     (* tag_entry.parent: its name and its has_attribute(InLibrary) *)
  te_attrs : list nat }.                 (* keys of tag_entry.attributes, in order *)

Record entry : Set := mkEntry {
  e_id : nat;
  e_inlib : bool;
  e_attrs : list nat }.

Record flags : Set := mkFlags {
  f_save_lib : bool; f_save_base : bool; f_strip : bool; f_save_merged : bool }.

(* HedSchema.can_save *)
Definition can_save (library : str) : bool := negb (nonempty library) || negb (memb ch_comma library).

(* base2schema.SchemaLoader.__init__, the branch that loads a further library file INTO an existing
   with-standard schema (load_schema_version of several versions, load_schema(file, schema=other)): the
   header attribute library becomes  old + ',' + new  -- the name is listed again also when both files
   belong to the SAME library; can_save recognises a multi-library merge by exactly this comma.
   [dedupe] = true is NOT the code: the variant that does not repeat a name already listed. *)
Definition merge_library (dedupe : bool) (old new : str) : str :=
  if dedupe && existsb (str_eqb new) (split_on ch_comma old) then old
  else old ++ ch_comma :: new.

Definition merged_library (dedupe : bool) (first : str) (more : list str) : str :=
  fold_left (merge_library dedupe) more first.

(* the flag computation at the head of process_schema *)
Definition compute_flags (with_standard : str) (save_merged : bool) : flags :=
  if nonempty with_standard then
    if save_merged then mkFlags true true false true
    else mkFlags true false true false
  else mkFlags true true true true.

(* Schema2Base._should_skip *)
Definition should_skip (f : flags) (has_lib_attr : bool) : bool :=
  if negb (f_save_base f) && negb has_lib_attr then true
  else if negb (f_save_lib f) && has_lib_attr then true
  else false.

(* Schema2Base._attribute_disallowed *)
Definition attribute_disallowed (f : flags) (attribute : nat) : bool :=
  f_strip f && Nat.eqb attribute a_inLibrary.

Definition emitted_attrs (f : flags) (l : list nat) : list nat :=
  filter (fun a => negb (attribute_disallowed f a)) l.

(* tag_entry.parent_name *)
Definition parent_name (e : tag_entry) : tname :=
  match te_parent e with
  | Some (n, _) => n
  | None => removelast (te_name e)
  end.

Definition in_nodes (n : tname) (all_nodes : list tname) : bool := existsb (tname_eqb n) all_nodes.

(* one written tag: the entry, the level passed to _write_tag_entry, the parent
   node (None = the schema node), the attributes that reach the file *)
Record written : Set := mkWritten {
  w_entry : tag_entry; w_level : Z; w_parent : option tname; w_attrs : list nat }.

(* the loop of Schema2Base._output_tags *)
Fixpoint output_tags_go (f : flags) (tags : list tag_entry) (level_adj : nat)
         (all_nodes : list tname) : list written :=
  match tags with
  | [] => []
  | e :: rest =>
      if should_skip f (te_inlib e) then output_tags_go f rest level_adj all_nodes
      else
        let level := length (te_name e) - 1 in
        let level_adj := match parent_name e with [] => 0 | _ => level_adj end in
        if Nat.eqb level 0 then
          mkWritten e 0 None (emitted_attrs f (te_attrs e))
            :: output_tags_go f rest level_adj (te_name e :: all_nodes)
        else
          let level_adj :=
              match te_parent e with
              | Some (pn, pin) =>
                  if te_inlib e && negb pin && negb (f_save_merged f)
                  then (if negb (in_nodes pn all_nodes) then level else level_adj)
                  else level_adj
              | None => level_adj
              end in
          let pnode := if in_nodes (parent_name e) all_nodes then Some (parent_name e) else None in
          mkWritten e (Z.of_nat level - Z.of_nat level_adj) pnode (emitted_attrs f (te_attrs e))
            :: output_tags_go f rest level_adj (te_name e :: all_nodes)
  end.

Definition output_tags (f : flags) (tags : list tag_entry) : list written :=
  output_tags_go f tags 0 [].

(* Schema2Base._output_section: entries written, with their emitted attributes *)
Definition output_section (f : flags) (l : list entry) : list (entry * list nat) :=
  map (fun e => (e, emitted_attrs f (e_attrs e)))
      (filter (fun e => negb (should_skip f (e_inlib e))) l).

(* Schema2Base._output_units: per unit class (written with props?, units written) *)
Definition output_units (f : flags) (l : list (entry * list entry))
  : list (entry * bool * list (entry * list nat)) :=
  flat_map (fun cu =>
    let '(c, units) := cu in
    let skip := should_skip f (e_inlib c) in
    let has_lib_unit := if skip then existsb e_inlib units else false in
    if skip && (negb (f_save_lib f) || negb has_lib_unit) then []
    else [(c, negb has_lib_unit, output_section f units)]) l.

Record schema_out : Set := mkOut {
  o_tags : list written;
  o_units : list (entry * bool * list (entry * list nat));
  o_sections : list (list (entry * list nat)) }.

(* Schema2Base.process_schema: refusal, flags, then the traversals *)
Definition process_schema (library with_standard : str) (save_merged : bool)
           (tags : list tag_entry) (unit_classes : list (entry * list entry))
           (sections : list (list entry)) : res schema_out :=
  if negb (can_save library) then Exn HedFileError
  else
    let f := compute_flags with_standard save_merged in
    Ok (mkOut (output_tags f tags) (output_units f unit_classes)
              (map (output_section f) sections)).

(* SchemaLoaderWiki._read_schema, the parent bookkeeping: the reader rebuilds the long name of every tag
   from the ORDER and LEVEL of the lines.  [parent_tags] is the name of the previous tag; a line of level
   lvl (0 = a root line) keeps the first lvl terms and appends its own short name; a level that skips a
   generation is an error (WIKI_LINE_START_INVALID, surfacing as HedFileError).  Rooted/level_adj handling of
   unmerged files is not part of this model. *)
Fixpoint rebuild_names (parent_tags : tname) (lines : list (nat * nat)) : res (list tname) :=
  match lines with
  | [] => Ok []
  | (lvl, short) :: rest =>
      if Nat.ltb (length parent_tags) lvl then Exn HedFileError
      else
        let name := firstn lvl parent_tags ++ [short] in
        let* names := rebuild_names name rest in
        Ok (name :: names)
  end.

(* what a merged save hands to the MediaWiki writer for a tag: its level (= depth) and its short name *)
Definition wiki_tag_line (name : tname) : nat * nat := (length name - 1, last name 0).

(* the written order is parents-first: every tag directly follows its parent or a node of its parent's subtree *)
Fixpoint parents_first (previous : tname) (names : list tname) : Prop :=
  match names with
  | [] => True
  | n :: rest =>
      n <> [] /\ length n - 1 <= length previous /\ removelast n = firstn (length n - 1) previous
      /\ parents_first n rest
  end.
