(* C07 -- model of file-level validation.
   Transcribes, function by function,
     hed/validator/spreadsheet_validator.py : SpreadsheetValidator.validate, _run_checks,
                                              _run_onset_checks, _validate_column_structure
     hed/models/base_input.py               : needs_sorting, dataframe_a / series_a (index alignment of
                                              _handle_curly_braces_refs on a sorted frame)
     hed/models/df_util.py                  : sort_dataframe_by_onsets, split_delay_tags,
                                              filter_series_by_onset (_indexed_dict_from_onsets,
                                              _filter_by_index_list)
     hed/models/hed_tag.py                  : HedTag.value_as_default_unit (as a partial function)
     hed/errors/error_reporter.py           : context stack -> (row, column) labels, sort_issues.
   The string-level validator is NOT modelled: its phases are Section variables
   ([basic], [full], [banned], [temporal], [nonempty]) -- the property is relative to them.
   Models only; no proofs in this file. *)
From Coq Require Import List ZArith NArith Bool Arith.
From HV Require Import Base.Res.
Import ListNotations.

(* ------------------------------------------------------------------ data *)

(* How the unit of a Delay value is spelled (HedTag._get_tag_units_portion /
   UnitClassEntry.get_derivative_unit_entry / UnitEntry.get_conversion_factor):
   UNone   no blank in the extension: the default unit is used;
   UKey f  the unit text is literally a key of UnitEntry.derivative_units (f: the unit has a conversionFactor);
   UCase f accepted only through units.casefold() (e.g. "Seconds"): NOT a key of derivative_units;
   UBad    not a unit of the tag's unit classes. *)
Inductive uspell : Set := UNone | UKey (has_factor : bool) | UCase (has_factor : bool) | UBad.

(* d_num: float(value) * conversion factor in the model's time unit, None when float() raises ValueError. *)
Record delay : Set := { d_num : option Z; d_unit : uspell }.

(* one cell of the assembled frame (dataframe_a): column id, text id, "not cell or cell == 'n/a'" *)
Record cell : Set := { c_col : N; c_id : N; c_skip : bool }.

Record body : Set := {
  b_cells : list cell;       (* HED-bearing cells in dataframe_a column order *)
  b_badkeys : list N;        (* categorical columns whose value is neither n/a nor a sidecar key *)
  b_delaytext : bool;        (* "delay/" in assembled_row.casefold() *)
  b_delays : list delay      (* find_top_level_tags({Delay}) of the assembled row, in order *)
}.

Record row : Set := { r_onset : option Z;   (* None: n/a (pd.to_numeric(errors='coerce') gives NaN) *)
                      r_body : body }.

(* a row of the (possibly sorted) frame: pandas index label, onset column, assembled content *)
Record drow : Set := { dr_label : nat; dr_onset : option Z; dr_body : body }.

(* text of a string handed to the string validator, as a list of pieces joined with ",":
   PJoin ids       HedString.from_hed_strings of the row's cell objects (_run_checks);
   PCells ids      the row text of series_a: the cells joined with ", " and parsed as ONE string;
   PRem ids ks     the same row after delay_string.remove(to_remove) (str(delay_string)); ks = the positions
                   (among the row's top-level Delay groups) of the groups that were removed;
   PDelay ids k    str() of the k-th top-level Delay group of that row. *)
Inductive piece : Set :=
| PJoin (ids : list N) | PCells (ids : list N) | PRem (ids : list N) (ks : list nat) | PDelay (ids : list N) (k : nat).
Definition ann := list piece.

(* a row of split_df: onset (after the Delay shift), HED, original_index *)
Record srow : Set := { s_time : option Z; s_ann : ann; s_orig : nat }.

Record config : Set := {
  cf_header : bool;      (* data.has_column_names *)
  cf_has_onset : bool;   (* "onset" in columns *)
  cf_has_refs : bool;    (* the sidecar has (one) curly-brace column reference *)
  cf_cats : list N;      (* categorical columns in column_metadata() order *)
  cf_fixed : bool;       (* true: conversion looks the unit up case-insensitively (fix f83491d) *)
  cf_fix_none : bool;    (* true: a Delay value without conversion (None) leaves its group in place (fix commit ef31cc7) *)
  cf_fix_value : bool;   (* true: a non-numeric Delay value or onset leaves the group in place (fix commit e4bce88) *)
  cf_fix_mask : bool     (* true: the onset mask of _run_checks is indexed by row label (fix commit c357095) *)
}.

(* ------------------------------------------------------------------ units *)

(* HedTag.value_as_default_unit: returns a float, None, or raises.
   UCase true: get_conversion_factor does float(self.derivative_units.get(unit_name)) = float(None). *)
Definition value_as_default_unit (fixed : bool) (d : delay) : res (option Z) :=
  let number := match d_num d with Some v => Ok (Some v) | None => Exn ValueError end in
  match d_unit d with
  | UNone => number
  | UKey true => number
  | UKey false => Ok None
  | UCase true => if fixed then number else Exn TypeError
  | UCase false => Ok None
  | UBad => Ok None
  end.

(* ------------------------------------------------------------------ sorting *)

(* order of pd.to_numeric(...) keys under sort_values: NaN last *)
Definition key_le (a b : option Z) : bool :=
  match a, b with
  | Some x, Some y => (x <=? y)%Z
  | Some _, None => true
  | None, None => true
  | None, Some _ => false
  end.

Section Sort.
  Variable A : Type.
  Variable key : A -> option Z.
  Fixpoint insert (x : A) (l : list A) : list A :=
    match l with
    | [] => [x]
    | y :: l' => if key_le (key x) (key y) then x :: y :: l' else y :: insert x l'
    end.
  (* stable sort (df.sort_values on the numeric onset; see TRUSTED for kind='quicksort') *)
  Fixpoint sort_by (l : list A) : list A :=
    match l with
    | [] => []
    | x :: l' => insert x (sort_by l')
    end.
End Sort.
Arguments insert {A} key x l.
Arguments sort_by {A} key l.

(* Series.is_monotonic_increasing of the numeric onsets: non-decreasing and no NaN *)
Fixpoint mono_from (a : Z) (l : list (option Z)) : bool :=
  match l with
  | [] => true
  | None :: _ => false
  | Some b :: l' => (a <=? b)%Z && mono_from b l'
  end.
Definition monotonic (l : list (option Z)) : bool :=
  match l with
  | [] => true
  | None :: _ => false
  | Some a :: l' => mono_from a l'
  end.

(* BaseInput.needs_sorting *)
Definition needs_sorting (cfg : config) (t : list row) : bool :=
  cf_has_onset cfg && negb (monotonic (map r_onset t)).

Fixpoint indexed_from (i : nat) (t : list row) : list drow :=
  match t with
  | [] => []
  | r :: t' => {| dr_label := i; dr_onset := r_onset r; dr_body := r_body r |} :: indexed_from (S i) t'
  end.
Definition indexed (t : list row) : list drow := indexed_from 0 t.

(* df_util._handle_curly_braces_refs on a frame whose index is not 0..n-1 in order:
   new_df[col] = pd.Series(<values by POSITION>) is aligned by index LABEL, so the row labelled p
   receives the content computed from the row at position p.  (Only the assembled content moves; the
   onset column is read from _dataframe and keeps its label.) *)
Definition realign (data : list drow) : list drow :=
  map (fun d => {| dr_label := dr_label d; dr_onset := dr_onset d;
                   dr_body := match nth_error data (dr_label d) with
                              | Some s => dr_body s
                              | None => dr_body d
                              end |}) data.

(* ------------------------------------------------------------------ Delay split *)

Definition ids_of (b : body) : list N :=
  map c_id (filter (fun c => negb (c_skip c)) (b_cells b)).

(* one iteration of the inner loop of split_delay_tags: Ok (Some t) = the group moves to time t,
   Ok None = the group stays in its row (repaired code only), Exn = the loop raises.
   unrepaired:   onset_mod = tag.value_as_default_unit() + float(onsets[i])
   fix commit ef31cc7:       delay = tag.value_as_default_unit(); if delay is None: continue
   fix commit e4bce88:       try: delay = ...; onset = float(onsets[i])   except ValueError: continue
                 if delay is None or math.isnan(onset): continue *)
Definition delay_decision (cfg : config) (o : option Z) (d : delay) : res (option Z) :=
  let value := value_as_default_unit (cf_fixed cfg) d in
  let onset := match o with Some z => Ok z | None => Exn ValueError end in   (* float("n/a") *)
  if cf_fix_value cfg then
    match value with
    | Exn ValueError => Ok None
    | Exn e => Exn e
    | Ok v =>
        match onset with
        | Exn _ => Ok None
        | Ok z => match v with
                  | Some v' => Ok (Some (v' + z)%Z)
                  | None => if cf_fix_none cfg then Ok None else Exn TypeError   (* None + float *)
                  end
        end
    end
  else
    let* v := value in
    match v with
    | None => if cf_fix_none cfg then Ok None else (let* _ := onset in Exn TypeError)
    | Some v' => let* z := onset in Ok (Some (v' + z)%Z)
    end.

(* inner loop of split_delay_tags for one row: the pseudo rows and the positions of the removed groups *)
Fixpoint delay_rows (cfg : config) (o : option Z) (lbl : nat) (ids : list N) (k : nat)
         (ds : list delay) : res (list srow * list nat) :=
  match ds with
  | [] => Ok ([], [])
  | d :: ds' =>
      let* dec := delay_decision cfg o d in
      let* rest := delay_rows cfg o lbl ids (S k) ds' in
      match dec with
      | Some t => Ok ({| s_time := Some t; s_ann := [PDelay ids k]; s_orig := lbl |} :: fst rest, k :: snd rest)
      | None => Ok rest
      end
  end.

(* one row of the series: its own row of split_df (HED updated) and the appended pseudo rows *)
Definition split_row (cfg : config) (d : drow) : res (srow * list srow) :=
  let ids := ids_of (dr_body d) in
  if b_delaytext (dr_body d)
  then let* r := delay_rows cfg (dr_onset d) (dr_label d) ids 0 (b_delays (dr_body d)) in
       Ok ({| s_time := dr_onset d; s_ann := [PRem ids (snd r)]; s_orig := dr_label d |}, fst r)
  else Ok ({| s_time := dr_onset d; s_ann := [PCells ids]; s_orig := dr_label d |}, []).

Definition blank (r : srow) : srow := {| s_time := s_time r; s_ann := []; s_orig := s_orig r |}.

(* filter_series_by_onset on a sorted frame: the rows of one onset value are consecutive; the first
   of them receives ",".join of all, the others "" ; NaN rows receive "". *)
Fixpoint merge_same_onset (l : list srow) : list srow :=
  match l with
  | [] => []
  | r :: l' =>
      match s_time r with
      | None => blank r :: merge_same_onset l'
      | Some z =>
          match merge_same_onset l' with
          | nxt :: m' =>
              match s_time nxt with
              | Some z' => if (z =? z')%Z
                           then {| s_time := s_time r; s_ann := s_ann r ++ s_ann nxt; s_orig := s_orig r |}
                                  :: blank nxt :: m'
                           else r :: nxt :: m'
              | None => r :: nxt :: m'
              end
          | [] => [r]
          end
      end
  end.

(* df_util.split_delay_tags: rows of the series first, pseudo rows appended in processing order *)
Definition split_delay_tags (cfg : config) (data : list drow) : res (list srow) :=
  let* rs := mapM (split_row cfg) data in
  Ok (merge_same_onset (sort_by s_time (map fst rs ++ concat (map snd rs)))).

Definition is_some {A} (o : option A) : bool := match o with Some _ => true | None => false end.

Inductive mask_kind : Set := MPos (m : list bool) | MLabel.

(* operations on ONE input object (BaseInput): in-place edits of the table it holds -- set_cell,
   convert_to_short/long, writes through .dataframe -- seen here as "row k now has this content", and validate *)
Inductive op : Set := OSet (k : nat) (r : row) | OValidate.

(* self._dataframe.iloc[k, c] = text *)
Fixpoint set_row (k : nat) (r : row) (t : list row) : res (list row) :=
  match t, k with
  | [], _ => Exn IndexError
  | _ :: t', 0 => Ok (r :: t')
  | x :: t', S k' => let* t'' := set_row k' r t' in Ok (x :: t'')
  end.

(* ------------------------------------------------------------------ issues *)

Section Validate.
  Variable raw : Type.                       (* an issue of the string-level validator *)
  Variable raw_is_error : raw -> bool.       (* issue['severity'] < ErrorSeverity.WARNING *)
  Variable basic : N -> list raw.            (* HedValidator.run_basic_checks(HedString(cell)) *)
  Variable full : ann -> list raw.           (* HedValidator.run_full_string_checks *)
  Variable banned : ann -> list raw.         (* OnsetValidator.check_for_banned_tags *)
  Variable nonempty : ann -> bool.           (* bool(HedString(text)) *)
  Variable tstate : Type.                    (* OnsetValidator._onsets *)
  Variable temporal : tstate -> ann -> tstate * list raw.   (* validate_temporal_relations *)
  Variable tinit : tstate.
  Variable pre post : list raw.              (* check_for_mapping_issues / INVALID_COLUMN_REF (no row, no column) *)

  Inductive src : Type :=
  | SBasic (x : raw) | SFull (x : raw) | SBanned (x : raw) | STemporal (x : raw)
  | SPre (x : raw) | SPost (x : raw) | SUnordered | SKeyMissing.

  (* ec_row / ec_column of the issue dict *)
  Record issue : Type := { i_src : src; i_row : option nat; i_col : option N }.
  Definition mk (s : src) (r : option nat) (c : option N) : issue := {| i_src := s; i_row := r; i_col := c |}.

  Definition truthy (a : ann) : bool := match a with [] => false | _ => nonempty a end.

  (* _validate_column_structure *)
  Definition key_issues (adj : nat) (c : N) (data : list drow) : list issue :=
    flat_map (fun d => if existsb (N.eqb c) (b_badkeys (dr_body d))
                       then [mk SKeyMissing (Some (dr_label d + adj)) (Some c)] else []) data.
  Definition column_structure (cfg : config) (adj : nat) (t : list row) : list issue :=
    map (fun x => mk (SPre x) None None) pre
    ++ flat_map (fun c => key_issues adj c (indexed t)) (cf_cats cfg)
    ++ map (fun x => mk (SPost x) None None) post.

  (* inner loop of _run_checks; second component = new_column_issues after the loop
     (the issues of the LAST non-skipped cell only) *)
  Fixpoint cells_loop (rl : nat) (cells : list cell) (last : list raw) : list issue * list raw :=
    match cells with
    | [] => ([], last)
    | c :: cs =>
        if c_skip c then cells_loop rl cs last
        else let b := basic (c_id c) in
             let '(iss, last') := cells_loop rl cs b in
             (map (fun x => mk (SBasic x) (Some rl) (Some (c_col c))) b ++ iss, last')
    end.

  (* onset_mask[row]: unrepaired = onset_mask.iloc[row_number] on the mask of the SORTED SPLIT frame;
     repaired (fix commit c357095) = onset_mask.loc[row_number] on a mask with the index of the frame being iterated
     (unique labels), i.e. the row's own "onset is numeric" flag *)
  Definition mask_lookup (mask : mask_kind) (d : drow) : res bool :=
    match mask with
    | MPos m => match nth_error m (dr_label d) with
                | Some b => Ok b
                | None => Exn IndexError
                end
    | MLabel => Ok (is_some (dr_onset d))
    end.

  (* one iteration of the row loop of _run_checks: issues, and whether the row joins invalid_original_rows *)
  Definition row_checks (adj : nat) (mask : option mask_kind) (d : drow) : res (list issue * bool) :=
    let rl := dr_label d + adj in
    let '(iss, last) := cells_loop rl (b_cells (dr_body d)) [] in
    if existsb raw_is_error last then Ok (iss, true)
    else
      let ids := ids_of (dr_body d) in
      let* skip := match ids with
                   | [] => Ok true                             (* not row_strings *)
                   | _ => match mask with
                          | None => Ok false
                          | Some m => mask_lookup m d
                          end
                   end in
      if skip then Ok (iss, false)
      else
        let a := [PJoin ids] in
        if truthy a
        then Ok (iss ++ map (fun x => mk (SFull x) (Some rl) None) (full a)
                    ++ map (fun x => mk (SBanned x) (Some rl) None) (banned a), false)
        else Ok (iss, false).

  (* _run_checks: issues and invalid_original_rows *)
  Fixpoint run_checks (adj : nat) (mask : option mask_kind) (data : list drow)
    : res (list issue * list nat) :=
    match data with
    | [] => Ok ([], [])
    | d :: data' =>
        let* r := row_checks adj mask d in
        let* rest := run_checks adj mask data' in
        Ok (fst r ++ fst rest, (if snd r then [dr_label d] else []) ++ snd rest)
    end.

  (* _run_onset_checks *)
  Fixpoint onset_checks (adj : nat) (invalid : list nat) (st : tstate) (rows : list srow) : list issue :=
    match rows with
    | [] => []
    | r :: rs =>
        if existsb (Nat.eqb (s_orig r)) invalid then onset_checks adj invalid st rs
        else if truthy (s_ann r)
        then let '(st', ti) := temporal st (s_ann r) in
             map (fun x => mk (SFull x) (Some (s_orig r + adj)) None) (full (s_ann r))
             ++ map (fun x => mk (STemporal x) (Some (s_orig r + adj)) None) ti
             ++ onset_checks adj invalid st' rs
        else onset_checks adj invalid st rs
    end.

  (* error_reporter.sort_issues: stable, key (ROW or -1, COLUMN or "") *)
  Definition opt_le {A} (le : A -> A -> bool) (a b : option A) : bool :=
    match a, b with
    | None, _ => true
    | Some _, None => false
    | Some x, Some y => le x y
    end.
  Definition opt_eq {A} (eq : A -> A -> bool) (a b : option A) : bool :=
    match a, b with
    | None, None => true
    | Some x, Some y => eq x y
    | _, _ => false
    end.
  Definition issue_le (a b : issue) : bool :=
    if opt_eq Nat.eqb (i_row a) (i_row b) then opt_le N.leb (i_col a) (i_col b)
    else opt_le Nat.leb (i_row a) (i_row b).
  Fixpoint insert_issue (x : issue) (l : list issue) : list issue :=
    match l with
    | [] => [x]
    | y :: l' => if issue_le x y then x :: y :: l' else y :: insert_issue x l'
    end.
  Fixpoint sort_issues (l : list issue) : list issue :=
    match l with
    | [] => []
    | x :: l' => insert_issue x (sort_issues l')
    end.

  Definition row_adj (cfg : config) : nat := if cf_header cfg then 2 else 1.

  (* the frame the checks run on: sorted copy when needed, then assembled *)
  Definition frame (cfg : config) (t : list row) : list drow :=
    let data := if needs_sorting cfg t then sort_by dr_onset (indexed t) else indexed t in
    if cf_has_refs cfg then realign data else data.

  (* SpreadsheetValidator.validate, before sort_issues *)
  Definition validate_unsorted (cfg : config) (t : list row) : res (list issue) :=
    let adj := row_adj cfg in
    let s := column_structure cfg adj t in
    let unord := if needs_sorting cfg t then [mk SUnordered None None] else [] in
    let data_a := frame cfg t in
    let* onsets := if cf_has_onset cfg
                   then (let* sp := split_delay_tags cfg data_a in Ok (Some sp))
                   else Ok None in
    let mask := option_map (fun sp => if cf_fix_mask cfg then MLabel
                                      else MPos (map (fun r => is_some (s_time r)) sp)) onsets in
    let* ci := run_checks adj mask data_a in
    let oi := match onsets with
              | Some rows => onset_checks adj (snd ci) tinit rows
              | None => []
              end in
    Ok (s ++ unord ++ fst ci ++ oi).

  Definition validate (cfg : config) (t : list row) : res (list issue) :=
    let* l := validate_unsorted cfg t in Ok (sort_issues l).

  (* a history of operations on one input object.  The only state of the object that validation reads is the
     table it currently holds (BaseInput._dataframe with its mapper): validate works on the assembled copy
     and on a sorted deep copy, stores nothing on the object, and an edit that raises leaves the table as it was. *)
  Inductive hres : Type := HSet (e : option exn) | HReport (r : res (list issue)).
  Fixpoint run_history (cfg : config) (t : list row) (ops : list op) : list hres :=
    match ops with
    | [] => []
    | OSet k r :: ops' =>
        match set_row k r t with
        | Ok t' => HSet None :: run_history cfg t' ops'
        | Exn e => HSet (Some e) :: run_history cfg t ops'
        end
    | OValidate :: ops' => HReport (validate cfg t) :: run_history cfg t ops'
    end.
End Validate.

Arguments SBasic {raw} x.
Arguments SFull {raw} x.
Arguments SBanned {raw} x.
Arguments STemporal {raw} x.
Arguments SPre {raw} x.
Arguments SPost {raw} x.
Arguments SUnordered {raw}.
Arguments SKeyMissing {raw}.
Arguments i_src {raw} i.
Arguments i_row {raw} i.
Arguments i_col {raw} i.
Arguments mk {raw} s r c.
Arguments HSet {raw} e.
Arguments HReport {raw} r.
