(* String helpers used by the validator model (Model/Validate.v).  Models only. *)
From Coq Require Import List NArith Arith Bool.
From HV Require Import Base.Str.
Import ListNotations.

Fixpoint memb (c : N) (s : str) : bool :=
  match s with
  | [] => false
  | x :: s' => N.eqb x c || memb c s'
  end.

(* membership in an ascending list of inclusive code-point ranges *)
Fixpoint in_ranges (c : N) (rs : list (N * N)) : bool :=
  match rs with
  | [] => false
  | (a, b) :: rs' =>
      if N.ltb c a then false
      else if N.leb c b then true
      else in_ranges c rs'
  end.

(* s.find(c): index of the first occurrence *)
Fixpoint find_char (c : N) (s : str) : option nat :=
  match s with
  | [] => None
  | x :: s' => if N.eqb x c then Some 0
               else match find_char c s' with Some i => Some (S i) | None => None end
  end.

(* s.split(c) *)
Fixpoint split_on (c : N) (s : str) : list str :=
  match s with
  | [] => [[]]
  | x :: s' =>
      match split_on c s' with
      | [] => [[]]                         (* unreachable *)
      | w :: ws => if N.eqb x c then [] :: w :: ws else (x :: w) :: ws
      end
  end.

Fixpoint ends_with (suf s : str) : bool :=
  match s with
  | [] => match suf with [] => true | _ => false end
  | _ :: s' => str_eqb suf s || ends_with suf s'
  end.

(* ASCII upper-case letters A-Z *)
Definition is_upper_ascii (c : N) : bool := (N.leb 65 c && N.leb c 90)%N.
Definition is_lower_ascii (c : N) : bool := (N.leb 97 c && N.leb c 122)%N.

(* str.casefold() restricted to ASCII (other code points are left unchanged; see TRUSTED) *)
Definition fold_char (c : N) : N := if is_upper_ascii c then (c + 32)%N else c.
Definition ascii_fold (s : str) : str := map fold_char s.

(* text before the first '/', and the text after it ("" when there is none): str.partition('/') *)
Fixpoint partition_slash (s : str) : str * str :=
  match s with
  | [] => ([], [])
  | c :: s' => if N.eqb c ch_slash then ([], s')
               else let '(a, b) := partition_slash s' in (c :: a, b)
  end.

(* stable insertion sort on string keys (list.sort(key=...) is stable) *)
Fixpoint insert_key {A} (x : str * A) (l : list (str * A)) : list (str * A) :=
  match l with
  | [] => [x]
  | y :: l' => if str_leb (fst x) (fst y) then x :: y :: l' else y :: insert_key x l'
  end.

Definition sort_key {A} (l : list (str * A)) : list (str * A) :=
  fold_right insert_key [] l.

Fixpoint remove_nth {A} (i : nat) (l : list A) : list A :=
  match l, i with
  | [], _ => []
  | _ :: l', 0 => l'
  | x :: l', S j => x :: remove_nth j l'
  end.
