(* C03 model, part 3: what is done with ONE schema object and with ONE HedTag object over time.
   A schema object is looked up and gets further vocabularies merged in (SchemaLoader with schema=existing:
   the entries are registered into the SAME tag section; the partnered library is built the same way on a
   copy of the cached standard schema).  A HedTag is read and mutated through its public operations.
   The code in /repo keeps no memo of lookups and no cached forms, so neither does this model: a lookup leaves
   the table as it is and reading/copying a tag is an identity step.  (That the implementation really has no
   such stale state is what the history runs of harness/c03_hist.py test.)
   Models only -- no proofs here. *)
From Coq Require Import List NArith Bool.
From HV Require Import Base.Str Base.Res Model.Schema Model.Resolve.
Import ListNotations.

Inductive sop :=
| SLookup (schema_ns text : str)      (* HedTag(text, schema) *)
| SMerge (names : list str).          (* further names registered in document order *)

(* HedTag operations: reading the forms, HedTag.replace_placeholder, the extension setter,
   the short_base_tag setter (expand_defs / shrink_defs), copy *)
Inductive top :=
| TRead
| TReplacePlaceholder (v : str)
| TSetExtension (x : str)
| TSetShortBase (y : str)
| TCopy.

(* str.replace("#", v) *)
Definition replace_hash (v s : str) : str :=
  flat_map (fun c => if N.eqb c ch_hash then v else [c]) s.

Section Fold.
  Variable foldc : N -> str.
  Variable fx : fixes.

  (* one operation on the object's tag section; a lookup leaves it as it is *)
  Definition sstep (st : res table) (o : sop) : res table * option (res hedtag) :=
    match o with
    | SLookup sns t => (st, Some (let* T := st in Ok (hedtag_init foldc fx T sns t)))
    | SMerge names => ((let* T := st in add_all foldc T names), None)
    end.

  Fixpoint srun (st : res table) (ops : list sop) : list (res hedtag) :=
    match ops with
    | [] => []
    | o :: r =>
        match sstep st o with
        | (st', Some a) => a :: srun st' r
        | (st', None) => srun st' r
        end
    end.

  (* the reference: every lookup answered from a table built from scratch out of the names merged so far *)
  Fixpoint sref (names : list str) (ops : list sop) : list (res hedtag) :=
    match ops with
    | [] => []
    | SLookup sns t :: r => resolve foldc fx names sns t :: sref names r
    | SMerge more :: r => sref (names ++ more) r
    end.

  Fixpoint merged (ops : list sop) : list str :=
    match ops with
    | [] => []
    | SLookup _ _ :: r => merged r
    | SMerge more :: r => more ++ merged r
    end.

  (* one operation on a HedTag; ValueError = short_base_tag setter on an unidentified tag *)
  Definition tstep (T : table) (schema_ns : str) (h : hedtag) (o : top) : res hedtag :=
    match o with
    | TRead | TCopy => Ok h
    | TReplacePlaceholder v =>
        match ht_entry h with
        | Some _ => Ok (mkHedTag (ht_text h) (ht_ns h) (ht_entry h) (replace_hash v (ht_ext h)))
        | None => Ok (mkHedTag (replace_hash v (ht_text h)) (ht_ns h) None (ht_ext h))
        end
    | TSetExtension x => Ok (mkHedTag (ht_text h) (ht_ns h) (ht_entry h) (ch_slash :: x))
    | TSetShortBase y =>
        match ht_entry h with
        | None => Exn ValueError
        | Some e =>
            let name := if ends_slash_hash (e_name e) then y ++ s_slash_hash else y in   (* is_takes_value_tag *)
            let name := if prefixb schema_ns name then skipn (length schema_ns) name else name in
            let e' := if str_eqb (ht_ns h) schema_ns then get_entry foldc T name else None in
            Ok (mkHedTag (ht_text h) (ht_ns h) e' (ht_ext h))
        end
    end.

  Fixpoint trun (T : table) (schema_ns : str) (h : hedtag) (ops : list top) : res hedtag :=
    match ops with
    | [] => Ok h
    | o :: r => let* h' := tstep T schema_ns h o in trun T schema_ns h' r
    end.

  Definition mutating (o : top) : bool :=
    match o with TRead | TCopy => false | _ => true end.
End Fold.
