(* C05 (d): one row of the TSV tag table <-> entry.  Model only.  The cell layer
   (pandas to_csv with QUOTE_NONE / read_csv) is outside the model.

   Python sources (hed/schema/schema_io):
     schema2df.py  Schema2DF._write_tag_entry / _attribute_disallowed
     df2schema.py  SchemaLoaderDF._get_tag_name / _create_entry / _get_tag_attributes
     df_util.py    get_attributes_from_row                                        *)
From Coq Require Import List NArith ZArith Arith Bool.
From HV Require Import Base.Res Base.Str Base.StrOps Model.AttrCodec Model.WikiCodec.
Import ListNotations.

Definition s_dash_hash : str := [45;35]%N.
Definition s_True : str := [84;114;117;101]%N.

Record tsv_row : Set := mkRow {
  r_hed_id : str;
  r_name : str;
  r_attributes : str;
  r_description : option str }.       (* None is written as an empty cell *)

(* Schema2DF._write_tag_entry (the columns the reader uses) *)
Definition tsv_write_tag_row (strip_out_in_library : bool) (name : str) (a : attrs)
           (desc : option str) : tsv_row :=
  let tag_id := match dict_get s_hedId a with
                | Some (AStr v) => v
                | Some ATrue => s_True
                | None => []
                end in
  mkRow tag_id
        (if endswith [ch_hash] name then short_tag_name name ++ s_dash_hash else short_tag_name name)
        (format_tag_attributes (attribute_disallowed_df strip_out_in_library) a)
        desc.

(* Schema2DF._write_entry for a unit class / unit / modifier / value class row.  [fixed] = false is the
   code before fix commit 8fb8446 (finding C05-F4), which ignored include_props; the repaired code writes a
   stub (name only) when include_props is False. *)
Definition tsv_write_entry_row (fixed strip_out_in_library include_props : bool) (name : str) (a : attrs)
           (desc : option str) : tsv_row :=
  let props := if fixed then include_props else true in
  let tag_id := match dict_get s_hedId a with
                | Some (AStr v) => v
                | Some ATrue => s_True
                | None => []
                end in
  mkRow (if props then tag_id else [])
        name
        (if props then format_tag_attributes (attribute_disallowed_df strip_out_in_library) a else [])
        (if props then desc else None).

(* SchemaLoader._add_to_dict_base: a library entry without inLibrary gets it *)
Definition tag_with_library (library : str) (a : attrs) : attrs :=
  match dict_get s_inLibrary a with
  | Some _ => a
  | None => dict_set s_inLibrary (AStr library) a
  end.

(* HedSchemaUnitClassSection._check_if_duplicate: the entry is a placeholder for an existing class *)
Definition unit_class_stub (a : attrs) : bool :=
  match a with
  | [(k, _)] => str_eqb k s_inLibrary
  | _ => false
  end.

(* SchemaLoaderDF._create_entry without the schema object *)
(* [fixed5] = true: with fix commit 4b4f5c6 (C05-F5) the name cell loses its outer white space first (_get_tag_name) *)
Definition tsv_read_row (fixed5 : bool) (r : tsv_row) : res (str * attrs * option str) :=
  let base_tag_name := if fixed5 then strip (r_name r) else r_name r in
  let element_name := if endswith s_dash_hash base_tag_name then [ch_hash] else base_tag_name in
  match parse_attribute_string (r_attributes r) with
  | Exn ValueError =>
      (* _get_tag_attributes records the error and returns None *)
      if nonempty (r_hed_id r) then Exn TypeError else Exn AttributeError
  | Exn e => Exn e
  | Ok node_attributes =>
      let node_attributes :=
          if nonempty (r_hed_id r) then dict_set s_hedId (AStr (r_hed_id r)) node_attributes
          else node_attributes in
      let description := match r_description r with
                         | Some (c :: d) => Some (strip (c :: d))
                         | _ => None
                         end in
      let kept := filter (fun kv => match snd kv with AStr [] => false | _ => true end)
                         node_attributes in
      Ok (element_name, kept, description)
  end.

Definition tsv_desc_ok (d : option str) : bool :=
  match d with None => true | Some s => nonempty s && no_outer_ws s end.
