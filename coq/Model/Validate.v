(* Model of the string validator skeleton:
     hed/validator/hed_validator.py   HedValidator.validate / run_basic_checks / run_full_string_checks /
                                      _run_hed_string_validators / check_tag_formatting / validate_units /
                                      _validate_individual_tags_in_hed_string
     hed/validator/util/char_util.py  CharValidator.check_invalid_character_issues / check_tag_invalid_chars /
                                      check_for_invalid_extension_chars / _check_invalid_chars / _check_invalid_prefix_issues
     hed/validator/util/string_util.py StringValidator.run_string_validator / check_delimiter_issues_in_hed_string
                                      (check_count_tag_group_parentheses = Model/Parse.v paren_mismatch)
     hed/validator/util/tag_util.py   TagValidator.run_individual_tag_validators and its five checks
     hed/validator/util/group_util.py GroupValidator.* (placement, required, unique, duplicates, duration groups)
     hed/validator/def_validator.py   DefValidator.validate_def_tags / validate_onset_offset (dispatch part)
     hed/models/hed_group.py          get_all_tags / get_all_groups / tags / groups / _sorted / __eq__ / find_def_tags
     hed/models/hed_tag.py            org_base_tag / extension / short_tag / __str__ / __eq__ / _get_schema_namespace
     hed/models/hed_string.py         find_top_level_tags
   Facts that belong to other layers (tag resolution, unit/value class verdicts, definition lookups) are inputs:
   record [tagfacts].  Models only -- proofs live in Proofs/ValidateProofs.v. *)
From Coq Require Import List NArith Arith Bool.
From HV Require Import Base.Res Base.Str Model.Parse Model.ValKinds Model.ValStr.
From HV Require Import Gen.ValidationCodes Gen.UniRanges01.
Import ListNotations.

(* ---------- Unicode predicates (tables generated from CPython, Gen/UniRanges01.v) ---------- *)
Definition isprintable (c : N) : bool := negb (in_ranges c nonprintable_ranges).
Definition isalnum (c : N) : bool := in_ranges c alnum_ranges.
Definition isalpha (c : N) : bool := in_ranges c alpha_ranges.

(* ---------- issues ---------- *)
(* ErrorHandler.format_error: code = actual_error if given, else the decorator's actual_code *)
Definition icode (i : issue) : str :=
  match io i with Some o => ocode_str o | None => kind_code (ik i) end.
Definition isev (i : issue) : sev := kind_sev (ik i).
Definition is_err (i : issue) : bool := match isev i with Error => true | Warning => false end.
(* error_reporter.check_for_any_errors *)
Definition has_error (l : list issue) : bool := existsb is_err l.
Definition errors (l : list issue) : list issue := filter is_err l.
Definition error_codes (l : list issue) : list str := map icode (errors l).

Record config := mkCfg {
  c_ph : bool;              (* allow_placeholders *)
  c_modern : bool;          (* hed_schema.schema_83_props *)
  c_defs_allowed : bool;    (* HedValidator(definitions_allowed=...) ; False for HedString.validate *)
  c_required : list str;    (* casefolded long names of tags with the `required` attribute *)
  c_unique : list str       (* casefolded long names of tags with the `unique` attribute *)
}.

(* ---------- per-tag facts supplied by the other layers ---------- *)
Record tagfacts := mkTF {
  tf_org : str;                       (* org_tag *)
  tf_short_fold : str;                (* short_tag.casefold() *)
  tf_resolved : bool;                 (* bool(_schema_entry) *)
  tf_res_issues : list issue;         (* issues of tag._calculate_to_canonical_forms(schema) *)
  tf_ext_len : nat;                   (* len(_extension_value) (includes the leading '/') *)
  tf_sbase : str;                     (* _schema_entry.short_tag_name *)
  tf_long_fold : str;                 (* long_tag.casefold() *)
  tf_takes_value : bool;              (* is_takes_value_tag() *)
  tf_ext_allowed : bool;              (* has_attribute(extensionAllowed) *)
  tf_require_child : bool;            (* has_attribute(requireChild) *)
  tf_deprecated : bool;               (* has_attribute(deprecatedFrom) *)
  tf_tag_group : bool;                (* base_tag_has_attribute(tagGroup) *)
  tf_top_level : bool;                (* base_tag_has_attribute(topLevelTagGroup) *)
  tf_unit_class : bool;               (* is_unit_class_tag() *)
  tf_value_class : bool;              (* is_value_class_tag() *)
  tf_units : res (list issue);        (* check_tag_unit_class_units_are_valid(tag, extension) *)
  tf_values : res (list issue);       (* check_tag_value_class_valid(tag, extension) *)
  tf_units_d : res (list issue);      (* the same two on extension[:-2] (Definition/x/#) *)
  tf_values_d : res (list issue);
  tf_def_units : res (list issue);    (* DefValidator.validate_def_value_units(tag, validator, allow_placeholders) *)
  tf_def_contents : res (list issue); (* DefValidator._validate_def_contents(tag, tag or its Def-expand group) *)
  tf_def_known : bool;                (* defs.get(label.casefold()) is not None *)
  tf_def_takes_value : bool           (* bool(def_entry.takes_value) *)
}.

Inductive fnode :=
| FTag (t : tagfacts)
| FGroup (ch : list fnode).

(* ---------- HedTag string properties ---------- *)
(* HedTag._get_schema_namespace *)
Definition tag_namespace (org : str) : str :=
  match find_char 58%N org with
  | None => []
  | Some ci =>
      match find_char ch_slash org with
      | Some si => if Nat.ltb si ci then [] else firstn (S ci) org
      | None => firstn (S ci) org
      end
  end.

(* _extension_value: the tail of org_tag that is not part of the base tag *)
Definition ext_tail (t : tagfacts) : str :=
  if tf_resolved t then skipn (length (tf_org t) - tf_ext_len t) (tf_org t) else [].
(* HedTag.extension = _extension_value[1:] *)
Definition extension (t : tagfacts) : str := tl (ext_tail t).
(* HedTag.org_base_tag *)
Definition org_base (t : tagfacts) : str :=
  if tf_resolved t then firstn (length (tf_org t) - tf_ext_len t) (tf_org t) else tf_org t.
(* HedTag.short_base_tag *)
Definition sbase_of (t : tagfacts) : str := if tf_resolved t then tf_sbase t else tf_org t.
(* HedTag.__str__ = short_tag *)
Definition tstr (t : tagfacts) : str :=
  if tf_resolved t then tag_namespace (tf_org t) ++ tf_sbase t ++ ext_tail t else tf_org t.
(* HedTag.__eq__ (as repaired by fix commit 2492808: case-folded short forms) *)
Definition tag_eqb (a b : tagfacts) : bool := str_eqb (tf_short_fold a) (tf_short_fold b).
(* HedTag.is_basic_tag *)
Definition is_basic (t : tagfacts) : bool :=
  tf_resolved t && match extension t with [] => true | _ => false end.

(* ---------- tree traversals (hed_group.py) ---------- *)
Fixpoint all_tags_n (n : fnode) : list tagfacts :=
  match n with
  | FTag t => [t]
  | FGroup ch => flat_map all_tags_n ch
  end.
(* get_all_tags: document order *)
Definition all_tags (f : list fnode) : list tagfacts := flat_map all_tags_n f.

Fixpoint groups_n (n : fnode) : list (list fnode) :=
  match n with
  | FTag _ => []
  | FGroup ch => ch :: flat_map groups_n ch
  end.
(* get_all_groups below a list of children (pre-order), each group given by its children *)
Definition sub_groups (f : list fnode) : list (list fnode) := flat_map groups_n f.

Definition tags_of (ch : list fnode) : list tagfacts :=
  flat_map (fun n => match n with FTag t => [t] | FGroup _ => [] end) ch.
Definition groups_of (ch : list fnode) : list (list fnode) :=
  flat_map (fun n => match n with FTag _ => [] | FGroup g => [g] end) ch.

(* HedGroup.__str__ *)
Fixpoint node_str (n : fnode) : str :=
  match n with
  | FTag t => tstr t
  | FGroup ch => [ch_open] ++ join [ch_comma] (map node_str ch) ++ [ch_close]
  end.
Definition forest_str (f : list fnode) : str := join [ch_comma] (map node_str f).

(* HedGroup.__eq__ on two parenthesised groups / list equality of children *)
Fixpoint node_eqb (a b : fnode) : bool :=
  match a, b with
  | FTag x, FTag y => tag_eqb x y
  | FGroup l1, FGroup l2 =>
      (fix go (l1 l2 : list fnode) : bool :=
         match l1, l2 with
         | [], [] => true
         | p :: l1', q :: l2' => node_eqb p q && go l1' l2'
         | _, _ => false
         end) l1 l2
  | _, _ => false
  end.
Definition children_eqb (a b : list fnode) : bool := node_eqb (FGroup a) (FGroup b).

(* canonical printer used by the theorems: the original-form text joined with "," *)
Fixpoint fprint_n (n : fnode) : str :=
  match n with
  | FTag t => tf_org t
  | FGroup ch => [ch_open] ++ join [ch_comma] (map fprint_n ch) ++ [ch_close]
  end.
Definition fprint (f : list fnode) : str := join [ch_comma] (map fprint_n f).

(* ====================================================================================== *)
(* Phase B1: _run_hed_string_validators                                                    *)
(* ====================================================================================== *)

(* CharValidator.check_invalid_character_issues *)
Definition char_invalid (cfg : config) (c : N) : bool :=
  let inv := if c_ph cfg then c_INVALID_STRING_CHARS_PLACEHOLDERS else c_INVALID_STRING_CHARS in
  if c_modern cfg then memb c inv || negb (isprintable c)
  else memb c inv || N.ltb 127 c.
(* _report_invalid_character_error *)
Definition report_char (c : N) : issue :=
  if N.eqb c 126 then iss K_TILDES_UNSUPPORTED else iss K_CHARACTER_INVALID.
Definition check_chars (cfg : config) (s : str) : list issue :=
  flat_map (fun c => if char_invalid cfg c then [report_char c] else []) s.

(* StringValidator.check_count_tag_group_parentheses (as repaired by fix commit 5df7886) *)
Definition check_parens (s : str) : list issue :=
  if paren_mismatch s then [iss K_PARENTHESES_MISMATCH] else [].

(* StringValidator.check_delimiter_issues_in_hed_string: the character state machine.
   d_cur = current_tag without its last character, reversed; the test
   `current_tag.strip() == current_character` (current_character not whitespace) holds iff
   everything before it in current_tag is whitespace.  d_stop = the loop hit `break`. *)
Record dst := mkD { d_last : option N; d_cur : str; d_iss : list issue; d_stop : bool }.
Definition d0 : dst := mkD None [] [] false.
Definition opt_is (o : option N) (c : N) : bool :=
  match o with Some x => N.eqb x c | None => false end.

Definition dstep (st : dst) (c : N) : dst :=
  if d_stop st then st else
  let cur := c :: d_cur st in
  if isspace c then mkD (d_last st) cur (d_iss st) false                     (* continue *)
  else if N.eqb c ch_comma then                                               (* _character_is_delimiter *)
    if forallb isspace (d_cur st)
    then mkD (d_last st) [] (iss K_TAG_EMPTY :: d_iss st) false               (* continue: last not updated *)
    else mkD (Some c) [] (d_iss st) false
  else if N.eqb c ch_open then
    if forallb isspace (d_cur st)
    then mkD (Some c) [] (d_iss st) false
    else mkD (Some c) cur (iss K_COMMA_MISSING :: d_iss st) false
  else if opt_is (d_last st) ch_comma && N.eqb c ch_close
    then mkD (Some c) cur (iss K_TAG_EMPTY :: d_iss st) false
  else if opt_is (d_last st) ch_close && negb (N.eqb c ch_comma || N.eqb c ch_close)
    then mkD (d_last st) cur (iss K_COMMA_MISSING :: d_iss st) true            (* break *)
  else mkD (Some c) cur (d_iss st) false.

Definition drun (st : dst) (s : str) : dst := fold_left dstep s st.
Definition dfinish (st : dst) : list issue :=
  rev (if opt_is (d_last st) ch_comma then iss K_TAG_EMPTY :: d_iss st else d_iss st).
Definition check_delims (s : str) : list issue := dfinish (drun d0 s).

(* HedValidator.check_tag_formatting: matches of  [ \t/]{2,}|^/|/$  in org_tag, left to right *)
Definition is_sl (c : N) : bool := N.eqb c 32 || N.eqb c 9 || N.eqb c ch_slash.
Fixpoint run_len (s : str) : nat :=
  match s with
  | c :: s' => if is_sl c then S (run_len s') else 0
  | [] => 0
  end.
(* `$`: end of string, or just before a final newline *)
Definition at_end (s : str) : bool :=
  match s with [] => true | [c] => N.eqb c 10 | _ => false end.
Fixpoint fmt_scan (skip : nat) (at_start : bool) (s : str) : nat :=
  match s with
  | [] => 0
  | c :: s' =>
      match skip with
      | S k => fmt_scan k false s'
      | 0 =>
          let r := run_len s in
          if Nat.leb 2 r then S (fmt_scan (r - 1) false s')
          else if at_start && N.eqb c ch_slash then S (fmt_scan 0 false s')
          else if N.eqb c ch_slash && at_end s' then S (fmt_scan 0 false s')
          else fmt_scan 0 false s'
      end
  end.
Definition check_tag_formatting (t : tagfacts) : list issue :=
  repeat (iss K_NODE_NAME_EMPTY) (fmt_scan 0 true (tf_org t)).

(* _run_hed_string_validators *)
Definition string_checks (cfg : config) (s : str) (f : list fnode) : list issue :=
  check_chars cfg s ++ (check_parens s ++ check_delims s) ++ flat_map check_tag_formatting (all_tags f).

(* ====================================================================================== *)
(* Phase B2: tag characters and resolution issues                                          *)
(* ====================================================================================== *)

(* CharValidator._check_invalid_chars *)
Definition invalid_chars (allowed : str) (s : str) : list issue :=
  flat_map (fun c => if isalnum c || memb c allowed || N.eqb c 58 then []
                     else [iss K_INVALID_TAG_CHARACTER]) s.

Definition str_isalpha (s : str) : bool :=
  match s with [] => false | _ => forallb isalpha s end.

(* CharValidator.check_tag_invalid_chars *)
Definition check_tag_invalid_chars (cfg : config) (t : tagfacts) : list issue :=
  let ns := tag_namespace (tf_org t) in
  let i_prefix := match ns with
                  | [] => []
                  | _ => if str_isalpha (removelast ns) then [] else [iss K_TAG_NAMESPACE_PREFIX_INVALID]
                  end in
  let allowed := if c_ph cfg then c_TAG_ALLOWED_CHARS ++ [ch_hash] else c_TAG_ALLOWED_CHARS in
  i_prefix ++ invalid_chars allowed (org_base t).

Definition tag_char_checks (cfg : config) (f : list fnode) : list issue :=
  flat_map (check_tag_invalid_chars cfg) (all_tags f).
(* HedString._calculate_to_canonical_forms *)
Definition resolution_issues (f : list fnode) : list issue :=
  flat_map tf_res_issues (all_tags f).

(* ====================================================================================== *)
(* Phase B3: individual tags and Def tags                                                  *)
(* ====================================================================================== *)

(* TagValidator.check_tag_exists_in_schema *)
Definition check_tag_exists (t : tagfacts) : list issue :=
  if is_basic t || tf_takes_value t then []
  else if negb (tf_ext_allowed t) then
    [mkIssue K_TAG_EXTENSION_INVALID (if memb ch_hash (extension t) then Some O_PLACEHOLDER_INVALID else None)]
  else [iss K_TAG_EXTENDED].

(* TagValidator.check_for_placeholder *)
Definition check_for_placeholder (is_def : bool) (t : tagfacts) : list issue :=
  if is_def then []
  else flat_map (fun c => if N.eqb c ch_hash then [isso K_INVALID_TAG_CHARACTER O_PLACEHOLDER_INVALID] else [])
                (extension t).

(* str.capitalize() on ASCII; TagValidator.check_capitalization:
   some name differs from its capitalised form and contains no [A-Z] *)
Definition capitalize_ascii (w : str) : str :=
  match w with
  | [] => []
  | c :: r => (if is_lower_ascii c then (c - 32)%N else c) :: map fold_char r
  end.
Definition cap_warn (base : str) : bool :=
  existsb (fun w => negb (str_eqb w (capitalize_ascii w)) && negb (existsb is_upper_ascii w))
          (split_on ch_slash base).

(* TagValidator.run_individual_tag_validators *)
Definition run_individual_tag_validators (cfg : config) (is_def : bool) (t : tagfacts) : list issue :=
  check_tag_exists t
  ++ (if c_ph cfg then [] else check_for_placeholder is_def t)
  ++ (if tf_require_child t then [iss K_TAG_REQUIRES_CHILD] else [])
  ++ (if tf_deprecated t then [iss K_ELEMENT_DEPRECATED] else [])
  ++ (if cap_warn (org_base t) then [iss K_STYLE_WARNING] else []).

(* CharValidator.check_for_invalid_extension_chars *)
Definition ext_allowed_chars : str :=
  c_TAG_ALLOWED_CHARS ++ c_DEFAULT_ALLOWED_PLACEHOLDER_CHARS ++ [ch_space].

(* HedValidator.validate_units(tag, validate_text) with the leaf verdicts as inputs *)
Definition validate_units (t : tagfacts) (text : str) (uf vf : res (list issue)) : res (list issue) :=
  if str_eqb text [ch_hash] then Ok []
  else if tf_unit_class t then uf
  else if tf_value_class t then vf
  else match extension t with
       | [] => Ok []
       | _ => Ok (invalid_chars ext_allowed_chars text)
       end.

(* the if/elif chain at the end of the inner loop of _validate_individual_tags_in_hed_string *)
Definition units_dispatch (cfg : config) (t : tagfacts) : res (list issue) :=
  let sb := sbase_of t in
  let ext := extension t in
  if str_eqb sb c_DEF_KEY || str_eqb sb c_DEF_EXPAND_KEY then tf_def_units t
  else if str_eqb sb c_DEFINITION_KEY && ends_with [ch_slash; ch_hash] ext
    then validate_units t (firstn (length ext - 2) ext) (tf_units_d t) (tf_values_d t)
  else if negb (c_ph cfg && memb ch_hash ext) then validate_units t ext (tf_units t) (tf_values t)
  else Ok [].

(* BAD_DEFINITION_LOCATION test *)
Definition definition_location (cfg : config) (t : tagfacts) : list issue :=
  if negb (c_defs_allowed cfg) && str_eqb (sbase_of t) c_DEFINITION_KEY
  then [iss K_BAD_DEFINITION_LOCATION] else [].

(* body of the inner loop of _validate_individual_tags_in_hed_string *)
Definition individual_tag (cfg : config) (is_def : bool) (t : tagfacts) : res (list issue) :=
  let* i_units := units_dispatch cfg t in
  Ok (definition_location cfg t ++ run_individual_tag_validators cfg is_def t ++ i_units).

(* first direct tag of a group whose casefolded short_base_tag is an anchor, with its child index *)
Fixpoint first_anchor (anchors : list str) (i : nat) (ch : list fnode) : option (tagfacts * nat) :=
  match ch with
  | [] => None
  | FTag t :: ch' =>
      if existsb (str_eqb (ascii_fold (sbase_of t))) anchors then Some (t, i)
      else first_anchor anchors (S i) ch'
  | FGroup _ :: ch' => first_anchor anchors (S i) ch'
  end.
(* HedString.find_top_level_tags(anchor_tags, include_groups=2): (tag, index in the group, group children) *)
Definition find_top_level (anchors : list str) (f : list fnode) : list (tagfacts * nat * list fnode) :=
  flat_map (fun g => match first_anchor (map ascii_fold anchors) 0 g with
                     | Some (t, i) => [(t, i, g)]
                     | None => []
                     end) (groups_of f).

Fixpoint mapM_cat {A} (g : A -> res (list issue)) (l : list A) : res (list issue) :=
  match l with
  | [] => Ok []
  | x :: l' => let* a := g x in let* b := mapM_cat g l' in Ok (a ++ b)
  end.

(* _validate_individual_tags_in_hed_string *)
Definition individual_checks (cfg : config) (f : list fnode) : res (list issue) :=
  let def_groups := map (fun x => snd x) (find_top_level [c_DEFINITION_KEY] f) in
  let all_def_groups := flat_map (fun g => g :: sub_groups g) def_groups in
  (* the HedString itself is never == a parenthesised group (is_group differs) *)
  let* i_root := mapM_cat (individual_tag cfg false) (tags_of f) in
  let* i_rest := mapM_cat (fun g => mapM_cat (individual_tag cfg (existsb (fun d => children_eqb g d) all_def_groups))
                                             (tags_of g)) (sub_groups f) in
  Ok (i_root ++ i_rest).

(* HedGroup._get_def_tags_from_group: (def tag, child index of the Def tag / of the Def-expand group) *)
Fixpoint def_tags_from (i : nat) (ch : list fnode) : list (tagfacts * nat) :=
  match ch with
  | [] => []
  | c :: ch' =>
      (match c with
       | FTag t => if str_eqb (sbase_of t) c_DEF_KEY then [(t, i)] else []
       | FGroup g => map (fun t => (t, i))
                         (filter (fun t => str_eqb (sbase_of t) c_DEF_EXPAND_KEY) (tags_of g))
       end) ++ def_tags_from (S i) ch'
  end.

(* DefValidator.validate_def_tags: find_def_tags(recursive=True) over get_all_groups *)
Definition def_tag_checks (f : list fnode) : res (list issue) :=
  mapM_cat (fun g => mapM_cat (fun x => tf_def_contents (fst x)) (def_tags_from 0 g)) (f :: sub_groups f).

(* ====================================================================================== *)
(* Phase F: run_full_string_checks                                                         *)
(* ====================================================================================== *)

(* GroupValidator.check_for_required_tags / check_multiple_unique_tags_exist *)
Definition check_required (cfg : config) (tags : list tagfacts) : list issue :=
  flat_map (fun p => if existsb (fun t => prefixb p (tf_long_fold t)) tags then []
                     else [iss K_REQUIRED_TAG_MISSING]) (c_required cfg).
Definition check_unique (cfg : config) (tags : list tagfacts) : list issue :=
  flat_map (fun p => if Nat.ltb 1 (length (filter (fun t => prefixb p (tf_long_fold t)) tags))
                     then [iss K_TAG_NOT_UNIQUE] else []) (c_unique cfg).

Definition str_mem (x : str) (l : list str) : bool := existsb (str_eqb x) l.
Fixpoint str_dedup (l : list str) : list str :=
  match l with
  | [] => []
  | x :: l' => if str_mem x l' then str_dedup l' else x :: str_dedup l'
  end.
Definition temporal_keys : list str := [c_ONSET_KEY; c_OFFSET_KEY; c_INSET_KEY].
Definition duration_keys : list str := [c_DURATION_KEY; c_DELAY_KEY].
Definition all_time_keys : list str := temporal_keys ++ duration_keys.

(* GroupValidator.check_tag_level_issue *)
Definition check_tag_level (tags : list tagfacts) (is_top is_group : bool) : list issue :=
  let tops := filter tf_top_level tags in
  let tgs := filter tf_tag_group tags in
  let i1 := flat_map (fun _ : tagfacts => if is_group then [] else [iss K_HED_TAG_GROUP_TAG]) tgs in
  let i2 := flat_map (fun t =>
              if is_top then []
              else (if str_eqb (sbase_of t) c_DEFINITION_KEY then [isso K_HED_TOP_LEVEL_TAG O_DEFINITION_INVALID]
                    else if str_mem (sbase_of t) all_time_keys then [isso K_HED_TOP_LEVEL_TAG O_TEMPORAL_TAG_ERROR]
                    else [])
                   ++ [iss K_HED_TOP_LEVEL_TAG]) tops in
  let i3 := if is_top && Nat.ltb 1 (length tops) then
              let shorts := str_dedup (map sbase_of tops) in
              let bad :=
                if negb (Nat.eqb (length shorts) (length tops)) then true
                else if negb (str_mem c_DELAY_KEY shorts) || negb (Nat.eqb (length shorts) 2) then true
                else negb (forallb (fun s => str_mem s all_time_keys)
                                   (filter (fun s => negb (str_eqb s c_DELAY_KEY)) shorts)) in
              if bad then [iss K_HED_MULTIPLE_TOP_TAGS] else []
            else [] in
  i1 ++ i2 ++ i3.

(* the per-group part of run_tag_level_validators *)
Definition group_level (ch : list fnode) (is_top is_group : bool) : list issue :=
  (match ch with [] => if is_group then [iss K_HED_GROUP_EMPTY] else [] | _ => [] end)
  ++ check_tag_level (tags_of ch) is_top is_group.

(* HedGroup._sort_key on a tag / an already sorted nested list: case-folded canonical text *)
Fixpoint canon (n : fnode) : str :=
  match n with
  | FTag t => tf_short_fold t
  | FGroup l => [ch_open] ++ join [ch_comma] (map canon l) ++ [ch_close]
  end.
(* the second, stable sort of _sorted: by canonical text *)
Definition resort (l : list fnode) : list fnode :=
  map snd (sort_key (map (fun n => (canon n, n)) l)).

(* HedGroup._sorted (as repaired by fix commit 7597eca): tags sorted by str and then (stably) by case-folded text, then groups
   sorted by the str of the group as written and then (stably) by the canonical text of the sorted group *)
Fixpoint sorted_n (n : fnode) : fnode :=
  match n with
  | FTag t => FTag t
  | FGroup ch =>
      let tags := flat_map (fun c => match c with FTag t => [(tstr t, FTag t)] | FGroup _ => [] end) ch in
      let grps := flat_map (fun c => match c with FGroup _ => [(node_str c, sorted_n c)] | FTag _ => [] end) ch in
      FGroup (resort (map snd (sort_key tags)) ++ resort (map snd (sort_key grps)))
  end.

(* GroupValidator._check_for_duplicate_groups_recursive on a sorted view (as repaired by fix commit 3e47c8c:
   `while isinstance(found_group, list) and found_group: found_group = found_group[0]`; when the walk ends in an
   empty list the issue is formatted with GroupValidator._sorted_text(child) -- the check never raises) *)
Fixpoint dup_n (n : fnode) : res (list issue) :=
  match n with
  | FTag _ => Ok []
  | FGroup ch =>
      (fix go (prev : option fnode) (l : list fnode) : res (list issue) :=
         match l with
         | [] => Ok []
         | c :: l' =>
             let same := match prev with Some p => node_eqb c p | None => false end in
             let* here := (if same then
                             match c with
                             | FTag _ => Ok [iss K_HED_TAG_REPEATED]
                             | FGroup _ => Ok [iss K_HED_TAG_REPEATED_GROUP]
                             end
                           else Ok []) in
             let* inner := dup_n c in
             let* rest := go (Some c) l' in
             Ok (here ++ inner ++ rest)
         end) None ch
  end.

(* RECORD of the repaired defect -- behaviour BEFORE fix commit 3e47c8c:
   `while isinstance(found_group, list): found_group = found_group[0]` raised IndexError when the repeated group
   held nothing but empty groups.  Not used by [validate]; kept for the regression Example in Props/C01.v. *)
Fixpoint first_leaf_ok (n : fnode) : bool :=
  match n with
  | FTag _ => true
  | FGroup [] => false
  | FGroup (c :: _) => first_leaf_ok c
  end.
Fixpoint dup_n_before_3e47c8c (n : fnode) : res (list issue) :=
  match n with
  | FTag _ => Ok []
  | FGroup ch =>
      (fix go (prev : option fnode) (l : list fnode) : res (list issue) :=
         match l with
         | [] => Ok []
         | c :: l' =>
             let same := match prev with Some p => node_eqb c p | None => false end in
             let* here := (if same then
                             match c with
                             | FTag _ => Ok [iss K_HED_TAG_REPEATED]
                             | FGroup _ => if first_leaf_ok c then Ok [iss K_HED_TAG_REPEATED_GROUP]
                                           else Exn IndexError
                             end
                           else Ok []) in
             let* inner := dup_n_before_3e47c8c c in
             let* rest := go (Some c) l' in
             Ok (here ++ inner ++ rest)
         end) None ch
  end.
Definition check_duplicates (f : list fnode) : res (list issue) := dup_n (sorted_n (FGroup f)).

(* body of the loop of GroupValidator.validate_duration_tags for one Duration/Delay group *)
Definition duration_group (g : list fnode) : list issue :=
  let tl := map sbase_of (filter tf_top_level (all_tags g)) in
  if existsb (fun s => str_mem s temporal_keys) tl then []
  else if negb (Nat.eqb (length tl) (length (tags_of g))) then
    flat_map (fun t => if str_mem (sbase_of t) tl then [] else [iss K_DURATION_HAS_OTHER_TAGS]) (tags_of g)
  else if negb (Nat.eqb (length (groups_of g)) 1) then [iss K_DURATION_WRONG_NUMBER_GROUPS]
  else [].

(* GroupValidator.validate_duration_tags *)
Definition validate_duration_tags (f : list fnode) : list issue :=
  flat_map (fun x : tagfacts * nat * list fnode => duration_group (snd x)) (find_top_level duration_keys f).

(* DefValidator._handle_onset_or_offset *)
Definition handle_onset_or_offset (dt : tagfacts) : list issue :=
  let '(_, placeholder) := partition_slash (extension dt) in
  if negb (tf_def_known dt) then [iss K_ONSET_DEF_UNMATCHED]
  else if negb (Bool.eqb (tf_def_takes_value dt) (match placeholder with [] => false | _ => true end))
    then [iss K_ONSET_PLACEHOLDER_WRONG]
  else [].

(* children of the temporal group other than the Def tag / Def-expand group (child index di), the
   Onset/Offset/Inset tag (child index oi) and Delay tags *)
Definition onset_children (g : list fnode) (di oi : nat) : list fnode :=
  filter (fun c => match c with
                   | FTag t => negb (str_eqb (sbase_of t) c_DELAY_KEY)
                   | FGroup _ => true
                   end)
         (map snd (filter (fun p : nat * fnode => negb (Nat.eqb (fst p) di) && negb (Nat.eqb (fst p) oi))
                          (combine (seq 0 (length g)) g))).
(* max_children *)
Definition onset_max (onset : tagfacts) : nat := if str_eqb (sbase_of onset) c_OFFSET_KEY then 0 else 1.

(* body of the loop of DefValidator.validate_onset_offset for one temporal group *)
Definition onset_group (onset : tagfacts) (oi : nat) (g : list fnode) : list issue :=
  match def_tags_from 0 g with
  | [] => [iss K_ONSET_NO_DEF_TAG_FOUND]
  | _ :: _ :: _ => [iss K_ONSET_TOO_MANY_DEFS]
  | [(dt, di)] =>
      let children := onset_children g di oi in
      if Nat.ltb (onset_max onset) (length children) then [iss K_ONSET_WRONG_NUMBER_GROUPS]
      else (match children with
            | FTag _ :: _ => [iss K_ONSET_TAG_OUTSIDE_OF_GROUP]
            | _ => []
            end) ++ handle_onset_or_offset dt
  end.

(* DefValidator.validate_onset_offset *)
Definition validate_onset_offset (f : list fnode) : list issue :=
  flat_map (fun x : tagfacts * nat * list fnode => let '(onset, oi, g) := x in onset_group onset oi g)
           (find_top_level temporal_keys f).

(* GroupValidator.run_all_tags_validators + run_tag_level_validators + validate_onset_offset *)
Definition full_checks (cfg : config) (f : list fnode) : res (list issue) :=
  let i_all := check_required cfg (all_tags f) ++ check_unique cfg (all_tags f) in
  let i_lvl := group_level f false false
               ++ flat_map (fun g => group_level g true true
                                     ++ flat_map (fun h => group_level h false true) (sub_groups g))
                           (groups_of f) in
  let* i_dup := check_duplicates f in
  Ok (i_all ++ (i_lvl ++ i_dup ++ validate_duration_tags f) ++ validate_onset_offset f).

(* ====================================================================================== *)
(* HedValidator.run_basic_checks / validate                                                *)
(* ====================================================================================== *)
Definition na_text : str := [110; 47; 97]%N.     (* "n/a" *)

Definition run_basic_checks (cfg : config) (s : str) (f : list fnode) : res (list issue) :=
  let i1 := string_checks cfg s f in
  if has_error i1 then Ok i1
  else if str_eqb (forest_str f) na_text then Ok i1            (* hed_string == "n/a" *)
  else
    let i2 := i1 ++ tag_char_checks cfg f ++ resolution_issues f in
    if has_error i2 then Ok i2
    else
      let* i3 := individual_checks cfg f in
      let* i4 := def_tag_checks f in
      Ok (i2 ++ i3 ++ i4).

Definition validate (cfg : config) (s : str) (f : list fnode) : res (list issue) :=
  let* b := run_basic_checks cfg s f in
  if has_error b then Ok b
  else let* fl := full_checks cfg f in Ok (b ++ fl).

(* what the theorems quantify over: the canonical text of a forest *)
Definition validate_forest (cfg : config) (f : list fnode) : res (list issue) :=
  validate cfg (fprint f) f.
