(* C20 -- consumer queries on a constructed EventManager (model only, no proofs).
   Transcribed from
     hed/tools/analysis/event_manager.py   EventManager.unfold_context / _get_base_contexts / _filter_hed
     hed/models/string_util.py             split_base_tags / split_def_tags (edit the object they are given)
     hed/tools/analysis/hed_tag_manager.py HedTagManager.__init__ / get_hed_objs

   What matters here is ALIASING: the manager's row annotations (self.hed_strings) are mutable HedString
   objects; _filter_hed builds HedString(str(hed)) -- a NEW object -- and split_base_tags/split_def_tags
   then remove tags from that object in place.  Objects live in a store (address = allocation order);
   the manager's row objects are the first addresses.  base/contexts are stored as str (immutable values).
   What removing the given types does to ONE top-level item (tag or group; with or without its enclosing
   group) is an abstract function [strip]: theorems hold for every such function. *)
From Coq Require Import List NArith ZArith Arith Bool.
From HV Require Import Base.Res Model.Events.
Import ListNotations.

Section Queries.
  (* strip remove_types remove_group item = what is left of the item *)
  Variable strip : list N -> bool -> item -> list item.

  Definition store := list (list item).          (* address -> content of the HedString object *)

  Record manager : Set := mkMgr {
    m_n : nat;                                   (* rows; row i's HedString object is at address i *)
    m_base : list (list item);                   (* self.base     : str per row *)
    m_ctx : list (list item) }.                  (* self.contexts : str per row *)

  (* str(obj) *)
  Definition read (s : store) (a : nat) : res (list item) :=
    match nth_error s a with Some c => Ok c | None => Exn IndexError end.

  (* HedString(text, ...) : a new object *)
  Definition alloc (s : store) (content : list item) : store * nat := (s ++ [content], length s).

  (* string_util.split_base_tags + split_def_tags on the object at address a: hed_string.remove(found) *)
  Definition split_in_place (s : store) (a : nat) (rt : list N) (rg : bool) : store :=
    upd s a (flat_map (strip rt rg)).

  (* EventManager._filter_hed(hed, remove_types, remove_defs, remove_group) with hed given as text:
     if not hed: return ""; hed_obj = HedString(str(hed)); split...(hed_obj); return str(hed_obj) *)
  Definition filter_hed (s : store) (text : list item) (rt : list N) (rg : bool)
    : res (store * list item) :=
    match text with
    | [] => Ok (s, [])
    | _ =>
        let '(s1, b) := alloc s text in
        let s2 := split_in_place s1 b rt rg in
        let* r := read s2 b in Ok (s2, r)
    end.

  (* ... with hed = self.hed_strings[a], a stored object: str(hed) first *)
  Definition filter_hed_obj (s : store) (a : nat) (rt : list N) (rg : bool) : res (store * list item) :=
    let* text := read s a in filter_hed s text rt rg.

  Fixpoint filter_rows (s : store) (addrs : list nat) (rt : list N) : res (store * list (list item)) :=
    match addrs with
    | [] => Ok (s, [])
    | a :: rest =>
        let* (s1, r) := filter_hed_obj s a rt false in
        let* (s2, rs) := filter_rows s1 rest rt in Ok (s2, r :: rs)
    end.

  Fixpoint filter_texts (s : store) (texts : list (list item)) (rt : list N) : res (store * list (list item)) :=
    match texts with
    | [] => Ok (s, [])
    | t :: rest =>
        let* (s1, r) := filter_hed s t rt true in
        let* (s2, rs) := filter_texts s1 rest rt in Ok (s2, r :: rs)
    end.

  Definition answer : Set := (list (list item) * list (list item) * list (list item))%type.

  (* EventManager.unfold_context(remove_types) *)
  Definition unfold_context (m : manager) (s : store) (rt : list N) : res (store * answer) :=
    let* (s1, hed) := filter_rows s (seq 0 (m_n m)) rt in
    let* (s2, base) := filter_texts s1 (m_base m) rt in
    let* (s3, ctx) := filter_texts s2 (m_ctx m) rt in
    Ok (s3, (hed, base, ctx)).

  Inductive query : Set :=
  | QUnfold (rt : list N)                       (* manager.unfold_context(remove_types=rt)                  *)
  | QObjs (rt : list N) (include_context : bool)(* HedTagManager(manager, rt).get_hed_objs(include_context) *)
  | QStr.                                       (* [str(h) for h in manager.hed_strings], base, contexts    *)

  Fixpoint read_all (s : store) (addrs : list nat) : res (list (list item)) :=
    match addrs with
    | [] => Ok []
    | a :: rest => let* c := read s a in let* cs := read_all s rest in Ok (c :: cs)
    end.

  Definition run_query (m : manager) (s : store) (q : query) : res (store * answer) :=
    match q with
    | QUnfold rt => unfold_context m s rt
    | QObjs rt ic =>
        let* (s1, (hed, base, ctx)) := unfold_context m s rt in
        Ok (s1, (hed, base, if ic then ctx else map (fun _ => []) ctx))
    | QStr => let* hed := read_all s (seq 0 (m_n m)) in Ok (s, (hed, m_base m, m_ctx m))
    end.

  Fixpoint run_history (m : manager) (s : store) (qs : list query) : res (store * list answer) :=
    match qs with
    | [] => Ok (s, [])
    | q :: rest =>
        let* (s1, a) := run_query m s q in
        let* (s2, answers) := run_history m s1 rest in Ok (s2, a :: answers)
    end.

  (* the variant that does NOT copy (reuses the stored object), for contrast only *)
  Definition filter_hed_obj_reuse (s : store) (a : nat) (rt : list N) (rg : bool) : res (store * list item) :=
    let s2 := split_in_place s a rt rg in let* r := read s2 a in Ok (s2, r).
End Queries.

(* the manager and its object store right after construction *)
Definition manager_of (o : output) : manager :=
  mkMgr (length (o_hed o))
        (map (map ev_item) (o_base o))
        (map (map ev_item) (o_contexts o)).

Definition store_of (o : output) : store := o_hed o.
