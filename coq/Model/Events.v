(* C20 -- model of the event manager (temporal context of every event).
   Transcribed function by function from
     hed/tools/analysis/event_manager.py   EventManager.__init__ / _create_event_list /
                                           _extract_temporal_events / _extract_duration_events /
                                           _extract_context / compress_strings
     hed/tools/analysis/temporal_event.py  TemporalEvent.__init__ / set_end / _split_group
     hed/models/df_util.py                 split_delay_tags / sort_dataframe_by_onsets /
                                           filter_series_by_onset / _indexed_dict_from_onsets /
                                           _filter_by_index_list
     hed/models/base_input.py              needs_sorting
     bisect.bisect_left (CPython Lib/bisect.py)
   Models only, no proofs.

   Abstraction.  An assembled HED cell is a list of top-level [item]s.  Times are integers in a
   fixed dyadic unit (1/8 s), so no float arithmetic is modelled.  Definition names (casefolded,
   including a value "name/3") are abstract ids.  [it_id] is an opaque payload (which text the
   harness rendered); the model never looks at it. *)
From Coq Require Import List NArith ZArith Arith Bool.
From HV Require Import Base.Res.
Import ListNotations.

Inductive kind : Set :=
| KOnset (a : N)        (* (Def/a, Onset [, (inner)])                 *)
| KOffset (a : N)       (* (Def/a, Offset)                            *)
| KDuration (d : Z)     (* (Duration/d, (inner))                      *)
| KPlain.               (* any other top-level tag or group           *)

Record item : Set := mkItem {
  it_delay : option Z;  (* a Delay/x tag inside the (top-level) group *)
  it_kind : kind;
  it_id : N }.

Record row : Set := mkRow { r_onset : Z; r_items : list item }.

(* ------------------------------------------------------------------ *)
(* base_input.needs_sorting:  not onsets.is_monotonic_increasing       *)
Fixpoint mono (l : list Z) : bool :=
  match l with
  | a :: t => match t with
              | b :: _ => (a <=? b)%Z && mono t
              | [] => true
              end
  | [] => true
  end.

(* ------------------------------------------------------------------ *)
(* df_util.split_delay_tags, first loop: every top-level Delay group of row i is removed from the
   row and appended as a new row with onset  value_as_default_unit() + onsets[i].  A Delay group whose
   value has no conversion to seconds, or whose value/onset is not a number, stays in its row (current
   /repo, fix commits ef31cc7 and e4bce88): such a group is an item with [it_delay = None] here. *)
Definition has_delay (it : item) : bool :=
  match it_delay it with Some _ => true | None => false end.

Definition delay_of (it : item) : Z :=
  match it_delay it with Some d => d | None => 0%Z end.

Fixpoint split_rows (rows : list row) : list row * list row :=
  match rows with
  | [] => ([], [])
  | r :: rs =>
      let '(kept, appended) := split_rows rs in
      let del := filter has_delay (r_items r) in
      let keep := filter (fun it => negb (has_delay it)) (r_items r) in
      (mkRow (r_onset r) keep :: kept,
       map (fun it => mkRow (delay_of it + r_onset r)%Z [it]) del ++ appended)
  end.

(* df_util.sort_dataframe_by_onsets: DataFrame.sort_values(by onset, kind='stable') -- a STABLE sort
   in the current /repo (since fix commit 29fcd01; before it the default numpy quicksort left the
   order of equal onsets unspecified).  Modelled as a stable insertion sort; the harness compares the
   contents of a time point as sequences. *)
Fixpoint insert_row (r : row) (l : list row) : list row :=
  match l with
  | [] => [r]
  | x :: xs => if (r_onset r <=? r_onset x)%Z then r :: l else x :: insert_row r xs
  end.

Fixpoint sort_rows (l : list row) : list row :=
  match l with
  | [] => []
  | x :: xs => insert_row x (sort_rows xs)
  end.

(* df_util._indexed_dict_from_onsets + _filter_by_index_list: indices are grouped in a dict keyed
   by the onset value (|onset - current| > 1e-9 is "different value" on the dyadic grid, and the
   -1000000.0 start value of current_onset never changes the grouping because the key used is
   current_onset itself); the FIRST index of each group receives ",".join of the group's cells,
   every other index the empty string. *)
Definition same_onset (o : Z) (r : row) : bool := (r_onset r =? o)%Z.

Fixpoint merge_aux (seen : list Z) (all : list row) (rows : list row) : list row :=
  match rows with
  | [] => []
  | r :: rs =>
      let o := r_onset r in
      (if existsb (Z.eqb o) seen then mkRow o []
       else mkRow o (concat (map r_items (filter (same_onset o) all))))
      :: merge_aux (o :: seen) all rs
  end.

Definition merge_rows (rows : list row) : list row := merge_aux [] rows rows.

Definition split_delay_tags (rows : list row) : list row :=
  let '(kept, appended) := split_rows rows in
  merge_rows (sort_rows (kept ++ appended)).

(* ------------------------------------------------------------------ *)
(* temporal_event.TemporalEvent: start_index, start_time, end_index, end_time, and the group it
   was built from (anchor and contents are functions of the item, rendered by the harness:
   _split_group removes the Onset / Duration tag and keeps everything else). *)
Record tevent : Set := mkEv {
  ev_start : nat;
  ev_start_time : Z;
  ev_end : option nat;       (* None until set_end *)
  ev_end_time : option Z;
  ev_item : item }.

(* TemporalEvent.set_end on the object stored at heap position p *)
Definition set_end_ev (ei : nat) (et : option Z) (e : tevent) : tevent :=
  mkEv (ev_start e) (ev_start_time e) (Some ei) et (ev_item e).

Fixpoint upd {A} (l : list A) (p : nat) (f : A -> A) : list A :=
  match l, p with
  | [], _ => []
  | x :: xs, 0 => f x :: xs
  | x :: xs, S q => x :: upd xs q f
  end.

Definition set_end (hp : list tevent) (p : nat) (ei : nat) (et : option Z) : list tevent :=
  upd hp p (set_end_ev ei et).

(* onset_dict : dict anchor -> TemporalEvent object; objects are shared with event_list, so the
   dict holds the position of the object in the allocation-ordered heap of all events. *)
Definition odict := list (N * nat).

Definition od_mem (a : N) (od : odict) : bool := existsb (fun kv => N.eqb (fst kv) a) od.

(* onset_dict.pop(anchor) -- KeyError when absent *)
Fixpoint od_pop (a : N) (od : odict) : res (nat * odict) :=
  match od with
  | [] => Exn KeyError
  | (k, p) :: t =>
      if N.eqb k a then Ok (p, t)
      else let* (q, t') := od_pop a t in Ok (q, (k, p) :: t')
  end.

Definition estate : Set := (list tevent * odict)%type.

(* body of the loop of EventManager._extract_temporal_events for one top-level group *)
Definition temporal_step (i : nat) (t : Z) (st : estate) (it : item) : res estate :=
  let '(hp, od) := st in
  match it_kind it with
  | KOnset a =>
      (* if anchor in onset_dict or def_tag.short_base_tag == Offset: pop + set_end
         (markers are compared by short base tag since fix commit 4d37e17, so a schema namespace
         prefix on the tags makes no difference; the kind of an item is that short base tag) *)
      let* (hp1, od1) :=
        (if od_mem a od
         then let* (p, od') := od_pop a od in Ok (set_end hp p i (Some t), od')
         else Ok (hp, od)) in
      (* if def_tag == Onset: new TemporalEvent, append to event_list[i], onset_dict[anchor] = it *)
      Ok (hp1 ++ [mkEv i t None None it], od1 ++ [(a, length hp1)])
  | KOffset a =>
      let* (p, od') := od_pop a od in Ok (set_end hp p i (Some t), od')
  | _ => Ok st
  end.

Fixpoint foldM {A B} (f : A -> B -> res A) (l : list B) (a : A) : res A :=
  match l with
  | [] => Ok a
  | x :: xs => let* a' := f a x in foldM f xs a'
  end.

(* bisect.bisect_left(a, x): lo, hi = 0, len(a); while lo < hi: mid = (lo+hi)//2;
   if a[mid] < x: lo = mid+1 else: hi = mid.   Explicit fuel; a[mid] is a partial operation. *)
Fixpoint bisect_go (fuel : nat) (a : list Z) (x : Z) (lo hi : nat) : res nat :=
  match fuel with
  | 0 => Exn Unmodelled
  | S f =>
      if lo <? hi then
        let mid := Nat.div2 (lo + hi) in
        match nth_error a mid with
        | None => Exn IndexError
        | Some v => if (v <? x)%Z then bisect_go f a x (S mid) hi else bisect_go f a x lo mid
        end
      else Ok lo
  end.

Definition bisect_left (a : list Z) (x : Z) : res nat :=
  bisect_go (S (length a)) a x 0 (length a).

(* body of the loop of EventManager._extract_duration_events for one top-level group:
   TemporalEvent(group, i, start_time) computes end_time = start_time + Duration in default units
   (_split_group), then end_index = bisect_left(onsets, end_time); set_end; append. *)
Definition duration_step (onsets : list Z) (i : nat) (t : Z) (hp : list tevent) (it : item)
  : res (list tevent) :=
  match it_kind it with
  | KDuration d =>
      let et := (t + d)%Z in
      let* ei := bisect_left onsets et in
      Ok (hp ++ [mkEv i t (Some ei) (Some et) it])
  | _ => Ok hp
  end.

(* the for-loop of _create_event_list over enumerate(hed_strings) *)
Fixpoint scan_rows (onsets : list Z) (i : nat) (rows : list row) (st : estate) : res estate :=
  match rows with
  | [] => Ok st
  | r :: rs =>
      let* st1 := foldM (temporal_step i (r_onset r)) (r_items r) st in
      let* hp2 := foldM (duration_step onsets i (r_onset r)) (r_items r) (fst st1) in
      scan_rows onsets (S i) rs (hp2, snd st1)
  end.

(* for item in onset_dict.values(): item.set_end(len(self.onsets), None) *)
Fixpoint close_open (n : nat) (od : odict) (hp : list tevent) : list tevent :=
  match od with
  | [] => hp
  | (_, p) :: t => close_open n t (set_end hp p n None)
  end.

(* hed.remove(to_remove) in both extractors: what is left of the cell *)
Definition is_plain (it : item) : bool :=
  match it_kind it with KPlain => true | _ => false end.

Definition remaining (r : row) : list item := filter is_plain (r_items r).

(* event_list[i] : the events appended while row i was processed *)
Definition events_at (hp : list tevent) (i : nat) : list tevent :=
  filter (fun e => Nat.eqb (ev_start e) i) hp.

(* x[i].append(s) *)
Fixpoint app_at {A} (l : list (list A)) (i : nat) (x : A) : res (list (list A)) :=
  match l, i with
  | [], _ => Exn IndexError
  | h :: t, 0 => Ok ((h ++ [x]) :: t)
  | h :: t, S k => let* t' := app_at t k x in Ok (h :: t')
  end.

(* for i in range(lo, lo+cnt): contexts[i].append(s) *)
Fixpoint add_range {A} (c : list (list A)) (lo cnt : nat) (x : A) : res (list (list A)) :=
  match cnt with
  | 0 => Ok c
  | S k => let* c' := app_at c lo x in add_range c' (S lo) k x
  end.

(* EventManager._extract_context: loop body for one event.  range(start+1, None) is a TypeError. *)
Definition context_step (bc : list (list tevent) * list (list tevent)) (e : tevent)
  : res (list (list tevent) * list (list tevent)) :=
  let '(base, ctx) := bc in
  let* base' := app_at base (ev_start e) e in
  match ev_end e with
  | None => Exn TypeError
  | Some j =>
      let* ctx' := add_range ctx (S (ev_start e)) (j - S (ev_start e)) e in
      Ok (base', ctx')
  end.

Record output : Set := mkOut {
  o_rows : list row;                    (* time line after Delay shifting and merging           *)
  o_events : list (list tevent);        (* event_list                                           *)
  o_base : list (list tevent);          (* base     (before compress_strings' ",".join)         *)
  o_contexts : list (list tevent);      (* contexts (before compress_strings' ",".join)         *)
  o_hed : list (list item) }.           (* hed_strings: the remaining annotation per row        *)

(* EventManager._create_event_list (events-file branch) *)
Definition create_event_list (tl : list row) : res output :=
  let onsets := map r_onset tl in
  let n := length tl in
  let* (hp, od) := scan_rows onsets 0 tl ([], []) in
  let hp' := close_open n od hp in
  let evl := map (events_at hp') (seq 0 n) in
  let empty := map (fun _ => @nil tevent) tl in
  let* (base, ctx) := foldM context_step (concat evl) (empty, empty) in
  Ok (mkOut tl evl base ctx (map remaining tl)).

(* EventManager.__init__ for a file with an onset column *)
Definition event_manager (h : list row) : res output :=
  if negb (mono (map r_onset h)) then Exn HedFileError
  else create_event_list (split_delay_tags h).

(* ------------------------------------------------------------------ *)
(* Vocabulary of the property statement (used by Props/C20.v).         *)

(* item [it] is an Onset or Offset marker of definition name [a] *)
Definition marker_of (a : N) (it : item) : bool :=
  match it_kind it with
  | KOnset b => N.eqb b a
  | KOffset b => N.eqb b a
  | _ => false
  end.

Definition row_marks (a : N) (r : row) : bool := existsb (marker_of a) (r_items r).

Definition marker_names (r : row) : list N :=
  flat_map (fun it => match it_kind it with KOnset a => [a] | KOffset a => [a] | _ => [] end)
           (r_items r).

(* the Onset/Offset markers of a time line in processing order: (is_onset, name) *)
Definition item_marker (it : item) : list (bool * N) :=
  match it_kind it with
  | KOnset a => [(true, a)]
  | KOffset a => [(false, a)]
  | _ => []
  end.

Definition markers (tl : list row) : list (bool * N) :=
  flat_map (fun r => flat_map item_marker (r_items r)) tl.

(* every Offset finds a process of its name open *)
Fixpoint matched (open : list N) (ms : list (bool * N)) : Prop :=
  match ms with
  | [] => True
  | (true, a) :: rest => matched (a :: open) rest
  | (false, a) :: rest => In a open /\ matched (remove N.eq_dec a open) rest
  end.

(* validity of a time line (what the onset validator enforces on the same merged rows):
   a definition name is used at most once per time point, and an Offset closes an open process *)
Definition valid_timeline (tl : list row) : Prop :=
  Forall (fun r => NoDup (marker_names r)) tl /\ matched [] (markers tl).

(* all events of an output in event_list order *)
Definition all_events (o : output) : list tevent := concat (o_events o).

(* the row index at which an event ends.  [ev_end] is an option because TemporalEvent.end_index is None
   until set_end; the default 0 below is never used for an event of a constructed manager: Props
   C20_every_event_ended proves [ev_end e = Some j] for every listed event, and C20_context_iff_end states
   the context with that [j] explicitly. *)
Definition ev_end_index (e : tevent) : nat :=
  match ev_end e with Some j => j | None => 0 end.

Definition is_onset_item (it : item) : bool :=
  match it_kind it with KOnset _ => true | _ => false end.

Definition is_duration_item (it : item) : bool :=
  match it_kind it with KDuration _ => true | _ => false end.

(* (time, item) pairs of a list of rows; in a history the time of an item is the row's onset
   shifted by the item's Delay *)
Definition timed (rows : list row) : list (Z * item) :=
  flat_map (fun r => map (fun it => (r_onset r, it)) (r_items r)) rows.

(* row i is a time point: it is the first row with its onset (in a sorted time line) *)
Definition time_point (tl : list row) (i : nat) : Prop :=
  i < length tl /\ forall k, k < i -> (nth k (map r_onset tl) 0 < nth i (map r_onset tl) 0)%Z.

(* the file after Delay shifting, before sorting: every row without its Delay groups, in file order,
   followed by one row per Delay group (at onset + delay), in file order *)
Definition kept_row (r : row) : row :=
  mkRow (r_onset r) (filter (fun it => negb (has_delay it)) (r_items r)).

Definition delayed_rows (r : row) : list row :=
  map (fun it => mkRow (delay_of it + r_onset r)%Z [it]) (filter has_delay (r_items r)).

Definition shifted_rows (h : list row) : list row := map kept_row h ++ flat_map delayed_rows h.
