(* C11 -- executable model of unit recognition and conversion in hed-python.
   Function-by-function transcription (models only, no proofs) of
     hed/schema/hed_schema_section.py : HedSchemaUnitSection._check_if_duplicate / __getitem__
     hed/schema/hed_schema.py         : HedSchema._get_modifiers_for_unit
     hed/schema/hed_schema_entry.py   : UnitEntry.finalize_entry / _get_conversion_factor / get_conversion_factor,
                                        UnitClassEntry.finalize_entry / get_derivative_unit_entry,
                                        HedTagEntry._finalize_classes
     hed/models/hed_tag.py            : HedTag._get_tag_units_portion / get_stripped_unit_value /
                                        value_as_default_unit / default_unit
     hed/validator/util/class_util.py : UnitValueValidator.check_tag_unit_class_units_are_valid /
                                        _check_value_class / _check_units, HedValidator.validate_units
     class_regex.json                 : class_words.numericClass (hand-written recogniser [scan_num])
   Numbers are exact rationals (Q): IEEE rounding of float() and of the two multiplications is NOT modelled.
   Three independent repair switches; true = the code as it is in /repo (all four fix: commits are in),
   false = the behaviour before that commit, kept only as the record of the defect:
   [fixed] (fix: commits f83491d, d18c9c6; DESIGN section 8 findings 10, 11): conversion looks a unit NAME up
           case-folded, and "a^b" is read as a power;
   [f4]    (fix: commit 537f494, C11-F4): a unit after the number only counts when the value part is a single word;
   [f3]    (fix: commit 0669633, C11-F3): the number is the FIRST word and the unit text everything after it, so that a unit name
           may contain blanks (degree Celsius); prefix-type units still split at the last blank. *)
From Coq Require Import List NArith ZArith QArith Bool.
From HV Require Import Base.Res Base.Str.
Import ListNotations.
Local Open Scope N_scope.

(* ------------------------------------------------------------------ strings *)

(* str.lower() / str.casefold() on ASCII (the translator refuses non-ASCII unit, plural and modifier names;
   for the text typed by a user the model is only claimed where Python's casefold acts on A-Z alone) *)
Definition lower_ch (c : N) : N := if (65 <=? c) && (c <=? 90) then c + 32 else c.
Definition lower (s : str) : str := map lower_ch s.
Definition casefold (s : str) : str := lower s.

Definition has_space (s : str) : bool := existsb (fun c => c =? 32) s.

(* s.rpartition(" "): Some (before, after) of the LAST blank, None when there is no blank
   (Python then returns ("", "", s)) *)
Fixpoint split_last_space (s : str) : option (str * str) :=
  match s with
  | [] => None
  | c :: r =>
      match split_last_space r with
      | Some (v, u) => Some (c :: v, u)
      | None => if c =? 32 then Some ([], r) else None
      end
  end.

(* s.partition(" "): Some (before, after) of the FIRST blank *)
Fixpoint split_first_space (s : str) : option (str * str) :=
  match s with
  | [] => None
  | c :: r =>
      if c =? 32 then Some ([], r)
      else match split_first_space r with
           | Some (a, b) => Some (c :: a, b)
           | None => None
           end
  end.

(* number, _, unit_text = s.partition(" ") *)
Definition partition_space (s : str) : str * str :=
  match split_first_space s with Some p => p | None => (s, []) end.

(* value, _, units = s.rpartition(" ") *)
Definition rpartition_space (s : str) : str * str :=
  match split_last_space s with Some (v, u) => (v, u) | None => ([], s) end.

(* s.split(" ")[0] *)
Fixpoint first_word (s : str) : str :=
  match s with
  | [] => []
  | c :: r => if c =? 32 then [] else c :: first_word r
  end.

Definition nonempty (s : str) : bool := match s with [] => false | _ => true end.

(* ------------------------------------------------------------------ numbers *)

Definition is_digit (c : N) : bool := (48 <=? c) && (c <=? 57).

Fixpoint span_digits (s : str) : str * str :=
  match s with
  | [] => ([], [])
  | c :: r => if is_digit c then let (d, t) := span_digits r in (c :: d, t) else ([], s)
  end.

Definition digits_val (d : str) : Z :=
  fold_left (fun acc c => (acc * 10 + Z.of_N (c - 48))%Z) d 0%Z.

(* optional sign: (negative?, rest) *)
Definition scan_sign (s : str) : bool * str :=
  match s with
  | 43 :: r => (false, r)
  | 45 :: r => (true, r)
  | _ => (false, s)
  end.

(* class_regex.json class_words.numericClass: optional sign; digits with an optional "." and optional
   fraction digits, or "." with at least one fraction digit; optional e/E, optional sign, digits; end of text
   (the exact regex text is pinned by the translator, see harness/c11.py NUMERIC_REGEX; ASCII digits),
   which is also the decimal part of the grammar float() accepts:
   Some (negative, integer digits, fraction digits, exponent) *)
Definition scan_num (s : str) : option (bool * str * str * Z) :=
  let (neg, s1) := scan_sign s in
  let (d1, s2) := span_digits s1 in
  let mant : option (str * str * str) :=
    match d1 with
    | [] =>
        match s2 with
        | 46 :: s3 => let (d2, s4) := span_digits s3 in
                      match d2 with [] => None | _ => Some ([], d2, s4) end
        | _ => None
        end
    | _ =>
        match s2 with
        | 46 :: s3 => let (d2, s4) := span_digits s3 in Some (d1, d2, s4)
        | _ => Some (d1, [], s2)
        end
    end in
  match mant with
  | None => None
  | Some (i, f, s5) =>
      match s5 with
      | [] => Some (neg, i, f, 0%Z)
      | c :: s6 =>
          if (c =? 101) || (c =? 69) then
            let (eneg, s7) := scan_sign s6 in
            let (d3, s8) := span_digits s7 in
            match d3, s8 with
            | _ :: _, [] => Some (neg, i, f, if eneg then (- digits_val d3)%Z else digits_val d3)
            | _, _ => None
            end
          else None
      end
  end.

Definition pow10 (z : Z) : Q := Qpower (10 # 1) z.

Definition num_val (x : bool * str * str * Z) : Q :=
  match x with
  | (neg, i, f, e) =>
      let m := digits_val (i ++ f) in
      Qmult (inject_Z (if neg then (- m)%Z else m)) (pow10 (e - Z.of_nat (length f))%Z)
  end.

(* CharRexValidator.is_valid_value(text, "numericClass") *)
Definition is_numeric (s : str) : bool :=
  match scan_num s with Some _ => true | None => false end.

(* float(text) on decimal / scientific literals; None = ValueError.
   NOT modelled (the harness never generates them): "inf", "nan", "1_0", surrounding blanks, non-ASCII digits. *)
Definition parse_float (s : str) : option Q := option_map num_val (scan_num s).

(* text.replace("^", "e") *)
Definition replace_caret (s : str) : str := map (fun c => if c =? 94 then 101 else c) s.

(* text.partition("^") when a caret is present *)
Fixpoint split_caret (s : str) : option (str * str) :=
  match s with
  | [] => None
  | c :: r => if c =? 94 then Some ([], r)
              else match split_caret r with Some (a, b) => Some (c :: a, b) | None => None end
  end.

Definition parse_int (s : str) : option Z :=
  match scan_num s with
  | Some (neg, i, [], 0%Z) => Some (if neg then (- digits_val i)%Z else digits_val i)
  | _ => None
  end.

(* what the schema text MEANS: "a^b" is a to the power b, anything else is a decimal literal *)
Definition factor_spec (t : str) : option Q :=
  match split_caret t with
  | None => parse_float t
  | Some (a, b) =>
      match parse_float a, parse_int b with
      | Some qa, Some zb => Some (Qpower qa zb)
      | _, _ => None
      end
  end.

(* float(attribute.replace("^", "e"))   [fixed: the caret is a power] ; None = ValueError *)
Definition float_factor (fixed : bool) (t : str) : option Q :=
  if fixed then factor_spec t else parse_float (replace_caret t).

(* ------------------------------------------------------------------ schema data (filled by the translator) *)

Record unitdef := mkUnit {
  u_name : str;
  u_symbol : bool;            (* unitSymbol *)
  u_prefix : bool;            (* unitPrefix *)
  u_si : bool;                (* SIUnit *)
  u_factor : option str;      (* conversionFactor text *)
  u_plural : str              (* ORACLE: inflect plural of name.lower(), obtained by the translator *)
}.

Record moddef := mkMod {
  m_name : str;
  m_si_mod : bool;            (* SIUnitModifier *)
  m_si_sym : bool;            (* SIUnitSymbolModifier *)
  m_factor : option str       (* conversionFactor text *)
}.

Record classdef := mkClass {
  c_name : str;
  c_default : option str;     (* defaultUnits *)
  c_units : list unitdef
}.

Record uschema := mkSchema { s_classes : list classdef; s_mods : list moddef }.

(* a value-taking node with unit classes *)
Record utag := mkUTag {
  t_name : str;               (* short name of the parent node, e.g. Duration *)
  t_classes : list str;       (* unitClass values in order *)
  t_numeric : bool            (* valueClass = numericClass (false: no value class) *)
}.

(* one key of a derived-unit dictionary, with where it came from *)
Record entry := mkEntry { e_key : str; e_unit : unitdef; e_mod : option moddef }.

(* Python dict built by successive assignment / update: the LAST binding of a key wins *)
Fixpoint dict_get {A} (l : list (str * A)) (k : str) : option A :=
  match l with
  | [] => None
  | (k', v) :: r =>
      match dict_get r k with
      | Some x => Some x
      | None => if str_eqb k' k then Some v else None
      end
  end.

(* ------------------------------------------------------------------ units section *)

Definition all_units (S : uschema) : list unitdef := flat_map c_units (s_classes S).

(* HedSchemaUnitSection._check_if_duplicate: symbols are stored under their exact name, names case-folded;
   the first entry with a key keeps it *)
Definition unit_key (u : unitdef) : str := if u_symbol u then u_name u else casefold (u_name u).

Definition section_get (S : uschema) (key : str) : option unitdef :=
  find (fun u => str_eqb (unit_key u) key) (all_units S).

(* HedSchemaUnitSection.__getitem__ *)
Definition units_getitem (S : uschema) (key : str) : option unitdef :=
  match section_get S key with
  | Some u => Some u
  | None =>
      match section_get S (casefold key) with
      | None => None
      | Some u => if u_symbol u then None else Some u
      end
  end.

(* HedSchema._get_modifiers_for_unit *)
Definition get_modifiers_for_unit (S : uschema) (name : str) : list moddef :=
  match units_getitem S name with
  | None => []
  | Some e =>
      if negb (u_si e) then []
      else if u_symbol e then filter m_si_sym (s_mods S) else filter m_si_mod (s_mods S)
  end.

(* ------------------------------------------------------------------ UnitEntry *)

Definition one_text : str := [49; 46; 48].     (* "1.0" *)
Definition factor_text (o : option str) : str := match o with Some t => t | None => one_text end.

(* UnitEntry._get_conversion_factor: one try block around both float() calls *)
Definition conv (fixed : bool) (U : unitdef) (M : option moddef) : Q :=
  match float_factor fixed (factor_text (u_factor U)) with
  | None => Qmult 1 1
  | Some b =>
      match M with
      | None => Qmult b 1
      | Some m =>
          match float_factor fixed (factor_text (m_factor m)) with
          | None => Qmult b 1
          | Some f => Qmult b f
          end
      end
  end.

(* base_plural_units (a Python set: one element when the plural equals the name) *)
Definition base_units (U : unitdef) : list str :=
  if u_symbol U then [u_name U]
  else let l := lower (u_name U) in if str_eqb (u_plural U) l then [l] else [l; u_plural U].

(* UnitEntry.finalize_entry: keys of derivative_units in insertion order *)
Definition unit_entries (S : uschema) (U : unitdef) : list entry :=
  let mods := get_modifiers_for_unit S (u_name U) in
  flat_map (fun b => mkEntry b U None :: map (fun m => mkEntry (m_name m ++ b) U (Some m)) mods)
           (base_units U).

(* UnitEntry.derivative_units : key -> factor *)
Definition unit_derivative_units (fixed : bool) (S : uschema) (U : unitdef) : list (str * Q) :=
  map (fun e => (e_key e, conv fixed U (e_mod e))) (unit_entries S U).

(* UnitEntry.get_conversion_factor: None without conversionFactor, float(dict.get(name)) otherwise
   -- float(None) raises TypeError.  [fixed]: a unit NAME is looked up case-folded. *)
Definition get_conversion_factor (fixed : bool) (S : uschema) (U : unitdef) (unit_name : str)
  : res (option Q) :=
  match u_factor U with
  | None => Ok None
  | Some _ =>
      let key := if fixed && negb (u_symbol U) then casefold unit_name else unit_name in
      match dict_get (unit_derivative_units fixed S U) key with
      | Some q => Ok (Some q)
      | None => Exn TypeError
      end
  end.

(* ------------------------------------------------------------------ UnitClassEntry *)

Definition class_entries (S : uschema) (C : classdef) : list entry :=
  flat_map (unit_entries S) (c_units C).

(* UnitClassEntry.finalize_entry: derivative_units : key -> unit entry (dict.update per unit, in order) *)
Definition class_derivative_units (S : uschema) (C : classdef) : list (str * unitdef) :=
  map (fun e => (e_key e, e_unit e)) (class_entries S C).

(* UnitClassEntry.get_derivative_unit_entry *)
Definition get_derivative_unit_entry (S : uschema) (C : classdef) (units : str) : option unitdef :=
  let d := class_derivative_units S C in
  let second :=
    match dict_get d (casefold units) with
    | Some U => if u_symbol U then None else Some U
    | None => None
    end in
  match dict_get d units with
  | Some U => if u_symbol U then Some U else second
  | None => second
  end.

(* ------------------------------------------------------------------ HedTag *)

(* HedTagEntry._finalize_classes: the unit classes named by the node, in order (unknown names skipped) *)
Definition tag_unit_classes (S : uschema) (T : utag) : list classdef :=
  flat_map (fun n => match find (fun c => str_eqb (c_name c) n) (s_classes S) with
                     | Some c => [c]
                     | None => []
                     end) (t_classes T).

(* the loop of HedTag._get_tag_units_portion: (number, unit_text) is the split tried for a unit AFTER the number,
   (units, value) = (number, unit text) the split tried for a prefix-type unit BEFORE the number.
   [f4] (fix: 537f494): `and " " not in <number>` *)
Fixpoint portion_loop (f4 : bool) (S : uschema) (cs : list classdef) (value units number unit_text : str)
  : option (str * str * unitdef) :=
  match cs with
  | [] => None
  | C :: rest =>
      let as_prefix :=
        match get_derivative_unit_entry S C value with
        | Some U => if u_prefix U then Some (units, value, U)
                    else portion_loop f4 S rest value units number unit_text
        | None => portion_loop f4 S rest value units number unit_text
        end in
      match get_derivative_unit_entry S C unit_text with
      | Some U => if negb (u_prefix U) && (negb f4 || negb (has_space number))
                  then Some (number, unit_text, U) else as_prefix
      | None => as_prefix
      end
  end.

(* HedTag._get_tag_units_portion: None stands for (None, None, None).
   [f3] (fix: 0669633): number, _, unit_text = extension_text.partition(" ")  (before it: the rpartition pair) *)
Definition get_tag_units_portion (f3 f4 : bool) (S : uschema) (cs : list classdef) (ext : str)
  : option (str * str * unitdef) :=
  let (value, units) := rpartition_space ext in
  if negb (nonempty units) then None
  else let (number, unit_text) := if f3 then partition_space ext else (value, units) in
       portion_loop f4 S cs value units number unit_text.

(* HedTag.get_stripped_unit_value *)
Definition get_stripped_unit_value (f3 f4 : bool) (S : uschema) (cs : list classdef) (ext : str)
  : str * option str :=
  match get_tag_units_portion f3 f4 S cs ext with
  | Some (sv, unit, _) => if nonempty sv then (sv, Some unit) else (ext, None)
  | None => (ext, None)
  end.

(* HedTag.default_unit *)
Definition default_unit (cs : list classdef) : option unitdef :=
  match cs with
  | [C] =>
      match c_default C with
      | None => None
      | Some d => dict_get (map (fun u => (u_name u, u)) (c_units C)) d
      end
  | _ => None
  end.

(* HedTag.value_as_default_unit; Ok None = returns None *)
Definition value_as_default_unit (fixed f3 f4 : bool) (S : uschema) (cs : list classdef) (ext : str)
  : res (option Q) :=
  let (value, units) := rpartition_space ext in
  let* r :=
    (if negb (nonempty value) then
       match default_unit cs with
       | None => Exn AttributeError                    (* unit_entry.name on None *)
       | Some ue => Ok (Some (units, u_name ue, ue))
       end
     else Ok (get_tag_units_portion f3 f4 S cs ext)) in
  match r with
  | None => Ok None
  | Some (sv, unit, ue) =>
      if nonempty sv then
        let* f := get_conversion_factor fixed S ue unit in
        match f with
        | None => Ok None
        | Some q =>
            match parse_float sv with
            | None => Exn ValueError
            | Some x => Ok (Some (Qmult x q))
            end
        end
      else Ok None
  end.

(* ------------------------------------------------------------------ UnitValueValidator *)

Inductive code := VALUE_INVALID | UNITS_INVALID | UNITS_MISSING.

(* _check_value_class for a node whose only value class is numericClass (class_chars empty) or that has none *)
Definition check_value_class (T : utag) (sv : str) : list code :=
  if t_numeric T then (if is_numeric sv then [] else [VALUE_INVALID]) else [].

(* check_tag_unit_class_units_are_valid (is_unit_class_tag already established) *)
Definition check_units_valid (f3 f4 : bool) (S : uschema) (T : utag) (cs : list classdef) (text : str)
  : list code :=
  let (sv, unit) := get_stripped_unit_value f3 f4 S cs text in
  let bad_units := has_space sv in
  let sv' := if bad_units then first_word sv else sv in
  check_value_class T sv'
  ++ match unit with
     | Some (_ :: _) => []
     | _ => [if bad_units then UNITS_INVALID else UNITS_MISSING]      (* _check_units *)
     end.

(* HedValidator.validate_units restricted to unit-class tags *)
Definition validate_units (f3 f4 : bool) (S : uschema) (T : utag) (ext : str) : list code :=
  if str_eqb ext [35] then []
  else match tag_unit_classes S T with
       | [] => []
       | cs => check_units_valid f3 f4 S T cs ext
       end.

(* HedValidator._validate_individual_tags_in_hed_string, the part that concerns unit-class tags:
     validation_issues = []
     for group in hed_string_obj.get_all_groups():
         for hed_tag in group.tags():
             ...
             validation_issues += self.validate_units(hed_tag)
   The loop carries no other state than the list of issues collected so far.  A string is given as the list of
   its unit-class tags (node, extension) in the order the loop visits them. *)
Definition validate_tags_loop (f3 f4 : bool) (S : uschema) (acc : list code) (tags : list (utag * str))
  : list code :=
  fold_left (fun issues te => issues ++ validate_units f3 f4 S (fst te) (snd te)) tags acc.

Definition validate_units_string (f3 f4 : bool) (S : uschema) (tags : list (utag * str)) : list code :=
  validate_tags_loop f3 f4 S [] tags.

(* ------------------------------------------------------------------ candidates for a text (used by the spec) *)

Definition tag_entries (S : uschema) (cs : list classdef) : list entry :=
  flat_map (class_entries S) cs.

Definition entry_matches (t : str) (e : entry) : bool :=
  if u_symbol (e_unit e) then str_eqb (e_key e) t else str_eqb (e_key e) (casefold t).

Definition cands (S : uschema) (cs : list classdef) (t : str) : list entry :=
  filter (entry_matches t) (tag_entries S cs).
