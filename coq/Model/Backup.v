(* Model of hed/tools/remodeling/backup_manager.py (BackupManager),
   hed/tools/util/io_util.py (get_path_components, get_file_list),
   Dispatcher.get_data_file / run_operations reading from the backup and
   cli/run_remodel{,_backup,_restore}.py (handle_backup / main), over an explicit
   file system with small-step effects and crash (prefix / partial write) states.
   Models only -- proofs live in Proofs/BackupProofs.v. *)
From Coq Require Import List NArith Arith Bool.
From HV Require Import Base.Res Base.Str.
Import ListNotations.

(* ------------------------------------------------------------------ *)
(* File system: paths are component lists relative to data_root.       *)
(* ------------------------------------------------------------------ *)
Definition name := str.
Definition path := list name.
Inductive node := Dir | File (b : str).
Definition fs := list (path * node).       (* first entry for a path wins *)

(* OSError family (FileNotFoundError, FileExistsError, IsADirectoryError):
   the shared enum has no constructor for it. *)
Definition OSError : exn := Unmodelled.

Fixpoint path_eqb (a b : path) : bool :=
  match a, b with
  | [], [] => true
  | x :: a', y :: b' => str_eqb x y && path_eqb a' b'
  | _, _ => false
  end.

Fixpoint lookup (f : fs) (p : path) : option node :=
  match f with
  | [] => None
  | (q, n) :: r => if path_eqb q p then Some n else lookup r p
  end.

Definition set (p : path) (n : node) (f : fs) : fs := (p, n) :: f.
Definition remove (p : path) (f : fs) : fs := filter (fun e => negb (path_eqb (fst e) p)) f.

Definition read (f : fs) (p : path) : option str :=
  match lookup f p with Some (File c) => Some c | _ => None end.
Definition isdir (f : fs) (p : path) : bool :=
  match lookup f p with Some Dir => true | _ => false end.
Definition exists_ (f : fs) (p : path) : bool :=
  match lookup f p with Some _ => true | None => false end.

(* q = p ++ rest *)
Fixpoint strip (p q : path) : option path :=
  match p, q with
  | [], _ => Some q
  | x :: p', y :: q' => if str_eqb x y then strip p' q' else None
  | _ :: _, [] => None
  end.
Definition under (p q : path) : bool := match strip p q with Some _ => true | None => false end.

Fixpoint mem_path (p : path) (l : list path) : bool :=
  match l with [] => false | q :: r => path_eqb q p || mem_path p r end.
Fixpoint nodup_paths (l : list path) : list path :=
  match l with
  | [] => []
  | p :: r => if mem_path p r then nodup_paths r else p :: nodup_paths r
  end.
Fixpoint mem_str (s : str) (l : list str) : bool :=
  match l with [] => false | q :: r => str_eqb q s || mem_str s r end.
Fixpoint nodup_strs (l : list str) : list str :=
  match l with
  | [] => []
  | p :: r => if mem_str p r then nodup_strs r else p :: nodup_strs r
  end.

Definition paths (f : fs) : list path := nodup_paths (map fst f).

(* os.listdir(p): names of the direct children *)
Definition listdir (f : fs) (p : path) : list name :=
  nodup_strs (flat_map (fun q => match strip p q with Some [n] => [n] | _ => [] end) (map fst f)).

(* io_util.get_file_list(root) with no filters: every file below root *)
Definition get_file_list (f : fs) (root : path) : list path :=
  filter (fun q => under root q && match lookup f q with Some (File _) => true | _ => false end)
         (paths f).

(* ------------------------------------------------------------------ *)
(* Effects, their atomic and partial (interrupted) application.        *)
(* ------------------------------------------------------------------ *)
Inductive effect :=
| Mkdir (p : path)                  (* one os.mkdir inside os.makedirs(exist_ok=True) *)
| Copy (src dst : path)             (* shutil.copy2 *)
| Write (p : path) (c : str).       (* open(p,'w') + json.dump *)

Definition apply (e : effect) (f : fs) : res fs :=
  match e with
  | Mkdir p =>
      match lookup f p with
      | Some Dir => Ok f
      | Some (File _) => Exn OSError
      | None => Ok (set p Dir f)
      end
  | Copy s d =>
      match lookup f s with
      | Some (File c) =>
          match lookup f d with
          | Some Dir => Exn OSError
          | _ => Ok (set d (File c) f)
          end
      | _ => Exn OSError
      end
  | Write p c =>
      match lookup f p with
      | Some Dir => Exn OSError
      | _ => Ok (set p (File c) f)
      end
  end.

(* state when the effect is interrupted after k bytes reached the target
   (k = 0: the target was created/truncated and nothing written yet) *)
Definition partial (e : effect) (k : nat) (f : fs) : option fs :=
  match e with
  | Mkdir _ => None
  | Copy s d =>
      match lookup f s, lookup f d with
      | Some (File c), Some Dir => None
      | Some (File c), _ => if k <? length c then Some (set d (File (firstn k c)) f) else None
      | _, _ => None
      end
  | Write p c =>
      match lookup f p with
      | Some Dir => None
      | _ => if k <? length c then Some (set p (File (firstn k c)) f) else None
      end
  end.

(* run to completion or to the first exception *)
Fixpoint exec (f : fs) (es : list effect) : fs * res unit :=
  match es with
  | [] => (f, Ok tt)
  | e :: r => match apply e f with Ok f' => exec f' r | Exn x => (f, Exn x) end
  end.

(* crash point: [i] effects completed, then (optionally) effect i interrupted
   after [k] bytes.  An effect that raises ends the trace. *)
Fixpoint crash (f : fs) (es : list effect) (i : nat) (k : option nat) : fs :=
  match es with
  | [] => f
  | e :: r =>
      match i with
      | 0 => match k with
             | None => f
             | Some n => match partial e n f with Some f' => f' | None => f end
             end
      | S i' => match apply e f with Ok f' => crash f' r i' k | Exn _ => f end
      end
  end.

(* ------------------------------------------------------------------ *)
(* Path constants and key <-> path mapping.                            *)
(* ------------------------------------------------------------------ *)
(* "derivatives", "remodel", "backups", "backup_root", "backup_lock.json" *)
Definition s_derivatives : str := [100;101;114;105;118;97;116;105;118;101;115]%N.
Definition s_remodel : str := [114;101;109;111;100;101;108]%N.
Definition s_backups : str := [98;97;99;107;117;112;115]%N.
Definition s_backup_root : str := [98;97;99;107;117;112;95;114;111;111;116]%N.
Definition s_backup_lock : str :=
  [98;97;99;107;117;112;95;108;111;99;107;46;106;115;111;110]%N.
Definition s_default_back : str := [100;101;102;97;117;108;116;95;98;97;99;107]%N.
Definition s_task_ : str := [116;97;115;107;95]%N.

(* RELATIVE_BACKUP_LOCATION after realpath *)
Definition backups_path : path := [s_derivatives; s_remodel; s_backups].
Definition slash : str := [ch_slash].
Definition ch_dot : N := 46%N.

Fixpoint split_on (c : N) (s : str) : list str :=
  match s with
  | [] => [[]]
  | x :: r =>
      if N.eqb x c then [] :: split_on c r
      else match split_on c r with
           | [] => [[x]]
           | h :: t => (x :: h) :: t
           end
  end.

(* os.path.realpath(os.path.join(base, key)) for a relative key: empty and "."
   components vanish (".." and absolute keys are outside the modelled domain) *)
Definition key_path (k : str) : path :=
  filter (fun c => negb (str_eqb c []) && negb (str_eqb c [ch_dot])) (split_on ch_slash k).


(* A backup name is used as the API / CLI accept it (a string).  Every path built from it
   goes through os.path.realpath(os.path.join(self.backups_path, backup_name, ...)), so
   "b1", "b1/", "./b1", "b1/.", "b1//" all resolve to the same directory.  The model covers
   every spelling that resolves to ONE directory entry of backups_path; nested names ("a/b"),
   ".." and absolute names are outside the modelled domain. *)
Definition name_path (b : name) : path := key_path b.
Definition backup_dir (b : name) : path := backups_path ++ name_path b.
Definition backup_root (b : name) : path := backup_dir b ++ [s_backup_root].
Definition backup_lock (b : name) : path := backup_dir b ++ [s_backup_lock].

(* BackupManager.get_file_key: '/'.join(get_path_components(root, file) + [basename]) *)
Definition get_file_key (file : path) : str := join slash file.


(* BackupManager.get_backup_path *)
Definition get_backup_path (b : name) (file : path) : path :=
  backup_root b ++ key_path (get_file_key file).

(* ------------------------------------------------------------------ *)
(* backup_lock.json: json.dump(backup, fp, indent=4) and json.load      *)
(* restricted to objects {string: string}.                             *)
(* ------------------------------------------------------------------ *)
Definition ch_quote : N := 34%N.
Definition ch_bslash : N := 92%N.
Definition ch_colon : N := 58%N.
Definition ch_nl : N := 10%N.

Definition esc (s : str) : str :=
  flat_map (fun c => if N.eqb c ch_quote || N.eqb c ch_bslash then [ch_bslash; c] else [c]) s.
Definition quote (s : str) : str := ch_quote :: esc s ++ [ch_quote].

Definition indent4 : str := [ch_space; ch_space; ch_space; ch_space].
Definition member (ts k : str) : str := indent4 ++ quote k ++ [ch_colon; ch_space] ++ quote ts.

Fixpoint members (ts : str) (ks : list str) : str :=
  match ks with
  | [] => []
  | [k] => member ts k
  | k :: r => member ts k ++ [ch_comma; ch_nl] ++ members ts r
  end.

Definition dump (ks : list str) (ts : str) : str :=
  match ks with
  | [] => [ch_lbrace; ch_rbrace]
  | _ => [ch_lbrace; ch_nl] ++ members ts ks ++ [ch_nl; ch_rbrace]
  end.

Inductive jst :=
| J0 | J1 | JKey (acc : str) | JKeyEsc (acc : str) | JColon | JVal0 | JVal | JValEsc
| JAfter | JNext | JEnd.

Definition is_ws (c : N) : bool :=
  N.eqb c 32 || N.eqb c 10 || N.eqb c 13 || N.eqb c 9.
Definition is_escapable (c : N) : bool :=
  N.eqb c ch_quote || N.eqb c ch_bslash || N.eqb c ch_slash.

Definition jstep (st : jst * list str) (c : N) : option (jst * list str) :=
  let (s, ks) := st in
  match s with
  | J0 => if is_ws c then Some (J0, ks) else if N.eqb c ch_lbrace then Some (J1, ks) else None
  | J1 => if is_ws c then Some (J1, ks) else if N.eqb c ch_rbrace then Some (JEnd, ks)
          else if N.eqb c ch_quote then Some (JKey [], ks) else None
  | JKey acc => if N.eqb c ch_quote then Some (JColon, ks ++ [acc])
                else if N.eqb c ch_bslash then Some (JKeyEsc acc, ks)
                else if N.ltb c 32 then None else Some (JKey (acc ++ [c]), ks)
  | JKeyEsc acc => if is_escapable c then Some (JKey (acc ++ [c]), ks) else None
  | JColon => if is_ws c then Some (JColon, ks) else if N.eqb c ch_colon then Some (JVal0, ks) else None
  | JVal0 => if is_ws c then Some (JVal0, ks) else if N.eqb c ch_quote then Some (JVal, ks) else None
  | JVal => if N.eqb c ch_quote then Some (JAfter, ks)
            else if N.eqb c ch_bslash then Some (JValEsc, ks)
            else if N.ltb c 32 then None else Some (JVal, ks)
  | JValEsc => if is_escapable c then Some (JVal, ks) else None
  | JAfter => if is_ws c then Some (JAfter, ks) else if N.eqb c ch_comma then Some (JNext, ks)
              else if N.eqb c ch_rbrace then Some (JEnd, ks) else None
  | JNext => if is_ws c then Some (JNext, ks) else if N.eqb c ch_quote then Some (JKey [], ks) else None
  | JEnd => if is_ws c then Some (JEnd, ks) else None
  end.

Fixpoint jrun (st : jst * list str) (s : str) : option (jst * list str) :=
  match s with
  | [] => Some st
  | c :: r => match jstep st c with Some st' => jrun st' r | None => None end
  end.

(* json.load(fp).keys(); None = json.JSONDecodeError (a ValueError) *)
Definition load (s : str) : option (list str) :=
  match jrun (J0, []) s with
  | Some (JEnd, ks) => Some ks
  | _ => None
  end.

(* ------------------------------------------------------------------ *)
(* BackupManager                                                       *)
(* ------------------------------------------------------------------ *)
Definition mgr := list (name * list str).      (* self.backups_dict: name -> keys *)

Fixpoint mgr_get (m : mgr) (b : name) : option (list str) :=
  match m with
  | [] => None
  | (n, ks) :: r => if str_eqb n b then Some ks else mgr_get r b
  end.
Definition mgr_set (m : mgr) (b : name) (ks : list str) : mgr := (b, ks) :: m.

(* set difference on paths *)
Definition diff_paths (a b : list path) : list path := filter (fun p => negb (mem_path p b)) a.

(* BackupManager._check_backup_consistency *)
Definition check_backup_consistency (f : fs) (b : name)
  : res (list str * list path * list path) :=
  let dict_path := backup_lock b in
  if negb (exists_ f dict_path) then Exn HedFileError else
  let root_path := backup_root b in
  if negb (isdir f root_path) then Exn HedFileError else
  match lookup f dict_path with
  | Some (File c) =>
      match load c with
      | None => Exn ValueError
      | Some keys =>
          let backup_paths := map (fun k => root_path ++ key_path k) keys in
          let file_paths := get_file_list f root_path in
          Ok (keys, diff_paths file_paths backup_paths, diff_paths backup_paths file_paths)
      end
  | _ => Exn OSError
  end.

(* body of the loop of BackupManager._get_backups for one directory entry *)
Definition check_one (f : fs) (b : name) : res (list str) :=
  let broot := backup_dir b in
  if negb (isdir f broot) then Exn HedFileError else
  if negb (Nat.eqb (length (listdir f broot)) 2) then Exn HedFileError else
  let* r := check_backup_consistency f b in
  let '(keys, not_in_backup, not_in_dir) := r in
  match not_in_backup with
  | _ :: _ => Exn HedFileError
  | [] => match not_in_dir with
          | _ :: _ => Exn HedFileError
          | [] => Ok keys
          end
  end.

Fixpoint get_backups_loop (f : fs) (bs : list name) : res mgr :=
  match bs with
  | [] => Ok []
  | b :: r => let* ks := check_one f b in
              let* m := get_backups_loop f r in
              Ok ((b, ks) :: m)
  end.

(* BackupManager._get_backups *)
Definition get_backups (f : fs) : res mgr :=
  if negb (isdir f backups_path) then Exn OSError else
  get_backups_loop f (listdir f backups_path).

(* os.makedirs(base ++ rel, exist_ok=True) where base exists: one mkdir per level *)
Definition mkdirs (base rel : path) : list effect :=
  map (fun j => Mkdir (base ++ firstn j rel)) (seq 1 (length rel)).

(* BackupManager.__init__ *)
Definition mgr_init (f : fs) : fs * res mgr :=
  let (f1, r) := exec f (mkdirs [] backups_path) in
  match r with
  | Exn e => (f1, Exn e)
  | Ok _ => (f1, get_backups f1)
  end.

(* dict insertion order with unique keys *)
Fixpoint keys_of (files : list path) (acc : list str) : list str :=
  match files with
  | [] => acc
  | f :: r => let k := get_file_key f in
              keys_of r (if mem_str k acc then acc else acc ++ [k])
  end.

Definition copy_effects (b : name) (file : path) : list effect :=
  let dst := get_backup_path b file in
  mkdirs (backup_root b) (removelast (key_path (get_file_key file))) ++ [Copy file dst].

(* the file-system effects of BackupManager.create_backup, in program order *)
Definition create_effects (b : name) (files : list path) (ts : str) : list effect :=
  [Mkdir (backup_dir b); Mkdir (backup_root b)]
  ++ flat_map (copy_effects b) files
  ++ [Write (backup_lock b) (dump (keys_of files []) ts)].

Definition copies_part (b : name) (files : list path) : list effect :=
  [Mkdir (backup_dir b); Mkdir (backup_root b)] ++ flat_map (copy_effects b) files.

(* BackupManager.create_backup; backup_name=None is resolved by the caller.
   [fixed = true] is the CURRENT code of /repo, i.e. after fix commit fb42f68 (C18-F1; the name is also
   refused when backups/<name> exists on disk, whatever the cached dictionary
   says); [fixed = false] is the behaviour BEFORE fix commit fb42f68, kept only as the record of
   the repaired defect.  Every theorem about "the code" is stated for [create_backup true]. *)
Definition create_backup (fixed : bool) (m : mgr) (f : fs) (files : list path) (b : name) (ts : str)
  : fs * mgr * res bool :=
  match mgr_get m b with
  | Some _ => (f, m, Ok false)
  | None =>
      if fixed && exists_ f (backup_dir b) then (f, m, Ok false) else
      match exec f (copies_part b files) with
      | (f1, Exn e) => (f1, m, Exn e)
      | (f1, Ok _) =>
          let ks := keys_of files [] in
          let m' := mgr_set m b ks in          (* self.backups_dict[name] = backup *)
          match apply (Write (backup_lock b) (dump ks ts)) f1 with
          | Ok f2 => (f2, m', Ok true)
          | Exn e => (f1, m', Exn e)
          end
      end
  end.

(* BackupManager.get_task *)
Fixpoint is_infix (p s : str) : bool :=
  prefixb p s || match s with [] => false | _ :: r => is_infix p r end.

Fixpoint get_task (tasks : list str) (file : path) : str :=
  match tasks with
  | [] => []
  | t :: r => if is_infix (s_task_ ++ t) (last file []) then t else get_task r file
  end.

(* "not self.get_task(task_names, file)": the returned task name is tested for truth,
   so an empty task name never selects a file *)
Definition task_selected (tasks : list str) (file : path) : bool :=
  match get_task tasks file with [] => false | _ :: _ => true end.

Definition restore_one (b : name) (tasks : list str) (k : str) : list effect :=
  let bfile := backup_root b ++ key_path k in
  let dfile := key_path k in
  match tasks with
  | _ :: _ => if task_selected tasks bfile then mkdirs [] (removelast dfile) ++ [Copy bfile dfile] else []
  | [] => mkdirs [] (removelast dfile) ++ [Copy bfile dfile]
  end.

Definition restore_effects (b : name) (tasks : list str) (keys : list str) : list effect :=
  flat_map (restore_one b tasks) keys.

(* BackupManager.restore_backup (get_backup_files raises on a missing or empty backup) *)
Definition restore_backup (m : mgr) (f : fs) (b : name) (tasks : list str) : fs * res unit :=
  match mgr_get m b with
  | None => (f, Exn HedFileError)
  | Some [] => (f, Exn HedFileError)
  | Some keys => exec f (restore_effects b tasks keys)
  end.

(* ------------------------------------------------------------------ *)
(* Dispatcher.get_data_file + run_operations + to_csv, and run_remodel  *)
(* ------------------------------------------------------------------ *)
Inductive reffect :=
| Plain (e : effect)
| Transform (src dst : path).     (* df = op(read_csv(src)); df.to_csv(dst) *)

Section Remodel.
  Variable op : str -> str.       (* the operation list as a function of the table text *)

  Definition rapply (e : reffect) (f : fs) : res fs :=
    match e with
    | Plain e => apply e f
    | Transform s d =>
        match lookup f s with
        | Some (File c) =>
            match lookup f d with
            | Some Dir => Exn OSError
            | _ => Ok (set d (File (op c)) f)
            end
        | _ => Exn HedFileError      (* get_data_file: BadDataFile *)
        end
    end.

  Fixpoint rexec (f : fs) (es : list reffect) : fs * res unit :=
    match es with
    | [] => (f, Ok tt)
    | e :: r => match rapply e f with Ok f' => rexec f' r | Exn x => (f, Exn x) end
    end.

  (* run_remodel.main for one dispatcher: handle_backup (restore, task filtered),
     then every target is read from its backup copy and written in place.
     [targets] is the result of io_util.get_file_list (not modelled). *)
  Definition remodel_effects (b : name) (tasks : list str) (keys : list str) (targets : list path)
    : list reffect :=
    map Plain (restore_effects b tasks keys)
    ++ map (fun t => Transform (get_backup_path b t) t) targets.

  Definition run_remodel (f : fs) (b : name) (tasks : list str) (targets : list path)
    : fs * res unit :=
    let (f1, r) := mgr_init f in
    match r with
    | Exn e => (f1, Exn e)
    | Ok m =>
        match mgr_get m b with
        | None => (f1, Exn HedFileError)
        | Some [] => (f1, Exn HedFileError)
        | Some keys => rexec f1 (remodel_effects b tasks keys targets)
        end
    end.
End Remodel.

(* user actions on data files between backup and restore *)
Inductive uop := UWrite (p : path) (c : str) | UDelete (p : path) | UMkdir (p : path).
Definition uapply (u : uop) (f : fs) : fs :=
  match u with
  | UWrite p c => set p (File c) f
  | UDelete p => remove p f
  | UMkdir p => set p Dir f
  end.
Definition utarget (u : uop) : path :=
  match u with UWrite p _ => p | UDelete p => p | UMkdir p => p end.

(* canonical dump of a state for the correspondence check *)
Definition dump_fs (f : fs) : list (path * node) :=
  flat_map (fun p => match lookup f p with Some n => [(p, n)] | None => [] end) (paths f).
