(* C09 spec layer: pure forests of abstract tags.
   Model of hed/models/definition_dict.py (check_for_definitions, _find_group,
   _strip_value_placeholder, _validate_contents, _validate_placeholders,
   _validate_name_and_context), definition_entry.py (DefinitionEntry.__init__,
   get_definition), hed_group.py (_sorted, __eq__, get_all_tags, find_def_tags),
   hed_tag.py (__eq__, is_placeholder, replace_placeholder), and the tree-level
   reading of HedString.expand_defs / shrink_defs and
   DefValidator.validate_def_tags/_validate_def_contents.
   Models only -- proofs live in Proofs/DefsProofs.v. *)
From Coq Require Import List NArith Arith Bool.
From HV Require Import Base.Res Base.Str Gen.C09Fold.
Import ListNotations.

(* ------------------------------------------------------------------ tags *)

(* schema entry of a tag: the three definition-related tags, or any other tag
   (short name, takesValue of the entry, unique/required attribute) *)
Inductive base : Set :=
| BDef | BDefExpand | BDefinition
| BOther (name : str) (tv ur : bool).

(* text = _extension_value without its leading slash ([] = none);
   torg = org_tag (never changes after construction);
   tns = schema_namespace ("" or e.g. "tl:"): part of every printed form, never
   looked at when the tag is classified or switched between Def and Def-expand *)
Record tag : Set := mkTag { tbase : base; text : str; torg : str; tns : str }.

Inductive node : Set :=
| T (t : tag)
| G (ch : list node).

Definition forest := list node.

Definition is_def (b : base) : bool := match b with BDef => true | _ => false end.
Definition is_defexpand (b : base) : bool := match b with BDefExpand => true | _ => false end.
Definition is_definition (b : base) : bool := match b with BDefinition => true | _ => false end.
Definition is_defish (b : base) : bool := is_def b || is_defexpand b || is_definition b.
Definition takes_value (b : base) : bool :=
  match b with BOther _ tv _ => tv | _ => true end.
Definition has_ur (b : base) : bool :=
  match b with BOther _ _ ur => ur | _ => false end.

Definition s_def : str := [68;101;102]%N.
Definition s_defexpand : str := [68;101;102;45;101;120;112;97;110;100]%N.
Definition s_definition : str := [68;101;102;105;110;105;116;105;111;110]%N.

Definition base_name (b : base) : str :=
  match b with
  | BDef => s_def | BDefExpand => s_defexpand | BDefinition => s_definition
  | BOther n _ _ => n
  end.

(* namespace + short_tag_name *)
Definition tag_head (t : tag) : str := tns t ++ base_name (tbase t).

(* HedTag.short_tag / __str__ for an identified tag *)
Definition short_tag (t : tag) : str :=
  match text t with
  | [] => tag_head t
  | e => tag_head t ++ ch_slash :: e
  end.

(* the short_base_tag setter: the namespace stays *)
Definition set_base (t : tag) (b : base) : tag := mkTag b (text t) (torg t) (tns t).

(* ------------------------------------------------------------------ strings *)

Definition contains (c : N) (s : str) : bool := existsb (N.eqb c) s.

(* str.casefold(): ASCII rule, plus the table Gen/C09Fold.v that the harness regenerates
   from CPython for every non-ASCII code point its generators can produce (one code
   point may fold to several: sharp s, ligatures); identity elsewhere *)
Definition lower_c (c : N) : N := if ((65 <=? c) && (c <=? 90))%N then (c + 32)%N else c.
Fixpoint assoc_fold (c : N) (tb : list (N * list N)) : option (list N) :=
  match tb with
  | [] => None
  | (k, l) :: tb' => if N.eqb c k then Some l else assoc_fold c tb'
  end.
Definition fold_c (c : N) : list N :=
  match assoc_fold c c09_fold_table with Some l => l | None => [lower_c c] end.
Definition lower (s : str) : str := flat_map fold_c s.

(* s.partition('/') -> (head, tail) *)
Fixpoint partition_slash (s : str) : str * str :=
  match s with
  | [] => ([], [])
  | c :: s' => if N.eqb c ch_slash then ([], s')
               else let '(a, b) := partition_slash s' in (c :: a, b)
  end.

(* s.replace('#', v) *)
Definition replace_hash (s v : str) : str :=
  flat_map (fun c => if N.eqb c ch_hash then v else [c]) s.

(* DefinitionDict._strip_value_placeholder *)
Definition strip_value_placeholder (s : str) : str * bool :=
  match rev s with
  | 35%N :: 47%N :: r => (rev r, true)
  | _ => (s, false)
  end.

Definition is_nil {A} (l : list A) : bool := match l with [] => true | _ => false end.

(* ------------------------------------------------------------------ printing *)

Fixpoint str_node (n : node) : str :=
  match n with
  | T t => short_tag t
  | G ch => ch_open :: join [ch_comma] (map str_node ch) ++ [ch_close]
  end.

Definition str_forest (f : forest) : str := join [ch_comma] (map str_node f).

(* ------------------------------------------------------------------ traversal *)

(* HedGroup.get_all_tags: depth-first, pre-order *)
Fixpoint all_tags (n : node) : list tag :=
  match n with
  | T t => [t]
  | G ch => flat_map all_tags ch
  end.
Definition all_tags_f (f : forest) : list tag := flat_map all_tags f.

(* HedGroup.tags() / groups() *)
Definition direct_tags (ch : list node) : list tag :=
  flat_map (fun n => match n with T t => [t] | G _ => [] end) ch.
Definition direct_groups (ch : list node) : list (list node) :=
  flat_map (fun n => match n with T _ => [] | G c => [c] end) ch.

(* ------------------------------------------------------------------ sorting *)

(* list.sort(key=...): stable, code-point order on the key *)
Fixpoint insert_by (key : node -> str) (x : node) (l : list node) : list node :=
  match l with
  | [] => [x]
  | y :: l' => if str_leb (key x) (key y) then x :: l else y :: insert_by key x l'
  end.
Definition sort_by (key : node -> str) (l : list node) : list node := fold_right (insert_by key) [] l.

Definition is_tag_node (n : node) : bool := match n with T _ => true | G _ => false end.

(* HedGroup._sort_key of an already sorted child: its case-folded text *)
Definition key1 (n : node) : str := str_node n.
Definition key2 (n : node) : str := lower (str_node n).

(* sort(key=str) followed by the stable sort(key=_sort_key) *)
Definition sort2 (l : list node) : list node := sort_by key2 (sort_by key1 l).

(* HedGroup._sorted(update_self=True) on the children: tags first, then groups,
   each in canonical (case-folded) order, ties in the order of their text *)
Definition sort_children (ch : list node) : list node :=
  sort2 (filter is_tag_node ch) ++ sort2 (filter (fun n => negb (is_tag_node n)) ch).

Fixpoint sort_node (n : node) : node :=
  match n with
  | T t => T t
  | G ch => G (sort_children (map sort_node ch))
  end.

(* ------------------------------------------------------------------ equality *)

(* HedTag.__eq__ (both HedTags): same case-folded short_tag *)
Definition tag_eq (a b : tag) : bool :=
  str_eqb (lower (short_tag a)) (lower (short_tag b)).

(* HedGroup.__eq__ / list comparison of children: ordered *)
Fixpoint node_eq (a b : node) {struct a} : bool :=
  match a, b with
  | T x, T y => tag_eq x y
  | G xs, G ys =>
      (fix go (l1 l2 : list node) {struct l1} : bool :=
         match l1, l2 with
         | [], [] => true
         | x :: l1', y :: l2' => node_eq x y && go l1' l2'
         | _, _ => false
         end) xs ys
  | _, _ => false
  end.

Fixpoint nodes_eq (l1 l2 : list node) : bool :=
  match l1, l2 with
  | [], [] => true
  | x :: l1', y :: l2' => node_eq x y && nodes_eq l1' l2'
  | _, _ => false
  end.

(* ------------------------------------------------------------------ dictionary *)

(* DefinitionEntry: name, contents (None = no content group; children of the
   stored, sorted content group otherwise), takes_value *)
Record entry : Set := mkEntry { ename : str; econtents : option (list node); etakes : bool }.

(* DefinitionDict.defs: case-folded name -> entry, insertion ordered *)
Definition dict := list (str * entry).

Fixpoint lookup (k : str) (D : dict) : option entry :=
  match D with
  | [] => None
  | (k', e) :: D' => if str_eqb k k' then Some e else lookup k D'
  end.

Definition mem_key (k : str) (D : dict) : bool :=
  match lookup k D with Some _ => true | None => false end.

(* DefinitionEntry.__init__: contents.copy(); contents.sort() when non-empty *)
Definition mk_entry (name : str) (group : option (list node)) (takes : bool) : entry :=
  mkEntry name (option_map (fun c => sort_children (map sort_node c)) group) takes.

(* ------------------------------------------------------------------ acceptance *)

(* DefinitionErrors kinds; all are published as DEFINITION_INVALID *)
Inductive dissue : Set :=
| WrongNumberGroups | NoDefinitionContents | WrongNumberTags | InvalidDefExtension
| DefTagInDefinition | BadPropInDefinition | WrongNumberPlaceholderTags
| PlaceholderNoTakesValue | DuplicateDefinition.

(* HedString.find_top_level_tags({Definition}): per top-level group the first
   direct Definition tag *)
Definition find_top_level_definitions (f : forest) : list (tag * list node) :=
  flat_map (fun g => match find (fun t => is_definition (tbase t)) (direct_tags g) with
                     | Some t => [(t, g)]
                     | None => []
                     end) (direct_groups f).

(* DefinitionDict._find_group *)
Definition find_group (dt : tag) (g : list node) : option (list node) * list dissue :=
  let groups := direct_groups g in
  let i1 := if 1 <? length groups then [WrongNumberGroups]
            else if (length groups =? 0) && contains ch_hash (text dt) then [NoDefinitionContents]
            else [] in
  let i2 := if negb (length (direct_tags g) =? 1) then [WrongNumberTags] else [] in
  (hd_error groups, i1 ++ i2).

Definition group_tags (group : option (list node)) : list tag :=
  match group with Some c => all_tags_f c | None => [] end.

(* DefinitionDict._validate_contents *)
Definition validate_contents (group : option (list node)) : list dissue :=
  map (fun _ => DefTagInDefinition) (filter (fun t => is_defish (tbase t)) (group_tags group)) ++
  map (fun _ => BadPropInDefinition) (filter (fun t => has_ur (tbase t)) (group_tags group)).

Definition hashes (t : tag) : nat := count ch_hash (short_tag t).

(* DefinitionDict._validate_placeholders *)
Definition validate_placeholders (group : option (list node)) (takes : bool) : list dissue :=
  let tags := group_tags group in
  let ph := filter (fun t => 1 <=? hashes t) tags in
  let bad := filter (fun t => 2 <=? hashes t) tags in
  let i1 := if is_nil bad then [] else [WrongNumberPlaceholderTags] in
  if negb (Bool.eqb (length ph =? 1) takes) then i1 ++ [WrongNumberPlaceholderTags]
  else if takes then
    match ph with
    | p :: _ => if takes_value (tbase p) then i1 else i1 ++ [PlaceholderNoTakesValue]
    | [] => i1
    end
  else i1.

(* body of the loop of DefinitionDict.check_for_definitions *)
Definition check_one (D : dict) (dt : tag) (g : list node) : dict * list dissue :=
  let '(group_tag, i0) := find_group dt g in
  let '(name, takes) := strip_value_placeholder (text dt) in
  let i1 := i0 ++ (if contains ch_slash name || contains ch_hash name
                   then [InvalidDefExtension] else []) in
  if negb (is_nil i1) then (D, i1) else
  let i2 := validate_contents group_tag ++ validate_placeholders group_tag takes in
  if negb (is_nil i2) then (D, i2) else
  if mem_key (lower name) D then (D, [DuplicateDefinition]) else
  (D ++ [(lower name, mk_entry name group_tag takes)], []).

(* DefinitionDict.check_for_definitions on one parsed string *)
Definition check_for_definitions (D : dict) (f : forest) : dict * list dissue :=
  fold_left (fun acc dg => let '(D1, is1) := check_one (fst acc) (fst dg) (snd dg) in
                           (D1, snd acc ++ is1))
            (find_top_level_definitions f) (D, []).

(* DefinitionDict(list_of_strings) *)
Definition add_definitions (D : dict) (fs : list forest) : dict * list dissue :=
  fold_left (fun acc f => let '(D1, is1) := check_for_definitions (fst acc) f in
                          (D1, snd acc ++ is1)) fs (D, []).

(* ------------------------------------------------------------------ expansion *)

(* HedTag.is_placeholder / replace_placeholder *)
Definition is_placeholder (t : tag) : bool :=
  contains ch_hash (torg t) || contains ch_hash (text t).
Definition replace_placeholder (t : tag) (v : str) : tag :=
  mkTag (tbase t) (replace_hash (text t) v) (torg t) (tns t).

(* find_placeholder_tag + replace_placeholder on a deep copy: the FIRST tag
   (depth-first) that is a placeholder gets the value; [done] = already found *)
Fixpoint subst_node (v : str) (done : bool) (n : node) {struct n} : bool * node :=
  match n with
  | T t => if done then (true, T t)
           else if is_placeholder t then (true, T (replace_placeholder t v))
           else (false, T t)
  | G ch =>
      let '(d, ch') :=
        (fix go (done : bool) (l : list node) {struct l} : bool * list node :=
           match l with
           | [] => (done, [])
           | x :: l' => let '(d1, x') := subst_node v done x in
                        let '(d2, l'') := go d1 l' in (d2, x' :: l'')
           end) done ch in
      (d, G ch')
  end.

Fixpoint subst_list (v : str) (done : bool) (l : list node) : bool * list node :=
  match l with
  | [] => (done, [])
  | x :: l' => let '(d1, x') := subst_node v done x in
               let '(d2, l'') := subst_list v d1 l' in (d2, x' :: l'')
  end.

(* DefinitionEntry.get_definition(replace_tag, placeholder_value):
   Ok None = takes_value / value mismatch; Exn ValueError = "Internal error
   related to placeholders"; otherwise the children of the returned group *)
Definition get_definition (e : entry) (t : tag) (placeholder : str) : res (option (list node)) :=
  if Bool.eqb (etakes e) (is_nil placeholder) then Ok None else
  match econtents e with
  | Some (c0 :: c) =>
      if is_nil placeholder then Ok (Some [T t; G (c0 :: c)])
      else let '(d, c') := subst_list placeholder false (c0 :: c) in
           if d then Ok (Some [T t; G c']) else Exn ValueError
  | _ => Ok (Some [T t])
  end.

(* tag_label, _, placeholder = tag.extension.partition('/'); defs.get(label.casefold()) *)
Definition def_entry (D : dict) (t : tag) : option entry :=
  lookup (lower (fst (partition_slash (text t)))) D.
Definition def_placeholder (t : tag) : str := snd (partition_slash (text t)).

(* what a Def tag is replaced by (None = left alone) *)
Definition expansion (D : dict) (t : tag) : option (list node) :=
  match def_entry D t with
  | None => None
  | Some e => match get_definition e (set_base t BDefExpand) (def_placeholder t) with
              | Ok (Some ch) => Some ch
              | _ => None
              end
  end.

(* tree-level reading of HedString.expand_defs on a freshly built string *)
Fixpoint expand_node (D : dict) (n : node) : node :=
  match n with
  | T t => if is_def (tbase t) then
             match expansion D t with Some ch => G ch | None => T t end
           else T t
  | G ch => G (map (expand_node D) ch)
  end.
Definition expand_t (D : dict) (f : forest) : forest := map (expand_node D) f.

(* ------------------------------------------------------------------ shrinking *)

Definition de_tags (ch : list node) : list tag :=
  filter (fun t => is_defexpand (tbase t)) (direct_tags ch).

(* tree-level reading of HedString.shrink_defs: every non-root group holding a
   direct Def-expand tag is replaced by that tag as Def *)
Fixpoint shrink_node (n : node) : node :=
  match n with
  | T t => T t
  | G ch => match de_tags ch with
            | t :: _ => T (set_base t BDef)
            | [] => G (map shrink_node ch)
            end
  end.
Definition shrink_pure (f : forest) : forest := map shrink_node f.

(* a non-root group with two direct Def-expand tags: the second replace raises
   KeyError (the group is no longer a child of its recorded parent) *)
Fixpoint multi_de (n : node) : bool :=
  match n with
  | T _ => false
  | G ch => (2 <=? length (de_tags ch)) || existsb multi_de ch
  end.

Definition shrink_t (f : forest) : res forest :=
  if existsb multi_de f then Exn KeyError else Ok (shrink_pure f).

(* ------------------------------------------------------------------ validation *)

(* published codes of the issues of DefValidator._validate_def_contents *)
Inductive vcode : Set := DefInvalid | DefExpandInvalid.

(* DefValidator._validate_def_contents; g = None for a Def tag, Some children
   of the Def-expand group otherwise *)
(* [fs = true] = the comparison as it is since fix commit cbb8087 (former C09-F2): both
   sides sorted() first; [fs = false] = the ordered comparison before it (record) *)
Definition sorted_children (ch : list node) : list node := sort_children (map sort_node ch).

Definition validate_def_contents (fs : bool) (D : dict) (t : tag) (g : option (list node)) : res (list vcode) :=
  let code := match g with None => DefInvalid | Some _ => DefExpandInvalid end in
  match def_entry D t with
  | None => Ok [code]
  | Some e =>
      match get_definition e t (def_placeholder t) with
      | Exn x => Exn x
      | Ok None => Ok [code]
      | Ok (Some ch) =>
          match g with
          | Some gch =>
              if (if fs then nodes_eq (sorted_children gch) (sorted_children ch) else nodes_eq gch ch)
              then Ok [] else Ok [DefExpandInvalid]
          | None => Ok []
          end
      end
  end.

(* HedGroup._get_def_tags_from_group *)
Definition def_tags_from_group (ch : list node) : list (tag * option (list node)) :=
  flat_map (fun n => match n with
                     | T t => if is_def (tbase t) then [(t, None)] else []
                     | G c => map (fun t => (t, Some c)) (de_tags c)
                     end) ch.

(* HedGroup.get_all_groups (self first, pre-order) as lists of children *)
Fixpoint all_groups (n : node) : list (list node) :=
  match n with
  | T _ => []
  | G ch => ch :: flat_map all_groups ch
  end.

(* HedGroup.find_def_tags(recursive=True) on the root *)
Definition find_def_tags (f : forest) : list (tag * option (list node)) :=
  flat_map def_tags_from_group (f :: flat_map all_groups f).

(* DefValidator.validate_def_tags *)
Definition validate_def_tags (fs : bool) (D : dict) (f : forest) : res (list vcode) :=
  fold_left (fun acc tg => let* a := acc in
                           let* b := validate_def_contents fs D (fst tg) (snd tg) in Ok (a ++ b))
            (find_def_tags f) (Ok []).

(* accepted = no issue for this Def-expand group *)
Definition defexpand_accepted (fs : bool) (D : dict) (t : tag) (gch : list node) : bool :=
  match validate_def_contents fs D t (Some gch) with Ok [] => true | _ => false end.

(* ------------------------------------------------------------------ well-formed dictionaries *)

Definition has_placeholder (c : list node) : bool := existsb is_placeholder (all_tags_f c).

Definition wf_entry (e : entry) : bool :=
  match econtents e with
  | Some c => forallb (fun t => negb (is_defish (tbase t))) (all_tags_f c)
              && (if etakes e then has_placeholder c else true)
  | None => negb (etakes e)
  end.

(* what check_for_definitions guarantees of every stored entry *)
Definition wf_dict (D : dict) : bool := forallb (fun ke => wf_entry (snd ke)) D.
