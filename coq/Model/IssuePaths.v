(* C12 -- decoration call paths of the file-level entry points, on top of Model/Issues.v:
     hed/validator/sidecar_validator.py     : SidecarValidator.validate, validate_structure,
                                              _validate_refs, _check_definitions_bad_spot
     hed/validator/spreadsheet_validator.py : SpreadsheetValidator.validate,
                                              _validate_column_structure, _run_checks, _run_onset_checks
   The string-level validators, the sidecar structure tests and pandas are NOT modelled here
   (C01/C07/C08 do that): what they return is the abstract input -- per string the raw issue
   lists of run_basic_checks / run_full_string_checks / ..., per structural test the kinds it
   reports.  The model transcribes what happens to those results: the context stack, the
   decoration calls, the gates that depend on issue lists, the final sort.
   Model only (no proofs). *)
From Coq Require Import List NArith ZArith Arith Bool.
From HV Require Import Base.Res Base.Str Base.IssueTypes Gen.ErrorCodes Model.Issues.
Import ListNotations.

(* ------------------------------------------------------------------ combinators *)

(* issues += a; issues += b *)
Definition cat (a b : res (list issue)) : res (list issue) :=
  let* x := a in let* y := b in Ok (x ++ y).

(* for x in l: issues += f x *)
Fixpoint cat_map {A} (f : A -> res (list issue)) (l : list A) : res (list issue) :=
  match l with
  | [] => Ok []
  | x :: xs => cat (f x) (cat_map f xs)
  end.

(* error_handler.push_error_context(k, v); body; error_handler.pop_error_context() *)
Definition with_ctx {A} (h : handler) (k : ckey) (v : option cval) (body : handler -> res A) : res A :=
  let h' := push_error_context h k v in
  let* r := body h' in
  let* _ := pop_error_context h' in
  Ok r.

(* if cond: push; body; pop   else: body      (the "if len(hed_strings) > 1" key context) *)
Definition with_opt_ctx {A} (h : handler) (k : ckey) (v : option cval) (body : handler -> res A) : res A :=
  match v with
  | Some _ => with_ctx h k v body
  | None => body h
  end.

Definition no_args : call_args := {| a_tag := None; a_idx := 0; a_idx_end := None; a_sev := None |}.

(* an error reported through error_handler.format_error_with_context(kind, ...) *)
Definition event := (str * call_args)%type.
Definition fewc (fixed : bool) (h : handler) (e : event) : res (list issue) :=
  format_error_with_context fixed (Some h) kind_table (fst e) (snd e) None.

Definition str_ctx (s : str) : option cval := Some (VStr s).
Definition opt_str_ctx (s : option str) : option cval :=
  match s with Some x => Some (VStr x) | None => None end.

(* ================================================================== sidecar entry point *)

(* validate_structure: per column the events reported at column level, then per key *)
Record st_col : Set := { stc_name : str; stc_events : list event; stc_keys : list (str * list event) }.

(* _validate_refs: per string the events reported inside its (key,) string context *)
Record rf_str : Set := { rfs_key : option str;   (* Some: len(hed_strings) > 1 *)
                         rfs_hs : hstr; rfs_events : list event }.
Record rf_col : Set := { rfc_name : str; rfc_strs : list rf_str;
                         rfc_self : list event }.   (* SELF_COLUMN_REF, after the column context is popped *)

(* the main loop: per string the basic-phase results (run_basic_checks ++ _validate_pound_sign_count)
   and, per combination of column references, the string built and its full-phase results *)
Record sc_str : Set := { scs_key : option str; scs_hs : hstr; scs_basic : list issue;
                         scs_combos : list (hstr * list issue) }.
Record sc_col : Set := { scc_name : str; scc_strs : list sc_str }.

Record sc_input : Set := {
  si_name : option cval;                 (* name (None is replaced by "") *)
  si_struct : list st_col;
  si_refs : list rf_col;
  si_nested : list event;                (* NESTED_COLUMN_REF, file level *)
  si_defs : list issue;                  (* sidecar._extract_definition_issues + sidecar_def_dict.issues *)
  si_cols : list sc_col;
  si_badspot : list (str * list event)   (* _check_definitions_bad_spot, per column *)
}.

(* SidecarValidator.validate_structure / _validate_column_structure / _validate_categorical_column *)
Definition validate_structure (fixed : bool) (h : handler) (cols : list st_col) : res (list issue) :=
  cat_map (fun c =>
    with_ctx h CSidecarCol (str_ctx (stc_name c)) (fun h2 =>
      cat (cat_map (fewc fixed h2) (stc_events c))
          (cat_map (fun ke =>
             with_ctx h2 CSidecarKey (str_ctx (fst ke)) (fun h3 => cat_map (fewc fixed h3) (snd ke)))
             (stc_keys c)))) cols.

(* SidecarValidator._validate_refs: the events of a string are decorated inside the string
   context, then (both contexts popped) the same list goes through add_context_and_filter *)
Definition validate_refs (fixed : bool) (h : handler) (cols : list rf_col) (nested : list event)
  : res (list issue) :=
  cat (cat_map (fun c =>
         cat (with_ctx h CSidecarCol (str_ctx (rfc_name c)) (fun h2 =>
                cat_map (fun s =>
                  let* new_issues :=
                    with_opt_ctx h2 CSidecarKey (opt_str_ctx (rfs_key s)) (fun h3 =>
                      with_ctx h3 CHedString (Some (VHed (rfs_hs s))) (fun h4 =>
                        cat_map (fewc fixed h4) (rfs_events s))) in
                  add_context_and_filter fixed h2 new_issues) (rfc_strs c)))
             (cat_map (fewc fixed h) (rfc_self c))) cols)
      (cat_map (fewc fixed h) nested).

(* the main loop of SidecarValidator.validate *)
Definition validate_strings (fixed : bool) (h : handler) (cols : list sc_col) : res (list issue) :=
  cat_map (fun c =>
    with_ctx h CSidecarCol (str_ctx (scc_name c)) (fun h2 =>
      cat_map (fun s =>
        with_opt_ctx h2 CSidecarKey (opt_str_ctx (scs_key s)) (fun h3 =>
          cat (with_ctx h3 CHedString (Some (VHed (scs_hs s))) (fun h4 =>
                 add_context_and_filter fixed h4 (scs_basic s)))
              (cat_map (fun cb =>
                 with_ctx h3 CHedString (Some (VHed (fst cb))) (fun h4 =>
                   add_context_and_filter fixed h4 (snd cb))) (scs_combos s)))) (scc_strs c))) cols.

(* SidecarValidator._check_definitions_bad_spot *)
Definition check_definitions_bad_spot (fixed : bool) (h : handler) (cols : list (str * list event))
  : res (list issue) :=
  cat_map (fun c => with_ctx h CSidecarCol (str_ctx (fst c)) (fun h2 => cat_map (fewc fixed h2) (snd c))) cols.

(* Mirror of harness/c12.py SORT_EARLY: true = the code as it is in /repo since fix commit 8c0dae9
   ("return sort_issues(issues)" on the early return). *)
Definition code_sorts_early : bool := true.

(* SidecarValidator.validate.  [sort_early]: true = the code as it is (fix commit 8c0dae9: the early
   return sorts too); false = the behaviour BEFORE that commit (the early return handed the structure /
   reference issues back unsorted -- finding C12-F2, repaired). *)
Definition sidecar_validate (fixed sort_early : bool) (h0 : handler) (inp : sc_input) : res (list issue) :=
  let h := push_error_context h0 CFile (si_name inp) in
  let* issues := cat (validate_structure fixed h (si_struct inp))
                     (validate_refs fixed h (si_refs inp) (si_nested inp)) in
  if check_for_any_errors issues then
    let* _ := pop_error_context h in
    if sort_early then sort_issues issues false else Ok issues
  else
    let* rest := cat (Ok (si_defs inp))
                     (cat (validate_strings fixed h (si_cols inp))
                          (check_definitions_bad_spot fixed h (si_badspot inp))) in
    let* sorted := sort_issues (issues ++ rest) false in
    let* _ := pop_error_context h in
    Ok sorted.

(* ================================================================== table entry point *)

(* a HedString with bool(string) = bool(children) *)
Record pstr : Set := { ps_hs : hstr; ps_true : bool }.

Record tb_cell : Set := { tbc_col : cval; tbc_hs : hstr; tbc_basic : list issue }.

Record tb_row : Set := {
  tr_id : nat;                 (* row_number (index label) *)
  tr_label : Z;                (* row_number + row_adj *)
  tr_cells : list tb_cell;     (* the cells that are neither empty nor n/a *)
  tr_masked : bool;            (* onset_mask is not None and onset_mask.loc[row_number] *)
  tr_rowstr : pstr;            (* HedString.from_hed_strings(row_strings) *)
  tr_full : list issue         (* run_full_string_checks(row_string) + check_for_banned_tags(row_string) *)
}.

Record tb_orow : Set := {
  or_orig : nat;               (* original_index *)
  or_label : Z;                (* original_index + row_adj *)
  or_str : pstr;
  or_full : list issue         (* run_full_string_checks + validate_temporal_relations *)
}.

Record tb_input : Set := {
  ti_name : option cval;
  ti_mapping : list issue;               (* base_input._mapper.check_for_mapping_issues() *)
  ti_keymissing : list (cval * list (Z * event));   (* per categorical column: rows with an unknown key *)
  ti_badrefs : list event;               (* INVALID_COLUMN_REF *)
  ti_unordered : list event;             (* [ONSETS_UNORDERED] when data.needs_sorting *)
  ti_rows : list tb_row;
  ti_onsets : option (list tb_orow)      (* Some: data.onsets is not None *)
}.

(* SpreadsheetValidator._validate_column_structure *)
Definition validate_column_structure (fixed : bool) (h : handler) (inp : tb_input) : res (list issue) :=
  cat (add_context_and_filter fixed h (ti_mapping inp))
      (cat (cat_map (fun c =>
              with_ctx h CColumn (Some (fst c)) (fun h2 =>
                cat_map (fun re =>
                  with_ctx h2 CRow (Some (VInt (fst re))) (fun h3 => fewc fixed h3 (snd re))) (snd c)))
              (ti_keymissing inp))
           (cat_map (fewc fixed h) (ti_badrefs inp))).

(* the cells of one row: returns (issues of all cells, new_column_issues of the LAST cell) *)
Fixpoint run_cells (fixed : bool) (h : handler) (cells : list tb_cell) (last : list issue)
  : res (list issue * list issue) :=
  match cells with
  | [] => Ok ([], last)
  | c :: cs =>
      let* d := with_ctx h CColumn (Some (tbc_col c)) (fun h2 =>
                  with_ctx h2 CHedString (Some (VHed (tbc_hs c))) (fun h3 =>
                    add_context_and_filter fixed h3 (tbc_basic c))) in
      let* r := run_cells fixed h cs d in
      Ok (d ++ fst r, snd r)
  end.

(* one iteration of the loop of _run_checks: (issues, row added to invalid_original_rows).
   [gate] is the test applied to new_column_issues: check_for_any_errors in the code. *)
Definition run_row (gate : list issue -> bool) (fixed : bool) (h : handler) (r : tb_row)
  : res (list issue * bool) :=
  with_ctx h CRow (Some (VInt (tr_label r))) (fun h2 =>
    let* cr := run_cells fixed h2 (tr_cells r) [] in
    if gate (snd cr) then Ok (fst cr, true)
    else if match tr_cells r with [] => true | _ => false end || tr_masked r then Ok (fst cr, false)
    else if ps_true (tr_rowstr r) then
      let* d := with_ctx h2 CHedString (Some (VHed (ps_hs (tr_rowstr r)))) (fun h3 =>
                  add_context_and_filter fixed h3 (tr_full r)) in
      Ok (fst cr ++ d, false)
    else Ok (fst cr, false)).

(* SpreadsheetValidator._run_checks: (issues, invalid_original_rows) *)
Fixpoint run_checks (gate : list issue -> bool) (fixed : bool) (h : handler) (rows : list tb_row)
  : res (list issue * list nat) :=
  match rows with
  | [] => Ok ([], [])
  | r :: rs =>
      let* a := run_row gate fixed h r in
      let* b := run_checks gate fixed h rs in
      Ok (fst a ++ fst b, (if snd a then [tr_id r] else []) ++ snd b)
  end.

(* SpreadsheetValidator._run_onset_checks *)
Definition run_onset_checks (fixed : bool) (h : handler) (invalid : list nat) (rows : list tb_orow)
  : res (list issue) :=
  cat_map (fun r =>
    if existsb (Nat.eqb (or_orig r)) invalid then Ok []
    else with_ctx h CRow (Some (VInt (or_label r))) (fun h2 =>
           if ps_true (or_str r) then
             with_ctx h2 CHedString (Some (VHed (ps_hs (or_str r)))) (fun h3 =>
               add_context_and_filter fixed h3 (or_full r))
           else Ok [])) rows.

(* the rows whose temporal relations are validated, in order (what the onset validator's
   state -- hence or_full of later rows -- depends on) *)
Definition onset_processed (invalid : list nat) (rows : list tb_orow) : list nat :=
  map or_orig (filter (fun r => negb (existsb (Nat.eqb (or_orig r)) invalid) && ps_true (or_str r)) rows).

(* SpreadsheetValidator.validate *)
Definition table_validate_gen (gate : list issue -> bool) (fixed : bool) (h0 : handler) (inp : tb_input)
  : res (list issue) :=
  let h := push_error_context h0 CFile (ti_name inp) in
  let* a := validate_column_structure fixed h inp in
  let* b := cat_map (fewc fixed h) (ti_unordered inp) in
  let* c := run_checks gate fixed h (ti_rows inp) in
  let* d := match ti_onsets inp with
            | Some os => run_onset_checks fixed h (snd c) os
            | None => Ok []
            end in
  let* _ := pop_error_context h in
  sort_issues (a ++ b ++ fst c ++ d) false.

Definition table_validate := table_validate_gen check_for_any_errors.

(* a hypothetical variant (an independently seeded change, never in /repo): "if new_column_issues:"
   instead of the test for errors *)
Definition gate_nonempty (l : list issue) : bool := match l with [] => false | _ => true end.
