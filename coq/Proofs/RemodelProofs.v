(* Lemmas about Model/Remodel.v (C17). *)
From Coq Require Import List NArith ZArith Arith Bool Lia.
From HV Require Import Base.Res Base.Str Model.RemodelJson Gen.RemodelParams Model.Remodel.
Import ListNotations.

(* ------------------------------------------------------------ generalities *)

Lemma str_eqb_refl s : str_eqb s s = true.
Proof. apply str_eqb_spec. reflexivity. Qed.

Lemma mem_str_In c l : mem_str c l = true <-> In c l.
Proof.
  unfold mem_str. rewrite existsb_exists. split.
  - intros [x [Hin Heq]]. apply str_eqb_spec in Heq. subst. exact Hin.
  - intros Hin. exists c. split; [exact Hin | apply str_eqb_refl].
Qed.

Lemma index_of_some c cs : mem_str c cs = true -> exists i, index_of c cs = Some i.
Proof.
  induction cs as [|x cs IH]; cbn [mem_str existsb index_of]; intro H; [discriminate|].
  destruct (str_eqb c x) eqn:E; [eexists; reflexivity|].
  cbn [orb] in H. destruct (IH H) as [i Hi]. rewrite Hi. eexists; reflexivity.
Qed.

Lemma index_of_none c cs : mem_str c cs = false -> index_of c cs = None.
Proof.
  induction cs as [|x cs IH]; cbn [mem_str existsb index_of]; intro H; [reflexivity|].
  destruct (str_eqb c x) eqn:E; [discriminate|]. cbn [orb] in H. rewrite (IH H). reflexivity.
Qed.

Lemma mapM_ok {A B} (f : A -> res B) l :
  (forall x, In x l -> exists y, f x = Ok y) -> exists ys, mapM f l = Ok ys.
Proof.
  induction l as [|x l IH]; intro H; cbn [mapM]; [eexists; reflexivity|].
  destruct (H x (or_introl eq_refl)) as [y Hy]. rewrite Hy. cbn [bind].
  destruct IH as [ys Hys]; [intros z Hz; apply H; right; exact Hz|].
  rewrite Hys. cbn [bind]. eexists; reflexivity.
Qed.

(* ------------------------------------------------------------ n/a <-> NaN *)

Definition no_nan (t : table) : Prop :=
  Forall (fun r => Forall (fun c => c <> CNa) r) (rows t).

Lemma post_prep_cell c : c <> CNa -> post_cell (prep_cell c) = c.
Proof.
  intro H. destruct c as [s| |]; cbn [prep_cell post_cell]; try reflexivity; [|congruence].
  destruct (str_eqb s s_na) eqn:E; cbn [post_cell]; [|reflexivity].
  apply str_eqb_spec in E. subst. reflexivity.
Qed.

(* n/a cells survive the conversion around every step as n/a, all other cells unchanged *)
Lemma post_prep_id t : no_nan t -> post_proc_data (prep_data t) = t.
Proof.
  destruct t as [cs rs]. unfold no_nan, post_proc_data, prep_data. cbn [cols rows]. intro H.
  f_equal. rewrite map_map. induction H as [|r rs Hr Hrs IH]; cbn [map]; [reflexivity|].
  f_equal; [|exact IH]. rewrite map_map.
  induction Hr as [|c r Hc Hr' IHr]; cbn [map]; [reflexivity|].
  f_equal; [apply post_prep_cell; exact Hc | exact IHr].
Qed.

Lemma post_no_nan t : no_nan (post_proc_data t).
Proof.
  destruct t as [cs rs]. unfold no_nan, post_proc_data. cbn [cols rows].
  apply Forall_forall. intros r Hr. apply in_map_iff in Hr as [r0 [<- _]].
  apply Forall_forall. intros c Hc. apply in_map_iff in Hc as [c0 [<- _]].
  destruct c0; cbn [post_cell]; discriminate.
Qed.

(* ------------------------------------------------------------ remove_rows *)

Lemma fold_filter {A B} (p : B -> A -> bool) (vals : list B) (rs : list A) :
  fold_left (fun rs v => filter (p v) rs) vals rs = filter (fun r => forallb (fun v => p v r) vals) rs.
Proof.
  revert rs. induction vals as [|v vals IH]; intro rs; cbn [fold_left forallb].
  - induction rs as [|r rs IHr]; cbn [filter]; [reflexivity | f_equal; exact IHr].
  - rewrite IH. induction rs as [|r rs IHr]; cbn [filter]; [reflexivity|].
    destruct (p v r) eqn:E; cbn [filter andb]; [|exact IHr].
    destruct (forallb (fun v0 => p v0 r) vals); [f_equal|]; exact IHr.
Qed.

Definition row_kept (i : nat) (vals : list pval) (r : list cell) : bool :=
  forallb (fun v => negb (cell_eq_pval (get_cell i r) v)) vals.

Lemma remove_rows_meaning cn vals t :
  (forall i, index_of cn (cols t) = Some i ->
     do_remove_rows cn vals t = Ok {| cols := cols t; rows := filter (row_kept i vals) (rows t) |})
  /\ (index_of cn (cols t) = None -> do_remove_rows cn vals t = Ok t).
Proof.
  unfold do_remove_rows. split.
  - intros i Hi. rewrite Hi. f_equal. f_equal.
    apply (fold_filter (fun v r => negb (cell_eq_pval (get_cell i r) v))).
  - intro H. rewrite H. reflexivity.
Qed.

(* an n/a cell is never removed, whatever the list of values *)
Lemma remove_rows_keeps_na i vals r : get_cell i r = CNa -> row_kept i vals r = true.
Proof.
  intro H. unfold row_kept. rewrite H. apply forallb_forall. intros v _. destruct v; reflexivity.
Qed.

(* ------------------------------------------------------------ remove_columns *)

Definition column (c : str) (t : table) : option (list cell) :=
  option_map (fun i => map (get_cell i) (rows t)) (index_of c (cols t)).

Lemma filter_mask_filter (f : str -> bool) cs :
  filter_mask (map f cs) cs = filter f cs.
Proof.
  induction cs as [|x cs IH]; cbn [map filter_mask filter]; [reflexivity|].
  destruct (f x); [f_equal|]; exact IH.
Qed.

Lemma filter_mask_cell (f : str -> bool) c cs :
  (forall x, str_eqb c x = true -> f x = f c) ->
  f c = true ->
  forall i, index_of c cs = Some i ->
  exists j, index_of c (filter f cs) = Some j /\
            forall r : list cell, length r = length cs ->
              get_cell j (filter_mask (map f cs) r) = get_cell i r.
Proof.
  intros Hresp Hfc. induction cs as [|x cs IH]; intros i Hi; cbn [index_of] in Hi; [discriminate|].
  destruct (str_eqb c x) eqn:E.
  - injection Hi as <-. cbn [filter]. rewrite (Hresp x E), Hfc. cbn [index_of]. rewrite E.
    exists 0. split; [reflexivity|]. intros r Hr. destruct r as [|a r]; [discriminate|].
    cbn [map filter_mask]. rewrite (Hresp x E), Hfc. reflexivity.
  - destruct (index_of c cs) as [i0|] eqn:Ei; [|discriminate]. cbn [option_map] in Hi. injection Hi as <-.
    destruct (IH i0 eq_refl) as [j [Hj Hcell]].
    cbn [filter]. destruct (f x) eqn:Ex.
    + cbn [index_of]. rewrite E, Hj. cbn [option_map]. exists (S j). split; [reflexivity|].
      intros r Hr. destruct r as [|a r]; [discriminate|]. cbn [map filter_mask]. rewrite Ex.
      unfold get_cell in *. cbn [nth]. apply Hcell. cbn [length] in Hr. lia.
    + exists j. split; [exact Hj|].
      intros r Hr. destruct r as [|a r]; [discriminate|]. cbn [map filter_mask]. rewrite Ex.
      unfold get_cell in *. cbn [nth]. apply Hcell. cbn [length] in Hr. lia.
Qed.

Lemma mem_str_resp c x l : str_eqb c x = true -> mem_str x l = mem_str c l.
Proof. intro H. apply str_eqb_spec in H. subst. reflexivity. Qed.

(* exactly the named columns disappear; the number of rows and every cell of
   every other column are kept *)
Lemma remove_columns_meaning names ig t t' :
  wfb t = true ->
  do_remove_columns names ig t = Ok t' ->
  cols t' = filter (fun c => negb (mem_str c names)) (cols t)
  /\ length (rows t') = length (rows t)
  /\ (forall c, mem_str c names = false -> has_col t c = true -> column c t' = column c t)
  /\ (ig = false -> forall c, In c names -> has_col t c = true).
Proof.
  intros Hwf H. unfold do_remove_columns in H.
  destruct (negb ig && existsb (fun c => negb (has_col t c)) names) eqn:Eraise; [discriminate|].
  injection H as <-. cbn [cols rows].
  set (f := fun c => negb (mem_str c names)).
  split; [apply filter_mask_filter|]. split; [apply map_length|]. split.
  - intros c Hc Hhas. unfold column. cbn [cols rows]. rewrite filter_mask_filter.
    destruct (index_of_some c (cols t) Hhas) as [i Hi].
    assert (Hresp : forall x, str_eqb c x = true -> f x = f c).
    { intros x Hx. unfold f. rewrite (mem_str_resp c x names Hx). reflexivity. }
    assert (Hfc : f c = true) by (unfold f; rewrite Hc; reflexivity).
    destruct (filter_mask_cell f c (cols t) Hresp Hfc i Hi) as [j [Hj Hcell]].
    fold f. rewrite Hj, Hi. cbn [option_map]. f_equal. rewrite map_map.
    apply map_ext_in. intros r Hr. apply Hcell.
    unfold wfb in Hwf. apply andb_true_iff in Hwf as [_ Hrect].
    rewrite forallb_forall in Hrect. apply Nat.eqb_eq. apply Hrect. exact Hr.
  - intros -> c Hin. cbn [negb andb] in Eraise.
    destruct (has_col t c) eqn:E; [reflexivity|].
    assert (X : existsb (fun c0 => negb (has_col t c0)) names = true).
    { apply existsb_exists. exists c. split; [exact Hin | rewrite E; reflexivity]. }
    congruence.
Qed.

(* ------------------------------------------------------------ rename_columns *)

Lemma rename_columns_meaning m ig t t' :
  do_rename_columns m ig t = Ok t' ->
  cols t' = map (rename_one m) (cols t) /\ rows t' = rows t
  /\ (ig = false -> forall k v, In (k, v) m -> has_col t k = true).
Proof.
  unfold do_rename_columns. intro H.
  destruct (negb ig && existsb (fun kv => negb (has_col t (fst kv))) m) eqn:Eraise; [discriminate|].
  injection H as <-. cbn [cols rows]. split; [reflexivity|]. split; [reflexivity|].
  intros -> k v Hin. cbn [negb andb] in Eraise.
  destruct (has_col t k) eqn:E; [reflexivity|].
  assert (X : existsb (fun kv => negb (has_col t (fst kv))) m = true).
  { apply existsb_exists. exists (k, v). split; [exact Hin | cbn [fst]; rewrite E; reflexivity]. }
  congruence.
Qed.

(* a column that the mapping does not mention keeps its name *)
Lemma rename_one_other m c : lookup c m = None -> rename_one m c = c.
Proof. unfold rename_one. intros ->. reflexivity. Qed.

(* ------------------------------------------------------------ reorder_columns *)

Lemma select_cols_spec names t t' :
  select_cols names t = Ok t' ->
  cols t' = names /\ length (rows t') = length (rows t)
  /\ forall c j, index_of c names = Some j -> nth_error names j = Some c ->
       exists i, index_of c (cols t) = Some i /\
                 map (get_cell j) (rows t') = map (get_cell i) (rows t).
Proof.
  unfold select_cols.
  set (f := fun c => match index_of c (cols t) with Some i => Ok i | None => Exn KeyError end).
  destruct (mapM f names) as [idx|e] eqn:E; cbn [bind]; [|discriminate].
  intro H. injection H as <-. cbn [cols rows]. split; [reflexivity|]. split; [apply map_length|].
  intros c j _ Hnth.
  assert (G : forall names idx, mapM f names = Ok idx ->
              forall j c, nth_error names j = Some c ->
              exists i, index_of c (cols t) = Some i /\ nth_error idx j = Some i).
  { clear. induction names as [|x names IH]; intros idx E j c Hn.
    - destruct j; discriminate.
    - cbn [mapM] in E. destruct (f x) as [i0|] eqn:Ex; cbn [bind] in E; [|discriminate].
      destruct (mapM f names) as [idx0|] eqn:Er; cbn [bind] in E; [|discriminate].
      injection E as <-. destruct j as [|j].
      + cbn [nth_error] in Hn. injection Hn as <-. exists i0. split; [|reflexivity].
        unfold f in Ex. destruct (index_of x (cols t)); [congruence | discriminate].
      + cbn [nth_error] in Hn |- *. exact (IH idx0 eq_refl j c Hn). }
  destruct (G names idx E j c Hnth) as [i [Hi Hni]]. exists i. split; [exact Hi|].
  rewrite map_map. apply map_ext. intro r. unfold get_cell at 1.
  apply nth_error_nth. exact (map_nth_error (fun i0 => get_cell i0 r) j idx Hni).
Qed.

Definition reorder_target (order : list str) (keep : bool) (t : table) : list str :=
  let present := filter (has_col t) order in
  present ++ (if keep then filter (fun c => negb (mem_str c present)) (cols t) else []).

Lemma filter_negb_nil {A} (f : A -> bool) l : filter (fun x => negb (f x)) l = [] -> filter f l = l.
Proof.
  induction l as [|x l IH]; cbn [filter]; [reflexivity|].
  destruct (f x); cbn [negb]; [intro H; f_equal; exact (IH H) | discriminate].
Qed.

Lemma filter_ext_in' {A} (f g : A -> bool) l : (forall x, In x l -> f x = g x) -> filter f l = filter g l.
Proof.
  induction l as [|x l IH]; intro H; cbn [filter]; [reflexivity|].
  rewrite (H x (or_introl eq_refl)). rewrite IH; [reflexivity|]. intros y Hy. apply H. right. exact Hy.
Qed.

(* the result has the listed (present) columns in the listed order, then --
   with keep_others -- the remaining ones in their original order *)
Lemma reorder_columns_cols fx order ig keep t st' t' :
  do_reorder_columns fx order ig keep t = (st', Ok t') ->
  cols t' = reorder_target order keep t
  /\ length (rows t') = length (rows t)
  /\ (ig = false -> forall c, In c order -> has_col t c = true).
Proof.
  unfold do_reorder_columns, reorder_target. cbv zeta.
  destruct (filter (fun c => negb (has_col t c)) order) as [|m0 ms] eqn:Em.
  - intro H. injection H as _ H.
    pose proof (filter_negb_nil (has_col t) order Em) as Hall. rewrite Hall.
    apply select_cols_spec in H as [Hc [Hl _]].
    split; [rewrite Hc; destruct keep; [reflexivity | rewrite app_nil_r; reflexivity]|]. split; [exact Hl|].
    intros _ c Hin. rewrite <- Hall in Hin. apply filter_In in Hin as [_ Hh]. exact Hh.
  - destruct (negb ig) eqn:Eig; [intro H; discriminate|].
    intro H. apply (f_equal snd) in H. cbn [snd] in H. rewrite <- Em in H.
    assert (Heq : filter (fun c => negb (mem_str c (filter (fun c0 => negb (has_col t c0)) order))) order
                  = filter (has_col t) order).
    { apply filter_ext_in'. intros x Hx.
      destruct (has_col t x) eqn:Ex.
      - destruct (mem_str x (filter (fun c0 => negb (has_col t c0)) order)) eqn:Emem; [|reflexivity].
        apply mem_str_In in Emem. apply filter_In in Emem as [_ Hneg]. rewrite Ex in Hneg. discriminate.
      - assert (X : mem_str x (filter (fun c0 => negb (has_col t c0)) order) = true).
        { apply mem_str_In. apply filter_In. split; [exact Hx | rewrite Ex; reflexivity]. }
        rewrite X. reflexivity. }
    rewrite Heq in H.
    apply select_cols_spec in H as [Hc [Hl _]]. split; [|split; [exact Hl|]].
    + rewrite Hc. destruct keep; [reflexivity | rewrite app_nil_r; reflexivity].
    + intros ->. discriminate.
Qed.

(* every column of the result holds the cells of the input column of that name *)
Lemma reorder_columns_cells fx order ig keep t st' t' :
  do_reorder_columns fx order ig keep t = (st', Ok t') ->
  forall c j, index_of c (cols t') = Some j -> nth_error (cols t') j = Some c ->
    column c t' = column c t.
Proof.
  intros H c j Hj Hn. unfold column. rewrite Hj. cbn [option_map].
  assert (S : exists names, select_cols names t = Ok t').
  { unfold do_reorder_columns in H. cbv zeta in H.
    destruct (filter (fun c0 => negb (has_col t c0)) order); [|destruct (negb ig); [discriminate|]];
      injection H as _ H; eexists; exact H. }
  destruct S as [names Hs]. pose proof (select_cols_spec names t t' Hs) as [Hc [_ Hcells]].
  rewrite Hc in Hj, Hn. destruct (Hcells c j Hj Hn) as [i [Hi Hmap]].
  rewrite Hi. cbn [option_map]. f_equal. exact Hmap.
Qed.

(* ------------------------------------------------------------ operation state *)

(* with the repair, no operation changes its own attributes *)
Lemma opstate_constant fx st t : fx_reorder fx = true -> fst (do_op fx st t) = st.
Proof.
  intro Hfx. destruct st; cbn [do_op fst]; try reflexivity.
  unfold do_reorder_columns. cbv zeta. rewrite Hfx.
  destruct (filter (fun c => negb (has_col t c)) column_order); [|destruct (negb ignore_missing)];
    cbn [fst]; try reflexivity.
  rewrite andb_false_r. reflexivity.
Qed.

(* also before fix commit e8c17b3 (C17-F1): every operation except reorder_columns/keep_others was constant *)
Definition not_keep_others (st : opstate) : bool :=
  match st with ReorderColumns _ _ true => false | _ => true end.

Lemma opstate_constant_partial fx st t : not_keep_others st = true -> fst (do_op fx st t) = st.
Proof.
  intro Hk. destruct st; cbn [do_op fst]; try reflexivity.
  destruct keep_others; [discriminate|]. unfold do_reorder_columns. cbv zeta.
  destruct (filter (fun c => negb (has_col t c)) column_order); [|destruct (negb ignore_missing)];
    cbn [fst andb]; reflexivity.
Qed.

Definition ex_T1 : table :=
  {| cols := [[97%N]; [98%N]; [99%N]];
     rows := [[CStr [49%N]; CStr [120%N]; CStr s_na]; [CStr [50%N]; CStr [121%N]; CStr [122%N]]] |}.
Definition ex_T2 : table :=
  {| cols := [[97%N]; [98%N]; [100%N]]; rows := [[CStr [49%N]; CStr [120%N]; CStr [113%N]]] |}.
Definition ex_reorder : opstate := ReorderColumns [[98%N]; [97%N]] false true.

Lemma opstate_constant_refuted :
  exists st t, fst (do_op no_fixes st t) <> st.
Proof. exists ex_reorder, ex_T1. vm_compute. discriminate. Qed.

(* the constancy of a whole dispatcher *)
Definition stable (fx : fixes) (sts : list opstate) : Prop :=
  fx_reorder fx = true \/ forallb not_keep_others sts = true.

Lemma do_op_stable fx st t : fx_reorder fx = true \/ not_keep_others st = true -> fst (do_op fx st t) = st.
Proof. intros [H|H]; [apply opstate_constant | apply opstate_constant_partial]; exact H. Qed.

Lemma run_operations_state fx sts t : stable fx sts -> fst (run_operations fx sts t) = sts.
Proof.
  revert t. induction sts as [|st sts IH]; intros t Hs; cbn [run_operations fst]; [reflexivity|].
  assert (H1 : fx_reorder fx = true \/ not_keep_others st = true).
  { destruct Hs as [H|H]; [left; exact H | right]. cbn [forallb] in H. apply andb_true_iff in H. tauto. }
  assert (H2 : stable fx sts).
  { destruct Hs as [H|H]; [left; exact H | right]. cbn [forallb] in H. apply andb_true_iff in H. tauto. }
  pose proof (do_op_stable fx st (prep_data t) H1) as Hd.
  destruct (do_op fx st (prep_data t)) as [st' o]. cbn [fst] in Hd. subst st'.
  destruct o as [t1|e]; [|reflexivity].
  destruct (wfb (post_proc_data t1)); [|reflexivity].
  specialize (IH (post_proc_data t1) H2).
  destruct (run_operations fx sts (post_proc_data t1)) as [rest' o']. cbn [fst] in IH |- *. subst. reflexivity.
Qed.

(* every file gets the result a fresh dispatcher would give, wherever it
   stands in the sequence and however often it is repeated *)
Lemma order_independent fx sts ts :
  stable fx sts ->
  run_tables fx sts ts = (sts, map (fun t => snd (run_operations fx sts t)) ts).
Proof.
  intro Hs. induction ts as [|t ts IH]; cbn [run_tables map]; [reflexivity|].
  pose proof (run_operations_state fx sts t Hs) as H1.
  destruct (run_operations fx sts t) as [sts1 o]. cbn [fst snd] in *. subst sts1.
  rewrite IH. reflexivity.
Qed.

Lemma order_independent_refuted :
  exists sts t1 t2,
    nth 1 (snd (run_tables no_fixes sts [t1; t2])) (Exn Unmodelled) <> snd (run_operations no_fixes sts t2)
    /\ is_ok (snd (run_operations no_fixes sts t2)) = true.
Proof. exists [ex_reorder], ex_T1, ex_T2. vm_compute. split; [discriminate | reflexivity]. Qed.

(* ------------------------------------------------------------ validation gate *)

Lemma invalid_never_executed fx ops ts :
  validate fx ops = Ok false -> remodel fx ops ts = Ok Rejected.
Proof. intro H. unfold remodel. rewrite H. reflexivity. Qed.

Lemma valid_is_executed fx ops ts sts :
  validate fx ops = Ok true -> parse_operations ops = Ok sts ->
  remodel fx ops ts = Ok (Ran (fst (run_tables fx sts ts)) (snd (run_tables fx sts ts))).
Proof.
  intros H1 H2. unfold remodel. rewrite H1, H2. cbn [bind negb].
  destruct (run_tables fx sts ts). reflexivity.
Qed.

(* ---- a list without messages constructs (validate_input_data of remap_columns since 6cfe711) *)

Lemma ctor_check_ok fx st :
  fx_disjoint fx = true -> input_data_ok fx st = true -> ctor_check st = Ok st.
Proof.
  intros Hfx H. destruct st; try reflexivity. cbn [input_data_ok ctor_check] in *. rewrite Hfx in H.
  apply andb_true_iff in H as [H _]. apply andb_true_iff in H as [Hnd Hlen].
  rewrite Hlen, Hnd. reflexivity.
Qed.

(* the per-item computation shared by validate (second phase) and parse_operation *)
Definition typed_item (item : json) : res opstate :=
  let* nm := jget_req item k_operation in
  let* ps := jget_req item k_parameters in
  match nm with
  | JStr name =>
      match lookup name op_table with
      | Some (_, init) => let* a := init ps in to_opstate name a
      | None => Exn Unmodelled
      end
  | _ => Exn Unmodelled
  end.

Lemma parse_of_typed fx item st :
  fx_disjoint fx = true -> typed_item item = Ok st -> input_data_ok fx st = true ->
  parse_operation item = Ok st.
Proof.
  intros Hfx Ht Hok. unfold typed_item in Ht. unfold parse_operation.
  destruct (jget_req item k_operation) as [nm|]; cbn [bind] in *; [|discriminate].
  destruct (jget_req item k_parameters) as [ps|]; cbn [bind] in *; [|discriminate].
  destruct nm; try discriminate.
  destruct (lookup s op_table) as [[sch init]|]; [|discriminate].
  destruct (init ps) as [a|]; cbn [bind] in *; [|discriminate].
  rewrite Ht. cbn [bind]. apply (ctor_check_ok fx); assumption.
Qed.

Lemma parse_all_of_typed fx l sts :
  fx_disjoint fx = true -> mapM typed_item l = Ok sts -> forallb (input_data_ok fx) sts = true ->
  mapM parse_operation l = Ok sts.
Proof.
  intro Hfx. revert sts. induction l as [|item l IH]; intros sts Hm Hok; cbn [mapM] in *.
  - exact Hm.
  - destruct (typed_item item) as [st|] eqn:Et; cbn [bind] in *; [|discriminate].
    destruct (mapM typed_item l) as [sts0|]; cbn [bind] in *; [|discriminate].
    injection Hm as <-. cbn [forallb] in Hok. apply andb_true_iff in Hok as [H1 H2].
    rewrite (parse_of_typed fx item st Hfx Et H1). cbn [bind]. rewrite (IH sts0 eq_refl H2). reflexivity.
Qed.

Lemma valid_constructs fx ops :
  fx_disjoint fx = true -> validate fx ops = Ok true ->
  exists sts, parse_operations ops = Ok sts /\ forallb (input_data_ok fx) sts = true.
Proof.
  intros Hfx H. unfold validate in H. destruct ops; try discriminate.
  destruct l as [|item l]; [discriminate|].
  destruct (mapM item_schema_ok (item :: l)) as [oks|]; cbn [bind] in H; [|discriminate].
  destruct (negb (forallb (fun b => b) oks)); [discriminate|].
  change (mapM _ (item :: l)) with (mapM typed_item (item :: l)) in H.
  destruct (mapM typed_item (item :: l)) as [sts|] eqn:Em; cbn [bind] in H; [|discriminate].
  injection H as H. exists sts. split; [|exact H].
  unfold parse_operations. apply (parse_all_of_typed fx); assumption.
Qed.

(* hence a list without messages is always executed on every table *)
Lemma valid_always_runs fx ops ts :
  fx_disjoint fx = true -> validate fx ops = Ok true ->
  exists sts, parse_operations ops = Ok sts /\
    remodel fx ops ts = Ok (Ran (fst (run_tables fx sts ts)) (snd (run_tables fx sts ts))).
Proof.
  intros Hfx Hv. destruct (valid_constructs fx ops Hfx Hv) as [sts [Hp _]].
  exists sts. split; [exact Hp | apply valid_is_executed; assumption].
Qed.

Definition ex_remap_overlap : json :=
  JArr [JObj [(k_operation, JStr n_remap_columns); (k_description, JStr [100%N]);
              (k_parameters, JObj [(k_source_columns, JArr [JStr [97%N]]);
                                   (k_destination_columns, JArr [JStr [97%N]]);
                                   (k_map_list, JArr [JArr [JStr [49%N]; JStr [50%N]]]);
                                   (k_ignore_missing, JBool true)])]].

(* record of the repaired defect C17-F7 (behaviour before fix commit 6cfe711): without the disjointness check the list
   passes validation and the constructor raises *)
Lemma valid_constructs_refuted :
  validate no_fixes ex_remap_overlap = Ok true /\
  parse_operations ex_remap_overlap = Exn ValueError /\
  validate all_fixes ex_remap_overlap = Ok false.
Proof. vm_compute. repeat split. Qed.

(* ---- the required lists of the PARAMS cover every parameters['k'] of __init__ *)

Lemma check_object_required types props pat req addl deps items mi un mp j :
  check (Sch types props pat req addl deps items mi un mp) j = true ->
  types = [TObject] ->
  exists kvs, j = JObj kvs /\
    forallb (fun k => match lookup k kvs with Some _ => true | None => false end) req = true.
Proof.
  intros H ->. cbn [check existsb] in H. apply andb_true_iff in H as [Ht H].
  destruct j; cbn [has_type orb] in Ht; try discriminate.
  exists kvs. split; [reflexivity|].
  repeat (apply andb_true_iff in H as [H _]). exact H.
Qed.

Definition init_total (e : str * (schema * (json -> res (list (str * json))))) : Prop :=
  forall p, check (fst (snd e)) p = true -> exists a, snd (snd e) p = Ok a.

Ltac solve_init :=
  intros p Hc; cbn [fst snd] in *;
  match type of Hc with check ?s p = true => unfold s in Hc end;
  apply check_object_required in Hc; [|reflexivity];
  destruct Hc as [kvs [-> Hreq]];
  cbn [forallb] in Hreq;
  repeat match type of Hreq with
         | (_ && _)%bool = true => let H := fresh "Hk" in apply andb_true_iff in Hreq as [H Hreq]
         end;
  cbv beta iota delta [remove_rows_init remove_columns_init rename_columns_init reorder_columns_init
                  factor_column_init remap_columns_init merge_consecutive_init split_rows_init
                  jget_req jget_opt];
  repeat match goal with
         | H : match lookup ?k kvs with Some _ => true | None => false end = true |- _ =>
             destruct (lookup k kvs) eqn:?; [clear H | discriminate H]
         end;
  cbn [bind];
  repeat match goal with
         | |- context [match lookup ?k kvs with Some _ => _ | None => _ end] =>
             destruct (lookup k kvs); cbn [bind]
         end;
  eexists; reflexivity.

Lemma init_total_all : Forall init_total op_table.
Proof.
  unfold op_table. repeat (apply Forall_cons; [unfold init_total; solve_init|]). apply Forall_nil.
Qed.

(* ------------------------------------------------------------ runs to completion *)

(* [applicable st t]: the table contains the columns the operation names (or
   the operation is told to ignore missing ones) with values of the expected
   kind.  split_rows and merge_consecutive with set_durations are not covered
   by the totality proof (their arithmetic on onset/duration is compared with
   the implementation by the correspondence run only). *)
Definition applicable_core (st : opstate) (t : table) : bool :=
  match st with
  | RemoveRows _ _ => true
  | RemoveColumns names ig => ig || forallb (has_col t) names
  | RenameColumns m ig => ig || forallb (fun kv => has_col t (fst kv)) m
  | ReorderColumns order ig _ => ig || forallb (has_col t) order
  | FactorColumn cn vs ns =>
      has_col t cn && input_data_ok all_fixes st
  | RemapColumns s d ml ig ints =>
      forallb (has_col t) s && ig &&
      negb (existsb (fun r => existsb (fun i => match get_cell i r with CStr _ => true | _ => false end)
                                     (flat_map (fun c => match index_of c (cols t) with Some i => [i] | None => [] end) ints))
                    (rows t))
  | MergeConsecutive cn _ sd ig mc =>
      negb sd && has_col t cn && (ig || forallb (has_col t) (match mc with Some l => l | None => [] end))
  | SplitRows _ _ _ => false
  end.

Lemma forallb_negb_existsb {A} (f : A -> bool) l :
  forallb f l = true -> existsb (fun x => negb (f x)) l = false.
Proof.
  induction l as [|x l IH]; cbn [forallb existsb]; [reflexivity|].
  intro H. apply andb_true_iff in H as [H1 H2]. rewrite H1, (IH H2). reflexivity.
Qed.

Lemma select_cols_ok names t :
  forallb (has_col t) names = true -> exists t', select_cols names t = Ok t'.
Proof.
  intro H. unfold select_cols.
  destruct (mapM_ok (fun c => match index_of c (cols t) with Some i => Ok i | None => Exn KeyError end) names)
    as [idx Hidx].
  - intros x Hx. rewrite forallb_forall in H. destruct (index_of_some x (cols t) (H x Hx)) as [i Hi].
    rewrite Hi. eexists; reflexivity.
  - rewrite Hidx. cbn [bind]. eexists; reflexivity.
Qed.

Lemma factor_loop_ok fx cn vs ns idx t :
  has_col t cn = true -> length vs + idx <= length ns ->
  exists t', factor_loop fx cn vs (Some ns) idx t = Ok t'.
Proof.
  revert idx t. induction vs as [|v vs IH]; intros idx t Hc Hl; cbn [factor_loop]; [eexists; reflexivity|].
  destruct (index_of_some cn (cols t) Hc) as [i Hi]. rewrite Hi.
  cbn [length] in Hl.
  destruct (nth_error ns idx) as [column|] eqn:En.
  - apply IH; [|lia].
    unfold has_col, set_col. destruct (index_of column (cols t)); cbn [cols]; [exact Hc|].
    apply mem_str_In. apply in_or_app. left. apply mem_str_In. exact Hc.
  - apply nth_error_None in En. lia.
Qed.

Lemma do_op_total_core st t :
  applicable_core st t = true -> exists t', snd (do_op all_fixes st t) = Ok t'.
Proof.
  destruct st; cbn [applicable_core do_op snd]; intro Ha.
  - (* remove_rows *) unfold do_remove_rows. destruct (index_of column_name (cols t)); eexists; reflexivity.
  - (* remove_columns *) unfold do_remove_columns.
    destruct ignore_missing; cbn [negb andb orb] in *; [eexists; reflexivity|].
    rewrite (forallb_negb_existsb _ _ Ha). eexists; reflexivity.
  - (* rename_columns *) unfold do_rename_columns.
    destruct ignore_missing; cbn [negb andb orb] in *; [eexists; reflexivity|].
    rewrite (forallb_negb_existsb (fun kv => has_col t (fst kv)) _ Ha). eexists; reflexivity.
  - (* reorder_columns *) unfold do_reorder_columns. cbv zeta.
    destruct (filter (fun c => negb (has_col t c)) column_order) as [|m0 ms] eqn:Em.
    + cbn [snd]. apply select_cols_ok. apply forallb_forall. intros x Hx.
      pose proof (filter_negb_nil (has_col t) column_order Em) as Hall. rewrite <- Hall in Hx.
      destruct keep_others.
      * apply in_app_or in Hx as [Hx|Hx].
        -- apply filter_In in Hx. tauto.
        -- apply filter_In in Hx as [Hx _]. apply mem_str_In. exact Hx.
      * apply filter_In in Hx. tauto.
    + destruct ignore_missing; cbn [negb orb] in *.
      * cbn [snd]. apply select_cols_ok. apply forallb_forall. intros x Hx.
        assert (Hpres : forall y, In y (filter (fun c => negb (mem_str c (m0 :: ms))) column_order) -> has_col t y = true).
        { intros y Hy. apply filter_In in Hy as [Hy1 Hy2]. destruct (has_col t y) eqn:E; [reflexivity|].
          assert (X : In y (m0 :: ms)) by (rewrite <- Em; apply filter_In; split; [exact Hy1 | rewrite E; reflexivity]).
          apply mem_str_In in X. rewrite X in Hy2. discriminate. }
        destruct keep_others.
        -- apply in_app_or in Hx as [Hx|Hx]; [apply Hpres; exact Hx|].
           apply filter_In in Hx as [Hx _]. apply mem_str_In. exact Hx.
        -- apply Hpres. exact Hx.
      * exfalso. assert (X : In m0 (filter (fun c => negb (has_col t c)) column_order)) by (rewrite Em; left; reflexivity).
        apply filter_In in X as [X1 X2]. rewrite forallb_forall in Ha. rewrite (Ha m0 X1) in X2. discriminate.
  - (* factor_column *)
    apply andb_true_iff in Ha as [Hc Hlen]. unfold do_factor_column. cbn [all_fixes fx_factor].
    destruct (index_of_some column_name (cols t) Hc) as [i Hi].
    set (dflt := uniq_strs (map cell_str (filter (fun c => negb (cell_eqb c CNa)) (col_cells i t)))).
    assert (Hv : exists values1,
               match factor_values with
               | Some (v :: vs) => Ok (v :: vs)
               | _ => match index_of column_name (cols t) with
                      | None => Exn KeyError
                      | Some i0 => Ok (uniq_strs (map cell_str (filter (fun c => negb (cell_eqb c CNa)) (col_cells i0 t))))
                      end
               end = Ok values1 /\
               (match factor_names with Some (_ :: _) => factor_values = Some values1 | _ => True end)).
    { destruct factor_values as [[|v vs]|]; rewrite ?Hi.
      - exists dflt. split; [reflexivity|]. destruct factor_names as [[|n ns]|]; try exact I. discriminate.
      - exists (v :: vs). split; [reflexivity|]. destruct factor_names as [[|n ns]|]; try exact I. reflexivity.
      - exists dflt. split; [reflexivity|]. destruct factor_names as [[|n ns]|]; try exact I. discriminate. }
    destruct Hv as [values1 [Hv1 Hv2]]. rewrite Hv1. cbn [bind].
    apply factor_loop_ok; [exact Hc|].
    destruct factor_names as [[|n ns]|]; try (rewrite map_length; lia).
    subst factor_values. cbn [input_data_ok] in Hlen. destruct values1 as [|v0 v]; [discriminate|].
    apply Nat.eqb_eq in Hlen. cbn [length]. lia.
  - (* remap_columns *)
    apply andb_true_iff in Ha as [Ha Hints]. apply andb_true_iff in Ha as [Hsrc Hig]. subst ignore_missing.
    unfold do_remap_columns.
    destruct (mapM_ok (fun c => match index_of c (cols t) with Some i => Ok i | None => Exn KeyError end) source_columns)
      as [sidx Hs].
    { intros x Hx. rewrite forallb_forall in Hsrc. destruct (index_of_some x (cols t) (Hsrc x Hx)) as [i Hi].
      rewrite Hi. eexists; reflexivity. }
    rewrite Hs. cbn [bind]. apply negb_true_iff in Hints. rewrite Hints.
    rewrite andb_false_r. eexists; reflexivity.
  - (* merge_consecutive without set_durations *)
    apply andb_true_iff in Ha as [Ha Hm]. apply andb_true_iff in Ha as [Hsd Hc].
    apply negb_true_iff in Hsd. subst set_durations.
    unfold do_merge_consecutive. rewrite Hc. cbn [negb andb].
    rewrite andb_false_r. cbn [all_fixes fx_match].
    destruct (index_of_some column_name (cols t) Hc) as [ic Hic].
    assert (G : forall l, (ignore_missing || forallb (has_col t) l = true)%bool ->
                exists t', (if (negb ignore_missing && existsb (fun c => negb (has_col t c)) l)%bool
                            then Exn ValueError
                            else match index_of column_name (cols t) with
                                 | None => Exn KeyError
                                 | Some ic0 =>
                                     let codef := fun r => cell_eq_pval (get_cell ic0 r) event_code in
                                     if negb (existsb codef (rows t)) then Ok t
                                     else
                                       let kidx := flat_map (fun c => match index_of c (cols t) with Some i => [i] | None => [] end) l ++ [ic0] in
                                       let key := fun r => map (fun i => get_cell i r) kidx in
                                       let groups := remove_groups_loop key codef [] false 0 (rows t) in
                                       let maxg := fold_left Nat.max groups 0 in
                                       let* rows1 := (if (false && Nat.ltb 0 maxg)%bool
                                                      then match index_of s_onset (cols t), index_of s_duration (cols t) with
                                                           | Some io, Some id =>
                                                               update_durations io id groups
                                                                 (if fx_gaps all_fixes then filter (fun g => existsb (Nat.eqb g) groups) (seq 1 maxg) else seq 1 maxg)
                                                                 (rows t)
                                                           | _, _ => Exn Unmodelled
                                                           end
                                                      else Ok (rows t)) in
                                       Ok {| cols := cols t; rows := filter_mask (map (Nat.eqb 0) groups) rows1 |}
                                 end) = Ok t').
    { intros l Hl. destruct ignore_missing; cbn [negb andb orb] in *.
      - rewrite Hic. cbv zeta. destruct (negb (existsb _ (rows t))); cbn [andb bind]; eexists; reflexivity.
      - rewrite (forallb_negb_existsb _ _ Hl). rewrite Hic. cbv zeta.
        destruct (negb (existsb _ (rows t))); cbn [andb bind]; eexists; reflexivity. }
    destruct match_columns as [l|]; cbn [bind]; apply G; exact Hm.
  - discriminate.
Qed.

(* ------------------------------------------------ small facts about cells *)

Lemma index_of_mem c cs i : index_of c cs = Some i -> mem_str c cs = true.
Proof.
  revert i. induction cs as [|x cs IH]; intros i H; cbn [index_of] in H; [discriminate|].
  cbn [mem_str existsb]. destruct (str_eqb c x); [reflexivity|]. cbn [orb].
  destruct (index_of c cs) as [k|]; [exact (IH k eq_refl) | discriminate].
Qed.

Lemma index_of_app c l l' i : index_of c l = Some i -> index_of c (l ++ l') = Some i.
Proof.
  revert i. induction l as [|x l IH]; intros i H; cbn [index_of app] in *; [discriminate|].
  destruct (str_eqb c x); [exact H|].
  destruct (index_of c l) as [k|]; [|discriminate]. rewrite (IH k eq_refl). exact H.
Qed.

Lemma index_of_inj a b l i : index_of a l = Some i -> index_of b l = Some i -> a = b.
Proof.
  revert i. induction l as [|x l IH]; intros i Ha Hb; cbn [index_of] in *; [discriminate|].
  destruct (str_eqb a x) eqn:Ea; destruct (str_eqb b x) eqn:Eb.
  - apply str_eqb_spec in Ea, Eb. congruence.
  - injection Ha as <-. destruct (index_of b l); discriminate.
  - injection Hb as <-. destruct (index_of a l); discriminate.
  - destruct (index_of a l) as [ka|]; [|discriminate]. destruct (index_of b l) as [kb|]; [|discriminate].
    cbn [option_map] in *. apply (IH ka); [reflexivity|]. congruence.
Qed.

Lemma get_cell_nil i : get_cell i [] = CNa.
Proof. unfold get_cell. destruct i; reflexivity. Qed.

Lemma get_cell_set_nth j i v (l : list cell) :
  get_cell j (set_nth i v l) = get_cell j l \/ (i = j /\ get_cell j (set_nth i v l) = v).
Proof.
  revert j i. induction l as [|x l IH]; intros j i.
  - left. destruct i; reflexivity.
  - destruct i as [|i]; cbn [set_nth].
    + destruct j as [|j]; unfold get_cell; cbn [nth]; [right; split; reflexivity | left; reflexivity].
    + destruct j as [|j]; unfold get_cell in *; cbn [nth]; [left; reflexivity|].
      destruct (IH j i) as [H|[H1 H2]]; [left; exact H | right; split; [congruence | exact H2]].
Qed.

Lemma get_cell_app_na i (r : list cell) :
  get_cell i (r ++ [CNa]) = get_cell i r \/ get_cell i (r ++ [CNa]) = CNa.
Proof.
  revert i. induction r as [|x r IH]; intro i; cbn [app].
  - right. unfold get_cell. destruct i as [|[|i]]; reflexivity.
  - destruct i as [|i]; unfold get_cell in *; cbn [nth]; [left; reflexivity | apply IH].
Qed.

Lemma get_cell_blank {A} i (l : list A) : get_cell i (map (fun _ => CNa) l) = CNa.
Proof.
  revert i. induction l as [|x l IH]; intro i; cbn [map]; [apply get_cell_nil|].
  destruct i as [|i]; unfold get_cell in *; cbn [nth]; [reflexivity | apply IH].
Qed.

Lemma Forall_set_nth {A} (P : A -> Prop) i v (l : list A) : Forall P l -> P v -> Forall P (set_nth i v l).
Proof.
  intros Hl Hv. revert i. induction Hl as [|x l Hx Hl IH]; intro i; [destruct i; constructor|].
  destruct i as [|i]; cbn [set_nth]; constructor; auto.
Qed.

Lemma Forall_filter_mask {A} (P : A -> Prop) m (l : list A) : Forall P l -> Forall P (filter_mask m l).
Proof.
  intro Hl. revert m. induction Hl as [|x l Hx Hl IH]; intro m; destruct m as [|b m]; cbn [filter_mask]; try constructor.
  destruct b; [constructor; auto | apply IH].
Qed.

Lemma Forall_nth_default {A} (P : A -> Prop) (l : list A) d i : Forall P l -> P d -> P (nth i l d).
Proof.
  intros Hl Hd. revert i. induction Hl as [|x l Hx Hl IH]; intro i; destruct i; cbn [nth]; auto.
Qed.

Lemma mapM_Forall {A B} (f : A -> res B) l ys :
  mapM f l = Ok ys -> Forall (fun y => exists x, In x l /\ f x = Ok y) ys.
Proof.
  revert ys. induction l as [|x l IH]; intros ys H; cbn [mapM] in H.
  - injection H as <-. constructor.
  - destruct (f x) as [y|] eqn:Ex; cbn [bind] in H; [|discriminate].
    destruct (mapM f l) as [ys0|]; cbn [bind] in H; [|discriminate]. injection H as <-.
    constructor; [exists x; split; [left; reflexivity | exact Ex]|].
    eapply Forall_impl; [|exact (IH ys0 eq_refl)].
    intros y1 [x0 [Hin Hf]]. exists x0. split; [right; exact Hin | exact Hf].
Qed.

Definition numeric_cell (c : cell) : bool := match c with CStr _ => false | _ => true end.
Definition strict_ok (c : cell) : bool :=
  match c with CStr s => match parse_int s with Some _ => true | None => false end | _ => true end.

(* every cell of the named column satisfies p (and the column exists) *)
Definition col_all (p : cell -> bool) (c : str) (t : table) : bool :=
  match index_of c (cols t) with
  | Some i => forallb (fun r => p (get_cell i r)) (rows t)
  | None => false
  end.

(* ------------------------------------ merge_consecutive with set_durations *)

Definition numrow (io id : nat) (r : list cell) : Prop :=
  numeric_cell (get_cell io r) = true /\ numeric_cell (get_cell id r) = true.

Lemma row_extent_ok io id r : numrow io id r -> exists z, row_extent io id r = Ok z.
Proof.
  intros [H1 H2]. unfold row_extent, num_or_zero.
  destruct (get_cell io r); try discriminate; destruct (get_cell id r); try discriminate;
    cbn [bind]; eexists; reflexivity.
Qed.

Lemma update_group_ok io id groups g rs :
  Forall (numrow io id) rs ->
  (exists a, first_index g groups = Some (S a)) ->
  exists rs', update_group io id groups g rs = Ok rs' /\ Forall (numrow io id) rs'.
Proof.
  intros HP [a Ha]. unfold update_group. rewrite Ha.
  destruct (mapM_ok (row_extent io id) (filter_mask (map (Nat.eqb g) groups) rs)) as [exts He].
  { intros r Hr. apply row_extent_ok.
    pose proof (Forall_filter_mask (numrow io id) (map (Nat.eqb g) groups) rs HP) as HF.
    rewrite Forall_forall in HF. apply HF. exact Hr. }
  rewrite He. cbn [bind]. cbv zeta.
  assert (Hnil : numrow io id []) by (split; rewrite get_cell_nil; reflexivity).
  pose proof (Forall_nth_default (numrow io id) rs [] a HP Hnil) as Harow.
  destruct (row_extent_ok io id _ Harow) as [za Hza]. rewrite Hza. cbn [bind].
  set (arow := nth a rs []) in *.
  set (newdur := match get_cell io arow with
                 | CNum o => CNum (Z.max (fold_left Z.max exts (hd 0%Z exts)) za - o)
                 | _ => CNa
                 end).
  assert (Hnd : numeric_cell newdur = true) by (unfold newdur; destruct (get_cell io arow); reflexivity).
  assert (Hnew : numrow io id (set_nth id newdur arow)).
  { destruct Harow as [H1 H2]. split.
    - destruct (get_cell_set_nth io id newdur arow) as [E|[_ E]]; rewrite E; assumption.
    - destruct (get_cell_set_nth id id newdur arow) as [E|[_ E]]; rewrite E; assumption. }
  destruct Harow as [H1 _].
  destruct (get_cell io arow) eqn:Ec; [discriminate H1 | |];
    (eexists; split; [reflexivity | apply Forall_set_nth; assumption]).
Qed.

Lemma update_durations_ok io id groups gs rs :
  Forall (numrow io id) rs ->
  Forall (fun g => exists a, first_index g groups = Some (S a)) gs ->
  exists rs', update_durations io id groups gs rs = Ok rs'.
Proof.
  intros HP Hgs. revert rs HP. induction Hgs as [|g gs Hg Hgs IH]; intros rs HP; cbn [update_durations].
  - eexists; reflexivity.
  - destruct (update_group_ok io id groups g rs HP Hg) as [rs' [E HP']]. rewrite E. cbn [bind].
    apply IH. exact HP'.
Qed.

Lemma first_index_in g l : In g l -> exists k, first_index g l = Some k.
Proof.
  induction l as [|x l IH]; intro H; [destruct H|]. cbn [first_index].
  destruct (Nat.eqb x g) eqn:E; [eexists; reflexivity|].
  destruct H as [H|H]; [subst; rewrite Nat.eqb_refl in E; discriminate|].
  destruct (IH H) as [k Hk]. rewrite Hk. eexists; reflexivity.
Qed.

Lemma remove_groups_head key code prev count rs :
  match remove_groups_loop key code prev false count rs with [] => True | x :: _ => x = 0 end.
Proof. destruct rs as [|r rs]; cbn [remove_groups_loop]; [exact I|]. destruct (negb (code r)); reflexivity. Qed.

Lemma first_index_pos g groups :
  In g groups -> g <> 0 -> match groups with [] => True | x :: _ => x = 0 end ->
  exists a, first_index g groups = Some (S a).
Proof.
  intros Hin Hg Hh. destruct groups as [|x l]; [destruct Hin|]. subst x.
  cbn [first_index]. destruct (Nat.eqb 0 g) eqn:E; [apply Nat.eqb_eq in E; congruence|].
  destruct Hin as [H|H]; [congruence|]. destruct (first_index_in g l H) as [k Hk]. rewrite Hk.
  eexists; reflexivity.
Qed.

Ltac merge_tail io id HP :=
  cbv zeta;
  match goal with |- context [negb (existsb ?f (rows ?t))] => destruct (negb (existsb f (rows t))) end;
  [eexists; reflexivity|];
  match goal with |- context [remove_groups_loop ?k ?c ?p false ?n ?r] =>
    let Hh := fresh "Hh" in
    pose proof (remove_groups_head k c p n r) as Hh;
    generalize dependent (remove_groups_loop k c p false n r); intros groups Hh;
    match goal with |- context [Nat.ltb 0 ?m] => destruct (Nat.ltb 0 m) end; cbn [bind];
    [|eexists; reflexivity];
    match goal with |- context [update_durations io id groups ?gs ?rs] =>
      let rs' := fresh "rs" in let Hrs' := fresh "Hrs" in
      destruct (update_durations_ok io id groups gs rs HP) as [rs' Hrs'];
      [apply Forall_forall; intros g Hg; apply filter_In in Hg as [Hg1 Hg2];
       apply in_seq in Hg1; apply existsb_exists in Hg2 as [x [Hx1 Hx2]];
       apply Nat.eqb_eq in Hx2; subst x; apply first_index_pos; [exact Hx1 | lia | exact Hh]
      | rewrite Hrs'; cbn [bind]; eexists; reflexivity]
    end
  end.

Lemma do_merge_setd_total cn code ig mc t :
  has_col t cn = true ->
  (ig || forallb (has_col t) (match mc with Some l => l | None => [] end))%bool = true ->
  col_all numeric_cell s_onset t = true -> col_all numeric_cell s_duration t = true ->
  exists t', do_merge_consecutive all_fixes cn code true ig mc t = Ok t'.
Proof.
  intros Hc Hm Hon Hdu. unfold col_all in Hon, Hdu.
  destruct (index_of s_onset (cols t)) as [io|] eqn:Eio; [|discriminate].
  destruct (index_of s_duration (cols t)) as [id|] eqn:Eid; [|discriminate].
  assert (Ho : has_col t s_onset = true) by exact (index_of_mem _ _ _ Eio).
  assert (Hd : has_col t s_duration = true) by exact (index_of_mem _ _ _ Eid).
  assert (HP : Forall (numrow io id) (rows t)).
  { apply Forall_forall. intros r Hr. rewrite forallb_forall in Hon, Hdu. split; auto. }
  unfold do_merge_consecutive. rewrite Hc, Ho, Hd, Eio, Eid. cbn [negb andb]. rewrite andb_false_r.
  destruct (index_of_some cn (cols t) Hc) as [ic Hic]. rewrite Hic.
  destruct mc as [l|]; cbn [bind all_fixes fx_match fx_gaps] in *.
  - destruct ig; cbn [negb andb orb] in *.
    + merge_tail io id HP.
    + rewrite (forallb_negb_existsb (has_col t) _ Hm). merge_tail io id HP.
  - destruct ig; cbn [negb andb orb existsb] in *; merge_tail io id HP.
Qed.

(* ------------------------------------------------------------ split_rows *)

Definition src_ok (t : table) (v : pval) : bool :=
  match v with PStr c => has_col t c | PNum _ => true end.

Definition event_ok (t : table) (ev : str * new_event) : bool :=
  forallb (src_ok t) (onset_source (snd ev)) && forallb (src_ok t) (duration_source (snd ev))
  && forallb (has_col t) (match copy_columns (snd ev) with Some l => l | None => [] end).

(* onset holds numbers, numeric-looking text or n/a; duration exists; the
   anchor is not the onset column; every named source / copied column exists *)
Definition split_applicable (anchor : str) (evs : list (str * new_event)) (t : table) : bool :=
  col_all strict_ok s_onset t && has_col t s_duration && negb (str_eqb anchor s_onset)
  && forallb (event_ok t) evs.

Lemma to_num_strict_ok c : strict_ok c = true -> exists c', to_num_strict c = Ok c'.
Proof.
  unfold strict_ok, to_num_strict. destruct c as [s| |]; try (intros _; eexists; reflexivity).
  destruct (parse_int s); [intros _; eexists; reflexivity | discriminate].
Qed.

Lemma num_cell_strict o : strict_ok (num_cell o) = true.
Proof. destruct o; reflexivity. Qed.

Lemma add_sources_ok t srcs acc :
  forallb (src_ok t) srcs = true -> exists r, add_sources t srcs acc = Ok r.
Proof.
  revert acc. induction srcs as [|v srcs IH]; intros acc H; cbn [add_sources]; [eexists; reflexivity|].
  cbn [forallb] in H. apply andb_true_iff in H as [H1 H2]. destruct v as [c|z]; cbn [src_ok] in H1.
  - destruct (index_of_some c (cols t) H1) as [i Hi]. rewrite Hi. apply IH. exact H2.
  - apply IH. exact H2.
Qed.

Lemma fold_copy_strict io r0 (cidx : list (nat * nat)) acc :
  strict_ok (get_cell io acc) = true ->
  Forall (fun p => snd p = io -> strict_ok (get_cell (fst p) r0) = true) cidx ->
  strict_ok (get_cell io (fold_left (fun a p => set_nth (snd p) (get_cell (fst p) r0) a) cidx acc)) = true.
Proof.
  intros Hacc HF. revert acc Hacc. induction HF as [|p cidx Hp HF IH]; intros acc Hacc; cbn [fold_left]; [exact Hacc|].
  apply IH. destruct (get_cell_set_nth io (snd p) (get_cell (fst p) r0) acc) as [E|[E1 E2]]; rewrite ?E, ?E2; auto.
Qed.

Lemma split_event_ok anchor t out io ev :
  index_of s_onset (cols t) = Some io ->
  forallb (fun r => strict_ok (get_cell io r)) (rows t) = true ->
  (forall c i, index_of c (cols t) = Some i -> index_of c out = Some i) ->
  has_col t s_duration = true ->
  (exists oa, index_of anchor out = Some oa) ->
  str_eqb anchor s_onset = false ->
  event_ok t ev = true ->
  exists added, split_event all_fixes anchor t out ev = Ok added /\
                Forall (fun r => strict_ok (get_cell io r) = true) added.
Proof.
  intros Hio Hstrict Hext Hdur [oa Hoa] Hanch Hev. destruct ev as [name e].
  unfold event_ok in Hev. cbn [snd] in Hev.
  apply andb_true_iff in Hev as [Hev Hcopy]. apply andb_true_iff in Hev as [Hos Hds].
  destruct (index_of_some s_duration (cols t) Hdur) as [id Hid].
  unfold split_event. rewrite Hio, (Hext _ _ Hio), Hoa, (Hext _ _ Hid).
  destruct (add_sources_ok t (onset_source e) (map (fun r => to_num_coerce (get_cell io r)) (rows t)) Hos) as [onsets Eon].
  destruct (add_sources_ok t (duration_source e) (map (fun _ => Some 0%Z) (rows t)) Hds) as [durs Edu].
  rewrite Eon, Edu. cbn [bind].
  set (copy := match copy_columns e with Some l => l | None => [] end) in *.
  assert (Ecopy : match copy_columns e with
                  | Some l => Ok l
                  | None => if fx_copy all_fixes then Ok [] else Exn KeyError
                  end = Ok copy) by (unfold copy; destruct (copy_columns e); reflexivity).
  rewrite Ecopy. cbn [bind].
  set (f := fun c => match index_of c (cols t), index_of c out with
                     | Some i, Some o => Ok (i, o)
                     | _, _ => Exn KeyError
                     end).
  destruct (mapM_ok f copy) as [cidx Ecidx].
  { intros c Hc. rewrite forallb_forall in Hcopy. destruct (index_of_some c (cols t) (Hcopy c Hc)) as [i Hi].
    unfold f. rewrite Hi, (Hext _ _ Hi). eexists; reflexivity. }
  rewrite Ecidx. cbn [bind]. eexists. split; [reflexivity|].
  assert (Hoa_ne : oa <> io).
  { intro E. subst oa. pose proof (index_of_inj _ _ _ _ Hoa (Hext _ _ Hio)) as Hsame.
    subst anchor. rewrite str_eqb_refl in Hanch. discriminate. }
  assert (Hcidx : forall r0, In r0 (rows t) ->
            Forall (fun p => snd p = io -> strict_ok (get_cell (fst p) r0) = true) cidx).
  { intros r0 Hr0. eapply Forall_impl; [|exact (mapM_Forall f copy cidx Ecidx)].
    intros p [c [_ Hf]] Hsnd. unfold f in Hf.
    destruct (index_of c (cols t)) as [i|] eqn:Ei; [|discriminate].
    destruct (index_of c out) as [o|] eqn:Eo; [|discriminate]. injection Hf as <-. cbn [fst snd] in *. subst o.
    pose proof (index_of_inj _ _ _ _ Eo (Hext _ _ Hio)) as Hsame. subst c.
    assert (i = io) by congruence. subst i.
    rewrite forallb_forall in Hstrict. apply Hstrict. exact Hr0. }
  apply Forall_forall. intros r Hr. apply filter_In in Hr as [Hr _].
  apply in_map_iff in Hr as [[[on du] r0] [<- Hin]].
  apply in_combine_r in Hin.
  apply fold_copy_strict; [|apply Hcidx; exact Hin].
  destruct (get_cell_set_nth io id (num_cell du)
              (set_nth oa (CStr name) (set_nth io (num_cell on) (map (fun _ => CNa) out)))) as [E|[_ E]];
    rewrite E; [|apply num_cell_strict].
  destruct (get_cell_set_nth io oa (CStr name) (set_nth io (num_cell on) (map (fun _ => CNa) out))) as [E2|[E2 _]];
    [rewrite E2 | congruence].
  destruct (get_cell_set_nth io io (num_cell on) (map (fun _ => CNa) out)) as [E3|[_ E3]]; rewrite E3;
    [rewrite get_cell_blank; reflexivity | apply num_cell_strict].
Qed.

Lemma split_events_ok anchor t out io evs :
  index_of s_onset (cols t) = Some io ->
  forallb (fun r => strict_ok (get_cell io r)) (rows t) = true ->
  (forall c i, index_of c (cols t) = Some i -> index_of c out = Some i) ->
  has_col t s_duration = true ->
  (exists oa, index_of anchor out = Some oa) ->
  str_eqb anchor s_onset = false ->
  forallb (event_ok t) evs = true ->
  exists added, split_events all_fixes anchor t out evs = Ok added /\
                Forall (fun r => strict_ok (get_cell io r) = true) added.
Proof.
  intros Hio Hs Hext Hd Hoa Ha. induction evs as [|ev evs IH]; intro He; cbn [split_events].
  - eexists. split; [reflexivity | constructor].
  - cbn [forallb] in He. apply andb_true_iff in He as [He1 He2].
    destruct (split_event_ok anchor t out io ev Hio Hs Hext Hd Hoa Ha He1) as [a [Ea Fa]].
    destruct (IH He2) as [b [Eb Fb]]. rewrite Ea, Eb. cbn [bind].
    eexists. split; [reflexivity|]. apply Forall_app. split; assumption.
Qed.

Lemma split_finish io (all : list (list cell)) cs :
  Forall (fun r => strict_ok (get_cell io r) = true) all ->
  exists t', (let* all1 := mapM (fun r => let* c := to_num_strict (get_cell io r) in Ok (set_nth io c r)) all in
              Ok {| cols := cs; rows := sort_rows io all1 |}) = Ok t'.
Proof.
  intro H.
  destruct (mapM_ok (fun r => let* c := to_num_strict (get_cell io r) in Ok (set_nth io c r)) all) as [all1 E].
  { intros r Hr. rewrite Forall_forall in H. destruct (to_num_strict_ok _ (H r Hr)) as [c Hc].
    rewrite Hc. cbn [bind]. eexists; reflexivity. }
  rewrite E. cbn [bind]. eexists; reflexivity.
Qed.

Lemma do_split_total anchor evs rp t :
  split_applicable anchor evs t = true -> exists t', do_split_rows all_fixes anchor evs rp t = Ok t'.
Proof.
  unfold split_applicable. intro H.
  apply andb_true_iff in H as [H Hevs]. apply andb_true_iff in H as [H Hanch].
  apply andb_true_iff in H as [Hon Hdur]. apply negb_true_iff in Hanch.
  unfold col_all in Hon. destruct (index_of s_onset (cols t)) as [io|] eqn:Eio; [|discriminate].
  assert (Ho : has_col t s_onset = true) by exact (index_of_mem _ _ _ Eio).
  unfold do_split_rows. rewrite Ho, Hdur. cbn [negb].
  assert (Hparents : Forall (fun r => strict_ok (get_cell io r) = true) (rows t)).
  { apply Forall_forall. intros r Hr. rewrite forallb_forall in Hon. apply Hon. exact Hr. }
  destruct (has_col t anchor) eqn:Ean.
  - destruct (split_events_ok anchor t (cols t) io evs Eio Hon (fun c i Hc => Hc) Hdur
                (index_of_some anchor (cols t) Ean) Hanch Hevs) as [added [Ea Fa]].
    rewrite Ea. cbn [bind]. rewrite Eio. apply split_finish.
    destruct rp; cbn [app]; [exact Fa | apply Forall_app; split; assumption].
  - cbn [cols rows].
    assert (Hoa : exists oa, index_of anchor (cols t ++ [anchor]) = Some oa).
    { apply index_of_some. apply mem_str_In. apply in_or_app. right. left. reflexivity. }
    destruct (split_events_ok anchor t (cols t ++ [anchor]) io evs Eio Hon
                (fun c i Hc => index_of_app c (cols t) [anchor] i Hc) Hdur Hoa Hanch Hevs) as [added [Ea Fa]].
    rewrite Ea. cbn [bind]. rewrite (index_of_app _ _ [anchor] _ Eio). apply split_finish.
    assert (Hp2 : Forall (fun r => strict_ok (get_cell io r) = true) (map (fun r => r ++ [CNa]) (rows t))).
    { apply Forall_forall. intros r Hr. apply in_map_iff in Hr as [r0 [<- Hr0]].
      rewrite Forall_forall in Hparents.
      destruct (get_cell_app_na io r0) as [E|E]; rewrite E; [apply Hparents; exact Hr0 | reflexivity]. }
    destruct rp; cbn [app]; [exact Fa | apply Forall_app; split; assumption].
Qed.

(* ------------------------------------------------------------ all eight *)

(* [applicable st t]: the table contains the columns the operation names (or
   the operation is told to ignore missing ones) with values of the expected
   kind (numbers or n/a in onset/duration where they are summed). *)
Definition applicable (st : opstate) (t : table) : bool :=
  match st with
  | MergeConsecutive cn _ true ig mc =>
      has_col t cn && (ig || forallb (has_col t) (match mc with Some l => l | None => [] end))
      && col_all numeric_cell s_onset t && col_all numeric_cell s_duration t
  | SplitRows anchor evs _ => split_applicable anchor evs t
  | _ => applicable_core st t
  end.

Lemma do_op_total st t :
  applicable st t = true -> exists t', snd (do_op all_fixes st t) = Ok t'.
Proof.
  destruct st; try (exact (do_op_total_core _ t)).
  - destruct set_durations; [|exact (do_op_total_core _ t)].
    cbn [applicable do_op snd]. intro H.
    apply andb_true_iff in H as [H Hdu]. apply andb_true_iff in H as [H Hon]. apply andb_true_iff in H as [Hc Hm].
    apply do_merge_setd_total; assumption.
  - cbn [applicable do_op snd]. apply do_split_total.
Qed.

(* RECORD of repaired defects: the optional-parameter crashes C17-F2 (before 192568b), C17-F3 (before b484e3c),
   C17-F4 (before adebd46) and the group-numbering crash C17-F6 (before b5c611b); [no_fixes] is NOT the current code *)
Definition s1 (c : N) : str := [c].
Definition ex_factor_no_values : opstate := FactorColumn (s1 97) None None.
Definition ex_factor_no_names : opstate := FactorColumn (s1 97) (Some [s1 49]) None.
Definition ex_merge_no_match : opstate := MergeConsecutive (s1 98) (PStr (s1 120)) false true None.
Definition ex_split_no_copy : opstate :=
  SplitRows (s1 98) [(s1 101, {| onset_source := [PNum 1]; duration_source := [PNum 0]; copy_columns := None |})] false.
Definition ex_T3 : table :=
  {| cols := [s_onset; s_duration; s1 98];
     rows := [[CNum 1; CNum 1; CStr (s1 120)]; [CNum 2; CNum 1; CStr (s1 121)];
              [CNum 3; CNum 1; CStr (s1 120)]; [CNum 4; CNum 1; CStr (s1 120)]] |}.
Definition ex_merge_gap : opstate := MergeConsecutive (s1 98) (PStr (s1 120)) true true (Some []).

Lemma valid_runs_refuted_factor_values :
  input_data_ok no_fixes ex_factor_no_values = true /\ has_col ex_T1 (s1 97) = true /\
  snd (do_op no_fixes ex_factor_no_values ex_T1) = Exn TypeError.
Proof. vm_compute. repeat split. Qed.

Lemma valid_runs_refuted_factor_names :
  input_data_ok no_fixes ex_factor_no_names = true /\ has_col ex_T1 (s1 97) = true /\
  snd (do_op no_fixes ex_factor_no_names ex_T1) = Exn TypeError.
Proof. vm_compute. repeat split. Qed.

Lemma valid_runs_refuted_merge_match :
  input_data_ok no_fixes ex_merge_no_match = true /\ has_col ex_T1 (s1 98) = true /\
  snd (do_op no_fixes ex_merge_no_match ex_T1) = Exn TypeError.
Proof. vm_compute. repeat split. Qed.

Lemma valid_runs_refuted_split_copy :
  input_data_ok no_fixes ex_split_no_copy = true /\ wfb ex_T3 = true /\
  snd (do_op no_fixes ex_split_no_copy ex_T3) = Exn KeyError /\
  is_ok (snd (do_op all_fixes ex_split_no_copy ex_T3)) = true.
Proof. vm_compute. repeat split. Qed.

Lemma valid_runs_refuted_merge_gap :
  input_data_ok no_fixes ex_merge_gap = true /\ wfb ex_T3 = true /\
  snd (do_op no_fixes ex_merge_gap ex_T3) = Exn IndexError /\
  snd (do_op all_fixes ex_merge_gap ex_T3)
  = Ok {| cols := cols ex_T3;
          rows := [[CNum 1; CNum 1; CStr (s1 120)]; [CNum 2; CNum 1; CStr (s1 121)];
                   [CNum 3; CNum 2; CStr (s1 120)]] |}.
Proof. vm_compute. repeat split. Qed.

(* the former crash witnesses satisfy the hypothesis of do_op_total *)
Lemma former_witnesses_applicable :
  applicable ex_factor_no_values ex_T1 = true /\ applicable ex_factor_no_names ex_T1 = true /\
  applicable ex_merge_no_match ex_T1 = true /\ applicable ex_split_no_copy ex_T3 = true /\
  applicable ex_merge_gap ex_T3 = true.
Proof. vm_compute. repeat split. Qed.

(* RECORD: also before the fix commits 192568b / b484e3c / b5c611b the code ran to completion when every
   optional parameter was present (and without set_durations) *)
Definition optionals_present (st : opstate) : bool :=
  match st with
  | FactorColumn _ (Some (_ :: _)) (Some (_ :: _)) => true
  | FactorColumn _ _ _ => false
  | MergeConsecutive _ _ _ _ (Some _) => true
  | MergeConsecutive _ _ _ _ None => false
  | _ => true
  end.

Definition not_factor (st : opstate) : bool :=
  match st with FactorColumn _ _ _ => false | _ => true end.

(* outside factor_column (whose flags differ on n/a cells, C17-F10) the table was the same *)
Lemma do_op_same_when_present st t :
  not_factor st = true -> optionals_present st = true -> applicable_core st t = true ->
  snd (do_op no_fixes st t) = snd (do_op all_fixes st t).
Proof.
  destruct st; cbn [not_factor optionals_present applicable_core do_op snd]; intros Hnf Hp Ha; try reflexivity.
  - (* reorder: the table is the same, only the state differs *)
    unfold do_reorder_columns. cbv zeta.
    destruct (filter (fun c => negb (has_col t c)) column_order); [|destruct (negb ignore_missing)]; reflexivity.
  - discriminate.
  - destruct match_columns as [l|]; [|discriminate].
    apply andb_true_iff in Ha as [Ha _]. apply andb_true_iff in Ha as [Hsd _].
    apply negb_true_iff in Hsd. subst set_durations.
    unfold do_merge_consecutive. cbn [andb bind].
    destruct (negb ignore_missing && negb (has_col t column_name))%bool; [reflexivity|].
    destruct (negb ignore_missing && existsb (fun c => negb (has_col t c)) l)%bool; [reflexivity|].
    destruct (index_of column_name (cols t)); reflexivity.
  - discriminate.
Qed.

Lemma do_op_total_partial st t :
  optionals_present st = true -> applicable_core st t = true ->
  exists t', snd (do_op no_fixes st t) = Ok t'.
Proof.
  intros Hp Ha. destruct (not_factor st) eqn:Enf.
  - rewrite (do_op_same_when_present st t Enf Hp Ha). apply do_op_total_core. exact Ha.
  - destruct st; try discriminate. cbn [optionals_present applicable_core do_op snd] in *.
    destruct factor_values as [[|v vs]|]; try discriminate.
    destruct factor_names as [[|n ns]|]; try discriminate.
    apply andb_true_iff in Ha as [Hc Hlen]. cbn [input_data_ok] in Hlen. apply Nat.eqb_eq in Hlen.
    unfold do_factor_column. cbn [no_fixes fx_factor].
    apply factor_loop_ok; [exact Hc | cbn [length]; lia].
Qed.

(* the translated accesses of _split_rows are NOT covered by the schema of a
   new_events entry: copy_columns is optional there but read with [...] *)
Definition ex_event : json :=
  JObj [(k_onset_source, JArr [JNum 1]); (k_duration, JArr [JNum 0])].
Definition event_schema : option schema :=
  match lookup k_new_events (sch_props split_rows_schema) with
  | Some (Sch _ _ pat _ _ _ _ _ _ _) => pat
  | None => None
  end.
(* [event_fetch_safe]: the accesses translated from _split_rows succeed on an
   entry that has only the keys the schema requires *)
Definition event_fetch_safe : bool := is_ok (split_rows_event_fetch ex_event).

(* With `event_params.get('copy_columns', [])` (the current tree, since adebd46) every entry
   accepted by the new_events schema can be read.  The statement is guarded by
   [event_fetch_safe] so that this file also compiles against a tree before adebd46
   tree, where the guard is false (see valid_runs_refuted_split_copy);
   Props/C17Now.v discharges the guard for the tree as it now is. *)
Lemma split_event_fetch_total :
  event_fetch_safe = true ->
  exists sch, event_schema = Some sch /\
    forall ev, check sch ev = true -> exists a, split_rows_event_fetch ev = Ok a.
Proof.
  intro Hsafe. vm_compute in Hsafe.
  first
    [ discriminate Hsafe
    | eexists; split; [reflexivity|];
      intros p Hc; apply check_object_required in Hc; [|reflexivity];
      destruct Hc as [kvs [-> Hreq]]; cbn [forallb] in Hreq;
      repeat match type of Hreq with
             | (_ && _)%bool = true => let H := fresh "Hk" in apply andb_true_iff in Hreq as [H Hreq]
             end;
      cbv beta iota delta [split_rows_event_fetch jget_req jget_opt];
      repeat match goal with
             | H : match lookup ?k kvs with Some _ => true | None => false end = true |- _ =>
                 destruct (lookup k kvs) eqn:?; [clear H | discriminate H]
             end;
      cbn [bind];
      repeat match goal with
             | |- context [match lookup ?k kvs with Some _ => _ | None => _ end] =>
                 destruct (lookup k kvs); cbn [bind]
             end;
      eexists; reflexivity ].
Qed.

(* non-vacuity: a validated three-operation list runs on a table with n/a cells *)
Definition ex_ops : list opstate :=
  [RenameColumns [(s1 97, s1 122)] false;
   RemoveRows (s1 122) [PStr (s1 49); PNum 2];
   ReorderColumns [s1 99; s1 122] true false].
Lemma ex_ops_run :
  forallb (input_data_ok all_fixes) ex_ops = true /\
  run_tables all_fixes ex_ops [ex_T1; ex_T1]
  = (ex_ops, [Ok {| cols := [s1 99; s1 122]; rows := [[CStr [122%N]; CStr [50%N]]] |};
              Ok {| cols := [s1 99; s1 122]; rows := [[CStr [122%N]; CStr [50%N]]] |}]).
Proof. vm_compute. split; reflexivity. Qed.

(* the current code on the operation whose state opstate_constant is about:
   reorder_columns with keep_others over files with different extra columns,
   from the JSON list through validate, the constructors and one dispatcher;
   the operation keeps its column_order and the second file (no column c) runs *)
Definition ex_reorder_json : json :=
  JArr [JObj [(k_operation, JStr n_reorder_columns); (k_description, JStr [100%N]);
              (k_parameters, JObj [(k_column_order, JArr [JStr [98%N]; JStr [97%N]]);
                                   (k_ignore_missing, JBool false); (k_keep_others, JBool true)])]].

Lemma ex_reorder_now :
  validate all_fixes ex_reorder_json = Ok true /\
  parse_operations ex_reorder_json = Ok [ex_reorder] /\
  remodel all_fixes ex_reorder_json [ex_T1; ex_T2; ex_T1]
  = Ok (Ran [ex_reorder]
          [Ok {| cols := [[98%N]; [97%N]; [99%N]];
                 rows := [[CStr [120%N]; CStr [49%N]; CStr s_na]; [CStr [121%N]; CStr [50%N]; CStr [122%N]]] |};
           Ok {| cols := [[98%N]; [97%N]; [100%N]]; rows := [[CStr [120%N]; CStr [49%N]; CStr [113%N]]] |};
           Ok {| cols := [[98%N]; [97%N]; [99%N]];
                 rows := [[CStr [120%N]; CStr [49%N]; CStr s_na]; [CStr [121%N]; CStr [50%N]; CStr [122%N]]] |}]).
Proof. vm_compute. repeat split. Qed.

(* RECORD (behaviour before fix commit e8c17b3): the same run changed the
   operation's column_order and made the second file fail *)
Lemma ex_reorder_before_e8c17b3 :
  remodel no_fixes ex_reorder_json [ex_T1; ex_T2]
  = Ok (Ran [ReorderColumns [[98%N]; [97%N]; [99%N]] false true]
          [Ok {| cols := [[98%N]; [97%N]; [99%N]];
                 rows := [[CStr [120%N]; CStr [49%N]; CStr s_na]; [CStr [121%N]; CStr [50%N]; CStr [122%N]]] |};
           Exn ValueError]).
Proof. vm_compute. reflexivity. Qed.


(* ------------------------------------------------------------ whole lists *)

(* at every step the current table is applicable to the next operation and
   stays inside the modelled fragment (distinct column names) *)
Fixpoint applicable_run (sts : list opstate) (t : table) : bool :=
  match sts with
  | [] => true
  | st :: r =>
      applicable st (prep_data t) &&
      match snd (do_op all_fixes st (prep_data t)) with
      | Ok t1 => wfb (post_proc_data t1) && applicable_run r (post_proc_data t1)
      | Exn _ => false
      end
  end.

Lemma run_total sts t :
  applicable_run sts t = true -> exists t', snd (run_operations all_fixes sts t) = Ok t'.
Proof.
  revert t. induction sts as [|st sts IH]; intros t H; cbn [run_operations snd]; [eexists; reflexivity|].
  cbn [applicable_run] in H. apply andb_true_iff in H as [_ H].
  destruct (do_op all_fixes st (prep_data t)) as [st' o]. cbn [snd] in H.
  destruct o as [t1|e]; [|discriminate].
  apply andb_true_iff in H as [Hwf Hr]. rewrite Hwf.
  destruct (IH (post_proc_data t1) Hr) as [t' Ht'].
  destruct (run_operations all_fixes sts (post_proc_data t1)) as [rest' o']. cbn [snd] in *.
  exists t'. exact Ht'.
Qed.

(* the result of a non-empty list never contains NaN: every n/a is written "n/a" *)
Lemma run_no_nan fx sts t sts' t' :
  sts <> [] -> run_operations fx sts t = (sts', Ok t') -> no_nan t'.
Proof.
  revert t sts' t'. induction sts as [|st sts IH]; intros t sts' t' Hne H; [congruence|].
  cbn [run_operations] in H.
  destruct (do_op fx st (prep_data t)) as [st1 o]. destruct o as [t1|e]; [|discriminate].
  destruct (wfb (post_proc_data t1)); [|discriminate].
  destruct sts as [|st2 sts].
  - cbn [run_operations] in H. injection H as _ <-. apply post_no_nan.
  - destruct (run_operations fx (st2 :: sts) (post_proc_data t1)) as [rest' o'] eqn:E.
    injection H as _ ->. eapply IH; [discriminate | exact E].
Qed.

Lemma ex_ops_applicable : applicable_run ex_ops ex_T1 = true.
Proof. vm_compute. reflexivity. Qed.
