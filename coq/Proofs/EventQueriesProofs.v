(* C20: consumer histories on one EventManager -- every answer is a function of the constructed
   manager only (proofs about Model/EventQueries.v). *)
From Coq Require Import List NArith ZArith Arith Bool Lia.
From HV Require Import Base.Res Model.Events Model.EventQueries Proofs.EventsProofs.
Import ListNotations.

Section QueriesProofs.
  Variable strip : list N -> bool -> item -> list item.

  Lemma upd_app_len {A} (s : list A) x f : upd (s ++ [x]) (length s) f = s ++ [f x].
  Proof. induction s as [|y s IH]; simpl; [reflexivity | rewrite IH; reflexivity]. Qed.

  Lemma nth_error_app_len {A} (s : list A) x : nth_error (s ++ [x]) (length s) = Some x.
  Proof. induction s as [|y s IH]; simpl; auto. Qed.

  Lemma read_prefix (s0 ex : store) a : a < length s0 -> read (s0 ++ ex) a = Ok (nth a s0 []).
  Proof.
    intro H. unfold read. rewrite nth_error_app1 by exact H.
    rewrite (nth_error_nth' s0 [] H). reflexivity.
  Qed.

  Lemma filter_hed_spec s text rt rg :
    exists ex, filter_hed strip s text rt rg = Ok (s ++ ex, flat_map (strip rt rg) text).
  Proof.
    destruct text as [|it its].
    - exists []. rewrite app_nil_r. reflexivity.
    - unfold filter_hed, alloc, split_in_place. rewrite upd_app_len.
      unfold read. rewrite nth_error_app_len. cbn [bind]. eexists. reflexivity.
  Qed.

  Lemma filter_hed_obj_spec s0 ex a rt rg : a < length s0 ->
    exists ex', filter_hed_obj strip (s0 ++ ex) a rt rg =
                Ok (s0 ++ ex', flat_map (strip rt rg) (nth a s0 [])).
  Proof.
    intro H. unfold filter_hed_obj. rewrite (read_prefix s0 ex a H). cbn [bind].
    destruct (filter_hed_spec (s0 ++ ex) (nth a s0 []) rt rg) as (ex1 & E). rewrite E.
    exists (ex ++ ex1). rewrite app_assoc. reflexivity.
  Qed.

  Lemma filter_rows_spec s0 rt : forall addrs ex, Forall (fun a => a < length s0) addrs ->
    exists ex', filter_rows strip (s0 ++ ex) addrs rt =
                Ok (s0 ++ ex', map (fun a => flat_map (strip rt false) (nth a s0 [])) addrs).
  Proof.
    induction addrs as [|a rest IH]; intros ex Hf.
    - exists ex. reflexivity.
    - inversion Hf as [|? ? Ha Hr]; subst. cbn [filter_rows map].
      destruct (filter_hed_obj_spec s0 ex a rt false Ha) as (ex1 & E1). rewrite E1. cbn [bind].
      destruct (IH ex1 Hr) as (ex2 & E2). rewrite E2. cbn [bind]. exists ex2. reflexivity.
  Qed.

  Lemma filter_texts_spec s0 rt : forall texts ex,
    exists ex', filter_texts strip (s0 ++ ex) texts rt =
                Ok (s0 ++ ex', map (flat_map (strip rt true)) texts).
  Proof.
    induction texts as [|t rest IH]; intro ex.
    - exists ex. reflexivity.
    - cbn [filter_texts map].
      destruct (filter_hed_spec (s0 ++ ex) t rt true) as (ex1 & E1). rewrite E1, <- app_assoc. cbn [bind].
      destruct (IH (ex ++ ex1)) as (ex2 & E2). rewrite E2. cbn [bind]. exists ex2. reflexivity.
  Qed.

  (* the answers as functions of the constructed manager alone *)
  Definition pure_unfold (m : manager) (s0 : store) (rt : list N) : answer :=
    (map (fun a => flat_map (strip rt false) (nth a s0 [])) (seq 0 (m_n m)),
     map (flat_map (strip rt true)) (m_base m),
     map (flat_map (strip rt true)) (m_ctx m)).

  Definition answer_of (m : manager) (s0 : store) (q : query) : answer :=
    match q with
    | QUnfold rt => pure_unfold m s0 rt
    | QObjs rt ic =>
        let '(hed, base, ctx) := pure_unfold m s0 rt in
        (hed, base, if ic then ctx else map (fun _ => []) ctx)
    | QStr => (map (fun a => nth a s0 []) (seq 0 (m_n m)), m_base m, m_ctx m)
    end.

  Lemma seq_below n : Forall (fun a => a < n) (seq 0 n).
  Proof. apply Forall_forall. intros a Ha. apply in_seq in Ha. lia. Qed.

  Lemma unfold_spec m s0 ex rt : m_n m <= length s0 ->
    exists ex', unfold_context strip m (s0 ++ ex) rt = Ok (s0 ++ ex', pure_unfold m s0 rt).
  Proof.
    intro Hn. unfold unfold_context.
    destruct (filter_rows_spec s0 rt (seq 0 (m_n m)) ex) as (ex1 & E1).
    { eapply Forall_impl; [|apply seq_below]. simpl. intros; lia. }
    rewrite E1. cbn [bind].
    destruct (filter_texts_spec s0 rt (m_base m) ex1) as (ex2 & E2). rewrite E2. cbn [bind].
    destruct (filter_texts_spec s0 rt (m_ctx m) ex2) as (ex3 & E3). rewrite E3. cbn [bind].
    exists ex3. reflexivity.
  Qed.

  Lemma read_all_spec s0 ex : forall addrs, Forall (fun a => a < length s0) addrs ->
    read_all (s0 ++ ex) addrs = Ok (map (fun a => nth a s0 []) addrs).
  Proof.
    induction addrs as [|a rest IH]; intro Hf; [reflexivity|].
    inversion Hf as [|? ? Ha Hr]; subst. cbn [read_all map].
    rewrite (read_prefix s0 ex a Ha). cbn [bind]. rewrite (IH Hr). reflexivity.
  Qed.

  Lemma run_query_spec m s0 ex q : m_n m <= length s0 ->
    exists ex', run_query strip m (s0 ++ ex) q = Ok (s0 ++ ex', answer_of m s0 q).
  Proof.
    intro Hn. destruct q as [rt|rt ic|]; cbn [run_query answer_of].
    - apply unfold_spec. exact Hn.
    - destruct (unfold_spec m s0 ex rt Hn) as (ex1 & E). rewrite E. cbn [bind].
      unfold pure_unfold. exists ex1. reflexivity.
    - rewrite read_all_spec.
      + cbn [bind]. exists ex. reflexivity.
      + eapply Forall_impl; [|apply seq_below]. simpl. intros; lia.
  Qed.

  Lemma run_history_spec m s0 : m_n m <= length s0 -> forall qs ex,
    exists ex', run_history strip m (s0 ++ ex) qs = Ok (s0 ++ ex', map (answer_of m s0) qs).
  Proof.
    intro Hn. induction qs as [|q rest IH]; intro ex.
    - exists ex. reflexivity.
    - cbn [run_history map]. destruct (run_query_spec m s0 ex q Hn) as (ex1 & E1). rewrite E1. cbn [bind].
      destruct (IH ex1) as (ex2 & E2). rewrite E2. cbn [bind]. exists ex2. reflexivity.
  Qed.

  (* The history theorem: whatever sequence of reports consumers ask of one manager, no query raises,
     the manager's stored row annotations are unchanged, and every answer is the answer the freshly
     constructed manager gives to that query alone. *)
  Theorem history_independent (o : output) (qs : list query) :
    exists s' answers,
      run_history strip (manager_of o) (store_of o) qs = Ok (s', answers) /\
      firstn (length (store_of o)) s' = store_of o /\
      Forall2 (fun q a => exists s1, run_query strip (manager_of o) (store_of o) q = Ok (s1, a)) qs answers.
  Proof.
    assert (Hn : m_n (manager_of o) <= length (store_of o)) by (unfold manager_of, store_of; simpl; lia).
    destruct (run_history_spec (manager_of o) (store_of o) Hn qs []) as (ex & E).
    rewrite app_nil_r in E. eexists. eexists. split; [exact E|]. split.
    - rewrite firstn_app, Nat.sub_diag, firstn_all. simpl. apply app_nil_r.
    - clear E. induction qs as [|q rest IH]; [constructor|]. cbn [map]. constructor; [|exact IH].
      destruct (run_query_spec (manager_of o) (store_of o) [] q Hn) as (ex1 & E1).
      rewrite app_nil_r in E1. eexists. exact E1.
  Qed.
End QueriesProofs.

(* Contrast: if _filter_hed reused the stored object instead of copying it, one filtered report would
   change what the manager holds (so the theorem above is about the copy, not a triviality). *)
Definition drop_typed (rt : list N) (rg : bool) (it : item) : list item :=
  if existsb (N.eqb (it_id it)) rt then [] else [it].

Lemma reuse_changes_store :
  exists (s : store) s' r, filter_hed_obj_reuse drop_typed s 0 [7%N] false = Ok (s', r) /\
                          read s' 0 <> read s 0.
Proof.
  exists [[mkItem None KPlain 7; mkItem None KPlain 8]]. eexists. eexists.
  split; [reflexivity|]. vm_compute. discriminate.
Qed.
