(* C12 <-> C02: the span premises of the offsets theorems (tag_is_slice) hold for every tag of every
   parsed string -- derived from C02's theorem init_refines_spec (hedstring_init s = Ok (spec_parse s)). *)
From Coq Require Import List NArith Arith Bool Lia.
From HV Require Import Base.Res Base.Str Model.Parse Proofs.ParseProofs Proofs.ParseRefine Proofs.ParsePrint
                       Model.Issues Proofs.IssuesProofs.
Import ListNotations.

Fixpoint tags_of (x : node) : list (nat * nat) :=
  match x with
  | Tag a b => [(a, b)]
  | Group _ _ ch => flat_map tags_of ch
  end.

Definition frames_tags (st : list frame) : list (nat * nat) :=
  flat_map (fun f => flat_map tags_of (snd f)) st.

Definition span_ok (i : nat) (p : nat * nat) : Prop := fst p <= snd p /\ snd p <= i.
Definition finv (i : nat) (st : list frame) : Prop := forall p, In p (frames_tags st) -> span_ok i p.

Lemma finv_mono i j st : i <= j -> finv i st -> finv j st.
Proof. intros L H p Hp. destruct (H p Hp). split; [assumption | lia]. Qed.

Lemma push_tag_inv i a b st : finv i st -> a <= b -> b <= i -> finv i (push_child (Tag a b) st).
Proof.
  intros H L1 L2 p Hp. destruct st as [|[ga ch] rest]; [contradiction|].
  unfold frames_tags in Hp. cbn [push_child flat_map snd tags_of app] in Hp.
  destruct Hp as [E | Hp]; [subst p; split; assumption|].
  apply H. unfold frames_tags. cbn [flat_map snd]. exact Hp.
Qed.

Lemma flush_inv i ra run st : ra + length run = i -> finv i st -> finv i (flush_run ra run st).
Proof.
  intros L H. unfold flush_run.
  destruct (trim_left (rev run) ra) as [a r'] eqn:T.
  destruct (trim_left_spec _ _ _ _ T) as (k & Hr & Ha & _).
  destruct r' as [|c r']; [assumption|].
  assert (Len : length run = k + length (c :: r')).
  { rewrite <- (rev_length run), Hr, app_length, spaces_length. reflexivity. }
  pose proof (trim_right_len_le (c :: r')) as T2.
  apply (push_tag_inv i); [exact H | lia | lia].
Qed.

Lemma in_flat_map_rev {A B} (f : A -> list B) l p : In p (flat_map f (rev l)) -> In p (flat_map f l).
Proof.
  intros H. apply in_flat_map in H as (x & Hx & Hp). apply in_flat_map. exists x.
  split; [apply in_rev; assumption | assumption].
Qed.

Lemma loop_inv : forall cs i ra run st res,
  ra + length run = i -> finv i st -> spec_loop cs i ra run st = Some res -> finv (i + length cs) res.
Proof.
  induction cs as [|c cs IH]; intros i ra run st res L H E; cbn [spec_loop] in E.
  - inversion E as [E']. rewrite Nat.add_0_r. apply flush_inv; assumption.
  - cbn [length]. replace (i + S (length cs)) with (S i + length cs) by lia.
    destruct (is_delim c).
    + pose proof (flush_inv i ra run st L H) as H1.
      set (st1 := flush_run ra run st) in *.
      destruct (N.eqb c ch_open).
      * eapply IH; [| |exact E]; [simpl; lia|].
        apply (finv_mono i (S i)); [lia|]. intros p Hp. apply H1.
        unfold frames_tags in *. cbn [flat_map snd app] in Hp. exact Hp.
      * destruct (N.eqb c ch_close).
        -- destruct st1 as [|[ga gch] [|[pa pch] rest]]; try discriminate.
           eapply IH; [| |exact E]; [simpl; lia|].
           apply (finv_mono i (S i)); [lia|]. intros p Hp. apply H1.
           unfold frames_tags in *. cbn [flat_map snd tags_of] in *.
           rewrite !in_app_iff in *. destruct Hp as [[Hp | Hp] | Hp].
           ++ left. apply in_flat_map_rev. exact Hp.
           ++ right. left. exact Hp.
           ++ right. right. exact Hp.
        -- eapply IH; [| |exact E]; [simpl; lia|]. apply (finv_mono i (S i)); [lia | exact H1].
    + eapply IH; [| |exact E]; [simpl; lia|]. apply (finv_mono i (S i)); [lia | exact H].
Qed.

(* every tag of every parsed string has a span a <= b <= |s| *)
Lemma parsed_tag_spans : forall s f a b,
  hedstring_init s = Ok f -> In (a, b) (flat_map tags_of f) -> a <= b /\ b <= length s.
Proof.
  intros s f a b Hf Hin. rewrite init_refines_spec in Hf. inversion Hf; subst f. clear Hf.
  unfold spec_parse in Hin.
  destruct (spec_loop s 0 0 [] [(0, [])]) as [[|[g ch] [|x rest]]|] eqn:E; try contradiction.
  assert (H0 : finv 0 [(0, [])]) by (intros p Hp; contradiction).
  pose proof (loop_inv s 0 0 [] [(0, [])] _ eq_refl H0 E) as Hinv. simpl in Hinv.
  apply in_flat_map_rev in Hin.
  destruct (Hinv (a, b)) as [L1 L2]; [unfold frames_tags; cbn [flat_map snd]; rewrite app_nil_r; exact Hin|].
  auto.
Qed.

(* the HedTag object of a parsed tag: org_tag is DEFINED as the slice of the source text, .tag is
   org_tag while the tag is unmodified *)
Definition parsed_tag (text : str) (id a b : nat) : srctag :=
  {| t_id := id; t_start := a; t_end := b; t_text := sub text a b; t_org := sub text a b; t_modified := false |}.

Lemma parsed_tag_is_slice : forall text f id a b,
  hedstring_init text = Ok f -> In (a, b) (flat_map tags_of f) ->
  tag_is_slice text (parsed_tag text id a b).
Proof.
  intros text f id a b Hf Hin. destruct (parsed_tag_spans _ _ _ _ Hf Hin) as [L1 L2].
  unfold tag_is_slice, parsed_tag. cbn. repeat split; assumption.
Qed.

(* the premises of the offsets theorems discharged for parsed strings: a whole-tag error on a tag of the
   parsed text is located at the tag's span, inside the text, and quotes exactly that slice *)
Lemma offsets_select_tag_parsed : forall fixed r sev ctx text orig f id a b i',
  hedstring_init text = Ok f -> In (a, b) (flat_map tags_of f) ->
  let t := parsed_tag text id a b in
  let i := add_context_to_errors (wrap_tag r (SrcTag t) sev) ctx in
  has_hed_ctx i (HS text orig []) ->
  in_original (HS text orig []) id = true ->
  update_error_with_char_pos fixed i = Ok i' ->
  i_char i' = Some (a, b) /\ a <= b /\ b <= length text /\ m_tag (i_msg i') = Some (sub text a b).
Proof.
  intros fixed r sev ctx text orig f id a b i' Hf Hin t i Hh Ho Hu.
  destruct (parsed_tag_spans _ _ _ _ Hf Hin) as [L1 L2].
  destruct (offsets_select_tag fixed r t sev ctx text orig i' Hh Ho
              (parsed_tag_is_slice text f id a b Hf Hin) Hu) as [A B].
  cbn in A, B. auto.
Qed.

(* non-vacuity: "Red, Blue" parses to tags at 0..3 and 5..9 *)
Example parsed_tags_example :
  exists f, hedstring_init [82;101;100;44;32;66;108;117;101]%N = Ok f /\
            flat_map tags_of f = [(0, 3); (5, 9)].
Proof. eexists. split; vm_compute; reflexivity. Qed.
