(* C20: the context of a time point in terms of TIME (as the property states it), derived from the
   index characterisation of Proofs/EventsProofs.v. *)
From Coq Require Import List NArith ZArith Arith Bool Lia ZifyBool.
From HV Require Import Base.Res Model.Events Proofs.EventsProofs.
Import ListNotations.

Lemma nth_onset (tl : list row) k r : nth_error tl k = Some r -> nth k (map r_onset tl) 0%Z = r_onset r.
Proof.
  intro H. apply (nth_error_nth (map r_onset tl) k 0%Z). rewrite nth_error_map, H. reflexivity.
Qed.

Lemma marked_nonempty a r : row_marks a r = true -> r_items r <> [].
Proof. unfold row_marks. destruct (r_items r); [discriminate | discriminate]. Qed.

Section TimeCtx.
  Variable h : list row.
  Variable o : output.
  Hypothesis Hrun : event_manager h = Ok o.
  Hypothesis Hvalid : valid_timeline (o_rows o).

  Local Notation tl := (o_rows o).
  Local Notation ons := (map r_onset (o_rows o)).

  Lemma ons_mono : mono ons = true.
  Proof. apply (em_time_line h o Hrun). Qed.

  Lemma idx_lt_time s i : time_point tl i -> s < length tl ->
    (s < i <-> (nth s ons 0 < nth i ons 0)%Z).
  Proof.
    intros [Hi Hfirst] Hs. split.
    - intro H. apply Hfirst. exact H.
    - intro H. destruct (Nat.lt_ge_cases s i) as [|Hge]; [assumption|].
      pose proof (mono_nth ons ons_mono i s Hge ltac:(rewrite map_length; exact Hs)). lia.
  Qed.

  (* the context of a time point: exactly the processes that started strictly earlier (in time)
     and have not ended (no end time, or an end time strictly later) *)
  Lemma context_time_iff i e : time_point tl i ->
    (In e (nth i (o_contexts o) []) <->
     In e (all_events o) /\ (ev_start_time e < nth i ons 0)%Z /\
     (forall te, ev_end_time e = Some te -> (nth i ons 0 < te)%Z)).
  Proof.
    intro Htp. pose proof Htp as [Hi Hfirst].
    rewrite (em_context_iff h o Hrun Hvalid i e).
    split; intros (He & H1 & H2); (split; [exact He|]).
    - (* index -> time *)
      destruct (em_every_event_listed h o Hrun Hvalid e He) as (s & r & Hn & Hin & Hs & Hit).
      destruct (em_started_listed h o Hrun Hvalid s r Hn) as (_ & Hf & _).
      rewrite Forall_forall in Hf. destruct (Hf e Hin) as [_ Hst].
      assert (Hsl : s < length tl) by (apply nth_error_Some; congruence).
      split.
      + rewrite Hst, <- (nth_onset tl s r Hn). apply (idx_lt_time s i Htp Hsl). lia.
      + intros te Hte. destruct (it_kind (ev_item e)) as [a|a|d|] eqn:K.
        * destruct (em_end_onset h o Hrun Hvalid e a He K) as (j & Ej & Hsj & Hjn & Hbetween & Hclose & Hopen).
          unfold ev_end_index in H2. rewrite Ej in H2.
          destruct (Nat.eq_dec j (length (o_rows o))) as [Hjeq|Hjne]; [rewrite (Hopen Hjeq) in Hte; discriminate|].
          destruct (Hclose ltac:(lia)) as (rj & Hnj & Hmj & Htj). rewrite Htj in Hte. inversion Hte; subst te.
          rewrite <- (nth_onset tl j rj Hnj).
          pose proof (mono_nth ons ons_mono i j ltac:(lia) ltac:(rewrite map_length; lia)) as Hle.
          destruct (Z.eq_dec (nth i ons 0%Z) (nth j ons 0%Z)) as [Heq|Hne]; [|lia].
          exfalso. destruct (nth_error tl i) as [ri|] eqn:Eri; [|apply nth_error_None in Eri; lia].
          apply (marked_nonempty a rj Hmj).
          apply (proj1 (proj2 (proj2 (em_time_line h o Hrun))) i j ri rj Eri Hnj H2).
          rewrite <- (nth_onset tl i ri Eri), <- (nth_onset tl j rj Hnj). exact Heq.
        * exfalso. assert (Hin' : In (ev_item e) (filter is_onset_item (r_items r) ++ filter is_duration_item (r_items r))).
          { destruct (em_started_listed h o Hrun Hvalid s r Hn) as (Hmap & _). rewrite <- Hmap. apply in_map. exact Hin. }
          rewrite in_app_iff, !filter_In in Hin'. unfold is_onset_item, is_duration_item in Hin'. rewrite K in Hin'.
          destruct Hin' as [[_ F]|[_ F]]; discriminate.
        * destruct (em_end_duration h o Hrun Hvalid e d He K) as (j & Ej & Hjn & Het & Hlt & Hge).
          unfold ev_end_index in H2. rewrite Ej in H2. rewrite Het in Hte. inversion Hte; subst te.
          apply Hlt. exact H2.
        * exfalso. assert (Hin' : In (ev_item e) (filter is_onset_item (r_items r) ++ filter is_duration_item (r_items r))).
          { destruct (em_started_listed h o Hrun Hvalid s r Hn) as (Hmap & _). rewrite <- Hmap. apply in_map. exact Hin. }
          rewrite in_app_iff, !filter_In in Hin'. unfold is_onset_item, is_duration_item in Hin'. rewrite K in Hin'.
          destruct Hin' as [[_ F]|[_ F]]; discriminate.
    - (* time -> index *)
      destruct (em_every_event_listed h o Hrun Hvalid e He) as (s & r & Hn & Hin & Hs & Hit).
      destruct (em_started_listed h o Hrun Hvalid s r Hn) as (Hmap & Hf & _).
      rewrite Forall_forall in Hf. destruct (Hf e Hin) as [_ Hst].
      assert (Hsl : s < length tl) by (apply nth_error_Some; congruence).
      split.
      + rewrite Hs. apply (idx_lt_time s i Htp Hsl). rewrite (nth_onset tl s r Hn), <- Hst. exact H1.
      + unfold ev_end_index. destruct (it_kind (ev_item e)) as [a|a|d|] eqn:K.
        * destruct (em_end_onset h o Hrun Hvalid e a He K) as (j & Ej & Hsj & Hjn & Hbetween & Hclose & Hopen).
          rewrite Ej. destruct (Nat.eq_dec j (length (o_rows o))) as [Hjeq|Hjne]; [lia|].
          destruct (Hclose ltac:(lia)) as (rj & Hnj & Hmj & Htj).
          specialize (H2 _ Htj). rewrite <- (nth_onset tl j rj Hnj) in H2.
          destruct (Nat.lt_ge_cases i j) as [|Hge]; [assumption|].
          pose proof (mono_nth ons ons_mono j i Hge ltac:(rewrite map_length; exact Hi)). lia.
        * exfalso. assert (Hin' : In (ev_item e) (filter is_onset_item (r_items r) ++ filter is_duration_item (r_items r))).
          { rewrite <- Hmap. apply in_map. exact Hin. }
          rewrite in_app_iff, !filter_In in Hin'. unfold is_onset_item, is_duration_item in Hin'. rewrite K in Hin'.
          destruct Hin' as [[_ F]|[_ F]]; discriminate.
        * destruct (em_end_duration h o Hrun Hvalid e d He K) as (j & Ej & Hjn & Het & Hlt & Hge).
          rewrite Ej. specialize (H2 _ Het).
          destruct (Nat.lt_ge_cases i j) as [|Hgej]; [assumption|].
          specialize (Hge i Hgej Hi). lia.
        * exfalso. assert (Hin' : In (ev_item e) (filter is_onset_item (r_items r) ++ filter is_duration_item (r_items r))).
          { rewrite <- Hmap. apply in_map. exact Hin. }
          rewrite in_app_iff, !filter_In in Hin'. unfold is_onset_item, is_duration_item in Hin'. rewrite K in Hin'.
          destruct Hin' as [[_ F]|[_ F]]; discriminate.
  Qed.
End TimeCtx.

(* The second and later rows of one time point ("ghost rows") are not time points: their context
   lists the processes that start at that very time (the loop works on row indices). *)
Lemma ghost_row_context :
  exists h o i e, event_manager h = Ok o /\ valid_timeline (o_rows o) /\
    In e (nth i (o_contexts o) []) /\ ev_start_time e = nth i (map r_onset (o_rows o)) 0%Z.
Proof.
  exists [mkRow 0 [mkItem None (KOnset 1) 1]; mkRow 0 [mkItem None KPlain 2]].
  eexists. exists 1. eexists.
  split; [vm_compute; reflexivity|]. split; [|split].
  - unfold valid_timeline. split.
    + vm_compute. repeat (constructor; simpl; try (intuition discriminate)).
    + vm_compute. exact I.
  - vm_compute. left. reflexivity.
  - reflexivity.
Qed.

(* ================================================================== *)
(* The order inside a time point: the sort is stable, so a time point holds, in FILE order, what
   the rows of that (shifted) time hold. *)

Lemma split_rows_shifted h : split_rows h = (map kept_row h, flat_map delayed_rows h).
Proof.
  induction h as [|r rs IH]; [reflexivity|].
  cbn [split_rows map flat_map]. rewrite IH. reflexivity.
Qed.

Lemma filter_insert_row t r : forall l,
  filter (same_onset t) (insert_row r l) =
  if same_onset t r then r :: filter (same_onset t) l else filter (same_onset t) l.
Proof.
  induction l as [|x xs IH].
  - cbn [insert_row filter]. destruct (same_onset t r); reflexivity.
  - cbn [insert_row]. destruct (r_onset r <=? r_onset x)%Z eqn:E.
    + cbn [filter]. destruct (same_onset t r); reflexivity.
    + cbn [filter]. rewrite IH. unfold same_onset in *.
      destruct (r_onset r =? t)%Z eqn:Er; [|reflexivity].
      destruct (r_onset x =? t)%Z eqn:Ex; [|reflexivity]. lia.
Qed.

Lemma filter_sort_rows t : forall l, filter (same_onset t) (sort_rows l) = filter (same_onset t) l.
Proof.
  induction l as [|x xs IH]; [reflexivity|].
  cbn [sort_rows filter]. rewrite filter_insert_row, IH. reflexivity.
Qed.

Lemma merge_aux_first_row all : forall rows seen k r',
  nth_error (merge_aux seen all rows) k = Some r' ->
  ~ In (r_onset r') seen ->
  (forall k' r'', k' < k -> nth_error rows k' = Some r'' -> r_onset r'' <> r_onset r') ->
  r_items r' = concat (map r_items (filter (same_onset (r_onset r')) all)).
Proof.
  induction rows as [|r rs IH]; intros seen k r' Hn Hns Hfirst; [destruct k; discriminate|].
  destruct k as [|k]; cbn [merge_aux nth_error] in Hn.
  - inversion Hn; subst r'. clear Hn.
    destruct (existsb (Z.eqb (r_onset r)) seen) eqn:Ex.
    + exfalso. apply Hns. apply existsb_Zeqb in Ex. exact Ex.
    + reflexivity.
  - apply (IH _ _ _ Hn).
    + intros [H|H]; [|contradiction]. apply (Hfirst 0 r ltac:(lia) eq_refl). exact H.
    + intros k' r'' Hk Hn'. apply (Hfirst (S k') r'' ltac:(lia)). exact Hn'.
Qed.

Lemma time_point_items h o i r :
  event_manager h = Ok o -> nth_error (o_rows o) i = Some r -> time_point (o_rows o) i ->
  r_items r = concat (map r_items (filter (same_onset (r_onset r)) (shifted_rows h))).
Proof.
  intros Hrun Hn [Hi Hfirst]. rewrite (em_rows h o Hrun) in *.
  unfold split_delay_tags in *. rewrite split_rows_shifted in *. fold (shifted_rows h) in *.
  unfold merge_rows in *. set (s := sort_rows (shifted_rows h)) in *.
  rewrite <- (filter_sort_rows (r_onset r) (shifted_rows h)). fold s.
  apply (merge_aux_first_row s s [] i r Hn); [intros []|].
  intros k' r'' Hk Hn'. specialize (Hfirst k' Hk).
  rewrite merge_aux_onsets in Hfirst.
  rewrite (nth_onset s k' r'' Hn') in Hfirst.
  assert (Hri : nth i (map r_onset s) 0%Z = r_onset r).
  { rewrite <- (merge_aux_onsets s s []). apply nth_onset. exact Hn. }
  rewrite Hri in Hfirst. lia.
Qed.

(* ================================================================== *)
(* Spelling of the tags (e.g. a schema namespace prefix on every tag) is invisible to the model: it only
   changes the opaque payload [it_id].  Concrete instance: relabelling every payload of the example
   history relabels the result and changes nothing else. *)
Definition relabel_item (f : N -> N) (it : item) : item := mkItem (it_delay it) (it_kind it) (f (it_id it)).
Definition relabel_row (f : N -> N) (r : row) : row := mkRow (r_onset r) (map (relabel_item f) (r_items r)).
Definition relabel_ev (f : N -> N) (e : tevent) : tevent :=
  mkEv (ev_start e) (ev_start_time e) (ev_end e) (ev_end_time e) (relabel_item f (ev_item e)).
Definition relabel_out (f : N -> N) (o : output) : output :=
  mkOut (map (relabel_row f) (o_rows o)) (map (map (relabel_ev f)) (o_events o))
        (map (map (relabel_ev f)) (o_base o)) (map (map (relabel_ev f)) (o_contexts o))
        (map (map (relabel_item f)) (o_hed o)).

Lemma relabel_example :
  event_manager (map (relabel_row (N.add 100)) ex_history) =
  match event_manager ex_history with Ok o => Ok (relabel_out (N.add 100) o) | Exn e => Exn e end.
Proof. vm_compute. reflexivity. Qed.
