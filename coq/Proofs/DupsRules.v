(* Proofs about Model/Dups.v (property C04), part 3: the placement, unique /
   required and Duration/Delay rules never raise and only depend on the
   multiset of the members of each group (and not on spelling). *)
From Coq Require Import List NArith Arith Bool Lia Permutation.
From HV Require Import Base.Res Base.Str Model.Dups Proofs.DupsProofs Proofs.DupsCount.
Import ListNotations.

(* ------------------------------------------------------------------ *)
(* list facts                                                          *)
(* ------------------------------------------------------------------ *)

Lemma perm_flat_map {A B} (f : A -> list B) l l' :
  Permutation l l' -> Permutation (flat_map f l) (flat_map f l').
Proof.
  induction 1; simpl.
  - constructor.
  - apply Permutation_app_head. assumption.
  - rewrite !app_assoc. apply Permutation_app_tail. apply Permutation_app_comm.
  - etransitivity; eauto.
Qed.

Lemma existsb_perm {A} (f : A -> bool) l l' : Permutation l l' -> existsb f l = existsb f l'.
Proof.
  induction 1; simpl; try congruence.
  rewrite !orb_assoc. f_equal. apply orb_comm.
Qed.

Lemma flat_map_map {A B C} (g : A -> B) (f : B -> list C) l :
  flat_map f (map g l) = flat_map (fun x => f (g x)) l.
Proof. induction l; simpl; congruence. Qed.

Lemma existsb_map {A B} (g : A -> B) (f : B -> bool) l :
  existsb f (map g l) = existsb (fun x => f (g x)) l.
Proof. induction l; simpl; congruence. Qed.

Lemma find_isnone {A} (f : A -> bool) l :
  match find f l with None => false | Some _ => true end = existsb f l.
Proof. induction l as [|x l IH]; simpl; [reflexivity|]. destruct (f x); auto. Qed.

Lemma remove_perm d l l' :
  Permutation l l' -> Permutation (remove Nat.eq_dec d l) (remove Nat.eq_dec d l').
Proof.
  induction 1; simpl.
  - constructor.
  - destruct (Nat.eq_dec d x); [assumption|constructor; assumption].
  - destruct (Nat.eq_dec d x), (Nat.eq_dec d y); try reflexivity. apply perm_swap.
  - etransitivity; eauto.
Qed.

Lemma remove_length d l : NoDup l -> In d l -> S (length (remove Nat.eq_dec d l)) = length l.
Proof.
  induction l as [|x l IH]; intros Hn Hi; [destruct Hi|].
  inversion Hn as [|? ? Hx Hn']; subst. simpl. destruct (Nat.eq_dec d x) as [E|E].
  - subst x. rewrite notin_remove; auto.
  - simpl. f_equal. apply IH; [assumption|]. destruct Hi; [congruence|assumption].
Qed.

Lemma nodup_perm l l' :
  Permutation l l' -> Permutation (nodup Nat.eq_dec l) (nodup Nat.eq_dec l').
Proof.
  intro Hp. apply NoDup_Permutation; try apply NoDup_nodup.
  intro x. rewrite !nodup_In. split; apply Permutation_in; [|apply Permutation_sym]; assumption.
Qed.

(* ------------------------------------------------------------------ *)
(* exception-free mirrors                                              *)
(* ------------------------------------------------------------------ *)

Definition ctl_mult_p (tops : list tag) : bool :=
  let sset := nodup Nat.eq_dec (map t_base tops) in
  if negb (length sset =? length tops) then true
  else if negb (existsb (Nat.eqb B_DELAY) sset) || negb (length sset =? 2) then true
  else negb (is_all_time (hd 0 (remove Nat.eq_dec B_DELAY sset))).

Lemma ctl_mult_tail sset :
  NoDup sset ->
  negb (existsb (Nat.eqb B_DELAY) sset) || negb (length sset =? 2) = false ->
  length (remove Nat.eq_dec B_DELAY sset) = 1.
Proof.
  intros Hn H. apply orb_false_iff in H as [H1 H2].
  apply negb_false_iff in H1, H2. apply Nat.eqb_eq in H2.
  apply existsb_exists in H1 as (x & Hx & Ex). apply Nat.eqb_eq in Ex. subst x.
  pose proof (remove_length _ _ Hn Hx). lia.
Qed.

(* next(iter(short_tags)) never raises *)
Lemma ctl_mult_ok tops : ctl_mult tops = Ok (ctl_mult_p tops).
Proof.
  unfold ctl_mult, ctl_mult_p. set (sset := nodup Nat.eq_dec (map t_base tops)).
  destruct (negb (length sset =? length tops)); [reflexivity|].
  destruct (negb (existsb (Nat.eqb B_DELAY) sset) || negb (length sset =? 2)) eqn:E; [reflexivity|].
  pose proof (ctl_mult_tail sset (NoDup_nodup _ _) E) as Hl.
  destruct (remove Nat.eq_dec B_DELAY sset) as [|o r]; [discriminate|reflexivity].
Qed.

Lemma ctl_mult_p_perm tops tops' : Permutation tops tops' -> ctl_mult_p tops = ctl_mult_p tops'.
Proof.
  intro Hp. unfold ctl_mult_p.
  set (sset := nodup Nat.eq_dec (map t_base tops)). set (sset' := nodup Nat.eq_dec (map t_base tops')).
  assert (Hs : Permutation sset sset') by (apply nodup_perm, Permutation_map, Hp).
  rewrite <- (Permutation_length Hp), <- (Permutation_length Hs), <- (existsb_perm _ _ _ Hs).
  destruct (negb (length sset =? length tops)); [reflexivity|].
  destruct (negb (existsb (Nat.eqb B_DELAY) sset) || negb (length sset =? 2)) eqn:E; [reflexivity|].
  pose proof (ctl_mult_tail sset (NoDup_nodup _ _) E) as Hl.
  pose proof (remove_perm B_DELAY _ _ Hs) as Hr.
  destruct (remove Nat.eq_dec B_DELAY sset) as [|o [|o2 r]]; try discriminate.
  apply Permutation_length_1_inv in Hr. rewrite Hr. reflexivity.
Qed.

Definition top_issue (is_top : bool) (a : tag) : list kind :=
  if is_top then []
  else (if t_base a =? B_DEFINITION then [K_TOP_LEVEL_TAG_DEFINITION]
        else if is_all_time (t_base a) then [K_TOP_LEVEL_TAG_TEMPORAL] else [])
       ++ [K_TOP_LEVEL_TAG].

Definition ctl_p (tags : list tag) (is_top is_group : bool) : list kind :=
  let tops := filter t_tl tags in
  flat_map (fun _ : tag => if is_group then [] else [K_TAG_GROUP_TAG]) (filter t_tg tags) ++
  flat_map (top_issue is_top) tops ++
  (if is_top && (1 <? length tops)
   then (if ctl_mult_p tops then [K_MULTIPLE_TOP_TAGS] else []) else []).

Lemma ctl_ok tags a b : check_tag_level_issue tags a b = Ok (ctl_p tags a b).
Proof.
  unfold check_tag_level_issue, ctl_p, top_issue.
  destruct (a && (1 <? length (filter t_tl tags))); [|reflexivity].
  rewrite ctl_mult_ok. reflexivity.
Qed.

Lemma ctl_p_perm tags tags' a b :
  Permutation tags tags' -> Permutation (ctl_p tags a b) (ctl_p tags' a b).
Proof.
  intro Hp. unfold ctl_p.
  pose proof (perm_filter t_tl _ _ Hp) as Ht.
  rewrite <- (Permutation_length Ht), <- (ctl_mult_p_perm _ _ Ht).
  apply Permutation_app; [apply perm_flat_map, perm_filter, Hp|].
  apply Permutation_app_tail. apply perm_flat_map. exact Ht.
Qed.

Definition level_p (l : list tree) (is_top is_group : bool) : list kind :=
  (if null l && is_group then [K_GROUP_EMPTY] else []) ++ ctl_p (tags_of l) is_top is_group.

Lemma level_ok l a b : level_issues l a b = Ok (level_p l a b).
Proof. unfold level_issues, level_p. rewrite ctl_ok. reflexivity. Qed.

Fixpoint walk_p (is_top : bool) (t : tree) : list kind :=
  match t with
  | T _ => []
  | G l => level_p l is_top true ++ flat_map (walk_p false) l
  end.

Lemma concatM_ok {A B} (f : A -> res (list B)) (g : A -> list B) l :
  Forall (fun x => f x = Ok (g x)) l -> concatM f l = Ok (flat_map g l).
Proof. induction 1 as [|x l Hx _ IH]; simpl; [reflexivity|]. rewrite Hx, IH. reflexivity. Qed.

Lemma walk_ok t : forall b, walk b t = Ok (walk_p b t).
Proof.
  induction t as [a|l IH] using tree_ind2; intro b; [reflexivity|].
  cbn [walk walk_p]. rewrite level_ok. cbn [bind].
  rewrite (concatM_ok (walk false) (walk_p false)); [reflexivity|].
  eapply Forall_impl; [|exact IH]. auto.
Qed.

Definition tag_level_p (top : list tree) : list kind :=
  level_p top false false ++ flat_map (walk_p true) top.

(* the placement rules never raise *)
Lemma tag_level_ok top : tag_level_issues top = Ok (tag_level_p top).
Proof.
  unfold tag_level_issues, tag_level_p. rewrite level_ok. cbn [bind].
  rewrite (concatM_ok (walk true) (walk_p true)); [reflexivity|].
  apply Forall_forall. intros t _. apply walk_ok.
Qed.

(* ------------------------------------------------------------------ *)
(* invariance under sibling permutation                                *)
(* ------------------------------------------------------------------ *)

Definition tag_t (t : tree) : list tag := match t with T a => [a] | G _ => [] end.
Definition grp_t (t : tree) : list (list tree) := match t with T _ => [] | G g => [g] end.
Definition dur_t (t : tree) : list kind := match t with T _ => [] | G g => duration_group g end.

Lemma validate_duration_dur_t top : validate_duration_tags top = flat_map dur_t top.
Proof.
  unfold validate_duration_tags, groups_of. induction top as [|t top IH]; [reflexivity|].
  cbn [flat_map]. rewrite flat_map_app, IH. destruct t; simpl; [reflexivity|].
  rewrite app_nil_r. reflexivity.
Qed.

Lemma duration_group_perm g g' :
  Permutation (tags_of g) (tags_of g') -> Permutation (all_tags g) (all_tags g') ->
  length (groups_of g) = length (groups_of g') ->
  Permutation (duration_group g) (duration_group g').
Proof.
  intros Ht Ha Hg. unfold duration_group, find_duration_anchor.
  pose proof (find_isnone (fun a => is_duration_key (t_basef a)) (tags_of g)) as F1.
  pose proof (find_isnone (fun a => is_duration_key (t_basef a)) (tags_of g')) as F2.
  rewrite <- (existsb_perm _ _ _ Ht) in F2.
  destruct (find _ (tags_of g)); destruct (find _ (tags_of g')); try congruence; [|reflexivity].
  set (tl := map t_base (filter t_tl (all_tags g))).
  set (tl' := map t_base (filter t_tl (all_tags g'))).
  assert (Htl : Permutation tl tl') by (apply Permutation_map, perm_filter, Ha).
  rewrite <- (existsb_perm is_temporal _ _ Htl).
  destruct (existsb is_temporal tl); [reflexivity|].
  rewrite <- (Permutation_length Htl), <- (Permutation_length Ht), <- Hg.
  destruct (negb (length tl =? length (tags_of g))).
  - rewrite (flat_map_ext (fun a => if memb (t_base a) tl' then [] else [K_DURATION_HAS_OTHER_TAGS])
                           (fun a => if memb (t_base a) tl then [] else [K_DURATION_HAS_OTHER_TAGS])).
    + apply perm_flat_map. exact Ht.
    + intro a. unfold memb. rewrite (existsb_perm _ _ _ Htl). reflexivity.
  - reflexivity.
Qed.

Lemma level_p_perm l l' a b :
  Permutation (tags_of l) (tags_of l') -> length l = length l' ->
  Permutation (level_p l a b) (level_p l' a b).
Proof.
  intros Ht Hl. unfold level_p.
  assert (Hn : null l = null l') by (destruct l, l'; simpl in *; try reflexivity; discriminate).
  rewrite Hn. apply Permutation_app_head. apply ctl_p_perm. exact Ht.
Qed.

Definition obsP (t t' : tree) : Prop :=
  Permutation (all_tags_t t) (all_tags_t t') /\
  (forall b, Permutation (walk_p b t) (walk_p b t')) /\
  Permutation (dur_t t) (dur_t t') /\
  tag_t t = tag_t t' /\
  length (grp_t t) = length (grp_t t').

Definition obsQ (l l' : list tree) : Prop :=
  Permutation (all_tags l) (all_tags l') /\
  (forall b, Permutation (flat_map (walk_p b) l) (flat_map (walk_p b) l')) /\
  Permutation (flat_map dur_t l) (flat_map dur_t l') /\
  Permutation (tags_of l) (tags_of l') /\
  length (groups_of l) = length (groups_of l') /\
  length l = length l'.

Lemma obs_perm_mut :
  (forall t t', PermTree t t' -> obsP t t') /\ (forall l l', PermForest l l' -> obsQ l l').
Proof.
  apply PermTF_mind.
  - intro t. unfold obsP. repeat split; reflexivity.
  - intros l l' _ (Q1 & Q2 & Q3 & Q4 & Q5 & Q6). unfold obsP. repeat split.
    + exact Q1.
    + intro b. cbn [walk_p]. apply Permutation_app; [apply level_p_perm; assumption|apply Q2].
    + cbn [dur_t]. apply duration_group_perm; assumption.
  - unfold obsQ. repeat split; constructor.
  - intros t t' l l' _ (P1 & P2 & P3 & P4 & P5) _ (Q1 & Q2 & Q3 & Q4 & Q5 & Q6).
    unfold obsQ, all_tags, tags_of, groups_of in *. cbn [flat_map]. repeat split.
    + apply Permutation_app; assumption.
    + intro b. apply Permutation_app; auto.
    + apply Permutation_app; assumption.
    + fold (tag_t t). fold (tag_t t'). rewrite P4. apply Permutation_app_head. exact Q4.
    + fold (grp_t t). fold (grp_t t'). rewrite !app_length. congruence.
    + simpl. congruence.
  - intros a b l. unfold obsQ, all_tags, tags_of, groups_of. cbn [flat_map].
    repeat split; try (intros; rewrite !app_assoc; apply Permutation_app_tail, Permutation_app_comm).
    rewrite !app_length. lia.
  - intros l1 l2 l3 _ (A1 & A2 & A3 & A4 & A5 & A6) _ (B1 & B2 & B3 & B4 & B5 & B6).
    unfold obsQ. repeat split; try (etransitivity; eauto; fail).
Qed.

Lemma tag_level_perm top top' :
  PermForest top top' -> Permutation (tag_level_p top) (tag_level_p top').
Proof.
  intro Hp. destruct (proj2 obs_perm_mut _ _ Hp) as (Q1 & Q2 & Q3 & Q4 & Q5 & Q6).
  unfold tag_level_p. apply Permutation_app; [apply level_p_perm; assumption|apply Q2].
Qed.

Lemma duration_perm top top' :
  PermForest top top' -> Permutation (validate_duration_tags top) (validate_duration_tags top').
Proof.
  intro Hp. destruct (proj2 obs_perm_mut _ _ Hp) as (Q1 & Q2 & Q3 & Q4 & Q5 & Q6).
  rewrite !validate_duration_dur_t. exact Q3.
Qed.

Lemma unique_perm_tags n tags tags' :
  Permutation tags tags' -> check_multiple_unique n tags = check_multiple_unique n tags'.
Proof.
  intro Hp. unfold check_multiple_unique. apply flat_map_ext. intro p.
  rewrite (Permutation_length (perm_filter _ _ _ Hp)). reflexivity.
Qed.

Lemma required_perm_tags n tags tags' :
  Permutation tags tags' -> check_required n tags = check_required n tags'.
Proof.
  intro Hp. unfold check_required. apply flat_map_ext. intro p.
  rewrite (existsb_perm _ _ _ Hp). reflexivity.
Qed.

Lemma all_tags_issues_perm nr nu top top' :
  PermForest top top' -> all_tags_issues nr nu top = all_tags_issues nr nu top'.
Proof.
  intro Hp. destruct (proj2 obs_perm_mut _ _ Hp) as (Q1 & _).
  unfold all_tags_issues. rewrite (required_perm_tags _ _ _ Q1), (unique_perm_tags _ _ _ Q1). reflexivity.
Qed.

(* all group rules together, the code as it is (mode Fx) *)
Lemma group_checks_perm_fixed nr nu top top' :
  PermForest top top' -> forallb wft top = true ->
  exists l l', group_checks Fx nr nu top = Ok l /\ group_checks Fx nr nu top' = Ok l' /\
               Permutation l l'.
Proof.
  intros Hp Hw.
  destruct (check_dup_perm_fixed _ _ Hp Hw) as (d & D1 & D2).
  unfold group_checks. rewrite !tag_level_ok, D1, D2. cbn [bind].
  eexists; eexists; split; [reflexivity|split; [reflexivity|]].
  rewrite (all_tags_issues_perm nr nu _ _ Hp).
  apply Permutation_app_head. apply Permutation_app; [apply tag_level_perm; exact Hp|].
  apply Permutation_app_head. apply duration_perm. exact Hp.
Qed.

(* the same for every state m of the duplicate check (before or after the fix commits),
   for everything except the duplicate reports *)
Lemma group_checks_perm_except_dups m nr nu top top' :
  PermForest top top' ->
  forall d d', check_for_duplicate_groups m top = Ok d -> check_for_duplicate_groups m top' = Ok d' ->
  exists l l', group_checks m nr nu top = Ok (l ++ d ++ validate_duration_tags top) /\
               group_checks m nr nu top' = Ok (l' ++ d' ++ validate_duration_tags top') /\
               Permutation l l' /\
               Permutation (validate_duration_tags top) (validate_duration_tags top').
Proof.
  intros Hp d d' D1 D2. unfold group_checks. rewrite !tag_level_ok, D1, D2. cbn [bind].
  exists (all_tags_issues nr nu top ++ tag_level_p top), (all_tags_issues nr nu top' ++ tag_level_p top').
  rewrite <- !app_assoc. repeat split.
  - rewrite (all_tags_issues_perm nr nu _ _ Hp). apply Permutation_app_head. apply tag_level_perm. exact Hp.
  - apply duration_perm. exact Hp.
Qed.

(* ------------------------------------------------------------------ *)
(* invariance under respelling: no rule looks at the spelling fields   *)
(* ------------------------------------------------------------------ *)

Lemma tags_of_strip l : tags_of (map strip l) = map strip_tag (tags_of l).
Proof.
  unfold tags_of. induction l as [|t l IH]; [reflexivity|]. cbn [map flat_map].
  rewrite IH. destruct t; reflexivity.
Qed.

Lemma all_tags_t_strip t : all_tags_t (strip t) = map strip_tag (all_tags_t t).
Proof.
  induction t as [a|l IH] using tree_ind2; [reflexivity|]. cbn [strip all_tags_t].
  induction IH as [|x l Hx _ IHl]; [reflexivity|]. cbn [map flat_map]. rewrite Hx, IHl, map_app. reflexivity.
Qed.

Lemma all_tags_strip l : all_tags (map strip l) = map strip_tag (all_tags l).
Proof.
  unfold all_tags. induction l as [|t l IH]; [reflexivity|]. cbn [map flat_map].
  rewrite IH, all_tags_t_strip, map_app. reflexivity.
Qed.

Lemma groups_of_strip l : groups_of (map strip l) = map (map strip) (groups_of l).
Proof.
  unfold groups_of. induction l as [|t l IH]; [reflexivity|]. cbn [map flat_map].
  rewrite IH. destruct t; reflexivity.
Qed.

Lemma filter_strip (f : tag -> bool) tags :
  (forall x, f (strip_tag x) = f x) ->
  filter f (map strip_tag tags) = map strip_tag (filter f tags).
Proof.
  intro Hf. induction tags as [|x tags IH]; [reflexivity|]. cbn [map filter]. rewrite Hf.
  destruct (f x); cbn [map]; rewrite IH; reflexivity.
Qed.

Lemma ctl_p_strip tags a b : ctl_p (map strip_tag tags) a b = ctl_p tags a b.
Proof.
  unfold ctl_p. rewrite !filter_strip by reflexivity.
  rewrite !flat_map_map, map_length.
  assert (Hm : ctl_mult_p (map strip_tag (filter t_tl tags)) = ctl_mult_p (filter t_tl tags)).
  { unfold ctl_mult_p. rewrite map_map, map_length. reflexivity. }
  rewrite Hm. reflexivity.
Qed.

Lemma level_p_strip l a b : level_p (map strip l) a b = level_p l a b.
Proof.
  unfold level_p. rewrite tags_of_strip, ctl_p_strip. destruct l; reflexivity.
Qed.

Lemma walk_p_strip t : forall b, walk_p b (strip t) = walk_p b t.
Proof.
  induction t as [a|l IH] using tree_ind2; intro b; [reflexivity|].
  cbn [strip walk_p]. rewrite level_p_strip. f_equal. rewrite flat_map_map.
  induction IH as [|x l Hx _ IHl]; [reflexivity|]. cbn [flat_map]. rewrite Hx, IHl. reflexivity.
Qed.

Lemma tag_level_strip top : tag_level_p (map strip top) = tag_level_p top.
Proof.
  unfold tag_level_p. rewrite level_p_strip, flat_map_map. f_equal.
  apply flat_map_ext. intro t. apply walk_p_strip.
Qed.

Lemma duration_group_strip g : duration_group (map strip g) = duration_group g.
Proof.
  unfold duration_group, find_duration_anchor.
  rewrite tags_of_strip, all_tags_strip, groups_of_strip.
  pose proof (find_isnone (fun a => is_duration_key (t_basef a)) (map strip_tag (tags_of g))) as F1.
  pose proof (find_isnone (fun a => is_duration_key (t_basef a)) (tags_of g)) as F2.
  rewrite existsb_map in F1. cbn [strip_tag t_basef] in F1. rewrite <- F2 in F1.
  rewrite filter_map_comm. cbn [strip_tag t_tl]. rewrite !map_map. cbn [strip_tag t_base].
  rewrite !map_length, flat_map_map. cbn [strip_tag t_base].
  destruct (find _ (map strip_tag (tags_of g))); destruct (find _ (tags_of g)); try discriminate; reflexivity.
Qed.

Lemma duration_strip top : validate_duration_tags (map strip top) = validate_duration_tags top.
Proof.
  unfold validate_duration_tags. rewrite groups_of_strip, flat_map_map.
  apply flat_map_ext. intro g. apply duration_group_strip.
Qed.

Lemma all_tags_issues_strip nr nu top :
  all_tags_issues nr nu (map strip top) = all_tags_issues nr nu top.
Proof.
  unfold all_tags_issues, check_required, check_multiple_unique. rewrite all_tags_strip.
  f_equal; apply flat_map_ext; intro p.
  - rewrite existsb_map. reflexivity.
  - rewrite filter_map_comm, map_length. reflexivity.
Qed.

Lemma noempty_t_strip t : noempty_t (strip t) = noempty_t t.
Proof.
  induction t as [a|l IH] using tree_ind2; [reflexivity|]. cbn [strip noempty_t].
  f_equal; [destruct l; reflexivity|].
  induction IH as [|x l Hx _ IHl]; [reflexivity|]. cbn [map forallb]. rewrite Hx, IHl. reflexivity.
Qed.

(* THEOREM: every group rule (the code as it is) gives the same issue
   list on two respellings of an annotation *)
Lemma group_checks_respell_fixed nr nu top top' :
  Respell top top' -> forallb wft top = true ->
  exists l, group_checks Fx nr nu top = Ok l /\ group_checks Fx nr nu top' = Ok l.
Proof.
  intros Hr Hw.
  unfold group_checks. rewrite !tag_level_ok, !(check_dup_total Fx) by reflexivity. cbn [bind].
  eexists; split; [reflexivity|].
  rewrite <- (all_tags_issues_strip nr nu top), <- (all_tags_issues_strip nr nu top').
  rewrite <- (tag_level_strip top), <- (tag_level_strip top').
  rewrite <- (duration_strip top), <- (duration_strip top').
  fold (dup_issues_p Fx top). fold (dup_issues_p Fx top').
  rewrite (dup_respell_fixed _ _ Hr Hw). unfold Respell in Hr. rewrite Hr. reflexivity.
Qed.

(* ------------------------------------------------------------------ *)
(* statements in the form used by Props/C04.v                          *)
(* ------------------------------------------------------------------ *)

Lemma placement_never_raises top : exists l, tag_level_issues top = Ok l.
Proof. eexists. apply tag_level_ok. Qed.

Lemma placement_perm top top' :
  PermForest top top' ->
  exists l l', tag_level_issues top = Ok l /\ tag_level_issues top' = Ok l' /\ Permutation l l'.
Proof.
  intro Hp. exists (tag_level_p top), (tag_level_p top').
  rewrite !tag_level_ok. repeat split. apply tag_level_perm. exact Hp.
Qed.

Lemma placement_respell top top' :
  Respell top top' -> tag_level_issues top = tag_level_issues top'.
Proof.
  intro Hr. rewrite !tag_level_ok. rewrite <- (tag_level_strip top), <- (tag_level_strip top').
  unfold Respell in Hr. rewrite Hr. reflexivity.
Qed.

Lemma other_rules_respell nr nu top top' :
  Respell top top' ->
  all_tags_issues nr nu top = all_tags_issues nr nu top' /\
  validate_duration_tags top = validate_duration_tags top'.
Proof.
  intro Hr. unfold Respell in Hr. split.
  - rewrite <- (all_tags_issues_strip nr nu top), <- (all_tags_issues_strip nr nu top'), Hr. reflexivity.
  - rewrite <- (duration_strip top), <- (duration_strip top'), Hr. reflexivity.
Qed.

Definition dup_issue_count (m : mode) (top : list tree) : option nat :=
  match check_for_duplicate_groups m top with Ok l => Some (length l) | Exn _ => None end.

Lemma dup_count_perm_fixed top top' :
  PermForest top top' -> forallb wft top = true ->
  exists n, dup_issue_count Fx top = Some n /\ dup_issue_count Fx top' = Some n.
Proof.
  intros Hp Hw. destruct (check_dup_perm_fixed _ _ Hp Hw) as (d & D1 & D2).
  exists (length d). unfold dup_issue_count. rewrite D1, D2. auto.
Qed.

Lemma check_dup_respell_fixed top top' :
  Respell top top' -> forallb wft top = true ->
  exists iss, check_for_duplicate_groups Fx top = Ok iss /\ check_for_duplicate_groups Fx top' = Ok iss.
Proof.
  intros Hr Hw.
  exists (dup_issues_p Fx top). rewrite !(check_dup_total Fx) by reflexivity.
  fold (dup_issues_p Fx top). fold (dup_issues_p Fx top').
  rewrite (dup_respell_fixed _ _ Hr Hw). split; reflexivity.
Qed.

(* two members of the top level or of a group at ANY depth that are equal up to recursive
   reordering or spelling are reported, as repeated tag / repeated group according to what they are *)
Lemma check_dup_complete_fixed top g l1 a l2 b l3 :
  forallb wft top = true -> In g (all_levels top) -> g = l1 ++ a :: l2 ++ b :: l3 ->
  (PermTree a b \/ strip a = strip b) ->
  exists iss, check_for_duplicate_groups Fx top = Ok iss /\ In (kind_of_tree a) iss.
Proof.
  intros Hw Hg Eg Hab.
  assert (Hwg : forallb wft g = true) by (eapply wft_levels; eauto).
  assert (Hwa : wft a = true /\ wft b = true).
  { rewrite Eg in Hwg. rewrite forallb_app in Hwg. apply andb_true_iff in Hwg as [_ Hwg].
    cbn [forallb] in Hwg. apply andb_true_iff in Hwg as [Hwa Hwg]. split; [exact Hwa|].
    rewrite forallb_app in Hwg. apply andb_true_iff in Hwg as [_ Hwg].
    cbn [forallb] in Hwg. apply andb_true_iff in Hwg as [Hwb _]. exact Hwb. }
  destruct Hwa as [Hwa Hwb].
  assert (Hc : csv a = csv b).
  { destruct Hab as [Hp|Hs].
    - apply csv_perm; assumption.
    - rewrite <- (csv_strip a Hwa), <- (csv_strip b Hwb), Hs. reflexivity. }
  exists (dup_issues_p Fx top). split; [apply check_dup_total; reflexivity|].
  eapply dup_complete_anywhere; eauto.
Qed.

(* the code as it is (since fix commit 3e47c8c): the group rules never raise *)
Lemma check_dup_never_raises top : exists iss, check_for_duplicate_groups Fx top = Ok iss.
Proof. eexists. apply check_dup_total. reflexivity. Qed.

Lemma group_checks_never_raise nr nu top : exists iss, group_checks Fx nr nu top = Ok iss.
Proof.
  unfold group_checks. rewrite tag_level_ok, (check_dup_total Fx) by reflexivity. cbn [bind]. eexists. reflexivity.
Qed.

(* the empty-group rule: every empty group "()" anywhere in the annotation is reported
   (HED_GROUP_EMPTY, published as TAG_EMPTY) *)
Fixpoint has_empty_group (t : tree) : bool :=
  match t with T _ => false | G l => null l || existsb has_empty_group l end.

Lemma walk_p_empty t : has_empty_group t = true -> forall b, In K_GROUP_EMPTY (walk_p b t).
Proof.
  induction t as [a|l IH] using tree_ind2; intros H b; [discriminate|].
  cbn [has_empty_group] in H. cbn [walk_p]. apply orb_true_iff in H as [H|H].
  - destruct l; [|discriminate]. left. reflexivity.
  - apply in_or_app. right. apply existsb_exists in H as (c & Hc & Hce).
    rewrite in_flat_map. exists c. split; [exact Hc|]. rewrite Forall_forall in IH. apply IH; assumption.
Qed.

Lemma empty_group_reported top :
  existsb has_empty_group top = true ->
  exists iss, tag_level_issues top = Ok iss /\ In K_GROUP_EMPTY iss.
Proof.
  intro H. exists (tag_level_p top). split; [apply tag_level_ok|].
  unfold tag_level_p. apply in_or_app. right. apply existsb_exists in H as (c & Hc & Hce).
  rewrite in_flat_map. exists c. split; [exact Hc|]. apply walk_p_empty. exact Hce.
Qed.

(* ... and nothing else is: without an empty group the rule is silent *)
Lemma ctl_p_no_empty tags a b : ~ In K_GROUP_EMPTY (ctl_p tags a b).
Proof.
  unfold ctl_p. intro H. apply in_app_or in H as [H|H].
  - rewrite in_flat_map in H. destruct H as (x & _ & H). destruct b; [destruct H|destruct H as [E|[]]; discriminate].
  - apply in_app_or in H as [H|H].
    + rewrite in_flat_map in H. destruct H as (x & _ & H). unfold top_issue in H.
      destruct a; [destruct H|]. apply in_app_or in H as [H|H].
      * destruct (t_base x =? B_DEFINITION); [destruct H as [E|[]]; discriminate|].
        destruct (is_all_time (t_base x)); [destruct H as [E|[]]; discriminate|destruct H].
      * destruct H as [E|[]]; discriminate.
    + destruct (a && (1 <? length (filter t_tl tags))); [|destruct H].
      destruct (ctl_mult_p (filter t_tl tags)); [destruct H as [E|[]]; discriminate|destruct H].
Qed.

Lemma walk_p_no_empty t : has_empty_group t = false -> forall b, ~ In K_GROUP_EMPTY (walk_p b t).
Proof.
  induction t as [a|l IH] using tree_ind2; intros H b Hin; [destruct Hin|].
  cbn [has_empty_group] in H. apply orb_false_iff in H as [Hn He]. cbn [walk_p] in Hin.
  apply in_app_or in Hin as [Hin|Hin].
  - unfold level_p in Hin. rewrite Hn in Hin. cbn [andb app] in Hin. exact (ctl_p_no_empty _ _ _ Hin).
  - rewrite in_flat_map in Hin. destruct Hin as (c & Hc & Hin). rewrite Forall_forall in IH.
    apply (IH c Hc) with (b := false); [|exact Hin].
    destruct (has_empty_group c) eqn:E; [|reflexivity].
    assert (existsb has_empty_group l = true) by (apply existsb_exists; exists c; auto). congruence.
Qed.

Lemma empty_group_only top :
  existsb has_empty_group top = false ->
  exists iss, tag_level_issues top = Ok iss /\ ~ In K_GROUP_EMPTY iss.
Proof.
  intro H. exists (tag_level_p top). split; [apply tag_level_ok|].
  unfold tag_level_p. intro Hin. apply in_app_or in Hin as [Hin|Hin].
  - unfold level_p in Hin. rewrite andb_false_r in Hin. cbn [app] in Hin. exact (ctl_p_no_empty _ _ _ Hin).
  - rewrite in_flat_map in Hin. destruct Hin as (c & Hc & Hin).
    apply (walk_p_no_empty c) with (b := true); [|exact Hin].
    destruct (has_empty_group c) eqn:E; [|reflexivity].
    assert (existsb has_empty_group top = true) by (apply existsb_exists; exists c; auto). congruence.
Qed.

Lemma sort_k_is_stable_sort {A} (l : list (str * A)) :
  Permutation (sort_k l) l /\
  Sorted.StronglySorted (fun p q => str_leb (fst p) (fst q) = true) (sort_k l) /\
  forall k, filter (fun p => str_eqb (fst p) k) (sort_k l) = filter (fun p => str_eqb (fst p) k) l.
Proof.
  split; [apply sort_k_perm|]. split; [apply sort_k_sorted|]. intro k. apply sort_k_stable.
Qed.

(* the text key of the canonical sort (HedGroup._sort_key) determines the sorted form up to spelling *)
Lemma vkey_injective v w :
  wfc (canon v) = true -> wfc (canon w) = true -> vkey Fx v = vkey Fx w -> veq Fx v w = true.
Proof.
  intros Hv Hw He. rewrite !vkey_canon in He. rewrite veq_ceq, (ckey_inj _ _ Hv Hw He). apply ceq_refl.
Qed.
