(* C14 -- an out-of-range hedId on a NESTED library tag of the bundled score_2.0.0 (finding C14-F2, repaired by
   fix commit 5844fee) *)
From Coq Require Import List NArith ZArith String.
From HV Require Import Base.Res Base.Str Base.C14Base Gen.ComplianceTables Model.Compliance
     Proofs.ComplianceProofs Proofs.C14ExCommon Gen.C14_Env.
From HV Require Gen.Schema_score_2_0_0_c14 Gen.Schema_score_1_1_0_c14 Gen.Schema_8_2_0_c14.
Import ListNotations.
Local Open Scope string_scope.

Definition env_score200 : env :=
  bundled_env [(s2str "score_1.1.0", Schema_score_1_1_0_c14.schema); (s2str "8.2.0", Schema_8_2_0_c14.schema)].

Definition n_rpp : str := s2str "Feature-property/Signal-morphology-property/RPP-morphology".
Definition seeded_hed_id_score_200 : rschema :=
  add_tag_attr Schema_score_2_0_0_c14.schema n_rpp (HedKey_HedID, VStr (s2str "HED_9999999")).

(* the record of the repaired defect: the inherited inLibrary value "score,score" named no library,
   no id range was found and nothing at all was reported ... *)
Lemma ex_hed_id_out_of_range_unreported :
  has_tag Schema_score_2_0_0_c14.schema n_rpp = true
  /\ check_compliance fixed_none env_score200 true seeded_hed_id_score_200 = Ok [].
Proof.
  split; [vm_cast_no_check (@eq_refl bool true)|].
  vm_cast_no_check (@eq_refl (res (list issue)) (Ok [])).
Qed.

(* ... with the repair the tag's own inLibrary value is used and the hedId is reported *)
Lemma ex_hed_id_out_of_range_reported :
  res_codes (check_compliance fixed_all env_score200 true seeded_hed_id_score_200)
  = Ok [kind_code K_SCHEMA_HED_ID_INVALID].
Proof. vm_cast_no_check (@eq_refl (res (list str)) (Ok [kind_code K_SCHEMA_HED_ID_INVALID])). Qed.

(* the nested library tag THROUGH C14_seeded_hed_id_range: all its premises hold of the loaded seeded schema *)
Lemma ex_hed_id_through_theorem :
  exists L issues, load env_score200 seeded_hed_id_score_200 = Ok L
                   /\ check_loaded fixed_all env_score200 true L = Ok issues
                   /\ In (kind_code K_SCHEMA_HED_ID_INVALID) (codes issues).
Proof.
  apply (hed_id_through_theorem env_score200 seeded_hed_id_score_200 SecTags n_rpp).
  vm_cast_no_check (@eq_refl bool true).
Qed.
