(* Proofs about Model/QueryParse.v (property C15), current code (fx = true, fix commit 1bd4096):
   a query text whose grouping symbols are unbalanced is rejected. *)
From Coq Require Import List NArith Arith Bool Lia.
From HV Require Import Base.Res Base.Str Model.Query Model.QueryParse Proofs.QueryParseProofs.
Import ListNotations.

Definition is_grouper (c : N) : bool :=
  (N.eqb c ch_open || N.eqb c ch_close || N.eqb c ch_lbrack || N.eqb c ch_rbrack
   || N.eqb c ch_lbrace || N.eqb c ch_rbrace).

Definition gr (s : str) : str := filter is_grouper s.

Lemma is_grouper_cases c : is_grouper c = true ->
  c = ch_open \/ c = ch_close \/ c = ch_lbrack \/ c = ch_rbrack \/ c = ch_lbrace \/ c = ch_rbrace.
Proof.
  unfold is_grouper. rewrite !orb_true_iff, !N.eqb_eq. tauto.
Qed.

Lemma balanced_go_skip st c s : is_grouper c = false -> balanced_go st (c :: s) = balanced_go st s.
Proof.
  unfold is_grouper. rewrite !orb_false_iff. intros (((((H1 & H2) & H3) & H4) & H5) & H6).
  simpl. rewrite H1, H2, H3, H4, H5, H6. reflexivity.
Qed.

(* the stack machine only looks at grouping characters *)
Lemma balanced_go_gr : forall s st, balanced_go st s = balanced_go st (gr s).
Proof.
  induction s as [|c s IH]; intro st; [reflexivity|].
  unfold gr. cbn [filter]. destruct (is_grouper c) eqn:Hg.
  - fold (gr s). apply is_grouper_cases in Hg.
    destruct Hg as [H | [H | [H | [H | [H | H]]]]]; subst c; cbn; rewrite ?IH; try reflexivity;
      destruct st as [|x st]; try reflexivity;
      match goal with |- context [N.eqb x ?k] => destruct (N.eqb x k); [apply IH | reflexivity] end.
  - fold (gr s). rewrite balanced_go_skip by exact Hg. apply IH.
Qed.

Lemma gr_app a b : gr (a ++ b) = gr a ++ gr b.
Proof. unfold gr. apply filter_app. Qed.

(* [w] leaves the stack machine where it was *)
Definition neutral (w : str) : Prop := forall st s, balanced_go st (w ++ s) = balanced_go st s.

Lemma neutral_nil : neutral [].
Proof. intros st s. reflexivity. Qed.

Lemma neutral_plain w : gr w = [] -> neutral w.
Proof.
  intros H st s. rewrite balanced_go_gr, gr_app, H. simpl. symmetry. apply balanced_go_gr.
Qed.

Lemma neutral_app a b : neutral a -> neutral b -> neutral (a ++ b).
Proof. intros Ha Hb st s. rewrite <- app_assoc, Ha, Hb. reflexivity. Qed.

Lemma neutral_wrap o c w :
  (o = ch_open /\ c = ch_close) \/ (o = ch_lbrack /\ c = ch_rbrack) \/ (o = ch_lbrace /\ c = ch_rbrace) ->
  neutral w -> neutral ([o] ++ w ++ [c]).
Proof.
  intros Hoc Hw st s.
  destruct Hoc as [[-> ->] | [[-> ->] | [-> ->]]];
    cbn [app]; cbn [balanced_go]; cbn; rewrite <- app_assoc, Hw; cbn; reflexivity.
Qed.

(* ---------------------------------------------------------------- token texts *)

Definition specials : list str :=
  [ [ch_comma]; [ch_amp; ch_amp]; [ch_bar; ch_bar]; [ch_lbrack]; [ch_rbrack]; [ch_open]; [ch_close];
    [ch_tilde]; [ch_qmark]; [ch_qmark; ch_qmark]; [ch_qmark; ch_qmark; ch_qmark];
    [ch_lbrace]; [ch_rbrace]; [ch_colon]; [ch_at] ].

Lemma kind_of_cases t : kind_of t = KTag \/ In t specials.
Proof.
  unfold kind_of.
  repeat match goal with
         | |- (if str_eqb t ?x then _ else _) = _ \/ _ =>
             destruct (str_eqb t x) eqn:?H;
             [ right; match goal with H : str_eqb t x = true |- _ => apply str_eqb_spec in H; subst t end;
               simpl; tauto | ]
         end.
  left; reflexivity.
Qed.

(* a token as the tokenizer makes it: kind from the text; the text is free of
   grouping characters, or is a single grouping character, or "[[" / "]]" *)
Definition wf_tok (t : token) : Prop :=
  tk_kind t = kind_of (tk_text t) /\
  (gr (tk_text t) = [] \/
   In (tk_text t) [ [ch_open]; [ch_close]; [ch_lbrack]; [ch_rbrack]; [ch_lbrace]; [ch_rbrace];
                    [ch_lbrack; ch_lbrack]; [ch_rbrack; ch_rbrack] ]).

Ltac kind_text H :=
  match type of H with
  | kind_of ?t = _ =>
      let Hc := fresh "Hc" in
      destruct (kind_of_cases t) as [Hc | Hc];
      [ rewrite Hc in H; discriminate
      | simpl in Hc;
        repeat (destruct Hc as [Hc | Hc]; [subst t; try (vm_compute in H; discriminate) | ]);
        try destruct Hc ]
  end.

Lemma text_of_kind t k : wf_tok t -> tk_kind t = k -> k <> KTag -> k <> KNotInLine ->
  match k with
  | KLG => tk_text t = [ch_open] | KLGEnd => tk_text t = [ch_close]
  | KDesc => tk_text t = [ch_lbrack] | KDescEnd => tk_text t = [ch_rbrack]
  | KExact => tk_text t = [ch_lbrace] | KExactEnd => tk_text t = [ch_rbrace]
  | _ => gr (tk_text t) = []
  end.
Proof.
  intros [Hk _] Hkind Hn1 Hn2. rewrite Hk in Hkind. clear Hk.
  destruct t as [kd tx]. simpl in *. clear kd.
  destruct k; try congruence; kind_text Hkind; reflexivity.
Qed.

Lemma operand_plain t : wf_tok t -> is_operand t = true -> gr (tk_text t) = [].
Proof.
  intros [Hk Hs] Ho. unfold is_operand in Ho. rewrite Hk in Ho.
  destruct Hs as [Hs | Hs]; [exact Hs|].
  destruct t as [kd tx]. simpl in *.
  repeat (destruct Hs as [Hs | Hs]; [subst tx; vm_compute in Ho; discriminate | ]). destruct Hs.
Qed.

(* ---------------------------------------------------------------- the parser consumes balanced text *)

Definition toks_str (ts : list token) : str := concat (map tk_text ts).

Lemma toks_str_app a b : toks_str (a ++ b) = toks_str a ++ toks_str b.
Proof. unfold toks_str. rewrite map_app, concat_app. reflexivity. Qed.

Definition cons_ok (ts : list token) (x : res (expr * list token)) : Prop :=
  match x with
  | Ok (e, r) => exists pre, ts = pre ++ r /\ neutral (toks_str pre)
  | Exn _ => True
  end.

Definition rec_ok (p : parser) : Prop := forall ts, Forall wf_tok ts -> cons_ok ts (p ts).

Lemma next_is_inv k ts t r : next_is k ts = Some (t, r) -> ts = t :: r /\ tk_kind t = k.
Proof.
  destruct ts as [|t0 r0]; simpl; [discriminate|].
  destruct (kind_eqb (tk_kind t0) k) eqn:Hk; [|discriminate].
  intro H; inversion H; subst. split; [reflexivity|].
  destruct (tk_kind t), k; simpl in Hk; try discriminate; reflexivity.
Qed.

Lemma wf_suffix pre r : Forall wf_tok (pre ++ r) -> Forall wf_tok r.
Proof. intro H. apply Forall_app in H. apply H. Qed.

Lemma wrap_tok t1 pre t2 o c :
  tk_text t1 = [o] -> tk_text t2 = [c] ->
  (o = ch_open /\ c = ch_close) \/ (o = ch_lbrack /\ c = ch_rbrack) \/ (o = ch_lbrace /\ c = ch_rbrace) ->
  neutral (toks_str pre) -> neutral (toks_str (t1 :: pre ++ [t2])).
Proof.
  intros H1 H2 Hoc Hn. unfold toks_str. simpl. rewrite map_app, concat_app. simpl.
  rewrite H1, H2, app_nil_r. apply (neutral_wrap o c); assumption.
Qed.

Lemma plain_tok t : gr (tk_text t) = [] -> neutral (toks_str [t]).
Proof. intro H. unfold toks_str. simpl. rewrite app_nil_r. apply neutral_plain. exact H. Qed.

Lemma p_grouping_cons rec ts :
  rec_ok rec -> Forall wf_tok ts -> cons_ok ts (p_grouping true rec ts).
Proof.
  intros Hrec Hwf. destruct ts as [|t r]; [exact I|].
  inversion Hwf as [|? ? Ht Hr]; subst.
  unfold p_grouping.
  destruct (tk_kind t) eqn:Hk;
    try (cbn [andb]; destruct (is_operand t) eqn:Hop; cbn [negb];
         [ exists [t]; split; [reflexivity | apply plain_tok; apply operand_plain; assumption]
         | exact I ]).
  - (* KDesc *)
    specialize (Hrec r Hr). destruct (rec r) as [[e r1]|]; [|exact I]. simpl in Hrec |- *.
    destruct Hrec as (pre & Hpre & Hn).
    destruct (next_is KDescEnd r1) as [[t1 r2]|] eqn:Hn1; [|exact I].
    apply next_is_inv in Hn1. destruct Hn1 as [-> Hk1].
    assert (Hw1 : wf_tok t1).
    { subst r. apply wf_suffix in Hr. inversion Hr; assumption. }
    exists (t :: pre ++ [t1]). split; [subst r; simpl; rewrite <- app_assoc; reflexivity|].
    apply (wrap_tok t pre t1 ch_lbrack ch_rbrack); [| | tauto | exact Hn].
    + apply (text_of_kind t KDesc Ht Hk); discriminate.
    + apply (text_of_kind t1 KDescEnd Hw1 Hk1); discriminate.
  - (* KLG *)
    specialize (Hrec r Hr). destruct (rec r) as [[e r1]|]; [|exact I]. simpl in Hrec |- *.
    destruct Hrec as (pre & Hpre & Hn).
    destruct (next_is KLGEnd r1) as [[t1 r2]|] eqn:Hn1; [|exact I].
    apply next_is_inv in Hn1. destruct Hn1 as [-> Hk1].
    assert (Hw1 : wf_tok t1).
    { subst r. apply wf_suffix in Hr. inversion Hr; assumption. }
    exists (t :: pre ++ [t1]). split; [subst r; simpl; rewrite <- app_assoc; reflexivity|].
    apply (wrap_tok t pre t1 ch_open ch_close); [| | tauto | exact Hn].
    + apply (text_of_kind t KLG Ht Hk); discriminate.
    + apply (text_of_kind t1 KLGEnd Hw1 Hk1); discriminate.
  - (* KWild *)
    exists [t]. split; [reflexivity|]. apply plain_tok. apply (text_of_kind t KWild Ht Hk); discriminate.
  - (* KExact *)
    assert (Hto : tk_text t = [ch_lbrace]) by (apply (text_of_kind t KExact Ht Hk); discriminate).
    pose proof (Hrec r Hr) as Hrr. destruct (rec r) as [[e r1]|]; [|exact I]. simpl in Hrr |- *.
    destruct Hrr as (pre & Hpre & Hn).
    assert (Hwr1 : Forall wf_tok r1) by (subst r; apply wf_suffix in Hr; exact Hr).
    destruct (next_is KExactEnd r1) as [[t1 r2]|] eqn:Hn1.
    { apply next_is_inv in Hn1. destruct Hn1 as [-> Hk1].
      assert (Hw1 : wf_tok t1) by (inversion Hwr1; assumption).
      exists (t :: pre ++ [t1]). split; [subst r; simpl; rewrite <- app_assoc; reflexivity|].
      apply (wrap_tok t pre t1 ch_lbrace ch_rbrace); [exact Hto | | tauto | exact Hn].
      apply (text_of_kind t1 KExactEnd Hw1 Hk1); discriminate. }
    destruct (next_is KExactOpt r1) as [[tc r2]|] eqn:Hn2; [|exact I].
    apply next_is_inv in Hn2. destruct Hn2 as [-> Hkc].
    inversion Hwr1 as [|? ? Hwc Hwr2]; subst.
    assert (Hnc : neutral (toks_str [tc])).
    { apply plain_tok. apply (text_of_kind tc KExactOpt Hwc Hkc); discriminate. }
    destruct (next_is KExactEnd r2) as [[t2 r3]|] eqn:Hn3.
    { apply next_is_inv in Hn3. destruct Hn3 as [-> Hk2].
      assert (Hw2 : wf_tok t2) by (inversion Hwr2; assumption).
      match goal with |- cons_ok _ (if ?c then _ else _) => destruct c end; [exact I|].
      exists (t :: (pre ++ [tc]) ++ [t2]). split; [simpl; rewrite <- !app_assoc; reflexivity|].
      apply (wrap_tok t (pre ++ [tc]) t2 ch_lbrace ch_rbrace); [exact Hto | | tauto |].
      - apply (text_of_kind t2 KExactEnd Hw2 Hk2); discriminate.
      - rewrite toks_str_app. apply neutral_app; assumption. }
    pose proof (Hrec r2 Hwr2) as Hr2. destruct (rec r2) as [[o r3]|]; [|exact I]. simpl in Hr2 |- *.
    destruct Hr2 as (pre2 & Hpre2 & Hn2').
    match goal with |- cons_ok _ (if ?c then _ else _) => destruct c end; [exact I|].
    destruct (next_is KExactEnd r3) as [[t4 r4]|] eqn:Hn4; [|exact I].
    apply next_is_inv in Hn4. destruct Hn4 as [-> Hk4].
    assert (Hw4 : wf_tok t4).
    { subst r2. apply wf_suffix in Hwr2. inversion Hwr2; assumption. }
    exists (t :: (pre ++ [tc] ++ pre2) ++ [t4]). split; [subst r2; simpl; rewrite <- !app_assoc; reflexivity|].
    apply (wrap_tok t (pre ++ [tc] ++ pre2) t4 ch_lbrace ch_rbrace); [exact Hto | | tauto |].
    + apply (text_of_kind t4 KExactEnd Hw4 Hk4); discriminate.
    + rewrite !toks_str_app. apply neutral_app; [exact Hn|]. apply neutral_app; assumption.
Qed.

Lemma p_neg_cons rec ts :
  rec_ok rec -> Forall wf_tok ts -> cons_ok ts (p_neg true rec ts).
Proof.
  intros Hrec Hwf. unfold p_neg.
  destruct (next_is KNeg ts) as [[t r]|] eqn:Hn; [|apply p_grouping_cons; assumption].
  apply next_is_inv in Hn. destruct Hn as [-> Hk]. inversion Hwf as [|? ? Ht Hr]; subst.
  pose proof (p_grouping_cons rec r Hrec Hr) as Hg.
  destruct (p_grouping true rec r) as [[e r1]|]; [|exact I]. simpl in Hg |- *.
  destruct (expr_has_ch ch_qmark e); [exact I|].
  destruct Hg as (pre & Hpre & Hn). exists (t :: pre). split; [subst r; reflexivity|].
  change (t :: pre) with ([t] ++ pre). rewrite toks_str_app. apply neutral_app; [|exact Hn].
  apply plain_tok. apply (text_of_kind t KNeg Ht Hk); discriminate.
Qed.

Lemma p_loop_cons (p : parser) k mk :
  (k = KAnd \/ k = KOr) -> rec_ok p ->
  forall n e ts, Forall wf_tok ts -> cons_ok ts (p_loop p k mk n e ts).
Proof.
  intros Hk Hp. induction n as [|n IH]; intros e ts Hwf; simpl.
  - destruct (next_is k ts) as [[t r]|]; [exact I|]. exists []. split; [reflexivity | apply neutral_nil].
  - destruct (next_is k ts) as [[t r]|] eqn:Hn.
    + apply next_is_inv in Hn. destruct Hn as [Hts Hkt]. subst ts.
      assert (Ht : wf_tok t) by (inversion Hwf; assumption).
      assert (Hr : Forall wf_tok r) by (inversion Hwf; assumption).
      pose proof (Hp r Hr) as Hpr. destruct (p r) as [[e2 r2]|]; [|exact I]. simpl in Hpr |- *.
      destruct Hpr as (pre & Hpre & Hnp).
      assert (Hwr2 : Forall wf_tok r2) by (subst r; apply wf_suffix in Hr; exact Hr).
      pose proof (IH (mk (tk_text t) e e2) r2 Hwr2) as Hl.
      destruct (p_loop p k mk n (mk (tk_text t) e e2) r2) as [[e' r']|]; [|exact I].
      simpl in Hl |- *. destruct Hl as (pre2 & Hpre2 & Hn2).
      exists (t :: pre ++ pre2). split; [subst r r2; simpl; rewrite <- app_assoc; reflexivity|].
      change (t :: pre ++ pre2) with ([t] ++ pre ++ pre2). rewrite !toks_str_app.
      apply neutral_app; [|apply neutral_app; assumption].
      apply plain_tok. destruct Hk as [Hk | Hk]; rewrite Hk in Hkt;
        [apply (text_of_kind t KAnd Ht Hkt) | apply (text_of_kind t KOr Ht Hkt)]; discriminate.
    + exists []. split; [reflexivity | apply neutral_nil].
Qed.

Lemma seq_cons ts (x : res (expr * list token)) (k : expr -> list token -> res (expr * list token)) :
  Forall wf_tok ts -> cons_ok ts x ->
  (forall e r, Forall wf_tok r -> cons_ok r (k e r)) ->
  cons_ok ts (let* (e, r) := x in k e r).
Proof.
  intros Hwf Hx Hk. destruct x as [[e r]|]; [|exact I]. simpl in *.
  destruct Hx as (pre & Hpre & Hn).
  assert (Hwr : Forall wf_tok r) by (subst ts; apply wf_suffix in Hwf; exact Hwf).
  specialize (Hk e r Hwr). destruct (k e r) as [[e' r']|]; [|exact I]. simpl in *.
  destruct Hk as (pre2 & Hpre2 & Hn2). exists (pre ++ pre2).
  split; [subst ts r; rewrite app_assoc; reflexivity|].
  rewrite toks_str_app. apply neutral_app; assumption.
Qed.

Lemma p_and_cons rec : rec_ok rec -> rec_ok (p_and true rec).
Proof.
  intros Hrec ts Hwf. unfold p_and.
  apply seq_cons; [exact Hwf | apply p_neg_cons; assumption|].
  intros e r Hwr. apply p_loop_cons; [left; reflexivity | | exact Hwr].
  intros ts' Hw'. apply p_neg_cons; assumption.
Qed.

Lemma p_or_body_cons rec : rec_ok rec -> rec_ok (p_or_body true rec).
Proof.
  intros Hrec ts Hwf. unfold p_or_body.
  apply seq_cons; [exact Hwf | apply p_and_cons; assumption|].
  intros e r Hwr. apply p_loop_cons; [right; reflexivity | apply p_and_cons; assumption | exact Hwr].
Qed.

Lemma p_or_cons : forall f, rec_ok (p_or true f).
Proof.
  induction f as [|f IH]; intros ts Hwf; [exact I|].
  simpl. apply p_or_body_cons; assumption.
Qed.

Lemma parse_raw_balanced limit ts e :
  Forall wf_tok ts -> parse_raw true limit ts = Ok e -> balanced_go [] (toks_str ts) = true.
Proof.
  intros Hwf H. unfold parse_raw in H.
  pose proof (p_or_cons (Nat.min (S (length ts)) limit) ts Hwf) as Hc.
  destruct (p_or true (Nat.min (S (length ts)) limit) ts) as [[e' r]|]; [|discriminate].
  simpl in *. destruct r; [|discriminate].
  destruct Hc as (pre & Hpre & Hn). rewrite app_nil_r in Hpre. subst pre.
  specialize (Hn [] []). rewrite app_nil_r in Hn. exact Hn.
Qed.

Lemma parse_tokens_balanced limit ts e :
  Forall wf_tok ts -> parse_tokens true limit ts = Ok e -> balanced_go [] (toks_str ts) = true.
Proof.
  intros Hwf H. unfold parse_tokens in H.
  destruct (parse_raw true limit ts) as [e0|x] eqn:Hr.
  - inversion H; subst. apply parse_raw_balanced with limit e; assumption.
  - destruct x; discriminate.
Qed.

(* ---------------------------------------------------------------- the tokenizer keeps the grouping characters *)

Lemma is_word_plain c : is_word c = true -> is_grouper c = false.
Proof.
  intro Hw. destruct (is_grouper c) eqn:Hg; [|reflexivity].
  apply is_grouper_cases in Hg.
  destruct Hg as [H | [H | [H | [H | [H | H]]]]]; subst c; vm_compute in Hw; discriminate.
Qed.

Definition shape (t : str) : Prop :=
  gr t = [] \/
  In t [ [ch_open]; [ch_close]; [ch_lbrack]; [ch_rbrack]; [ch_lbrace]; [ch_rbrace];
         [ch_lbrack; ch_lbrack]; [ch_rbrack; ch_rbrack] ].

Lemma gr_plain_list l : Forall (fun c => is_grouper c = false) l -> gr l = [].
Proof.
  induction 1 as [|c l Hc Hl IH]; [reflexivity|]. unfold gr. simpl. rewrite Hc. exact IH.
Qed.

Lemma shape_single c : shape [c].
Proof.
  unfold shape. destruct (is_grouper c) eqn:Hg.
  - right. apply is_grouper_cases in Hg. simpl. intuition (subst; auto).
  - left. unfold gr. simpl. rewrite Hg. reflexivity.
Qed.

Lemma scan_spec : forall n s cur q, length s <= n ->
  Forall (fun c => is_grouper c = false) cur ->
  Forall shape (scan cur q s) /\ gr (concat (scan cur q s)) = gr s.
Proof.
  induction n as [|n IH]; intros s cur q Hlen Hcur.
  - destruct s; [|simpl in Hlen; lia]. simpl.
    destruct cur as [|c0 cur0]; simpl; [split; [constructor | reflexivity]|].
    assert (Hp : gr (rev (c0 :: cur0)) = []) by (apply gr_plain_list; apply Forall_rev; exact Hcur).
    split; [constructor; [left; exact Hp | constructor] | rewrite app_nil_r; exact Hp].
  - destruct s as [|c r]; [apply (IH [] cur q); [simpl; lia | exact Hcur]|].
    simpl in Hlen.
    assert (Hflush : Forall shape (match cur with [] => [] | _ :: _ => [rev cur] end) /\
                     gr (concat (match cur with [] => [] | _ :: _ => [rev cur] end)) = []).
    { destruct cur as [|c0 cur0]; [split; [constructor | reflexivity]|].
      assert (Hp : gr (rev (c0 :: cur0)) = []) by (apply gr_plain_list; apply Forall_rev; exact Hcur).
      split; [constructor; [left; exact Hp | constructor] | simpl; rewrite app_nil_r; exact Hp]. }
    destruct Hflush as [Hf1 Hf2].
    assert (Happ : forall l, Forall shape l ->
              Forall shape ((match cur with [] => [] | _ :: _ => [rev cur] end) ++ l) /\
              gr (concat ((match cur with [] => [] | _ :: _ => [rev cur] end) ++ l)) = gr (concat l)).
    { intros l Hl. split; [apply Forall_app; split; assumption|].
      rewrite concat_app, gr_app, Hf2. reflexivity. }
    cbn [scan].
    destruct (is_word c) eqn:Hw.
    { pose proof (is_word_plain c Hw) as Hg.
      assert (Hgc : gr (c :: r) = gr r) by (unfold gr; simpl; rewrite Hg; reflexivity).
      rewrite Hgc.
      destruct cur as [|c0 cur0].
      - apply IH; [lia | constructor; [exact Hg | constructor]].
      - destruct q.
        + destruct (IH r [c] false) as [I1 I2]; [lia | constructor; [exact Hg | constructor] |].
          destruct (Happ _ I1) as [A1 A2]. split; [exact A1 | rewrite A2; exact I2].
        + apply IH; [lia | constructor; [exact Hg | exact Hcur]]. }
    destruct (N.eqb c ch_qmark) eqn:Hq.
    { apply N.eqb_eq in Hq. subst c.
      assert (Hg : is_grouper ch_qmark = false) by reflexivity.
      assert (Hgc : gr (ch_qmark :: r) = gr r) by reflexivity.
      rewrite Hgc.
      destruct cur as [|c0 cur0].
      - apply IH; [lia | constructor; [exact Hg | constructor]].
      - destruct q.
        + apply IH; [lia | constructor; [exact Hg | exact Hcur]].
        + destruct (IH r [ch_qmark] true) as [I1 I2]; [lia | constructor; [exact Hg | constructor] |].
          destruct (Happ _ I1) as [A1 A2]. split; [exact A1 | rewrite A2; exact I2]. }
    destruct r as [|c2 r2].
    { destruct (is_single c) eqn:Hs.
      - destruct (Happ [[c]]) as [A1 A2]; [constructor; [apply shape_single | constructor]|].
        split; [exact A1 | rewrite A2; reflexivity].
      - assert (Hg : is_grouper c = false).
        { destruct (is_grouper c) eqn:Hg; [|reflexivity]. apply is_grouper_cases in Hg.
          destruct Hg as [H | [H | [H | [H | [H | H]]]]]; subst c; vm_compute in Hs; discriminate. }
        destruct (Happ []) as [A1 A2]; [constructor|]. rewrite app_nil_r in A1, A2.
        split; [exact A1 | rewrite A2; unfold gr; simpl; rewrite Hg; reflexivity]. }
    match goal with |- context [if ?c then _ else _] => destruct c eqn:Hd end.
    { (* a two-character token *)
      destruct (IH r2 [] false) as [I1 I2]; [simpl in Hlen; lia | constructor |].
      assert (Hsh : shape [c; c2]).
      { rewrite !orb_true_iff, !andb_true_iff, !N.eqb_eq in Hd.
        destruct Hd as [[[[H1 H2] | [H1 H2]] | [H1 H2]] | [H1 H2]]; rewrite H1, H2.
        - right. simpl. auto 12.
        - right. simpl. auto 12.
        - left. reflexivity.
        - left. reflexivity. }
      destruct (Happ ([c; c2] :: scan [] false r2)) as [A1 A2]; [constructor; assumption|].
      split; [exact A1|]. rewrite A2. cbn [concat]. rewrite gr_app, I2.
      unfold gr. simpl. destruct (is_grouper c), (is_grouper c2); reflexivity. }
    destruct (is_single c) eqn:Hs.
    { destruct (IH (c2 :: r2) [] false) as [I1 I2]; [simpl in *; lia | constructor |].
      destruct (Happ ([c] :: scan [] false (c2 :: r2))) as [A1 A2]; [constructor; [apply shape_single | exact I1]|].
      split; [exact A1|]. rewrite A2. cbn [concat]. rewrite gr_app, I2.
      unfold gr. cbn [filter]. destruct (is_grouper c); reflexivity. }
    assert (Hg : is_grouper c = false).
    { destruct (is_grouper c) eqn:Hg; [|reflexivity]. apply is_grouper_cases in Hg.
      destruct Hg as [H | [H | [H | [H | [H | H]]]]]; subst c; vm_compute in Hs; discriminate. }
    destruct (IH (c2 :: r2) [] false) as [I1 I2]; [simpl in *; lia | constructor |].
    destruct (Happ (scan [] false (c2 :: r2))) as [A1 A2]; [exact I1|].
    split; [exact A1|]. rewrite A2, I2. unfold gr at 2. cbn [filter]. rewrite Hg. reflexivity.
Qed.

Lemma tokenize_wf s : Forall wf_tok (tokenize s).
Proof.
  unfold tokenize. destruct (scan_spec (length s) s [] false (le_n _) (Forall_nil _)) as [H _].
  apply Forall_map. apply Forall_impl with (P := shape); [|exact H].
  intros t Ht. split; [reflexivity | exact Ht].
Qed.

Lemma tokenize_gr s : gr (toks_str (tokenize s)) = gr s.
Proof.
  unfold tokenize, toks_str. rewrite map_map. simpl. rewrite map_id.
  apply (scan_spec (length s) s [] false (le_n _) (Forall_nil _)).
Qed.

Lemma fold_gr q : gr (fold q) = gr q.
Proof.
  induction q as [|c q IH]; [reflexivity|].
  unfold gr, fold in *. cbn [map filter]. rewrite IH. unfold fold_ch.
  destruct ((65 <=? c)%N && (c <=? 90)%N) eqn:Hr; [|reflexivity].
  apply andb_true_iff in Hr. destruct Hr as [H1 H2]. apply N.leb_le in H1, H2.
  assert (Ha : is_grouper (c + 32)%N = false).
  { destruct (is_grouper (c + 32)%N) eqn:Hg; [|reflexivity]. apply is_grouper_cases in Hg.
    unfold ch_open, ch_close, ch_lbrack, ch_rbrack, ch_lbrace, ch_rbrace in Hg. lia. }
  assert (Hb : is_grouper c = false).
  { destruct (is_grouper c) eqn:Hg; [|reflexivity]. apply is_grouper_cases in Hg.
    unfold ch_open, ch_close, ch_lbrack, ch_rbrack, ch_lbrace, ch_rbrace in Hg. lia. }
  rewrite Ha, Hb. reflexivity.
Qed.

(* Repaired code: whatever compiles has balanced grouping symbols ... *)
Lemma compile_balanced limit q e : compile true limit q = Ok e -> balanced_groupers q = true.
Proof.
  unfold compile. intro H.
  apply parse_tokens_balanced in H; [|apply tokenize_wf].
  unfold balanced_groupers. rewrite balanced_go_gr, <- fold_gr, <- tokenize_gr, <- balanced_go_gr. exact H.
Qed.

(* ... hence unbalanced grouping symbols are always rejected with ValueError *)
Lemma unbalanced_rejected limit q :
  balanced_groupers q = false -> compile true limit q = Exn ValueError.
Proof.
  intro Hb. destruct (compile_total true limit q) as [(e & H) | H]; [|exact H].
  apply compile_balanced in H. congruence.
Qed.

(* the same before the except clause: an unbalanced text never yields a tree,
   at any depth ... *)
Lemma unbalanced_never_compiles limit q e :
  balanced_groupers q = false -> compile_raw true limit q <> Ok e.
Proof.
  intros Hb H. unfold compile_raw in H.
  apply parse_raw_balanced in H; [|apply tokenize_wf].
  unfold balanced_groupers in Hb.
  rewrite balanced_go_gr, <- fold_gr, <- tokenize_gr, <- balanced_go_gr in Hb. congruence.
Qed.

(* ... and with enough depth (one level per token) the rejection is GENUINE: the
   parser's own ValueError, not an exhausted depth *)
Lemma unbalanced_rejected_genuine limit q :
  balanced_groupers q = false -> S (length (tokenize (fold q))) <= limit ->
  compile_raw true limit q = Exn ValueError.
Proof.
  intros Hb Hl.
  destruct (compile_raw_total true limit q) as [(e & H) | [H | [_ H]]].
  - exfalso. exact (unbalanced_never_compiles limit q e Hb H).
  - exact H.
  - exfalso. exact (compile_raw_enough true limit q Hl H).
Qed.
