(* Lemmas about the schema tag table (Model/Schema.v): string decomposition at '/',
   characterisation of the registered forms, and of the table of a well-formed schema. *)
From Coq Require Import List NArith Bool Arith Lia.
From HV Require Import Base.Str Base.Res Model.Schema.
Import ListNotations.

(* ------------------------------------------------------------------ generic *)

Lemma str_eqb_refl s : str_eqb s s = true.
Proof. apply str_eqb_spec. reflexivity. Qed.

Lemma str_eqb_false a b : str_eqb a b = false <-> a <> b.
Proof.
  split; intro H.
  - intro E. apply str_eqb_spec in E. congruence.
  - destruct (str_eqb a b) eqn:E; [apply str_eqb_spec in E; contradiction | reflexivity].
Qed.

Lemma slash_eqb_refl : N.eqb ch_slash ch_slash = true.
Proof. reflexivity. Qed.

Lemma last_app_ne {A} (l l' : list A) d : l' <> [] -> last (l ++ l') d = last l' d.
Proof.
  intro H. destruct l' as [|x l'] using rev_ind; [contradiction|].
  rewrite app_assoc, !last_last. reflexivity.
Qed.

Lemma in_removelast {A} (x : A) l : In x (removelast l) -> In x l.
Proof.
  induction l as [|a l IH]; simpl; [tauto|].
  destruct l as [|b l]; [simpl; tauto|]. intros [H|H]; [left; exact H | right; apply IH; exact H].
Qed.

Lemma in_removelast_neq {A} (x d : A) l : In x l -> x <> last l d -> In x (removelast l).
Proof.
  induction l as [|a l IH]; simpl; [tauto|].
  destruct l as [|b l]; intros [H|H] Hn.
  - subst; contradiction.
  - destruct H.
  - left; exact H.
  - right. apply IH; assumption.
Qed.

Lemma removelast_not_last {A} (x d : A) l : NoDup l -> In x (removelast l) -> x <> last l d.
Proof.
  intros ND Hin E.
  destruct l as [|a l]; [destruct Hin|].
  assert (Hne : a :: l <> []) by discriminate.
  rewrite (app_removelast_last d Hne) in ND.
  apply NoDup_remove_2 in ND. rewrite app_nil_r in ND. rewrite <- E in ND. contradiction.
Qed.

(* ------------------------------------------------------------------ tails *)

Lemma tails_app_slash a b :
  tails (a ++ ch_slash :: b) = map (fun t => t ++ ch_slash :: b) (tails a) ++ b :: tails b.
Proof.
  induction a as [|c a IH]; cbn [app tails map].
  - rewrite slash_eqb_refl. reflexivity.
  - destruct (N.eqb c ch_slash); cbn [map app]; rewrite IH; reflexivity.
Qed.

Lemma in_tails f n : In f (tails n) <-> exists pre, n = pre ++ ch_slash :: f.
Proof.
  revert f. induction n as [|c r IH]; intro f; cbn [tails].
  - split; [intros []|]. intros [pre H]. destruct pre; discriminate.
  - split.
    + intro H. destruct (N.eqb c ch_slash) eqn:E.
      * apply N.eqb_eq in E. subst c. destruct H as [H|H].
        -- subst. exists []. reflexivity.
        -- apply IH in H as [pre H]. exists (ch_slash :: pre). rewrite H. reflexivity.
      * apply IH in H as [pre H]. exists (c :: pre). rewrite H. reflexivity.
    + intros [pre H]. destruct pre as [|c' pre]; cbn [app] in H; inversion H; subst.
      * rewrite slash_eqb_refl. left. reflexivity.
      * assert (Hin : In f (tails (pre ++ ch_slash :: f))) by (apply IH; eexists; reflexivity).
        destruct (N.eqb c' ch_slash); [right|]; exact Hin.
Qed.

Lemma tails_shorter f s : In f (tails s) -> length f < length s.
Proof. intro H. apply in_tails in H as [pre H]. subst. rewrite app_length. cbn. lia. Qed.

Lemma tails_nodup s : NoDup (s :: tails s).
Proof.
  induction s as [|c r IH].
  - cbn. constructor; [tauto | constructor].
  - constructor.
    + intro H. apply tails_shorter in H. lia.
    + cbn [tails]. destruct (N.eqb c ch_slash); [exact IH | inversion IH; assumption].
Qed.

(* the slash-suffixes of a name *)
Definition ssuffix (f n : str) : Prop := In f (n :: tails n).

Lemma ssuffix_iff f n : ssuffix f n <-> f = n \/ exists pre, n = pre ++ ch_slash :: f.
Proof.
  unfold ssuffix. cbn [In]. rewrite in_tails. split; intros [H|H]; auto.
Qed.

Lemma ssuffix_trans a b c : ssuffix a b -> ssuffix b c -> ssuffix a c.
Proof.
  rewrite !ssuffix_iff. intros [H1|[p1 H1]] [H2|[p2 H2]].
  - left. congruence.
  - right. exists p2. congruence.
  - right. exists p1. congruence.
  - right. exists (p2 ++ ch_slash :: p1). rewrite H2, H1, <- app_assoc. reflexivity.
Qed.

Lemma ssuffix_app_slash pre f : ssuffix f (pre ++ ch_slash :: f).
Proof. apply ssuffix_iff. right. eexists; reflexivity. Qed.

(* ------------------------------------------------------------------ slash_prefixes *)

Lemma sp_app_slash a b :
  slash_prefixes (a ++ ch_slash :: b) =
  slash_prefixes a ++ map (fun q => a ++ ch_slash :: q) (slash_prefixes b).
Proof.
  induction a as [|c a IH]; cbn [app slash_prefixes].
  - rewrite slash_eqb_refl. reflexivity.
  - rewrite IH, map_app, map_map, app_assoc. reflexivity.
Qed.

Lemma in_sp q w : In q (slash_prefixes w) <-> q = w \/ exists rest, w = q ++ ch_slash :: rest.
Proof.
  revert q. induction w as [|c r IH]; intro q; cbn [slash_prefixes].
  - split.
    + intros [H|[]]. left. auto.
    + intros [H|[rest H]]; [left; auto | destruct q; discriminate].
  - rewrite in_app_iff, in_map_iff. split.
    + intros [H|[q' [E H]]].
      * destruct (N.eqb c ch_slash) eqn:Ec; [|destruct H].
        destruct H as [H|[]]. subst q. apply N.eqb_eq in Ec. subst c. right. exists r. reflexivity.
      * subst q. apply IH in H as [H|[rest H]]; subst; [left; reflexivity|].
        right. exists rest. reflexivity.
    + intros [H|[rest H]].
      * subst q. right. exists r. split; [reflexivity|]. apply IH. left. reflexivity.
      * destruct q as [|c' q']; cbn [app] in H; inversion H; subst.
        -- left. rewrite slash_eqb_refl. left. reflexivity.
        -- right. exists q'. split; [reflexivity|]. apply IH. right. exists rest. reflexivity.
Qed.

Lemma sp_snoc w : exists l, slash_prefixes w = l ++ [w].
Proof.
  induction w as [|c r [l IH]]; cbn [slash_prefixes].
  - exists []. reflexivity.
  - rewrite IH, map_app. cbn [map]. eexists. rewrite app_assoc. reflexivity.
Qed.

Lemma sp_nonempty w : slash_prefixes w <> [].
Proof. destruct (sp_snoc w) as [l H]. rewrite H. destruct l; discriminate. Qed.

Lemma sp_split w : forall ps1 q ps2,
  slash_prefixes w = ps1 ++ q :: ps2 -> ps2 <> [] ->
  exists rest, w = q ++ ch_slash :: rest /\ ps2 = map (fun x => q ++ ch_slash :: x) (slash_prefixes rest).
Proof.
  induction w as [|c r IH]; intros ps1 q ps2 H Hne; cbn [slash_prefixes] in H.
  - destruct ps1 as [|a [|b ps1]]; cbn in H; inversion H; subst; try contradiction.
  - assert (Hmap : forall ps1', map (cons c) (slash_prefixes r) = ps1' ++ q :: ps2 ->
              exists rest, c :: r = q ++ ch_slash :: rest /\
                           ps2 = map (fun x => q ++ ch_slash :: x) (slash_prefixes rest)).
    { intros ps1' Hm. apply map_eq_app in Hm as (l1 & l2 & E & M1 & M2).
      apply map_eq_cons in M2 as (q0 & l3 & E2 & Eq & M3). subst l2.
      destruct (IH l1 q0 l3 E) as (rest & Er & E3).
      { intro Z. subst l3. cbn in M3. subst ps2. contradiction. }
      exists rest. subst q r. split; [reflexivity|]. rewrite <- M3, E3, map_map. reflexivity. }
    destruct (N.eqb c ch_slash) eqn:Ec.
    + apply N.eqb_eq in Ec. subst c. destruct ps1 as [|a ps1]; cbn [app] in H; inversion H; subst.
      * exists r. split; reflexivity.
      * apply (Hmap ps1). assumption.
    + cbn [app] in H. apply (Hmap ps1). exact H.
Qed.

(* ------------------------------------------------------------------ last component *)

Lemma last_in {A} (l : list A) d : l <> [] -> In (last l d) l.
Proof.
  intro H. rewrite (app_removelast_last d H) at 2. apply in_or_app. right. left. reflexivity.
Qed.

Lemma last_map {A B} (f : A -> B) l d : last (map f l) (f d) = f (last l d).
Proof. induction l as [|a [|b l] IH]; cbn in *; auto. Qed.

Lemma last_map_app (l : list str) s : l <> [] -> last (map (fun t => t ++ s) l) [] = last l [] ++ s.
Proof.
  induction l as [|a [|b l] IH]; intro H; [contradiction | reflexivity |].
  cbn [map last] in *. apply IH. discriminate.
Qed.

Lemma last_comp_ssuffix n : ssuffix (last_comp n) n.
Proof. unfold ssuffix, last_comp. apply last_in. discriminate. Qed.

Lemma last_comp_of_ssuffix f n : ssuffix f n -> last_comp f = last_comp n.
Proof.
  intro H. apply ssuffix_iff in H as [H|[pre H]]; [congruence|].
  subst n. unfold last_comp. rewrite tails_app_slash.
  change ((pre ++ ch_slash :: f) :: map (fun t => t ++ ch_slash :: f) (tails pre) ++ f :: tails f)
    with (((pre ++ ch_slash :: f) :: map (fun t => t ++ ch_slash :: f) (tails pre)) ++ f :: tails f).
  rewrite last_app_ne by discriminate. reflexivity.
Qed.

Lemma tails_hash : tails s_hash = [].
Proof. reflexivity. Qed.

Lemma hash_ssuffix_last n : ssuffix s_hash n -> last_comp n = s_hash.
Proof. intro H. rewrite <- (last_comp_of_ssuffix _ _ H). reflexivity. Qed.

Lemma is_value_true n : is_value n = true <-> last_comp n = s_hash.
Proof. unfold is_value. apply str_eqb_spec. Qed.

Lemma is_value_false n : is_value n = false <-> last_comp n <> s_hash.
Proof. unfold is_value. apply str_eqb_false. Qed.

Lemma value_name_shape n : is_value n = true -> n = s_hash \/ exists m, n = m ++ s_slash_hash.
Proof.
  intro H. apply is_value_true in H. pose proof (last_comp_ssuffix n) as Hs. rewrite H in Hs.
  apply ssuffix_iff in Hs as [Hs|[pre Hs]]; [left; congruence | right; exists pre; exact Hs].
Qed.

Lemma value_of_app m : is_value (m ++ s_slash_hash) = true.
Proof. apply is_value_true. apply hash_ssuffix_last. apply ssuffix_app_slash. Qed.

(* slash-suffixes of a value name m/# *)
Lemma ssuffix_value f m :
  ssuffix f (m ++ s_slash_hash) -> f = s_hash \/ exists g, f = g ++ s_slash_hash /\ ssuffix g m.
Proof.
  unfold ssuffix, s_slash_hash. rewrite tails_app_slash. change (tails [ch_hash]) with (@nil str). cbn [In].
  rewrite in_app_iff, in_map_iff. intros [H|[[t [E H]]|H]].
  - right. exists m. split; [auto | left; reflexivity].
  - right. exists t. split; [auto | right; exact H].
  - cbn in H. destruct H as [H|[]]. left. auto.
Qed.

Lemma ends_slash_hash_app m : ends_slash_hash (m ++ s_slash_hash) = true.
Proof.
  unfold ends_slash_hash. rewrite app_length. cbn [length s_slash_hash].
  replace (length m + 2 - 2) with (length m + 0) by lia.
  rewrite skipn_app, Nat.add_0_r, skipn_all, Nat.sub_diag. cbn. reflexivity.
Qed.

Lemma ends_slash_hash_inv n : ends_slash_hash n = true -> exists m, n = m ++ s_slash_hash.
Proof.
  unfold ends_slash_hash. intro H. apply str_eqb_spec in H.
  exists (firstn (length n - 2) n). rewrite <- H. symmetry. apply firstn_skipn.
Qed.

Lemma drop_last2_app m : drop_last2 (m ++ s_slash_hash) = m.
Proof.
  unfold drop_last2. rewrite app_length. cbn [length s_slash_hash].
  replace (length m + 2 - 2) with (length m + 0) by lia.
  rewrite firstn_app_2. cbn. apply app_nil_r.
Qed.

Lemma ends_slash_hash_value n : ends_slash_hash n = is_value n \/ n = s_hash.
Proof.
  destruct (ends_slash_hash n) eqn:E.
  - left. apply ends_slash_hash_inv in E as [m E]. subst. symmetry. apply value_of_app.
  - destruct (is_value n) eqn:V; [|left; reflexivity].
    apply value_name_shape in V as [V|[m V]]; [right; exact V|].
    subst. rewrite ends_slash_hash_app in E. discriminate.
Qed.

(* ------------------------------------------------------------------ get_tag_forms / create_tag_entry *)

Definition forms_of (n : str) : list str :=
  if is_value n then removelast (n :: tails n) else n :: tails n.

Definition is_form (f n : str) : Prop := ssuffix f n /\ f <> s_hash.

Lemma filter_all {A} (p : A -> bool) l : (forall x, In x l -> p x = true) -> filter p l = l.
Proof.
  induction l as [|a l IH]; intro H; cbn; [reflexivity|].
  rewrite (H a (or_introl eq_refl)), IH; [reflexivity|]. intros x Hx. apply H. right. exact Hx.
Qed.

Lemma name_ok_parts n : name_ok n = true ->
  n <> [] /\ last n 0%N <> ch_slash /\ ~ In ch_colon n.
Proof.
  unfold name_ok. intro H. apply andb_true_iff in H as [H H3]. apply andb_true_iff in H as [H1 H2].
  repeat split.
  - destruct n; [discriminate | discriminate].
  - apply negb_true_iff in H2. intro E. rewrite E in H2. discriminate.
  - apply negb_true_iff in H3. intro Hin.
    assert (existsb (N.eqb ch_colon) n = true) by (apply existsb_exists; exists ch_colon; split; [exact Hin | reflexivity]).
    congruence.
Qed.

Lemma ssuffix_nonempty n t : name_ok n = true -> ssuffix t n -> t <> [].
Proof.
  intros H Hs. apply name_ok_parts in H as (H1 & H2 & _).
  apply ssuffix_iff in Hs as [Hs|[pre Hs]]; [congruence|].
  intro E. subst t n. apply H2. apply last_last.
Qed.

Lemma get_tag_forms_ok n : name_ok n = true -> get_tag_forms n = Ok (last_comp n, forms_of n).
Proof.
  intro H. pose proof (name_ok_parts n H) as (H1 & _).
  unfold get_tag_forms. destruct n as [|c r]; [contradiction|].
  rewrite filter_all.
  - unfold forms_of, is_value, last_comp. reflexivity.
  - intros x Hx. destruct x; [|reflexivity]. exfalso. exact (ssuffix_nonempty _ _ H Hx eq_refl).
Qed.

Lemma in_forms_of f n : In f (forms_of n) <-> is_form f n.
Proof.
  unfold forms_of, is_form, ssuffix. destruct (is_value n) eqn:V.
  - apply is_value_true in V. unfold last_comp in V. split.
    + intro H. split; [apply in_removelast; exact H|].
      rewrite <- V. apply removelast_not_last; [apply tails_nodup | exact H].
    + intros [H1 H2]. apply (in_removelast_neq f ([] : str)); [exact H1 | rewrite V; exact H2].
  - apply is_value_false in V. split; [|tauto].
    intro H. split; [exact H|]. intro E. subst f. apply V. apply hash_ssuffix_last. exact H.
Qed.

Lemma self_form n : n <> s_hash -> is_form n n.
Proof. intro H. split; [left; reflexivity | exact H]. Qed.

Lemma last_comp_form n : is_value n = false -> is_form (last_comp n) n.
Proof. intro V. split; [apply last_comp_ssuffix | apply is_value_false; exact V]. Qed.

Lemma forms_of_value m :
  forms_of (m ++ s_slash_hash) = map (fun t => t ++ s_slash_hash) (m :: tails m).
Proof.
  unfold forms_of. rewrite value_of_app. unfold s_slash_hash. rewrite tails_app_slash. change (tails [ch_hash]) with (@nil str).
  change ((m ++ [ch_slash; ch_hash]) :: map (fun t => t ++ [ch_slash; ch_hash]) (tails m) ++ [[ch_hash]])
    with (map (fun t => t ++ [ch_slash; ch_hash]) (m :: tails m) ++ [[ch_hash]]).
  apply removelast_last.
Qed.

(* the entry created for a name *)
Definition ent (n : str) : entry :=
  if is_value n then mkEntry n (drop_last2 n) (last_comp (drop_last2 n))
  else mkEntry n n (last_comp n).

Lemma create_tag_entry_ok n : name_ok n = true -> n <> s_hash -> create_tag_entry n = Ok (ent n).
Proof.
  intros H Hn. unfold create_tag_entry. rewrite (get_tag_forms_ok n H). cbn [bind snd].
  assert (Hin : In n (forms_of n)) by (apply in_forms_of, self_form; exact Hn).
  destruct (forms_of n) as [|x fs] eqn:E; [destruct Hin|]. rewrite <- E. clear Hin.
  unfold ent. destruct (ends_slash_hash_value n) as [EV|EV]; [|contradiction].
  rewrite EV. destruct (is_value n) eqn:V.
  - apply value_name_shape in V as [V|[m V]]; [contradiction|]. subst n.
    rewrite forms_of_value, drop_last2_app.
    rewrite last_map_app by discriminate.
    change (last (m :: tails m) []) with (last_comp m).
    rewrite drop_last2_app. reflexivity.
  - unfold forms_of. rewrite V. reflexivity.
Qed.

Lemma ent_name n : e_name (ent n) = n.
Proof. unfold ent. destruct (is_value n); reflexivity. Qed.

(* ------------------------------------------------------------------ generic list facts *)

Lemma NoDup_map_inj {A B} (g : A -> B) l a b :
  NoDup (map g l) -> In a l -> In b l -> g a = g b -> a = b.
Proof.
  induction l as [|x l IH]; intros ND Ha Hb E; [destruct Ha|].
  cbn in ND. inversion ND as [|y l' Hn ND']; subst.
  destruct Ha as [Ha|Ha], Hb as [Hb|Hb]; subst; auto.
  - exfalso. apply Hn. rewrite E. apply in_map. exact Hb.
  - exfalso. apply Hn. rewrite <- E. apply in_map. exact Ha.
Qed.

(* ------------------------------------------------------------------ case folding *)

Section WithFold.
  Variable foldc : N -> N.
  Hypothesis fold_slash : forall c, N.eqb (foldc c) ch_slash = N.eqb c ch_slash.
  Hypothesis fold_hash : forall c, N.eqb (foldc c) ch_hash = N.eqb c ch_hash.
  Notation fold := (fold foldc).
  Notation lookup := lookup.

  Lemma foldc_slash : foldc ch_slash = ch_slash.
  Proof. apply N.eqb_eq. rewrite fold_slash. reflexivity. Qed.

  Lemma foldc_hash : foldc ch_hash = ch_hash.
  Proof. apply N.eqb_eq. rewrite fold_hash. reflexivity. Qed.

  Lemma fold_app a b : fold (a ++ b) = fold a ++ fold b.
  Proof. apply map_app. Qed.

  Lemma fold_length s : length (fold s) = length s.
  Proof. apply map_length. Qed.

  Lemma fold_s_hash : fold s_hash = s_hash.
  Proof. cbn. rewrite foldc_hash. reflexivity. Qed.

  Lemma fold_s_slash_hash : fold s_slash_hash = s_slash_hash.
  Proof. cbn. rewrite foldc_hash, foldc_slash. reflexivity. Qed.

  Lemma fold_app_slash a b : fold (a ++ ch_slash :: b) = fold a ++ ch_slash :: fold b.
  Proof. rewrite fold_app. cbn. rewrite foldc_slash. reflexivity. Qed.

  Lemma fold_eq_hash s : fold s = s_hash -> s = s_hash.
  Proof.
    destruct s as [|c [|d s]]; cbn; intro H; inversion H as [H1].
    unfold s_hash. f_equal. apply N.eqb_eq. rewrite <- fold_hash, H1. reflexivity.
  Qed.

  Lemma fold_eq_app s a b : fold s = a ++ b -> exists s1 s2, s = s1 ++ s2 /\ fold s1 = a /\ fold s2 = b.
  Proof. apply map_eq_app. Qed.

  Lemma fold_eq_cons_slash s rest :
    fold s = ch_slash :: rest -> exists r, s = ch_slash :: r /\ fold r = rest.
  Proof.
    destruct s as [|c r]; cbn; intro H; [discriminate|].
    assert (H1 : foldc c = ch_slash) by congruence.
    assert (H2 : map foldc r = rest) by congruence.
    exists r. split; [|exact H2]. f_equal. apply N.eqb_eq. rewrite <- fold_slash, H1. reflexivity.
  Qed.

  Lemma tails_fold s : tails (fold s) = map fold (tails s).
  Proof.
    induction s as [|c r IH]; [reflexivity|]. cbn [Schema.fold map tails]. rewrite fold_slash.
    destruct (N.eqb c ch_slash); cbn [map]; unfold Schema.fold in IH; rewrite IH; reflexivity.
  Qed.

  Lemma sp_fold s : slash_prefixes (fold s) = map fold (slash_prefixes s).
  Proof.
    induction s as [|c r IH]; [reflexivity|]. cbn [Schema.fold map slash_prefixes]. rewrite fold_slash.
    unfold Schema.fold in IH. rewrite IH, map_app, !map_map.
    destruct (N.eqb c ch_slash); reflexivity.
  Qed.

  Lemma last_comp_fold n : last_comp (fold n) = fold (last_comp n).
  Proof.
    unfold last_comp. rewrite tails_fold.
    change (fold n :: map fold (tails n)) with (map fold (n :: tails n)).
    change ([] : str) with (fold []) at 1. apply last_map.
  Qed.

  Lemma ssuffix_fold f n : ssuffix f n -> ssuffix (fold f) (fold n).
  Proof.
    unfold ssuffix. rewrite tails_fold.
    change (fold n :: map fold (tails n)) with (map fold (n :: tails n)). apply in_map.
  Qed.

  (* ---------------------------------------------------------------- well-formed schemas *)

  Record WF (S : list str) : Prop := {
    wf_names : forall n, In n S -> name_ok n = true;
    wf_closed : forall n q, In n S -> In q (slash_prefixes n) -> In q S;
    wf_nothash : forall n, In n S -> n <> s_hash;
    wf_hash : forall n q, In n S -> In q (slash_prefixes n) -> q <> n -> is_value q = false;
    wf_unique : NoDup (short_keys foldc S)
  }.

  Lemma seqb_str_eqb a b : seqb a b = str_eqb a b.
  Proof.
    revert b. induction a as [|x a IH]; destruct b as [|y b]; cbn [seqb str_eqb]; reflexivity.
  Qed.

  Lemma mem_In s l : mem s l = true <-> In s l.
  Proof.
    induction l as [|x l IH]; cbn [mem In]; [split; [discriminate | tauto]|].
    rewrite seqb_str_eqb. destruct (str_eqb s x) eqn:E.
    - apply str_eqb_spec in E. split; [intros _; left; congruence | reflexivity].
    - apply str_eqb_false in E. rewrite IH. split; [auto | intros [H|H]; [congruence | exact H]].
  Qed.

  Lemma nodupb_NoDup l : nodupb l = true -> NoDup l.
  Proof.
    induction l as [|x l IH]; cbn; intro H; constructor; apply andb_true_iff in H as [H1 H2].
    - apply negb_true_iff in H1. intro Hin. apply mem_In in Hin. congruence.
    - apply IH. exact H2.
  Qed.

  Lemma WFschema_WF S : WFschema foldc S = true -> WF S.
  Proof.
    unfold WFschema. intro H. apply andb_true_iff in H as [H H4]. apply andb_true_iff in H as [H H3].
    apply andb_true_iff in H as [H1 H2].
    rewrite forallb_forall in H1, H2, H3.
    constructor.
    - exact H1.
    - intros n q Hn Hq. specialize (H2 n Hn). unfold parent_closed in H2. rewrite forallb_forall in H2.
      specialize (H2 q Hq). apply mem_In in H2. apply in_map_iff in H2 as (x & Ex & Hx).
      apply (f_equal (@rev N)) in Ex. rewrite !rev_involutive in Ex. subst x. exact Hx.
    - intros n Hn E. specialize (H3 n Hn). unfold hash_leaf in H3. apply andb_true_iff in H3 as [H3 _].
      subst n. rewrite str_eqb_refl in H3. discriminate.
    - intros n q Hn Hq Hne. specialize (H3 n Hn). unfold hash_leaf in H3. apply andb_true_iff in H3 as [_ H3].
      rewrite forallb_forall in H3. specialize (H3 q Hq). apply orb_true_iff in H3 as [H3|H3].
      + apply str_eqb_spec in H3. contradiction.
      + apply negb_true_iff in H3. exact H3.
    - apply nodupb_NoDup. exact H4.
  Qed.

  Section WithSchema.
    Variable S : list str.
    Hypothesis wf : WF S.

    (* unique folded short names *)
    Lemma wf_short_inj n1 n2 :
      In n1 S -> In n2 S -> is_value n1 = false -> is_value n2 = false ->
      fold (last_comp n1) = fold (last_comp n2) -> n1 = n2.
    Proof.
      intros H1 H2 V1 V2 E.
      apply (NoDup_map_inj (fun n => fold (last_comp n)) (filter (fun n => negb (is_value n)) S)).
      - exact (wf_unique S wf).
      - apply filter_In. rewrite V1. auto.
      - apply filter_In. rewrite V2. auto.
      - exact E.
    Qed.

    (* a value name is m/# with m a registered non-value name *)
    Lemma wf_value n : In n S -> is_value n = true ->
      exists m, n = m ++ s_slash_hash /\ In m S /\ is_value m = false.
    Proof.
      intros Hn V. apply value_name_shape in V as [V|[m V]]; [exfalso; exact (wf_nothash S wf n Hn V)|].
      exists m. split; [exact V|].
      assert (Hq : In m (slash_prefixes n)) by (apply in_sp; right; eexists; exact V).
      split; [exact (wf_closed S wf n m Hn Hq)|].
      apply (wf_hash S wf n m Hn Hq). intro E. rewrite <- E in V at 1.
      apply (f_equal (@length N)) in V. rewrite app_length in V. cbn in V. lia.
    Qed.

    (* forms of different registered names never fold to the same key *)
    Lemma forms_disjoint_nv n1 n2 f1 f2 :
      In n1 S -> In n2 S -> is_value n1 = false -> is_value n2 = false ->
      ssuffix f1 n1 -> ssuffix f2 n2 -> fold f1 = fold f2 -> n1 = n2.
    Proof.
      intros H1 H2 V1 V2 S1 S2 E. apply wf_short_inj; auto.
      rewrite <- (last_comp_of_ssuffix _ _ S1), <- (last_comp_of_ssuffix _ _ S2), <- !last_comp_fold, E.
      reflexivity.
    Qed.

    Lemma forms_disjoint n1 n2 f1 f2 :
      In n1 S -> In n2 S -> is_form f1 n1 -> is_form f2 n2 -> fold f1 = fold f2 -> n1 = n2.
    Proof.
      intros H1 H2 [S1 N1] [S2 N2] E.
      assert (LC : fold (last_comp n1) = fold (last_comp n2)).
      { rewrite <- (last_comp_of_ssuffix _ _ S1), <- (last_comp_of_ssuffix _ _ S2), <- !last_comp_fold, E.
        reflexivity. }
      destruct (is_value n1) eqn:V1, (is_value n2) eqn:V2.
      - destruct (wf_value n1 H1 V1) as (m1 & E1 & M1 & W1).
        destruct (wf_value n2 H2 V2) as (m2 & E2 & M2 & W2).
        subst n1 n2.
        apply ssuffix_value in S1 as [S1|(g1 & G1 & S1)]; [contradiction|].
        apply ssuffix_value in S2 as [S2|(g2 & G2 & S2)]; [contradiction|].
        subst f1 f2. rewrite !fold_app, fold_s_slash_hash in E. apply app_inv_tail in E.
        f_equal. exact (forms_disjoint_nv m1 m2 g1 g2 M1 M2 W1 W2 S1 S2 E).
      - exfalso. apply is_value_true in V1. apply is_value_false in V2. apply V2.
        apply fold_eq_hash. rewrite <- LC, V1. apply fold_s_hash.
      - exfalso. apply is_value_true in V2. apply is_value_false in V1. apply V1.
        apply fold_eq_hash. rewrite LC, V2. apply fold_s_hash.
      - exact (forms_disjoint_nv n1 n2 f1 f2 H1 H2 V1 V2 S1 S2 E).
    Qed.

    (* ---------------------------------------------------------------- the table *)

    Lemma lookup_add_forms k e forms l :
      lookup k (add_forms foldc e forms l) =
      if existsb (fun f => str_eqb k (fold f)) forms then Some e else lookup k l.
    Proof.
      revert l. induction forms as [|f fs IH]; intro l; [reflexivity|].
      unfold add_forms in *. cbn [fold_left existsb]. rewrite IH. cbn [Schema.lookup].
      change (seqb k (fold f)) with (str_eqb k (fold f)).
      destruct (str_eqb k (fold f)); cbn [orb]; [|reflexivity].
      destruct (existsb (fun f0 => str_eqb k (fold f0)) fs); reflexivity.
    Qed.

    (* what the table holds after the names in [done] were registered *)
    Definition Inv (done : list str) (l : list (str * entry)) : Prop :=
      (forall k e, lookup k l = Some e -> exists n f, In n done /\ e = ent n /\ is_form f n /\ fold f = k) /\
      (forall n f, In n done -> is_form f n -> lookup (fold f) l = Some (ent n)).

    Lemma short_keys_app a b : short_keys foldc (a ++ b) = short_keys foldc a ++ short_keys foldc b.
    Proof. unfold short_keys. rewrite filter_app, map_app. reflexivity. Qed.

    Lemma add_all_inv : forall todo done t,
      S = done ++ todo -> Inv done (long_form_tags t) ->
      exists t', add_all foldc t todo = Ok t' /\ Inv S (long_form_tags t') /\
                 duplicate_names t' = duplicate_names t.
    Proof.
      induction todo as [|n todo IH]; intros done t ES HI.
      - exists t. rewrite app_nil_r in ES. subst done. auto.
      - assert (Hn : In n S) by (rewrite ES; apply in_or_app; right; left; reflexivity).
        pose proof (wf_names S wf n Hn) as Hok. pose proof (wf_nothash S wf n Hn) as Hnh.
        cbn [add_all]. unfold add_tag.
        rewrite (create_tag_entry_ok n Hok Hnh), (get_tag_forms_ok n Hok). cbn [bind fst snd].
        destruct HI as [HI1 HI2].
        destruct (lookup (fold (last_comp n)) (long_form_tags t)) as [e0|] eqn:L.
        + exfalso. destruct (HI1 _ _ L) as (n0 & f0 & Hn0 & _ & F0 & E0).
          destruct (is_value n) eqn:V.
          * apply is_value_true in V. rewrite V, fold_s_hash in E0. apply fold_eq_hash in E0.
            destruct F0 as [_ F0]. contradiction.
          * assert (Hn0S : In n0 S) by (rewrite ES; apply in_or_app; left; exact Hn0).
            pose proof (forms_disjoint n0 n f0 (last_comp n) Hn0S Hn F0 (last_comp_form n V) E0) as EQ.
            subst n0. pose proof (wf_unique S wf) as ND. rewrite ES, short_keys_app in ND.
            unfold short_keys at 2 in ND. cbn [filter] in ND. rewrite V in ND. cbn [negb map] in ND.
            apply NoDup_remove_2 in ND. apply ND. apply in_or_app. left.
            unfold short_keys. apply (in_map (fun n => fold (last_comp n))). apply filter_In.
            rewrite V. auto.
        + cbn [bind]. match goal with |- exists t', add_all foldc ?T todo = _ /\ _ => 
            destruct (IH (done ++ [n]) T) as (t' & A & I' & D') end.
          * rewrite ES, <- app_assoc. reflexivity.
          * cbn [long_form_tags]. split.
            -- intros k e Lk. rewrite lookup_add_forms in Lk.
               destruct (existsb (fun f => str_eqb k (fold f)) (forms_of n)) eqn:X.
               ++ inversion Lk; subst e. apply existsb_exists in X as (f & Hf & Ef).
                  apply str_eqb_spec in Ef. apply in_forms_of in Hf.
                  exists n, f. repeat split; auto; try apply Hf. apply in_or_app. right. left. reflexivity.
               ++ destruct (HI1 _ _ Lk) as (n0 & f0 & Hn0 & Ee & F0 & E0).
                  exists n0, f0. repeat split; auto; try apply F0. apply in_or_app. left. exact Hn0.
            -- intros n1 f Hn1 Hf. rewrite lookup_add_forms.
               destruct (existsb (fun f0 => str_eqb (fold f) (fold f0)) (forms_of n)) eqn:X.
               ++ apply existsb_exists in X as (f' & Hf' & Ef). apply str_eqb_spec in Ef.
                  apply in_forms_of in Hf'.
                  assert (Hn1S : In n1 S).
                  { apply in_app_or in Hn1 as [Hn1|[Hn1|[]]].
                    - rewrite ES. apply in_or_app. left. exact Hn1.
                    - subst n1. exact Hn. }
                  rewrite (forms_disjoint n1 n f f' Hn1S Hn Hf Hf' Ef). reflexivity.
               ++ apply in_app_or in Hn1 as [Hn1|[Hn1|[]]].
                  ** apply HI2; assumption.
                  ** subst n1. exfalso.
                     assert (existsb (fun f0 => str_eqb (fold f) (fold f0)) (forms_of n) = true).
                     { apply existsb_exists. exists f. split; [apply in_forms_of; exact Hf | apply str_eqb_refl]. }
                     congruence.
          * exists t'. split; [exact A|]. split; [exact I'|]. rewrite D'. reflexivity.
    Qed.

    Lemma build_table_wf :
      exists t, build_table foldc S = Ok t /\ Inv S (long_form_tags t) /\ duplicate_names t = [].
    Proof.
      unfold build_table. apply (add_all_inv S [] (empty_table)); [reflexivity|].
      split; cbn; [discriminate | tauto].
    Qed.
  End WithSchema.
End WithFold.
