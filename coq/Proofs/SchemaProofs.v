(* Lemmas about the schema tag table (Model/Schema.v): string decomposition at '/',
   characterisation of the registered forms, and of the table of a well-formed schema. *)
From Coq Require Import List NArith Bool Arith Lia.
From HV Require Import Base.Str Base.Res Model.Schema.
Import ListNotations.

(* ------------------------------------------------------------------ generic *)

Lemma str_eqb_refl s : str_eqb s s = true.
Proof. apply str_eqb_spec. reflexivity. Qed.

Lemma str_eqb_false a b : str_eqb a b = false <-> a <> b.
Proof.
  split; intro H.
  - intro E. apply str_eqb_spec in E. congruence.
  - destruct (str_eqb a b) eqn:E; [apply str_eqb_spec in E; contradiction | reflexivity].
Qed.

Lemma slash_eqb_refl : N.eqb ch_slash ch_slash = true.
Proof. reflexivity. Qed.

Lemma last_app_ne {A} (l l' : list A) d : l' <> [] -> last (l ++ l') d = last l' d.
Proof.
  intro H. destruct l' as [|x l'] using rev_ind; [contradiction|].
  rewrite app_assoc, !last_last. reflexivity.
Qed.

Lemma in_removelast {A} (x : A) l : In x (removelast l) -> In x l.
Proof.
  induction l as [|a l IH]; simpl; [tauto|].
  destruct l as [|b l]; [simpl; tauto|]. intros [H|H]; [left; exact H | right; apply IH; exact H].
Qed.

Lemma in_removelast_neq {A} (x d : A) l : In x l -> x <> last l d -> In x (removelast l).
Proof.
  induction l as [|a l IH]; simpl; [tauto|].
  destruct l as [|b l]; intros [H|H] Hn.
  - subst; contradiction.
  - destruct H.
  - left; exact H.
  - right. apply IH; assumption.
Qed.

Lemma removelast_not_last {A} (x d : A) l : NoDup l -> In x (removelast l) -> x <> last l d.
Proof.
  intros ND Hin E.
  destruct l as [|a l]; [destruct Hin|].
  assert (Hne : a :: l <> []) by discriminate.
  rewrite (app_removelast_last d Hne) in ND.
  apply NoDup_remove_2 in ND. rewrite app_nil_r in ND. rewrite <- E in ND. contradiction.
Qed.

(* ------------------------------------------------------------------ tails *)

Lemma tails_app_slash a b :
  tails (a ++ ch_slash :: b) = map (fun t => t ++ ch_slash :: b) (tails a) ++ b :: tails b.
Proof.
  induction a as [|c a IH]; cbn [app tails map].
  - rewrite slash_eqb_refl. reflexivity.
  - destruct (N.eqb c ch_slash); cbn [map app]; rewrite IH; reflexivity.
Qed.

Lemma in_tails f n : In f (tails n) <-> exists pre, n = pre ++ ch_slash :: f.
Proof.
  revert f. induction n as [|c r IH]; intro f; cbn [tails].
  - split; [intros []|]. intros [pre H]. destruct pre; discriminate.
  - split.
    + intro H. destruct (N.eqb c ch_slash) eqn:E.
      * apply N.eqb_eq in E. subst c. destruct H as [H|H].
        -- subst. exists []. reflexivity.
        -- apply IH in H as [pre H]. exists (ch_slash :: pre). rewrite H. reflexivity.
      * apply IH in H as [pre H]. exists (c :: pre). rewrite H. reflexivity.
    + intros [pre H]. destruct pre as [|c' pre]; cbn [app] in H; inversion H; subst.
      * rewrite slash_eqb_refl. left. reflexivity.
      * assert (Hin : In f (tails (pre ++ ch_slash :: f))) by (apply IH; eexists; reflexivity).
        destruct (N.eqb c' ch_slash); [right|]; exact Hin.
Qed.

Lemma tails_shorter f s : In f (tails s) -> length f < length s.
Proof. intro H. apply in_tails in H as [pre H]. subst. rewrite app_length. cbn. lia. Qed.

Lemma tails_nodup s : NoDup (s :: tails s).
Proof.
  induction s as [|c r IH].
  - cbn. constructor; [tauto | constructor].
  - constructor.
    + intro H. apply tails_shorter in H. lia.
    + cbn [tails]. destruct (N.eqb c ch_slash); [exact IH | inversion IH; assumption].
Qed.

(* the slash-suffixes of a name *)
Definition ssuffix (f n : str) : Prop := In f (n :: tails n).

Lemma ssuffix_iff f n : ssuffix f n <-> f = n \/ exists pre, n = pre ++ ch_slash :: f.
Proof.
  unfold ssuffix. cbn [In]. rewrite in_tails. split; intros [H|H]; auto.
Qed.

Lemma ssuffix_trans a b c : ssuffix a b -> ssuffix b c -> ssuffix a c.
Proof.
  rewrite !ssuffix_iff. intros [H1|[p1 H1]] [H2|[p2 H2]].
  - left. congruence.
  - right. exists p2. congruence.
  - right. exists p1. congruence.
  - right. exists (p2 ++ ch_slash :: p1). rewrite H2, H1, <- app_assoc. reflexivity.
Qed.

Lemma ssuffix_app_slash pre f : ssuffix f (pre ++ ch_slash :: f).
Proof. apply ssuffix_iff. right. eexists; reflexivity. Qed.

(* ------------------------------------------------------------------ slash_prefixes *)

Lemma sp_app_slash a b :
  slash_prefixes (a ++ ch_slash :: b) =
  slash_prefixes a ++ map (fun q => a ++ ch_slash :: q) (slash_prefixes b).
Proof.
  induction a as [|c a IH]; cbn [app slash_prefixes].
  - rewrite slash_eqb_refl. reflexivity.
  - rewrite IH, map_app, map_map, app_assoc. reflexivity.
Qed.

Lemma in_sp q w : In q (slash_prefixes w) <-> q = w \/ exists rest, w = q ++ ch_slash :: rest.
Proof.
  revert q. induction w as [|c r IH]; intro q; cbn [slash_prefixes].
  - split.
    + intros [H|[]]. left. auto.
    + intros [H|[rest H]]; [left; auto | destruct q; discriminate].
  - rewrite in_app_iff, in_map_iff. split.
    + intros [H|[q' [E H]]].
      * destruct (N.eqb c ch_slash) eqn:Ec; [|destruct H].
        destruct H as [H|[]]. subst q. apply N.eqb_eq in Ec. subst c. right. exists r. reflexivity.
      * subst q. apply IH in H as [H|[rest H]]; subst; [left; reflexivity|].
        right. exists rest. reflexivity.
    + intros [H|[rest H]].
      * subst q. right. exists r. split; [reflexivity|]. apply IH. left. reflexivity.
      * destruct q as [|c' q']; cbn [app] in H; inversion H; subst.
        -- left. rewrite slash_eqb_refl. left. reflexivity.
        -- right. exists q'. split; [reflexivity|]. apply IH. right. exists rest. reflexivity.
Qed.

Lemma sp_snoc w : exists l, slash_prefixes w = l ++ [w].
Proof.
  induction w as [|c r [l IH]]; cbn [slash_prefixes].
  - exists []. reflexivity.
  - rewrite IH, map_app. cbn [map]. eexists. rewrite app_assoc. reflexivity.
Qed.

Lemma sp_nonempty w : slash_prefixes w <> [].
Proof. destruct (sp_snoc w) as [l H]. rewrite H. destruct l; discriminate. Qed.

Lemma sp_split w : forall ps1 q ps2,
  slash_prefixes w = ps1 ++ q :: ps2 -> ps2 <> [] ->
  exists rest, w = q ++ ch_slash :: rest /\ ps2 = map (fun x => q ++ ch_slash :: x) (slash_prefixes rest).
Proof.
  induction w as [|c r IH]; intros ps1 q ps2 H Hne; cbn [slash_prefixes] in H.
  - destruct ps1 as [|a [|b ps1]]; cbn in H; inversion H; subst; try contradiction.
  - assert (Hmap : forall ps1', map (cons c) (slash_prefixes r) = ps1' ++ q :: ps2 ->
              exists rest, c :: r = q ++ ch_slash :: rest /\
                           ps2 = map (fun x => q ++ ch_slash :: x) (slash_prefixes rest)).
    { intros ps1' Hm. apply map_eq_app in Hm as (l1 & l2 & E & M1 & M2).
      apply map_eq_cons in M2 as (q0 & l3 & E2 & Eq & M3). subst l2.
      destruct (IH l1 q0 l3 E) as (rest & Er & E3).
      { intro Z. subst l3. cbn in M3. subst ps2. contradiction. }
      exists rest. subst q r. split; [reflexivity|]. rewrite <- M3, E3, map_map. reflexivity. }
    destruct (N.eqb c ch_slash) eqn:Ec.
    + apply N.eqb_eq in Ec. subst c. destruct ps1 as [|a ps1]; cbn [app] in H; inversion H; subst.
      * exists r. split; reflexivity.
      * apply (Hmap ps1). assumption.
    + cbn [app] in H. apply (Hmap ps1). exact H.
Qed.

(* ------------------------------------------------------------------ last component *)

Lemma last_in {A} (l : list A) d : l <> [] -> In (last l d) l.
Proof.
  intro H. rewrite (app_removelast_last d H) at 2. apply in_or_app. right. left. reflexivity.
Qed.

Lemma last_map {A B} (f : A -> B) l d : last (map f l) (f d) = f (last l d).
Proof. induction l as [|a [|b l] IH]; cbn in *; auto. Qed.

Lemma last_map_app (l : list str) s : l <> [] -> last (map (fun t => t ++ s) l) [] = last l [] ++ s.
Proof.
  induction l as [|a [|b l] IH]; intro H; [contradiction | reflexivity |].
  cbn [map last] in *. apply IH. discriminate.
Qed.

Lemma last_comp_ssuffix n : ssuffix (last_comp n) n.
Proof. unfold ssuffix, last_comp. apply last_in. discriminate. Qed.

Lemma last_comp_of_ssuffix f n : ssuffix f n -> last_comp f = last_comp n.
Proof.
  intro H. apply ssuffix_iff in H as [H|[pre H]]; [congruence|].
  subst n. unfold last_comp. rewrite tails_app_slash.
  change ((pre ++ ch_slash :: f) :: map (fun t => t ++ ch_slash :: f) (tails pre) ++ f :: tails f)
    with (((pre ++ ch_slash :: f) :: map (fun t => t ++ ch_slash :: f) (tails pre)) ++ f :: tails f).
  rewrite last_app_ne by discriminate. reflexivity.
Qed.

Lemma tails_hash : tails s_hash = [].
Proof. reflexivity. Qed.

Lemma hash_ssuffix_last n : ssuffix s_hash n -> last_comp n = s_hash.
Proof. intro H. rewrite <- (last_comp_of_ssuffix _ _ H). reflexivity. Qed.

Lemma is_value_true n : is_value n = true <-> last_comp n = s_hash.
Proof. unfold is_value. apply str_eqb_spec. Qed.

Lemma is_value_false n : is_value n = false <-> last_comp n <> s_hash.
Proof. unfold is_value. apply str_eqb_false. Qed.

Lemma value_name_shape n : is_value n = true -> n = s_hash \/ exists m, n = m ++ s_slash_hash.
Proof.
  intro H. apply is_value_true in H. pose proof (last_comp_ssuffix n) as Hs. rewrite H in Hs.
  apply ssuffix_iff in Hs as [Hs|[pre Hs]]; [left; congruence | right; exists pre; exact Hs].
Qed.

Lemma value_of_app m : is_value (m ++ s_slash_hash) = true.
Proof. apply is_value_true. apply hash_ssuffix_last. apply ssuffix_app_slash. Qed.

(* slash-suffixes of a value name m/# *)
Lemma ssuffix_value f m :
  ssuffix f (m ++ s_slash_hash) -> f = s_hash \/ exists g, f = g ++ s_slash_hash /\ ssuffix g m.
Proof.
  unfold ssuffix, s_slash_hash. rewrite tails_app_slash. change (tails [ch_hash]) with (@nil str). cbn [In].
  rewrite in_app_iff, in_map_iff. intros [H|[[t [E H]]|H]].
  - right. exists m. split; [auto | left; reflexivity].
  - right. exists t. split; [auto | right; exact H].
  - cbn in H. destruct H as [H|[]]. left. auto.
Qed.

Lemma ends_slash_hash_app m : ends_slash_hash (m ++ s_slash_hash) = true.
Proof.
  unfold ends_slash_hash. rewrite app_length. cbn [length s_slash_hash].
  replace (length m + 2 - 2) with (length m + 0) by lia.
  rewrite skipn_app, Nat.add_0_r, skipn_all, Nat.sub_diag. cbn. reflexivity.
Qed.

Lemma ends_slash_hash_inv n : ends_slash_hash n = true -> exists m, n = m ++ s_slash_hash.
Proof.
  unfold ends_slash_hash. intro H. apply str_eqb_spec in H.
  exists (firstn (length n - 2) n). rewrite <- H. symmetry. apply firstn_skipn.
Qed.

Lemma drop_last2_app m : drop_last2 (m ++ s_slash_hash) = m.
Proof.
  unfold drop_last2. rewrite app_length. cbn [length s_slash_hash].
  replace (length m + 2 - 2) with (length m + 0) by lia.
  rewrite firstn_app_2. cbn. apply app_nil_r.
Qed.

Lemma ends_slash_hash_value n : ends_slash_hash n = is_value n \/ n = s_hash.
Proof.
  destruct (ends_slash_hash n) eqn:E.
  - left. apply ends_slash_hash_inv in E as [m E]. subst. symmetry. apply value_of_app.
  - destruct (is_value n) eqn:V; [|left; reflexivity].
    apply value_name_shape in V as [V|[m V]]; [right; exact V|].
    subst. rewrite ends_slash_hash_app in E. discriminate.
Qed.

(* ------------------------------------------------------------------ get_tag_forms / create_tag_entry *)

Definition forms_of (n : str) : list str :=
  if is_value n then removelast (n :: tails n) else n :: tails n.

Definition is_form (f n : str) : Prop := ssuffix f n /\ f <> s_hash.

Lemma filter_all {A} (p : A -> bool) l : (forall x, In x l -> p x = true) -> filter p l = l.
Proof.
  induction l as [|a l IH]; intro H; cbn; [reflexivity|].
  rewrite (H a (or_introl eq_refl)), IH; [reflexivity|]. intros x Hx. apply H. right. exact Hx.
Qed.

Lemma name_ok_parts n : name_ok n = true ->
  n <> [] /\ last n 0%N <> ch_slash /\ ~ In ch_colon n.
Proof.
  unfold name_ok. intro H. apply andb_true_iff in H as [H H3]. apply andb_true_iff in H as [H1 H2].
  repeat split.
  - destruct n; [discriminate | discriminate].
  - apply negb_true_iff in H2. intro E. rewrite E in H2. discriminate.
  - apply negb_true_iff in H3. intro Hin.
    assert (existsb (N.eqb ch_colon) n = true) by (apply existsb_exists; exists ch_colon; split; [exact Hin | reflexivity]).
    congruence.
Qed.

Lemma ssuffix_nonempty n t : name_ok n = true -> ssuffix t n -> t <> [].
Proof.
  intros H Hs. apply name_ok_parts in H as (H1 & H2 & _).
  apply ssuffix_iff in Hs as [Hs|[pre Hs]]; [congruence|].
  intro E. subst t n. apply H2. apply last_last.
Qed.

Lemma get_tag_forms_ok n : name_ok n = true -> get_tag_forms n = Ok (last_comp n, forms_of n).
Proof.
  intro H. pose proof (name_ok_parts n H) as (H1 & _).
  unfold get_tag_forms. destruct n as [|c r]; [contradiction|].
  rewrite filter_all.
  - unfold forms_of, is_value, last_comp. reflexivity.
  - intros x Hx. destruct x; [|reflexivity]. exfalso. exact (ssuffix_nonempty _ _ H Hx eq_refl).
Qed.

Lemma in_forms_of f n : In f (forms_of n) <-> is_form f n.
Proof.
  unfold forms_of, is_form, ssuffix. destruct (is_value n) eqn:V.
  - apply is_value_true in V. unfold last_comp in V. split.
    + intro H. split; [apply in_removelast; exact H|].
      rewrite <- V. apply removelast_not_last; [apply tails_nodup | exact H].
    + intros [H1 H2]. apply (in_removelast_neq f ([] : str)); [exact H1 | rewrite V; exact H2].
  - apply is_value_false in V. split; [|tauto].
    intro H. split; [exact H|]. intro E. subst f. apply V. apply hash_ssuffix_last. exact H.
Qed.

Lemma self_form n : n <> s_hash -> is_form n n.
Proof. intro H. split; [left; reflexivity | exact H]. Qed.

Lemma last_comp_form n : is_value n = false -> is_form (last_comp n) n.
Proof. intro V. split; [apply last_comp_ssuffix | apply is_value_false; exact V]. Qed.

Lemma forms_of_value m :
  forms_of (m ++ s_slash_hash) = map (fun t => t ++ s_slash_hash) (m :: tails m).
Proof.
  unfold forms_of. rewrite value_of_app. unfold s_slash_hash. rewrite tails_app_slash. change (tails [ch_hash]) with (@nil str).
  change ((m ++ [ch_slash; ch_hash]) :: map (fun t => t ++ [ch_slash; ch_hash]) (tails m) ++ [[ch_hash]])
    with (map (fun t => t ++ [ch_slash; ch_hash]) (m :: tails m) ++ [[ch_hash]]).
  apply removelast_last.
Qed.

(* the entry created for a name *)
Definition ent (n : str) : entry :=
  if is_value n then mkEntry n (drop_last2 n) (last_comp (drop_last2 n))
  else mkEntry n n (last_comp n).

Lemma create_tag_entry_ok n : name_ok n = true -> n <> s_hash -> create_tag_entry n = Ok (ent n).
Proof.
  intros H Hn. unfold create_tag_entry. rewrite (get_tag_forms_ok n H). cbn [bind snd].
  assert (Hin : In n (forms_of n)) by (apply in_forms_of, self_form; exact Hn).
  destruct (forms_of n) as [|x fs] eqn:E; [destruct Hin|]. rewrite <- E. clear Hin.
  unfold ent. destruct (ends_slash_hash_value n) as [EV|EV]; [|contradiction].
  rewrite EV. destruct (is_value n) eqn:V.
  - apply value_name_shape in V as [V|[m V]]; [contradiction|]. subst n.
    rewrite forms_of_value, drop_last2_app.
    rewrite last_map_app by discriminate.
    change (last (m :: tails m) []) with (last_comp m).
    rewrite drop_last2_app. reflexivity.
  - unfold forms_of. rewrite V. reflexivity.
Qed.

Lemma ent_name n : e_name (ent n) = n.
Proof. unfold ent. destruct (is_value n); reflexivity. Qed.

(* ------------------------------------------------------------------ generic list facts *)

Lemma NoDup_map_inj {A B} (g : A -> B) l a b :
  NoDup (map g l) -> In a l -> In b l -> g a = g b -> a = b.
Proof.
  induction l as [|x l IH]; intros ND Ha Hb E; [destruct Ha|].
  cbn in ND. inversion ND as [|y l' Hn ND']; subst.
  destruct Ha as [Ha|Ha], Hb as [Hb|Hb]; subst; auto.
  - exfalso. apply Hn. rewrite E. apply in_map. exact Hb.
  - exfalso. apply Hn. rewrite <- E. apply in_map. exact Ha.
Qed.

(* ------------------------------------------------------------------ case folding *)

(* strings without '/' in front of other text *)
Lemma tails_app_noslash w x : ~ In ch_slash w -> tails (w ++ x) = tails x.
Proof.
  induction w as [|c w IH]; intro H; [reflexivity|]. cbn [app tails].
  destruct (N.eqb c ch_slash) eqn:E.
  - exfalso. apply H. left. apply N.eqb_eq in E. auto.
  - apply IH. intro Hin. apply H. right. exact Hin.
Qed.

Lemma sp_app_noslash w x : ~ In ch_slash w -> slash_prefixes (w ++ x) = map (app w) (slash_prefixes x).
Proof.
  induction w as [|c w IH]; intro H; cbn [app].
  - rewrite map_id. reflexivity.
  - cbn [slash_prefixes]. destruct (N.eqb c ch_slash) eqn:E.
    + exfalso. apply H. left. apply N.eqb_eq in E. auto.
    + rewrite IH, map_map; [reflexivity|]. intro Hin. apply H. right. exact Hin.
Qed.

Lemma split_nonempty s : split_slash s <> [].
Proof.
  induction s as [|c r IH]; cbn [split_slash]; [discriminate|].
  destruct (N.eqb c ch_slash); [discriminate|]. destruct (split_slash r); discriminate.
Qed.

Lemma split_app_noslash w x : ~ In ch_slash w ->
  split_slash (w ++ x) = match split_slash x with [] => [w] | y :: ys => (w ++ y) :: ys end.
Proof.
  induction w as [|c w IH]; intro H; cbn [app].
  - destruct (split_slash x) eqn:Es; [exfalso; exact (split_nonempty x Es) | reflexivity].
  - cbn [split_slash]. destruct (N.eqb c ch_slash) eqn:E.
    + exfalso. apply H. left. apply N.eqb_eq in E. auto.
    + rewrite IH by (intro Hin; apply H; right; exact Hin).
      destruct (split_slash x); reflexivity.
Qed.

Lemma app_eq_app_slash (w x a b : str) :
  ~ In ch_slash w -> w ++ x = a ++ ch_slash :: b -> exists a', a = w ++ a' /\ x = a' ++ ch_slash :: b.
Proof.
  revert a. induction w as [|y w IH]; intros a H E.
  - exists a. auto.
  - destruct a as [|z a]; cbn [app] in E.
    + exfalso. apply H. left. congruence.
    + assert (y = z) by congruence. subst z. assert (E' : w ++ x = a ++ ch_slash :: b) by congruence.
      destruct (IH a) as (a' & Ea & Ex); [intro Hin; apply H; right; exact Hin | exact E'|].
      exists a'. subst a. auto.
Qed.

Section WithFold.
  Variable foldc : N -> str.
  (* the folding keeps '/' and '#' apart from everything else and erases nothing *)
  Hypothesis fold_slash : foldc ch_slash = [ch_slash] /\ forall c, In ch_slash (foldc c) -> c = ch_slash.
  Hypothesis fold_hash : foldc ch_hash = [ch_hash] /\ (forall c, foldc c = [ch_hash] -> c = ch_hash) /\
                         forall c, foldc c <> [].
  Notation fold := (fold foldc).
  Notation lookup := lookup.

  Lemma foldc_slash : foldc ch_slash = [ch_slash].
  Proof. exact (proj1 fold_slash). Qed.

  Lemma foldc_hash : foldc ch_hash = [ch_hash].
  Proof. exact (proj1 fold_hash). Qed.

  Lemma foldc_noslash c : N.eqb c ch_slash = false -> ~ In ch_slash (foldc c).
  Proof.
    intros E H. apply (proj2 fold_slash) in H. subst c. discriminate.
  Qed.

  Lemma fold_cons c s : fold (c :: s) = foldc c ++ fold s.
  Proof. reflexivity. Qed.

  Lemma fold_app a b : fold (a ++ b) = fold a ++ fold b.
  Proof. apply flat_map_app. Qed.

  Lemma fold_s_hash : fold s_hash = s_hash.
  Proof. unfold s_hash. rewrite fold_cons, foldc_hash. reflexivity. Qed.

  Lemma fold_s_slash_hash : fold s_slash_hash = s_slash_hash.
  Proof. unfold s_slash_hash. rewrite !fold_cons, foldc_hash, foldc_slash. reflexivity. Qed.

  Lemma fold_app_slash a b : fold (a ++ ch_slash :: b) = fold a ++ ch_slash :: fold b.
  Proof. rewrite fold_app, fold_cons, foldc_slash. reflexivity. Qed.

  Lemma fold_eq_nil s : fold s = [] -> s = [].
  Proof.
    destruct s as [|c s]; [reflexivity|]. rewrite fold_cons. intro H.
    apply app_eq_nil in H as [H _]. exfalso. exact (proj2 (proj2 fold_hash) c H).
  Qed.

  Lemma fold_eq_hash s : fold s = s_hash -> s = s_hash.
  Proof.
    destruct s as [|c s]; [discriminate|]. rewrite fold_cons. intro H.
    destruct (foldc c) as [|x w] eqn:E; [exfalso; exact (proj2 (proj2 fold_hash) c E)|].
    cbn [app] in H. unfold s_hash in H. assert (x = ch_hash) by congruence. subst x.
    assert (Hw : w ++ fold s = []) by congruence. apply app_eq_nil in Hw as [Hw Hs]. subst w.
    apply fold_eq_nil in Hs. subst s. unfold s_hash. f_equal. exact (proj1 (proj2 fold_hash) c E).
  Qed.

  (* a '/' of the folded text comes from a '/' of the text *)
  Lemma fold_eq_app_slash s : forall a b,
    fold s = a ++ ch_slash :: b -> exists s1 s2, s = s1 ++ ch_slash :: s2 /\ fold s1 = a /\ fold s2 = b.
  Proof.
    induction s as [|c s IH]; intros a b H.
    - destruct a; discriminate.
    - rewrite fold_cons in H. destruct (N.eqb c ch_slash) eqn:Ec.
      + apply N.eqb_eq in Ec. subst c. rewrite foldc_slash in H. cbn [app] in H.
        destruct a as [|x a]; cbn [app] in H.
        * exists [], s. repeat split. congruence.
        * assert (x = ch_slash) by congruence. subst x.
          assert (H' : fold s = a ++ ch_slash :: b) by congruence.
          destruct (IH _ _ H') as (s1 & s2 & E & F1 & F2). exists (ch_slash :: s1), s2. subst s.
          repeat split; auto. rewrite fold_cons, foldc_slash, F1. reflexivity.
      + destruct (app_eq_app_slash _ _ _ _ (foldc_noslash c Ec) H) as (a' & Ea & Ex).
        destruct (IH _ _ Ex) as (s1 & s2 & E & F1 & F2). exists (c :: s1), s2. subst s a.
        repeat split; auto. rewrite fold_cons, F1. reflexivity.
  Qed.

  Lemma fold_eq_cons_slash s rest :
    fold s = ch_slash :: rest -> exists r, s = ch_slash :: r /\ fold r = rest.
  Proof.
    intro H. destruct (fold_eq_app_slash s [] rest H) as (s1 & s2 & E & F1 & F2).
    apply fold_eq_nil in F1. subst s1. exists s2. auto.
  Qed.

  Lemma tails_fold s : tails (fold s) = map fold (tails s).
  Proof.
    induction s as [|c r IH]; [reflexivity|]. rewrite fold_cons. cbn [tails].
    destruct (N.eqb c ch_slash) eqn:E.
    - apply N.eqb_eq in E. subst c. rewrite foldc_slash. cbn [app tails map]. rewrite slash_eqb_refl, IH. reflexivity.
    - rewrite tails_app_noslash by (apply foldc_noslash; exact E). exact IH.
  Qed.

  Lemma sp_fold s : slash_prefixes (fold s) = map fold (slash_prefixes s).
  Proof.
    induction s as [|c r IH]; [reflexivity|]. rewrite fold_cons. cbn [slash_prefixes].
    destruct (N.eqb c ch_slash) eqn:E.
    - apply N.eqb_eq in E. subst c. rewrite foldc_slash. cbn [app slash_prefixes map]. rewrite slash_eqb_refl, IH.
      cbn [app map]. rewrite !map_map. f_equal. apply map_ext. intro x.
      rewrite fold_cons, foldc_slash. reflexivity.
    - rewrite sp_app_noslash by (apply foldc_noslash; exact E). rewrite IH. cbn [app]. rewrite !map_map. reflexivity.
  Qed.

  Lemma split_fold s : split_slash (fold s) = map fold (split_slash s).
  Proof.
    induction s as [|c r IH]; [reflexivity|]. rewrite fold_cons. cbn [split_slash].
    destruct (N.eqb c ch_slash) eqn:E.
    - apply N.eqb_eq in E. subst c. rewrite foldc_slash. cbn [app split_slash map]. rewrite slash_eqb_refl, IH. reflexivity.
    - rewrite split_app_noslash by (apply foldc_noslash; exact E). rewrite IH.
      destruct (split_slash r) as [|w ws] eqn:Es; [exfalso; exact (split_nonempty r Es)|].
      cbn [map]. rewrite fold_cons. reflexivity.
  Qed.

  Lemma last_comp_fold n : last_comp (fold n) = fold (last_comp n).
  Proof.
    unfold last_comp. rewrite tails_fold.
    change (fold n :: map fold (tails n)) with (map fold (n :: tails n)).
    change ([] : str) with (fold []) at 1. apply last_map.
  Qed.

  Lemma ssuffix_fold f n : ssuffix f n -> ssuffix (fold f) (fold n).
  Proof.
    unfold ssuffix. rewrite tails_fold.
    change (fold n :: map fold (tails n)) with (map fold (n :: tails n)). apply in_map.
  Qed.

  (* ---------------------------------------------------------------- well-formed schemas *)

  Record WF (S : list str) : Prop := {
    wf_names : forall n, In n S -> name_ok n = true;
    wf_closed : forall n q, In n S -> In q (slash_prefixes n) -> In q S;
    wf_nothash : forall n, In n S -> n <> s_hash;
    wf_hash : forall n q, In n S -> In q (slash_prefixes n) -> q <> n -> is_value q = false;
    wf_unique : NoDup (short_keys foldc S)
  }.

  Lemma seqb_str_eqb a b : seqb a b = str_eqb a b.
  Proof.
    revert b. induction a as [|x a IH]; destruct b as [|y b]; cbn [seqb str_eqb]; reflexivity.
  Qed.

  Lemma mem_In s l : mem s l = true <-> In s l.
  Proof.
    induction l as [|x l IH]; cbn [mem In]; [split; [discriminate | tauto]|].
    rewrite seqb_str_eqb. destruct (str_eqb s x) eqn:E.
    - apply str_eqb_spec in E. split; [intros _; left; congruence | reflexivity].
    - apply str_eqb_false in E. rewrite IH. split; [auto | intros [H|H]; [congruence | exact H]].
  Qed.

  Lemma nodupb_NoDup l : nodupb l = true -> NoDup l.
  Proof.
    induction l as [|x l IH]; cbn; intro H; constructor; apply andb_true_iff in H as [H1 H2].
    - apply negb_true_iff in H1. intro Hin. apply mem_In in Hin. congruence.
    - apply IH. exact H2.
  Qed.

  (* every name's immediate parent is a name => every slash-prefix of a name is a name *)
  Lemma parents_closed S :
    (forall n, In n S -> parent_closed (map (@rev N) S) n = true) ->
    forall k n q, length n <= k -> In n S -> In q (slash_prefixes n) -> In q S.
  Proof.
    intros HP k. induction k as [|k IH]; intros n q Hk Hn Hq.
    - destruct n; [|cbn in Hk; lia]. cbn in Hq. destruct Hq as [Hq|[]]. subst q. exact Hn.
    - destruct (sp_snoc n) as [l El]. rewrite El in Hq. apply in_app_or in Hq as [Hq|[Hq|[]]]; [|subst q; exact Hn].
      destruct l as [|x l'] using rev_ind; [destruct Hq|]. clear IHl'.
      pose proof (HP n Hn) as Hp. unfold parent_closed in Hp. rewrite El, rev_app_distr, rev_app_distr in Hp.
      cbn [rev app] in Hp. apply mem_In in Hp. apply in_map_iff in Hp as (x' & Ex & Hx).
      apply (f_equal (@rev N)) in Ex. rewrite !rev_involutive in Ex. subst x'.
      assert (Esp : slash_prefixes n = l' ++ x :: [n]) by (rewrite El, <- app_assoc; reflexivity).
      destruct (sp_split n l' x [n] Esp) as (rest & En & Emap); [discriminate|].
      assert (Hl : l' ++ [x] = slash_prefixes x).
      { pose proof (sp_app_slash x rest) as Hs. rewrite <- Emap, <- En in Hs. rewrite El in Hs.
        apply app_inv_tail in Hs. exact Hs. }
      rewrite Hl in Hq. apply (IH x q); auto.
      rewrite En, app_length in Hk. cbn in Hk. lia.
  Qed.

  Lemma sp_trans q p n : In q (slash_prefixes p) -> In p (slash_prefixes n) -> In q (slash_prefixes n).
  Proof.
    rewrite !in_sp. intros [H1|[r1 H1]] [H2|[r2 H2]]; subst; auto.
    - right. exists r2. reflexivity.
    - right. exists r1. reflexivity.
    - right. exists (r1 ++ ch_slash :: r2). rewrite <- app_assoc. reflexivity.
  Qed.

  Lemma sp_of_parent n p : parent_of n = Some p -> slash_prefixes n = slash_prefixes p ++ [n].
  Proof.
    unfold parent_of. destruct (sp_snoc n) as [l El]. rewrite El, rev_app_distr. cbn [rev app].
    destruct l as [|x l'] using rev_ind; [discriminate|]. clear IHl'.
    rewrite rev_app_distr. cbn [rev app]. intro H. inversion H; subst x.
    assert (Esp : slash_prefixes n = l' ++ p :: [n]) by (rewrite El, <- app_assoc; reflexivity).
    destruct (sp_split n l' p [n] Esp) as (rest & En & Emap); [discriminate|].
    pose proof (sp_app_slash p rest) as Hs. rewrite <- Emap, <- En in Hs. rewrite <- El. exact Hs.
  Qed.

  Lemma sp_no_parent n : parent_of n = None -> slash_prefixes n = [n].
  Proof.
    unfold parent_of. destruct (sp_snoc n) as [l El]. rewrite El, rev_app_distr. cbn [rev app].
    destruct l as [|x l'] using rev_ind; [reflexivity|]. rewrite rev_app_distr. discriminate.
  Qed.

  Lemma preorder_closed : forall l done prev,
    preorder_ok prev l = true ->
    (forall pv, prev = Some pv -> forall q, In q (slash_prefixes pv) -> In q done) ->
    forall n q, In n l -> In q (slash_prefixes n) -> In q (done ++ l).
  Proof.
    induction l as [|n0 r IH]; intros done prev H Hp n q Hn Hq; [destruct Hn|].
    cbn [preorder_ok] in H.
    assert (Hn0 : forall q0, In q0 (slash_prefixes n0) -> In q0 (done ++ [n0]) /\ preorder_ok (Some n0) r = true).
    { destruct (parent_of n0) as [p|] eqn:P.
      - destruct prev as [pv|]; [|discriminate].
        destruct (mem p (slash_prefixes pv)) eqn:M; [|discriminate]. apply mem_In in M.
        intros q0 Hq0. split; [|exact H]. rewrite (sp_of_parent n0 p P) in Hq0.
        apply in_app_or in Hq0 as [Hq0|[Hq0|[]]].
        + apply in_or_app. left. apply (Hp pv eq_refl). exact (sp_trans q0 p pv Hq0 M).
        + subst q0. apply in_or_app. right. left. reflexivity.
      - intros q0 Hq0. split; [|exact H]. rewrite (sp_no_parent n0 P) in Hq0. destruct Hq0 as [Hq0|[]].
        subst q0. apply in_or_app. right. left. reflexivity. }
    destruct Hn as [Hn|Hn].
    - subst n0. destruct (Hn0 q Hq) as [A _]. apply in_app_or in A as [A|[A|[]]].
      + apply in_or_app. left. exact A.
      + subst q. apply in_or_app. right. left. reflexivity.
    - assert (Hr : preorder_ok (Some n0) r = true) by (exact (proj2 (Hn0 n0 (proj2 (in_sp n0 n0) (or_introl eq_refl))))).
      replace (done ++ n0 :: r) with ((done ++ [n0]) ++ r) by (rewrite <- app_assoc; reflexivity).
      apply (IH (done ++ [n0]) (Some n0) Hr) with (n := n); auto.
      intros pv Epv q0 Hq0. inversion Epv; subst pv. exact (proj1 (Hn0 q0 Hq0)).
  Qed.

  Lemma WFschema_WF S : WFschema foldc S = true -> WF S.
  Proof.
    unfold WFschema. intro H. apply andb_true_iff in H as [H H4]. apply andb_true_iff in H as [H H3].
    apply andb_true_iff in H as [H1 H2].
    rewrite forallb_forall in H1, H3.
    constructor.
    - exact H1.
    - intros n q Hn Hq. unfold parents_ok in H2. destruct (preorder_ok None S) eqn:PO.
      + apply (preorder_closed S [] None PO) with (n := n); [discriminate | exact Hn | exact Hq].
      + rewrite forallb_forall in H2. apply (parents_closed S H2 (length n) n q); auto.
    - intros n Hn E. specialize (H3 n Hn). unfold hash_leaf in H3. apply andb_true_iff in H3 as [H3 _].
      subst n. rewrite str_eqb_refl in H3. discriminate.
    - intros n q Hn Hq Hne. specialize (H3 n Hn). unfold hash_leaf in H3. apply andb_true_iff in H3 as [_ H3].
      rewrite forallb_forall in H3. specialize (H3 q Hq). apply orb_true_iff in H3 as [H3|H3].
      + apply str_eqb_spec in H3. contradiction.
      + apply negb_true_iff in H3. exact H3.
    - apply nodupb_NoDup. exact H4.
  Qed.

  Section WithSchema.
    Variable S : list str.
    Hypothesis wf : WF S.

    (* unique folded short names *)
    Lemma wf_short_inj n1 n2 :
      In n1 S -> In n2 S -> is_value n1 = false -> is_value n2 = false ->
      fold (last_comp n1) = fold (last_comp n2) -> n1 = n2.
    Proof.
      intros H1 H2 V1 V2 E.
      apply (NoDup_map_inj (fun n => fold (last_comp n)) (filter (fun n => negb (is_value n)) S)).
      - exact (wf_unique S wf).
      - apply filter_In. rewrite V1. auto.
      - apply filter_In. rewrite V2. auto.
      - exact E.
    Qed.

    (* a value name is m/# with m a registered non-value name *)
    Lemma wf_value n : In n S -> is_value n = true ->
      exists m, n = m ++ s_slash_hash /\ In m S /\ is_value m = false.
    Proof.
      intros Hn V. apply value_name_shape in V as [V|[m V]]; [exfalso; exact (wf_nothash S wf n Hn V)|].
      exists m. split; [exact V|].
      assert (Hq : In m (slash_prefixes n)) by (apply in_sp; right; eexists; exact V).
      split; [exact (wf_closed S wf n m Hn Hq)|].
      apply (wf_hash S wf n m Hn Hq). intro E. rewrite <- E in V at 1.
      apply (f_equal (@length N)) in V. rewrite app_length in V. cbn in V. lia.
    Qed.

    (* forms of different registered names never fold to the same key *)
    Lemma forms_disjoint_nv n1 n2 f1 f2 :
      In n1 S -> In n2 S -> is_value n1 = false -> is_value n2 = false ->
      ssuffix f1 n1 -> ssuffix f2 n2 -> fold f1 = fold f2 -> n1 = n2.
    Proof.
      intros H1 H2 V1 V2 S1 S2 E. apply wf_short_inj; auto.
      rewrite <- (last_comp_of_ssuffix _ _ S1), <- (last_comp_of_ssuffix _ _ S2), <- !last_comp_fold, E.
      reflexivity.
    Qed.

    Lemma forms_disjoint n1 n2 f1 f2 :
      In n1 S -> In n2 S -> is_form f1 n1 -> is_form f2 n2 -> fold f1 = fold f2 -> n1 = n2.
    Proof.
      intros H1 H2 [S1 N1] [S2 N2] E.
      assert (LC : fold (last_comp n1) = fold (last_comp n2)).
      { rewrite <- (last_comp_of_ssuffix _ _ S1), <- (last_comp_of_ssuffix _ _ S2), <- !last_comp_fold, E.
        reflexivity. }
      destruct (is_value n1) eqn:V1, (is_value n2) eqn:V2.
      - destruct (wf_value n1 H1 V1) as (m1 & E1 & M1 & W1).
        destruct (wf_value n2 H2 V2) as (m2 & E2 & M2 & W2).
        subst n1 n2.
        apply ssuffix_value in S1 as [S1|(g1 & G1 & S1)]; [contradiction|].
        apply ssuffix_value in S2 as [S2|(g2 & G2 & S2)]; [contradiction|].
        subst f1 f2. rewrite !fold_app, fold_s_slash_hash in E. apply app_inv_tail in E.
        f_equal. exact (forms_disjoint_nv m1 m2 g1 g2 M1 M2 W1 W2 S1 S2 E).
      - exfalso. apply is_value_true in V1. apply is_value_false in V2. apply V2.
        apply fold_eq_hash. rewrite <- LC, V1. apply fold_s_hash.
      - exfalso. apply is_value_true in V2. apply is_value_false in V1. apply V1.
        apply fold_eq_hash. rewrite LC, V2. apply fold_s_hash.
      - exact (forms_disjoint_nv n1 n2 f1 f2 H1 H2 V1 V2 S1 S2 E).
    Qed.

    (* ---------------------------------------------------------------- the table *)

    Lemma lookup_add_forms k e forms l :
      lookup k (add_forms foldc e forms l) =
      if existsb (fun f => str_eqb k (fold f)) forms then Some e else lookup k l.
    Proof.
      revert l. induction forms as [|f fs IH]; intro l; [reflexivity|].
      unfold add_forms in *. cbn [fold_left existsb]. rewrite IH. cbn [Schema.lookup].
      change (seqb k (fold f)) with (str_eqb k (fold f)).
      destruct (str_eqb k (fold f)); cbn [orb]; [|reflexivity].
      destruct (existsb (fun f0 => str_eqb k (fold f0)) fs); reflexivity.
    Qed.

    (* what the table holds after the names in [done] were registered *)
    Definition Inv (done : list str) (l : list (str * entry)) : Prop :=
      (forall k e, lookup k l = Some e -> exists n f, In n done /\ e = ent n /\ is_form f n /\ fold f = k) /\
      (forall n f, In n done -> is_form f n -> lookup (fold f) l = Some (ent n)).

    Lemma short_keys_app a b : short_keys foldc (a ++ b) = short_keys foldc a ++ short_keys foldc b.
    Proof. unfold short_keys. rewrite filter_app, map_app. reflexivity. Qed.

    Lemma add_all_inv : forall todo done t,
      S = done ++ todo -> Inv done (long_form_tags t) ->
      exists t', add_all foldc t todo = Ok t' /\ Inv S (long_form_tags t') /\
                 duplicate_names t' = duplicate_names t.
    Proof.
      induction todo as [|n todo IH]; intros done t ES HI.
      - exists t. rewrite app_nil_r in ES. subst done. auto.
      - assert (Hn : In n S) by (rewrite ES; apply in_or_app; right; left; reflexivity).
        pose proof (wf_names S wf n Hn) as Hok. pose proof (wf_nothash S wf n Hn) as Hnh.
        cbn [add_all]. unfold add_tag.
        rewrite (create_tag_entry_ok n Hok Hnh), (get_tag_forms_ok n Hok). cbn [bind fst snd].
        destruct HI as [HI1 HI2].
        destruct (lookup (fold (last_comp n)) (long_form_tags t)) as [e0|] eqn:L.
        + exfalso. destruct (HI1 _ _ L) as (n0 & f0 & Hn0 & _ & F0 & E0).
          destruct (is_value n) eqn:V.
          * apply is_value_true in V. rewrite V, fold_s_hash in E0. apply fold_eq_hash in E0.
            destruct F0 as [_ F0]. contradiction.
          * assert (Hn0S : In n0 S) by (rewrite ES; apply in_or_app; left; exact Hn0).
            pose proof (forms_disjoint n0 n f0 (last_comp n) Hn0S Hn F0 (last_comp_form n V) E0) as EQ.
            subst n0. pose proof (wf_unique S wf) as ND. rewrite ES, short_keys_app in ND.
            unfold short_keys at 2 in ND. cbn [filter] in ND. rewrite V in ND. cbn [negb map] in ND.
            apply NoDup_remove_2 in ND. apply ND. apply in_or_app. left.
            unfold short_keys. apply (in_map (fun n => fold (last_comp n))). apply filter_In.
            rewrite V. auto.
        + cbn [bind]. match goal with |- exists t', add_all foldc ?T todo = _ /\ _ => 
            destruct (IH (done ++ [n]) T) as (t' & A & I' & D') end.
          * rewrite ES, <- app_assoc. reflexivity.
          * cbn [long_form_tags]. split.
            -- intros k e Lk. rewrite lookup_add_forms in Lk.
               destruct (existsb (fun f => str_eqb k (fold f)) (forms_of n)) eqn:X.
               ++ inversion Lk; subst e. apply existsb_exists in X as (f & Hf & Ef).
                  apply str_eqb_spec in Ef. apply in_forms_of in Hf.
                  exists n, f. repeat split; auto; try apply Hf. apply in_or_app. right. left. reflexivity.
               ++ destruct (HI1 _ _ Lk) as (n0 & f0 & Hn0 & Ee & F0 & E0).
                  exists n0, f0. repeat split; auto; try apply F0. apply in_or_app. left. exact Hn0.
            -- intros n1 f Hn1 Hf. rewrite lookup_add_forms.
               destruct (existsb (fun f0 => str_eqb (fold f) (fold f0)) (forms_of n)) eqn:X.
               ++ apply existsb_exists in X as (f' & Hf' & Ef). apply str_eqb_spec in Ef.
                  apply in_forms_of in Hf'.
                  assert (Hn1S : In n1 S).
                  { apply in_app_or in Hn1 as [Hn1|[Hn1|[]]].
                    - rewrite ES. apply in_or_app. left. exact Hn1.
                    - subst n1. exact Hn. }
                  rewrite (forms_disjoint n1 n f f' Hn1S Hn Hf Hf' Ef). reflexivity.
               ++ apply in_app_or in Hn1 as [Hn1|[Hn1|[]]].
                  ** apply HI2; assumption.
                  ** subst n1. exfalso.
                     assert (existsb (fun f0 => str_eqb (fold f) (fold f0)) (forms_of n) = true).
                     { apply existsb_exists. exists f. split; [apply in_forms_of; exact Hf | apply str_eqb_refl]. }
                     congruence.
          * exists t'. split; [exact A|]. split; [exact I'|]. rewrite D'. reflexivity.
    Qed.

    Lemma build_table_wf :
      exists t, build_table foldc S = Ok t /\ Inv S (long_form_tags t) /\ duplicate_names t = [].
    Proof.
      unfold build_table. apply (add_all_inv S [] (empty_table)); [reflexivity|].
      split; cbn; [discriminate | tauto].
    Qed.
  End WithSchema.
End WithFold.
