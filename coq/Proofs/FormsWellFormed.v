(* The short form and the long form of a tag are well-formed tag texts (C02's [tagbody]): non-empty, not
   starting or ending with U+0020, free of ',' '(' ')'.  This is what C02's [render_reparse] asks of a
   rendering, so printing an annotation in short or long form and re-parsing gives an equal tree. *)
From Coq Require Import List NArith Bool Arith Lia.
From HV Require Import Base.Str Base.Res Model.Parse Proofs.ParseRefine Proofs.ParsePrint.
From HV Require Import Model.Schema Model.Resolve Proofs.SchemaProofs Proofs.ResolveProofs.
Import ListNotations.

Definition nodelim (l : str) : Prop := Forall (fun c => Parse.is_delim c = false) l.
Definition starts_ok (l : str) : Prop := exists c r, l = c :: r /\ N.eqb c ch_space = false.
Definition ends_ok (l : str) : Prop := exists r c, l = r ++ [c] /\ N.eqb c ch_space = false.

Lemma tagbody_parts l : tagbody l <-> starts_ok l /\ ends_ok l /\ nodelim l.
Proof. reflexivity. Qed.

Lemma last_of_suffix (a b r : str) c : a ++ b = r ++ [c] -> b <> [] -> exists r', b = r' ++ [c].
Proof.
  intros E Hb. destruct (exists_last Hb) as (r' & c' & Eb). subst b. rewrite app_assoc in E.
  apply app_inj_tail in E as [_ E]. subst. eauto.
Qed.

Lemma nodelim_app a b : nodelim (a ++ b) <-> nodelim a /\ nodelim b.
Proof. apply Forall_app. Qed.

Lemma nodelim_slash_hash : nodelim s_slash_hash.
Proof. repeat constructor. Qed.

(* namespace + schema name + value/extension, the latter two taken from the tag text itself *)
Lemma tagbody_build (t ns X ext clean : str) :
  tagbody t -> t = ns ++ clean ->
  (ext = s_slash_hash \/ exists i, ext = skipn i clean) ->
  starts_ok X -> ends_ok X -> nodelim X ->
  tagbody (ns ++ X ++ ext).
Proof.
  intros (Ft & Lt & Dt) Et Hext (x0 & xr & EX0 & Hx0) (xr' & x1 & EX1 & Hx1) DX.
  rewrite Et in Dt. apply nodelim_app in Dt as [Dns Dclean].
  assert (Dext : nodelim ext).
  { destruct Hext as [E|[i E]]; subst ext; [apply nodelim_slash_hash|].
    rewrite <- (firstn_skipn i clean) in Dclean. apply nodelim_app in Dclean. tauto. }
  apply tagbody_parts. split; [|split].
  - destruct ns as [|c0 ns'].
    + exists x0, (xr ++ ext). rewrite EX0. auto.
    + destruct Ft as (c & r & Ec & Hc). exists c0, (ns' ++ X ++ ext). split; [reflexivity|].
      rewrite Et in Ec. cbn [app] in Ec. congruence.
  - destruct ext as [|e0 es] eqn:Ee.
    + exists (ns ++ xr'), x1. rewrite app_nil_r, EX1, app_assoc. auto.
    + destruct Hext as [E|[i E]].
      * unfold s_slash_hash in E. assert (E0 : e0 = ch_slash /\ es = [ch_hash]) by (inversion E; auto).
        destruct E0 as [E0 E1]. rewrite E0, E1. exists (ns ++ X ++ [ch_slash]), ch_hash.
        split; [|reflexivity]. rewrite <- !app_assoc. reflexivity.
      * destruct Lt as (r & c & Er & Hc).
        assert (Hs : (ns ++ firstn i clean) ++ (e0 :: es) = r ++ [c]).
        { rewrite E, <- app_assoc, firstn_skipn, <- Et. exact Er. }
        destruct (last_of_suffix _ _ _ _ Hs) as (r' & Er'); [discriminate|].
        exists (ns ++ X ++ r'), c. split; [|exact Hc]. rewrite Er', <- !app_assoc. reflexivity.
  - apply nodelim_app. split; [exact Dns|]. apply nodelim_app. split; assumption.
Qed.

Section Forms.
  Variable foldc : N -> str.
  Hypothesis fold_slash : foldc ch_slash = [ch_slash] /\ forall c, In ch_slash (foldc c) -> c = ch_slash.
  Hypothesis fold_hash : foldc ch_hash = [ch_hash] /\ (forall c, foldc c = [ch_hash] -> c = ch_hash) /\
                         forall c, foldc c <> [].
  Notation fold := (Schema.fold foldc).
  Variable S : list str.
  Hypothesis HWF : WFschema foldc S = true.
  Hypothesis HClean : names_clean S = true.
  Variable T : table.
  Hypothesis HB : build_table foldc S = Ok T.
  Notation L := (long_form_tags T).

  Let wf : WF foldc S := WFschema_WF foldc fold_slash fold_hash S HWF.
  Let HT : Inv foldc S L := table_inv foldc fold_slash fold_hash S HWF T HB.

  (* what names_clean says of a registered name *)
  Lemma clean_name n : In n S ->
    nodelim n /\ (forall f, ssuffix f n -> starts_ok f) /\ ends_ok n.
  Proof.
    intro Hn. unfold names_clean in HClean. rewrite forallb_forall in HClean. specialize (HClean n Hn).
    unfold name_clean in HClean. apply andb_true_iff in HClean as [H H3]. apply andb_true_iff in H as [H1 H2].
    rewrite forallb_forall in H1, H2.
    assert (St : forall f, ssuffix f n -> starts_ok f).
    { intros f Hf. specialize (H2 f Hf). destruct f as [|c r]; [discriminate|].
      exists c, r. split; [reflexivity|]. apply negb_true_iff. exact H2. }
    split; [|split; [exact St|]].
    - apply Forall_forall. intros c Hc. apply negb_true_iff. apply H1. exact Hc.
    - destruct (St n (or_introl eq_refl)) as (c & r & En & _).
      assert (Hne : n <> []) by (rewrite En; discriminate).
      exists (removelast n), (last n 0%N). split; [apply app_removelast_last; exact Hne|].
      apply negb_true_iff. exact H3.
  Qed.

  (* a non-value registered name and its last component are well-formed tag texts *)
  Lemma name_and_short_ok m : In m S ->
    (starts_ok m /\ ends_ok m /\ nodelim m) /\
    (starts_ok (last_comp m) /\ ends_ok (last_comp m) /\ nodelim (last_comp m)).
  Proof.
    intro Hm. destruct (clean_name m Hm) as (D & St & En).
    split; [split; [apply St; left; reflexivity | split; assumption]|].
    pose proof (last_comp_ssuffix m) as Hs. split; [apply St; exact Hs|].
    destruct (St _ Hs) as (c & r & Ec & _).
    assert (Hpre : exists pre, m = pre ++ last_comp m).
    { apply ssuffix_iff in Hs as [Hs|[pre Hs]].
      - exists []. rewrite Hs. reflexivity.
      - exists (pre ++ [ch_slash]). rewrite <- app_assoc. exact Hs. }
    destruct Hpre as [pre Hpre]. split.
    - destruct En as (r' & c' & Em & Hc'). rewrite Hpre in Em.
      destruct (last_of_suffix _ _ _ _ Em) as (r'' & E''); [rewrite Ec; discriminate|].
      exists r'', c'. auto.
    - unfold nodelim in D. rewrite Hpre in D. apply Forall_app in D. tauto.
  Qed.

  (* the names carried by any entry of the table *)
  Lemma entry_names_ok k e : lookup k L = Some e ->
    (starts_ok (e_short e) /\ ends_ok (e_short e) /\ nodelim (e_short e)) /\
    (starts_ok (e_long e) /\ ends_ok (e_long e) /\ nodelim (e_long e)).
  Proof.
    intro H. destruct (proj1 HT _ _ H) as (n & f & Hn & Ee & _ & _). subst e.
    destruct (is_value n) eqn:V.
    - destruct (wf_value foldc S wf n Hn V) as (m & En & Hm & _). subst n.
      unfold ent. rewrite value_of_app. cbn [e_long e_short]. rewrite drop_last2_app.
      destruct (name_and_short_ok m Hm). tauto.
    - unfold ent. rewrite V. cbn [e_long e_short]. destruct (name_and_short_ok n Hn). tauto.
  Qed.

  Section WithFixes.
    Variable fx : fixes.

    Lemma walk_from_table ps : forall cur e i m,
      walk fx T ps cur = (Some (e, i), m) -> cur = Some (e, i) \/ exists k, lookup k L = Some e.
    Proof.
      induction ps as [|[k0 i0] rest IH]; intros cur e i m W; cbn [walk] in W.
      - inversion W. left. reflexivity.
      - unfold walk_entry in W. destruct (lookup k0 L) as [e0|] eqn:E0.
        + destruct (fix_hash fx && ends_slash_hash (e_name e0))%bool.
          * inversion W. left. reflexivity.
          * destruct (IH _ _ _ _ W) as [C|C]; [|right; exact C]. inversion C; subst. right. eauto.
        + inversion W. left. reflexivity.
    Qed.

    (* the entry comes from the table; the remainder is "/#" or a suffix of the text after the namespace *)
    Lemma found_shape tag ns e ext :
      find_tag_entry_ foldc fx T tag ns = Found e ext ->
      (exists k, lookup k L = Some e) /\
      (ext = s_slash_hash \/ exists i, ext = skipn i (skipn (length ns) tag)).
    Proof.
      unfold find_tag_entry_. cbv zeta. set (clean := skipn (length ns) tag).
      destruct (lookup (fold clean) L) as [e0|] eqn:D.
      - intro H. inversion H; subst. split; [eauto|].
        destruct (ends_slash_hash (fold clean)) eqn:E.
        + left. unfold ends_slash_hash in E. apply str_eqb_spec in E. exact E.
        + right. exists (length clean). rewrite skipn_all. reflexivity.
      - destruct (find_tag_subfunction foldc fx T clean) as [err|[e0 idx]] eqn:F; [discriminate|].
        unfold find_tag_subfunction in F.
        destruct (walk fx T (walk_keys foldc fx clean) None) as [[[e1 i1]|] m] eqn:W; [|discriminate].
        assert (Ee : e1 = e0 /\ i1 = idx).
        { destruct (m && negb match takes_value_child foldc T e1 with Some _ => true | None => false end
                      && negb (validate_remaining_terms foldc fx T clean i1))%bool; [discriminate|].
          inversion F. auto. }
        destruct Ee; subst e1 i1.
        destruct (walk_from_table _ _ _ _ _ W) as [C|C]; [discriminate|].
        destruct (skipn idx clean) as [|c0 r0] eqn:R.
        + intro H. inversion H; subst. split; [exact C|]. right. exists idx. auto.
        + destruct (takes_value_child foldc T e0) as [v|] eqn:TV; intro H; inversion H; subst.
          * split; [|right; exists idx; auto]. unfold takes_value_child, get_entry in TV. eauto.
          * split; [exact C|]. right. exists idx. auto.
    Qed.

    Lemma forms_tagbody sns t : tagbody t ->
      tagbody (short_tag (hedtag_init foldc fx T sns t)) /\ tagbody (long_tag (hedtag_init foldc fx T sns t)).
    Proof.
      intro Ht. unfold hedtag_init, find_tag_entry.
      destruct (str_eqb (get_schema_namespace t) sns); [|split; exact Ht].
      destruct (find_tag_entry_ foldc fx T t (get_schema_namespace t)) as [e ext|err] eqn:F; [|split; exact Ht].
      destruct (found_shape _ _ _ _ F) as ((k & Hk) & Hext).
      destruct (ns_prefix t) as [clean Et].
      assert (Hc : skipn (length (get_schema_namespace t)) t = clean).
      { rewrite Et at 2. apply skipn_app_exact. }
      rewrite Hc in Hext.
      destruct (entry_names_ok k e Hk) as ((A1 & A2 & A3) & (B1 & B2 & B3)).
      unfold short_tag, long_tag. cbn [ht_entry ht_ns ht_ext].
      split; apply (tagbody_build t _ _ ext clean Ht Et Hext); assumption.
    Qed.
  End WithFixes.
End Forms.

Section FormsTop.
  Variable foldc : N -> str.
  Hypothesis fold_slash : foldc ch_slash = [ch_slash] /\ forall c, In ch_slash (foldc c) -> c = ch_slash.
  Hypothesis fold_hash : foldc ch_hash = [ch_hash] /\ (forall c, foldc c = [ch_hash] -> c = ch_hash) /\
                         forall c, foldc c <> [].
  Variable S : list str.
  Hypothesis HWF : WFschema foldc S = true.
  Hypothesis HClean : names_clean S = true.
  Variable T : table.
  Hypothesis HB : build_table foldc S = Ok T.
  Variable fx : fixes.
  Variable sns : str.

  (* the two renderings of a tag text *)
  Definition short_form (t : str) : str := short_tag (hedtag_init foldc fx T sns t).
  Definition long_form (t : str) : str := long_tag (hedtag_init foldc fx T sns t).

  Lemma short_form_wellformed t : tagbody t -> tagbody (short_form t).
  Proof. intro H. exact (proj1 (forms_tagbody foldc fold_slash fold_hash S HWF HClean T HB fx sns t H)). Qed.

  Lemma long_form_wellformed t : tagbody t -> tagbody (long_form t).
  Proof. intro H. exact (proj2 (forms_tagbody foldc fold_slash fold_hash S HWF HClean T HB fx sns t H)). Qed.

  (* C02's render_reparse with the short and the long form *)
  Lemma print_short_long_reparse (s : str) :
    (let l := map (map_sh short_form) (parse_sh s) in parse_sh (pr_list l) = l) /\
    (let l := map (map_sh long_form) (parse_sh s) in parse_sh (pr_list l) = l).
  Proof.
    split.
    - apply render_reparse. exact short_form_wellformed.
    - apply render_reparse. exact long_form_wellformed.
  Qed.
End FormsTop.

(* The value/extension of an identified tag is literally a piece of the written text (or the "/#" of the
   placeholder spelling) -- for EVERY table (no well-formedness needed), every text, before and after the
   repairs.  So texts that differ in the letter case of a value keep different values in both forms: no
   conversion, of a single tag or of a cell of a column, may hand one text the value of another. *)
Section ExtensionVerbatim.
  Variable foldc : N -> str.
  Variable fx : fixes.
  Variable T : table.

  Lemma walk_from_table' ps : forall cur e i m,
    walk fx T ps cur = (Some (e, i), m) -> cur = Some (e, i) \/ exists k, lookup k (long_form_tags T) = Some e.
  Proof.
    induction ps as [|[k0 i0] rest IH]; intros cur e i m W; cbn [walk] in W.
    - inversion W. left. reflexivity.
    - unfold walk_entry in W. destruct (lookup k0 (long_form_tags T)) as [e0|] eqn:E0.
      + destruct (fix_hash fx && ends_slash_hash (e_name e0))%bool.
        * inversion W. left. reflexivity.
        * destruct (IH _ _ _ _ W) as [C|C]; [|right; exact C]. inversion C; subst. right. eauto.
      + inversion W. left. reflexivity.
  Qed.

  Lemma extension_is_written tag ns e ext :
    find_tag_entry_ foldc fx T tag ns = Found e ext ->
    ext = s_slash_hash \/ exists i, ext = skipn i (skipn (length ns) tag).
  Proof.
    unfold find_tag_entry_. cbv zeta. set (clean := skipn (length ns) tag).
    destruct (lookup (Schema.fold foldc clean) (long_form_tags T)) as [e0|] eqn:D.
    - intro H. inversion H; subst.
      destruct (ends_slash_hash (Schema.fold foldc clean)) eqn:E.
      + left. unfold ends_slash_hash in E. apply str_eqb_spec in E. exact E.
      + right. exists (length clean). rewrite skipn_all. reflexivity.
    - destruct (find_tag_subfunction foldc fx T clean) as [err|[e0 idx]] eqn:F; [discriminate|].
      destruct (skipn idx clean) as [|c0 r0] eqn:R.
      + intro H. inversion H; subst. right. exists idx. auto.
      + destruct (takes_value_child foldc T e0) as [v|]; intro H; inversion H; subst; right; exists idx; auto.
  Qed.

  Lemma hedtag_extension_is_written sns t :
    let h := hedtag_init foldc fx T sns t in
    ht_entry h <> None ->
    ht_ext h = s_slash_hash \/ exists i, ht_ext h = skipn i (skipn (length (get_schema_namespace t)) t).
  Proof.
    cbv zeta. unfold hedtag_init, find_tag_entry.
    destruct (str_eqb (get_schema_namespace t) sns); [|intro H; exfalso; apply H; reflexivity].
    destruct (find_tag_entry_ foldc fx T t (get_schema_namespace t)) as [e ext|err] eqn:F;
      [|intro H; exfalso; apply H; reflexivity].
    intros _. cbn [ht_ext]. exact (extension_is_written _ _ _ _ F).
  Qed.
End ExtensionVerbatim.
