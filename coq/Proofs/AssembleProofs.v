(* Proofs about Model/RefSplice.v and Model/Assemble.v (property C06). *)
From Coq Require Import List NArith Arith Bool Lia.
From HV Require Import Base.Res Base.Str Model.Parse Model.RefSplice Model.Assemble
  Proofs.ParseProofs.
Import ListNotations.

(* ---------- small facts ---------- *)

Lemma bind_ok {A B} (r : res A) (f : A -> res B) (b : B) :
  bind r f = Ok b -> exists a, r = Ok a /\ f a = Ok b.
Proof. destruct r as [a|e]; simpl; intros H; [eauto | discriminate]. Qed.

Lemma str_eqb_refl (s : str) : str_eqb s s = true.
Proof. apply str_eqb_spec. reflexivity. Qed.

Lemma assoc_in {A} k (l : list (str * A)) v : assoc k l = Some v -> exists k', In (k', v) l.
Proof.
  induction l as [|[k' v'] l IH]; simpl; intros H; [discriminate|].
  destruct (str_eqb k k').
  - inversion H; subst. exists k'. left. reflexivity.
  - destruct (IH H) as [k'' Hin]. exists k''. right. exact Hin.
Qed.

Definition cols_len (n : nat) (cols : list (str * list str)) : Prop :=
  Forall (fun c => length (snd c) = n) cols.

Definition wf_table (t : table) : Prop := cols_len (t_rows t) (t_cols t).

Lemma get_col_len n cols name c : cols_len n cols -> get_col name cols = Ok c -> length c = n.
Proof.
  unfold get_col, cols_len. intros Hf H.
  destruct (assoc name cols) as [c'|] eqn:Ha; [|discriminate].
  inversion H; subst. destruct (assoc_in _ _ _ Ha) as [k Hin].
  rewrite Forall_forall in Hf. apply (Hf _ Hin).
Qed.

(* ---------- zipM / foldM / mapM pointwise ---------- *)

Lemma zipM_nth {A B C} (f : A -> B -> res C) (dx : A) (dy : B) (dz : C) :
  forall xs ys zs, zipM f xs ys = Ok zs -> length xs = length ys ->
  length zs = length xs /\
  forall i, i < length xs -> f (nth i xs dx) (nth i ys dy) = Ok (nth i zs dz).
Proof.
  induction xs as [|x xs IH]; intros ys zs H Hl.
  - simpl in H. inversion H; subst. split; [reflexivity | intros i Hi; simpl in Hi; lia].
  - destruct ys as [|y ys]; [discriminate|]. simpl in H.
    apply bind_ok in H. destruct H as (z & Hz & H).
    apply bind_ok in H. destruct H as (zs' & Hzs & H). inversion H; subst.
    simpl in Hl. destruct (IH ys zs' Hzs ltac:(lia)) as [Hlen Hnth].
    split; [simpl; lia|]. intros [|i] Hi; simpl; [exact Hz | apply Hnth; simpl in Hi; lia].
Qed.

Lemma splice_column_nth fixed : forall saved col col' n i,
  splice_column fixed saved col = Ok col' ->
  length col = n -> cols_len n saved -> i < n ->
  length col' = n /\ row_part fixed saved i (nth i col []) = Ok (nth i col' []).
Proof.
  unfold splice_column, row_part.
  induction saved as [|rv saved IH]; intros col col' n i H Hl Hs Hi; simpl in *.
  - inversion H; subst. split; reflexivity.
  - apply bind_ok in H. destruct H as (c1 & Hz & H).
    inversion Hs as [|? ? Hrv Hs']; subst.
    destruct (zipM_nth (fun x y => replace_ref fixed x (fst rv) y) [] [] [] col (snd rv) c1 Hz
                ltac:(lia)) as [Hlen Hnth].
    rewrite (Hnth i ltac:(lia)). simpl.
    apply (IH c1 col' (length col) i H); auto; lia.
Qed.

(* ---------- the transformed columns ---------- *)

Lemma transform_len fixed n cols : cols_len n cols ->
  forall tf all, transform fixed cols tf = Ok all -> cols_len n all.
Proof.
  intros Hc. induction tf as [|[name f] tf IH]; intros all H; simpl in H.
  - inversion H. constructor.
  - apply bind_ok in H. destruct H as (c & Hg & H).
    apply bind_ok in H. destruct H as (rest & Hr & H). inversion H; subst.
    constructor; [simpl; rewrite map_length; eapply get_col_len; eauto | apply IH; exact Hr].
Qed.

(* each output column is the column of the table with the transformer of its kind
   applied cell by cell (HED column / unknown kind: identity; categorical: the entry
   selected by the cell or ""; value: n/a passes, otherwise '#' is replaced) *)
Lemma transform_cells fixed cols : forall tf all, transform fixed cols tf = Ok all ->
  Forall2 (fun (nf : str * xform) (nc : str * list str) =>
             fst nc = fst nf /\
             exists c, get_col (fst nf) cols = Ok c /\ snd nc = map (apply_xform fixed (snd nf)) c)
          tf all.
Proof.
  induction tf as [|[name f] tf IH]; intros all H; simpl in H.
  - inversion H. constructor.
  - apply bind_ok in H. destruct H as (c & Hg & H).
    apply bind_ok in H. destruct H as (rest & Hr & H). inversion H; subst.
    constructor; [|apply IH; exact Hr]. simpl. split; [reflexivity|]. exists c. auto.
Qed.

Lemma handle_transforms_spec fixed st st' all tf :
  handle_transforms fixed st = Ok (st', all, tf) ->
  tb_df st' = tb_df st /\ tb_sidecar st' = tb_sidecar st /\
  (wf_table (tb_df st) -> cols_len (t_rows (tb_df st)) all).
Proof.
  unfold handle_transforms. intros H.
  destruct (get_transformers _) as [tf0 need] eqn:Hg.
  destruct tf0 as [|t0 tf0].
  - inversion H; subst. repeat split; auto.
  - apply bind_ok in H. destruct H as (all0 & Ht & H). inversion H; subst. simpl.
    repeat split; auto. intros Hw. eapply transform_len; eauto.
Qed.

(* ---------- row_is_union ---------- *)

(* the statement's description of row i, from the transformed columns:
   referenced columns are spliced into the others and are not listed themselves;
   the remaining non-empty, non-n/a parts are joined with ", " in column order *)
Definition spec_row (fixed : bool) (all : list (str * list str)) (refs names : list str) (i : nat)
  : res str :=
  let refs' := filter (fun r => mem r names) refs in
  let remaining := filter (fun c => negb (mem c refs')) names in
  let* saved := mapM (fun r => let* c := get_col r all in Ok (r, c)) refs' in
  let* parts := mapM (fun name => let* c := get_col name all in
                                  row_part fixed saved i (nth i c [])) remaining in
  Ok (combine_row parts).

Lemma saved_len n all : cols_len n all -> forall refs saved,
  mapM (fun r => let* c := get_col r all in Ok (r, c)) refs = Ok saved -> cols_len n saved.
Proof.
  intros Hc. induction refs as [|r refs IH]; intros saved H; simpl in H.
  - inversion H. constructor.
  - apply bind_ok in H. destruct H as (rc & Hr & H).
    apply bind_ok in H. destruct H as (rest & Hrest & H). inversion H; subst.
    apply bind_ok in Hr. destruct Hr as (c & Hg & Hr). inversion Hr; subst.
    constructor; [simpl; eapply get_col_len; eauto | apply IH; exact Hrest].
Qed.

Lemma remaining_rows fixed n all saved i : cols_len n all -> cols_len n saved -> i < n ->
  forall remaining out,
  mapM (fun name => let* c := get_col name all in
                    let* c' := splice_column fixed saved c in Ok (name, c')) remaining = Ok out ->
  cols_len n out /\
  mapM (fun name => let* c := get_col name all in row_part fixed saved i (nth i c [])) remaining
  = Ok (row_cells out i).
Proof.
  intros Hall Hsaved Hi. induction remaining as [|name rem IH]; intros out H; simpl in H.
  - inversion H. split; [constructor | reflexivity].
  - apply bind_ok in H. destruct H as (nc & Hn & H).
    apply bind_ok in H. destruct H as (rest & Hrest & H). inversion H; subst.
    apply bind_ok in Hn. destruct Hn as (c & Hg & Hn).
    apply bind_ok in Hn. destruct Hn as (c' & Hs & Hn). inversion Hn; subst.
    destruct (IH rest Hrest) as [Hlen Hrows].
    pose proof (get_col_len _ _ _ _ Hall Hg) as Hcl.
    destruct (splice_column_nth fixed saved c c' n i Hs Hcl Hsaved Hi) as [Hl' Hp].
    split; [constructor; [exact Hl' | exact Hlen]|].
    simpl. rewrite Hg. simpl. rewrite Hp. simpl. rewrite Hrows. reflexivity.
Qed.

Lemma combine_dataframe_nth cols n i : i < n ->
  nth i (combine_dataframe cols n) [] = combine_row (row_cells cols i).
Proof.
  intros Hi. unfold combine_dataframe.
  set (g := fun i => combine_row (row_cells cols i)).
  rewrite (nth_indep (map g (seq 0 n)) [] (g 0)) by (rewrite map_length, seq_length; exact Hi).
  rewrite (map_nth g (seq 0 n) 0 i). rewrite seq_nth by exact Hi. reflexivity.
Qed.

Theorem row_is_union (fixed : bool) (st st' : tabular) (ord : list str) (rows : list str) :
  series_a fixed st ord = Ok (st', rows) -> wf_table (tb_df st) ->
  exists all tf,
    handle_transforms fixed st = Ok (st', all, tf) /\
    length rows = t_rows (tb_df st) /\
    forall i, i < t_rows (tb_df st) ->
      spec_row fixed all (set_order ord (column_refs (tb_sidecar st))) (map fst tf) i
      = Ok (nth i rows []).
Proof.
  unfold series_a, assemble. intros H Hw.
  apply bind_ok in H. destruct H as ([st1 out] & Ha & H). inversion H; subst. clear H.
  apply bind_ok in Ha. destruct Ha as ([[st2 all] tf] & Hh & Ha).
  apply bind_ok in Ha. destruct Ha as (out' & Hc & Ha). inversion Ha; subst. clear Ha.
  exists all, tf. split; [exact Hh|].
  split; [unfold combine_dataframe; rewrite map_length, seq_length; reflexivity|].
  intros i Hi.
  destruct (handle_transforms_spec _ _ _ _ _ Hh) as (_ & _ & Hlen). specialize (Hlen Hw).
  unfold handle_curly_braces_refs in Hc. unfold spec_row.
  apply bind_ok in Hc. destruct Hc as (saved & Hs & Hc). rewrite Hs. simpl.
  pose proof (saved_len _ _ Hlen _ _ Hs) as Hsl.
  destruct (remaining_rows fixed _ all saved i Hlen Hsl Hi _ _ Hc) as [_ Hr].
  rewrite Hr. simpl. rewrite combine_dataframe_nth by exact Hi. reflexivity.
Qed.

(* one annotation per row, in row order: row i of the result is computed from the
   cells of row i only (spec_row reads column cells through [nth i] exclusively) *)
Theorem row_order (fixed : bool) (st st' : tabular) (ord : list str) (rows : list str) :
  series_a fixed st ord = Ok (st', rows) -> length rows = t_rows (tb_df st).
Proof.
  unfold series_a. intros H.
  apply bind_ok in H. destruct H as ([st1 out] & Ha & H). inversion H; subst.
  unfold combine_dataframe. rewrite map_length, seq_length. reflexivity.
Qed.

(* ---------- deterministic / inputs unchanged ---------- *)

Lemma mem_app k a b : mem k (a ++ b) = mem k a || mem k b.
Proof. induction a as [|x a IH]; simpl; [reflexivity | rewrite IH, orb_assoc; reflexivity]. Qed.

Lemma add_cats_incl need : forall old k, mem k old = true -> mem k (add_cats old need) = true.
Proof.
  induction need as [|c need IH]; intros old k H; simpl; [exact H|].
  destruct (mem c old); apply IH; [exact H|]. rewrite mem_app, H. reflexivity.
Qed.

Lemma add_cats_has need : forall old, Forall (fun c => mem c (add_cats old need) = true) need.
Proof.
  induction need as [|c need IH]; intros old; simpl; constructor.
  - destruct (mem c old) eqn:Hm; apply add_cats_incl; [exact Hm|].
    rewrite mem_app. simpl. rewrite str_eqb_refl, orb_true_r. reflexivity.
  - destruct (mem c old); apply IH.
Qed.

Lemma add_cats_noop need : forall old, Forall (fun c => mem c old = true) need -> add_cats old need = old.
Proof.
  induction need as [|c need IH]; intros old H; simpl; [reflexivity|].
  inversion H as [|? ? Hc Hn]; subst. rewrite Hc. apply IH. exact Hn.
Qed.

Lemma add_cats_idem old need : add_cats (add_cats old need) need = add_cats old need.
Proof. apply add_cats_noop. apply add_cats_has. Qed.

(* the result of assembly does not depend on the dtype marks *)
Lemma handle_transforms_state fixed st :
  match handle_transforms fixed st with
  | Ok (st', all, tf) =>
      tb_df st' = tb_df st /\ tb_sidecar st' = tb_sidecar st /\
      handle_transforms fixed st' = Ok (st', all, tf)
  | Exn _ => True
  end.
Proof.
  unfold handle_transforms.
  destruct (get_transformers (final_column_map (map fst (t_cols (tb_df st))) (tb_sidecar st)))
    as [tf need] eqn:Hg.
  destruct tf as [|t0 tf].
  - repeat split; auto. rewrite Hg. reflexivity.
  - destruct (transform fixed (t_cols (tb_df st)) (t0 :: tf)) as [all|e] eqn:Ht; simpl; [|exact I].
    repeat split; auto. cbn [tb_df tb_sidecar tb_cat]. rewrite Hg, Ht. simpl.
    rewrite add_cats_idem. reflexivity.
Qed.

(* asking again gives the same answer, and neither the table (cell values, columns,
   row order) nor the sidecar is changed; the object itself is stable after the first call *)
Theorem deterministic_unchanged (fixed : bool) (st st' : tabular) (ord : list str) (rows : list str) :
  series_a fixed st ord = Ok (st', rows) ->
  tb_df st' = tb_df st /\ tb_sidecar st' = tb_sidecar st /\
  series_a fixed st' ord = Ok (st', rows).
Proof.
  unfold series_a, assemble. intros H.
  apply bind_ok in H. destruct H as ([st1 out] & Ha & H). inversion H; subst. clear H.
  apply bind_ok in Ha. destruct Ha as ([[st2 all] tf] & Hh & Ha).
  apply bind_ok in Ha. destruct Ha as (out' & Hc & Ha). inversion Ha; subst. clear Ha.
  pose proof (handle_transforms_state fixed st) as Hs. rewrite Hh in Hs.
  destruct Hs as (Hd & Hsc & Hagain).
  repeat split; auto.
  rewrite Hagain. simpl. rewrite Hsc, Hc. simpl. rewrite Hd. reflexivity.
Qed.

(* ---------- n/a is removed ---------- *)

(* a cell is skipped when its transformed text is "n/a" or empty *)
Definition skipped (v : str) : bool := str_eqb v ch_na || is_empty v.

(* repaired code: whenever the referenced column's text for the row is skipped, the
   reference goes through the remover (never through plain substitution) *)
Theorem na_is_removed_fixed (text ref v : str) :
  skipped v = true -> replace_ref true text ref v = Ok (remove_ref_fixed (brace ref) text).
Proof. unfold skipped, replace_ref, replace_ref_gen, blank_ref_removed. intros H. rewrite H. reflexivity. Qed.

(* ... and the remover never raises and is independent of which skipped value it was *)
Theorem replace_ref_fixed_total (text ref v : str) : exists r, replace_ref true text ref v = Ok r.
Proof.
  unfold replace_ref, replace_ref_gen.
  destruct (str_eqb v ch_na || is_empty v || (blank_ref_removed && is_blank v)); eauto.
Qed.

Definition s_cat_square : str := [123; 99; 125; 44; 32; 83]%N.            (* "{c}, S" *)
Definition s_c : str := [99]%N.

(* record of the defect repaired by fix commit a455136 (fixed = false = behaviour before it):
   an empty replacement (n/a or unknown categorical cell) was substituted literally and left
   the comma behind: "{c}, S" -> ", S" *)
Theorem na_is_removed_refuted :
  exists text ref v r, skipped v = true /\ replace_ref false text ref v = Ok r /\
                       wf_delim text = true /\ wf_delim r = false.
Proof. exists s_cat_square, s_c, [], [ch_comma; ch_space; 83%N]. repeat split; reflexivity. Qed.

(* the same input under the repair *)
Example na_is_removed_fixed_witness :
  replace_ref true s_cat_square s_c [] = Ok [83%N].
Proof. vm_compute. reflexivity. Qed.

Definition s_red_1_blue : str := [82; 44; 32; 123; 49; 125; 44; 32; 66]%N.   (* "R, {1}, B" *)
Definition s_1 : str := [49]%N.

(* a digits-only column name is read as a quantifier: "R, {1}, B" -> "R{1}B";
   under the repair the reference is removed: "R, B" *)
Theorem digits_ref_refuted :
  replace_ref false s_red_1_blue s_1 ch_na = Ok [82; 123; 49; 125; 66]%N /\
  replace_ref false s_red_1_blue [48]%N ch_na = Exn AttributeError /\
  replace_ref true s_red_1_blue s_1 ch_na = Ok [82; 44; 32; 66]%N.
Proof. repeat split; vm_compute; reflexivity. Qed.

(* record of the defect repaired by fix commit a2f08b3 (fixed = false = behaviour before it):
   an empty cell of a value column was not skipped *)
Theorem empty_value_cell_refuted :
  exists tmpl, keep_part (value_handler false tmpl []) = true.
Proof. exists [76; 47; 35]%N. reflexivity. Qed.

Theorem empty_value_cell_fixed (tmpl x : str) :
  skipped x = true -> keep_part (value_handler true tmpl x) = false.
Proof.
  unfold skipped, value_handler, keep_part. intros H.
  destruct (str_eqb x ch_na); simpl in *; [reflexivity|]. rewrite H. reflexivity.
Qed.

(* n/a or empty cells never contribute a part, whatever the column kind (fixed = true, the
   code as it is since a2f08b3; categorical and HED columns behaved so before as well) *)
Theorem skipped_cell_contributes_nothing (f : xform) (x : str) :
  skipped x = true ->
  (forall kv, f = XCat kv -> assoc x kv = None) ->
  keep_part (apply_xform true f x) = false.
Proof.
  intros H Hk. destruct f as [t|kv|]; simpl.
  - apply empty_value_cell_fixed. exact H.
  - unfold category_handler. rewrite (Hk kv eq_refl). reflexivity.
  - unfold skipped in H. unfold keep_part. destruct x; simpl in *; [reflexivity|].
    rewrite orb_false_r in H. rewrite H. apply andb_false_r.
Qed.

(* ---------- splice_tree / splice_well_delimited: bounded exhaustive ---------- *)

(* template alphabet: a, blank, ',', '(', ')' and '{' standing for the reference {r} *)
Definition sigma_t : list N := [97; 32; 44; 40; 41; 123]%N.
Definition ref_r : str := [114]%N.

Definition expand (w : str) : str :=
  flat_map (fun c => if N.eqb c ch_lbrace then brace ref_r else [c]) w.

Definition shapes (t : str) : list shape := map (shape_of t) (forest_of t).

(* every tag of the template is either the reference alone or contains no brace *)
Fixpoint whole_ref_shape (sh : shape) : bool :=
  match sh with
  | STag t => str_eqb t (brace ref_r) || negb (memc ch_lbrace t || memc ch_rbrace t)
  | SGroup ch => forallb whole_ref_shape ch
  end.

(* the tree with the reference tags removed and emptied groups pruned *)
Fixpoint prune (sh : shape) : list shape :=
  match sh with
  | STag t => if str_eqb t (brace ref_r) then [] else [STag t]
  | SGroup ch => match flat_map prune ch with [] => [] | ch' => [SGroup ch'] end
  end.

Definition starts_blank (t : str) : bool :=
  match t with c :: _ => N.eqb c ch_space | [] => false end.

(* two references with only blanks/delimiters between them *)
Fixpoint adjacent_refs (w : str) (after_ref : bool) : bool :=
  match w with
  | [] => false
  | c :: w' =>
      if N.eqb c ch_lbrace then after_ref || adjacent_refs w' true
      else if N.eqb c 97%N then adjacent_refs w' false
      else adjacent_refs w' after_ref
  end.

Definition splice_premise (fixed : bool) (w : str) : bool :=
  let t := expand w in
  wf_delim t && forallb whole_ref_shape (shapes t)
  && (fixed || (negb (starts_blank t) && negb (adjacent_refs w false))).

Definition splice_concl (fixed : bool) (w : str) : bool :=
  let t := expand w in
  match replace_ref fixed t ref_r ch_na with
  | Ok r => wf_delim r && shapes_eqb (shapes r) (flat_map prune (shapes t))
  | Exn _ => false
  end.

Definition splice_ok (fixed : bool) (w : str) : bool :=
  implb (splice_premise fixed w) (splice_concl fixed w).

Definition splice_upto (fixed : bool) (n : nat) : bool :=
  forallb (fun k => forallb (splice_ok fixed) (all_strings sigma_t k)) (seq 0 (S n)).

Lemma splice_upto_sound fixed n : splice_upto fixed n = true ->
  forall w, length w <= n -> Forall (fun c => In c sigma_t) w ->
  splice_premise fixed w = true -> splice_concl fixed w = true.
Proof.
  unfold splice_upto. intros H w Hl Hf Hp.
  rewrite forallb_forall in H. specialize (H (length w)).
  assert (Hin : In (length w) (seq 0 (S n))) by (apply in_seq; lia).
  apply H in Hin. rewrite forallb_forall in Hin.
  specialize (Hin w (all_strings_complete _ _ _ eq_refl Hf)).
  unfold splice_ok in Hin. rewrite Hp in Hin. exact Hin.
Qed.

Lemma splice_upto_7_code : splice_upto false 7 = true.
Proof. vm_compute. reflexivity. Qed.

Lemma splice_upto_7_fixed : splice_upto true 7 = true.
Proof. vm_compute. reflexivity. Qed.

Theorem splice_tree_bounded (w : str) :
  length w <= 7 -> Forall (fun c => In c sigma_t) w ->
  splice_premise false w = true -> splice_concl false w = true.
Proof. exact (splice_upto_sound false 7 splice_upto_7_code w). Qed.

Theorem splice_tree_fixed_bounded (w : str) :
  length w <= 7 -> Forall (fun c => In c sigma_t) w ->
  splice_premise true w = true -> splice_concl true w = true.
Proof. exact (splice_upto_sound true 7 splice_upto_7_fixed w). Qed.

(* record of the defects repaired by fix commits 2ad4134 and a8ad4f5: without the two extra
   hypotheses the statement was false of the behaviour before them (fixed = false) *)
Definition w_blank_ref : str := [32; 123; 44; 97]%N.          (* " {r},a"  -> ",a" *)
Definition w_twice : str := [40; 123; 44; 123; 41]%N.         (* "({r},{r})" -> "()" *)
Theorem splice_well_delimited_refuted :
  (splice_premise true w_blank_ref = true /\ splice_concl false w_blank_ref = false) /\
  (splice_premise true w_twice = true /\ splice_concl false w_twice = false).
Proof. repeat split; vm_compute; reflexivity. Qed.

(* ---------- joining well-delimited parts ---------- *)

(* non-vacuity of the bounded theorems and of row_is_union: a concrete table *)
Definition ex_sidecar : sidecar :=
  [ ([99]%N, JDict [(hed_key, JDict [([103]%N, JStr [82]%N)])]);                 (* c: {g: R} *)
    ([118]%N, JDict [(hed_key, JStr [40; 123; 99; 125; 44; 32; 76; 47; 35; 41]%N)]) ].  (* v: ({c}, L/#) *)
Definition ex_table : table :=
  {| t_cols := [ ([118]%N, [[120]%N; [121]%N; ch_na]);
                 ([99]%N, [[103]%N; ch_na; [103]%N]);
                 (hed_key, [[66]%N; []; ch_na]) ];
     t_rows := 3 |}.
Definition ex_st : tabular := {| tb_df := ex_table; tb_cat := []; tb_sidecar := ex_sidecar |}.

Example ex_series :
  wf_table ex_table /\
  (exists st', series_a false ex_st [] =
     Ok (st', [ [66; 44; 32; 40; 82; 44; 32; 76; 47; 120; 41]%N;     (* B, (R, L/x) *)
                [40; 44; 32; 76; 47; 121; 41]%N;                     (* (, L/y)  -- the defect *)
                [] ])) /\
  (exists st', series_a true ex_st [] =
     Ok (st', [ [66; 44; 32; 40; 82; 44; 32; 76; 47; 120; 41]%N;
                [40; 76; 47; 121; 41]%N;                             (* (L/y) *)
                [] ])).
Proof.
  split; [repeat constructor|]. split; eexists; vm_compute; reflexivity.
Qed.
