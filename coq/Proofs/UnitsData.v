(* C11 -- kernel-evaluated obligations on the translated unit tables of the bundled schemas
   (coq/Gen/Units_<v>.v, regenerated from the XML on every run) and the refutation witnesses. *)
From Coq Require Import List NArith ZArith QArith Bool Lia.
From HV Require Import Base.Res Base.Str Model.Units Proofs.UnitsProofs Gen.UnitsAll.
From HV Require Gen.Units_8_3_0 Gen.Units_8_2_0 Gen.Units_8_1_0 Gen.Units_score_2_0_0.
Import ListNotations.
Local Open Scope N_scope.

(* ------------------------------------------------------------------ every bundled schema is well-formed *)

Lemma wf_all_bundled : forallb (fun x => wf_schema (snd (fst x))) all_schemas = true.
Proof. vm_compute. reflexivity. Qed.

(* ------------------------------------------------------------------ extent of finding 11 *)

Definition factor_texts (S : uschema) : list str :=
  flat_map (fun U => match u_factor U with Some t => [t] | None => [] end) (all_units S)
  ++ flat_map (fun m => match m_factor m with Some t => [t] | None => [] end) (s_mods S).

Definition q_eqb (a b : option Q) : bool :=
  match a, b with
  | Some x, Some y => Qeq_bool x y
  | None, None => true
  | _, _ => false
  end.

(* the factor the code computes equals the declared one for texts without a caret and is exactly
   ten times the declared one for texts with a caret *)
Definition factor_extent_ok (S : uschema) : bool :=
  forallb (fun t => if no_caret t then q_eqb (float_factor false t) (factor_spec t)
                    else q_eqb (float_factor false t) (option_map (Qmult 10) (factor_spec t)))
          (factor_texts S).

Definition caret_count (S : uschema) : nat :=
  length (filter (fun t => negb (no_caret t)) (factor_texts S)).

Lemma factor_extent_bundled :
  map (fun x => (factor_extent_ok (snd (fst x)), caret_count (snd (fst x)))) all_schemas
  = [(true, 0); (true, 30); (true, 30); (true, 0); (true, 30); (true, 30);
     (true, 0); (true, 0); (true, 30); (true, 30); (true, 30)]%nat.
Proof. vm_compute. reflexivity. Qed.

(* ------------------------------------------------------------------ texts with more than one reading *)

Definition ambiguous_in_class (S : uschema) (C : classdef) : list (str * str) :=
  map (fun e => (c_name C, e_key e))
      (filter (fun e => negb (unamb S [C] (e_key e))) (tag_entries S [C])).

Definition uV_in_electricPotentialUnits : list (str * str) :=
  [([101; 108; 101; 99; 116; 114; 105; 99; 80; 111; 116; 101; 110; 116; 105; 97; 108; 85; 110; 105; 116; 115],
    [117; 86])].

(* the only derived key with two readings: "uV" in electricPotentialUnits of 8.3.0 and score 2.0.0
   (micro + V, and the unit name uV) *)
Lemma ambiguity_bundled :
  map (fun x => flat_map (ambiguous_in_class (snd (fst x))) (s_classes (snd (fst x)))) all_schemas
  = [[]; []; []; uV_in_electricPotentialUnits; []; []; uV_in_electricPotentialUnits; []; []; []; []].
Proof. vm_compute. reflexivity. Qed.

(* every value-taking node names one existing unit class *)
Lemma tags_single_class_bundled :
  forallb (fun x => forallb (fun T => (length (tag_unit_classes (snd (fst x)) T) =? 1)%nat) (snd x)) all_schemas = true.
Proof. vm_compute. reflexivity. Qed.

(* ------------------------------------------------------------------ witnesses *)

Lemma tag_unit_classes_sub S T C : In C (tag_unit_classes S T) -> In C (s_classes S).
Proof.
  unfold tag_unit_classes. intro H. apply in_flat_map in H as [n [_ H]].
  destruct (find (fun c => str_eqb (c_name c) n) (s_classes S)) as [c|] eqn:E; [|destruct H].
  destruct H as [H|[]]. subst. apply find_some in E. tauto.
Qed.

Ltac in_list := vm_compute; repeat (first [left; reflexivity | right]).

Definition dummy_tag : utag := mkUTag [] [] false.
Definition dummy_class : classdef := mkClass [] None [].
Definition dummy_unit : unitdef := mkUnit [] false false false None [].
Definition dummy_mod : moddef := mkMod [] false false None.

Definition find_tag (tags : list utag) (name : str) : utag :=
  match find (fun T => str_eqb (t_name T) name) tags with Some T => T | None => dummy_tag end.
Definition find_unit (C : classdef) (name : str) : unitdef :=
  match find (fun U => str_eqb (u_name U) name) (c_units C) with Some U => U | None => dummy_unit end.
Definition find_mod (S : uschema) (name : str) : moddef :=
  match find (fun m => str_eqb (m_name m) name) (s_mods S) with Some m => m | None => dummy_mod end.

Definition s_Duration : str := [68; 117; 114; 97; 116; 105; 111; 110].
Definition s_second : str := [115; 101; 99; 111; 110; 100].
Definition s_Seconds : str := [83; 101; 99; 111; 110; 100; 115].
Definition s_3 : str := [51].
Definition s_s : str := [115].
Definition s_M : str := [77].
Definition s_m : str := [109].
Definition s_Ms : str := [77; 115].
Definition s_ms : str := [109; 115].
Definition s_m_s : str := [109; 32; 115].                                     (* "m s" *)
Definition s_3_m : str := [51; 32; 109].                                      (* "3 m" *)
Definition s_Temperature : str := [84; 101; 109; 112; 101; 114; 97; 116; 117; 114; 101].
Definition s_degree_Celsius : str :=
  [100; 101; 103; 114; 101; 101; 32; 67; 101; 108; 115; 105; 117; 115].      (* "degree Celsius" *)
Definition s_3_degree : str := [51; 32; 100; 101; 103; 114; 101; 101].       (* "3 degree" *)
Definition s_Celsius : str := [67; 101; 108; 115; 105; 117; 115].

(* HED 8.3.0, Duration *)
Definition S83 := Units_8_3_0.schema.
Definition T83 := find_tag Units_8_3_0.tags s_Duration.
Definition cs83 := tag_unit_classes S83 T83.
Definition C83 := hd dummy_class cs83.
Definition U83_second := find_unit C83 s_second.
Definition U83_s := find_unit C83 s_s.
Definition m83_m := find_mod S83 s_m.

(* HED 8.1.0, Temperature: the only NAME of the Celsius unit is "degree Celsius" *)
Definition S81 := Units_8_1_0.schema.
Definition T81 := find_tag Units_8_1_0.tags s_Temperature.
Definition cs81 := tag_unit_classes S81 T81.
Definition C81 := hd dummy_class cs81.
Definition U81_degC := find_unit C81 s_degree_Celsius.

(* HED 8.2.0, Duration *)
Definition S82 := Units_8_2_0.schema.
Definition T82 := find_tag Units_8_2_0.tags s_Duration.
Definition cs82 := tag_unit_classes S82 T82.
Definition C82 := hd dummy_class cs82.
Definition U82_s := find_unit C82 s_s.
Definition m82_M := find_mod S82 s_M.

(* RECORD of finding 10 (repaired by fix: f83491d; fixed = false is the code before it): "Duration/3 Seconds"
   validated without any issue and the conversion raised TypeError, whatever the splitting switches *)
Lemma convert_refuted_case_lemma :
  exists S cs n u v w C U M ft (T : utag),
    wf_schema S = true /\ (forall C, In C cs -> In C (s_classes S)) /\
    no_space n /\ n <> [] /\ rpartition_space (n ++ 32 :: u) = (v, w) /\ w <> [] /\
    cands S cs v = [] /\ unamb S cs u = true /\
    In C cs /\ In U (c_units C) /\ spells S U M u /\ u_prefix U = false /\
    u_factor U = Some ft /\ is_numeric n = true /\
    check_units_valid false false S T cs (n ++ 32 :: u) = [] /\
    value_as_default_unit false false false S cs (n ++ 32 :: u) = Exn TypeError /\
    value_as_default_unit false true true S cs (n ++ 32 :: u) = Exn TypeError.
Proof.
  exists S83, cs83, s_3, s_Seconds, s_3, s_Seconds, C83, U83_second, None, [49; 46; 48], T83.
  split; [vm_compute; reflexivity|].
  split; [intros C H; eapply tag_unit_classes_sub; exact H|].
  split; [vm_compute; reflexivity|]. split; [discriminate|].
  split; [vm_compute; reflexivity|]. split; [discriminate|].
  split; [vm_compute; reflexivity|]. split; [vm_compute; reflexivity|].
  split; [in_list|]. split; [in_list|].
  split; [split; [exact I|right; vm_compute; reflexivity]|].
  split; [vm_compute; reflexivity|]. split; [vm_compute; reflexivity|].
  split; [vm_compute; reflexivity|]. split; [vm_compute; reflexivity|].
  split; vm_compute; reflexivity.
Qed.

(* RECORD of finding 11 (repaired by fix: d18c9c6): "Duration/3 Ms" with HED 8.2.0 (mega is declared 10^6):
   the code computed 3 * 10^7, the declared factors give 3 * 10^6 *)
Lemma convert_refuted_mega_lemma :
  exists S cs n u v w x C U M ft fU fM q,
    wf_schema S = true /\ (forall C, In C cs -> In C (s_classes S)) /\
    no_space n /\ n <> [] /\ rpartition_space (n ++ 32 :: u) = (v, w) /\ w <> [] /\
    cands S cs v = [] /\ unamb S cs u = true /\
    In C cs /\ In U (c_units C) /\ spells S U M u /\ u_prefix U = false /\
    u_factor U = Some ft /\ unit_factor U = Some fU /\ mod_factor M = Some fM /\
    parse_float n = Some x /\
    value_as_default_unit false false false S cs (n ++ 32 :: u) = Ok (Some q) /\
    value_as_default_unit false true true S cs (n ++ 32 :: u) = Ok (Some q) /\
    Qeq q (30000000 # 1) /\ Qeq (Qmult x (Qmult fU fM)) (3000000 # 1) /\
    ~ Qeq q (Qmult x (Qmult fU fM)).
Proof.
  exists S82, cs82, s_3, s_Ms, s_3, s_Ms, (Qmult (inject_Z 3) (pow10 0)), C82, U82_s, (Some m82_M), [49; 46; 48].
  eexists. eexists. eexists.
  split; [vm_compute; reflexivity|].
  split; [intros C H; eapply tag_unit_classes_sub; exact H|].
  split; [vm_compute; reflexivity|]. split; [discriminate|].
  split; [vm_compute; reflexivity|]. split; [discriminate|].
  split; [vm_compute; reflexivity|]. split; [vm_compute; reflexivity|].
  split; [in_list|]. split; [in_list|].
  split; [split; [split; [in_list|vm_compute; reflexivity]|vm_compute; reflexivity]|].
  split; [vm_compute; reflexivity|]. split; [vm_compute; reflexivity|].
  split; [vm_compute; reflexivity|]. split; [vm_compute; reflexivity|].
  split; [vm_compute; reflexivity|].
  split; [vm_compute; reflexivity|]. split; [vm_compute; reflexivity|].
  split; [vm_compute; reflexivity|]. split; [vm_compute; reflexivity|].
  vm_compute. discriminate.
Qed.

(* RECORD of finding C11-F3 (f3 = false is the code before fix: 0669633, with or without fix: 537f494):
   "Temperature/3 degree Celsius" with HED 8.1.0 meets every hypothesis of accepted_iff, the unit text spells the
   unit degree Celsius, and the answer was UNITS_INVALID (and no value) *)
Lemma accepted_refuted_blank_name_lemma :
  exists S cs n u v w (T : utag),
    wf_schema S = true /\ (forall C, In C cs -> In C (s_classes S)) /\
    no_space n /\ n <> [] /\ u <> [] /\ rpartition_space (n ++ 32 :: u) = (v, w) /\ w <> [] /\
    cands S cs v = [] /\ unamb S cs u = true /\
    spelled_in S cs false u /\ check_value_class T n = [] /\
    (forall f4, check_units_valid false f4 S T cs (n ++ 32 :: u) = [UNITS_INVALID]) /\
    (forall f4, value_as_default_unit true false f4 S cs (n ++ 32 :: u) = Ok None).
Proof.
  exists S81, cs81, s_3, s_degree_Celsius, s_3_degree, s_Celsius, T81.
  split; [vm_compute; reflexivity|].
  split; [intros C H; eapply tag_unit_classes_sub; exact H|].
  split; [vm_compute; reflexivity|]. split; [discriminate|]. split; [discriminate|].
  split; [vm_compute; reflexivity|]. split; [discriminate|].
  split; [vm_compute; reflexivity|]. split; [vm_compute; reflexivity|].
  split.
  { exists C81, U81_degC, None.
    split; [in_list|]. split; [in_list|].
    split; [split; [exact I|left; vm_compute; reflexivity]|vm_compute; reflexivity]. }
  split; [vm_compute; reflexivity|].
  split; intros [|]; vm_compute; reflexivity.
Qed.

(* RECORD of finding C11-F4 (f3 = f4 = false is the code before fix: 537f494 and fix: 0669633): "Duration/3 m s" with HED 8.3.0
   meets every hypothesis of other_text_invalid -- "m s" spells no unit -- and drew no issue at all, while the
   conversion raised ValueError *)
Lemma other_text_refuted_extra_words_lemma :
  exists S cs n u v w (T : utag),
    wf_schema S = true /\ (forall C, In C cs -> In C (s_classes S)) /\
    no_space n /\ rpartition_space (n ++ 32 :: u) = (v, w) /\ cands S cs v = [] /\
    ~ spelled_in S cs false u /\ ~ spelled_in S cs true v /\
    check_units_valid false false S T cs (n ++ 32 :: u) = [] /\
    value_as_default_unit true false false S cs (n ++ 32 :: u) = Exn ValueError.
Proof.
  exists S83, cs83, s_3, s_m_s, s_3_m, s_s, T83.
  assert (Hwf : wf_schema S83 = true) by (vm_compute; reflexivity).
  assert (Hcs : forall C, In C cs83 -> In C (s_classes S83))
    by (intros C H; eapply tag_unit_classes_sub; exact H).
  split; [exact Hwf|]. split; [exact Hcs|].
  split; [vm_compute; reflexivity|]. split; [vm_compute; reflexivity|].
  split; [vm_compute; reflexivity|].
  assert (Hno : forall t pre, unamb S83 cs83 t = true -> cands S83 cs83 t = [] -> ~ spelled_in S83 cs83 pre t).
  { intros t pre Hun Hc [C [U [M [HC [HU [Hsp HP]]]]]].
    destruct (spelled_hit S83 cs83 Hwf Hcs C U M t Hun HC HU Hsp) as [e [_ [Hin _]]].
    rewrite Hc in Hin. destruct Hin. }
  split; [apply Hno; vm_compute; reflexivity|].
  split; [apply Hno; vm_compute; reflexivity|].
  split; vm_compute; reflexivity.
Qed.

(* non-vacuity: the hypotheses of convert_value are met by "Duration/3 ms" (HED 8.3.0), and the theorem
   (not evaluation) gives 3 * (1.0 * 0.001) *)
Lemma nonvacuous_lemma :
  exists fU fM,
    unit_factor U83_s = Some fU /\ mod_factor (Some m83_m) = Some fM /\
    Qeq fU 1 /\ Qeq fM (1 # 1000) /\
    value_as_default_unit true true true S83 cs83 (s_3 ++ 32 :: s_ms)
      = Ok (Some (Qmult (Qmult (inject_Z 3) (pow10 0)) (Qmult fU fM))).
Proof.
  eexists. eexists.
  split; [vm_compute; reflexivity|]. split; [vm_compute; reflexivity|].
  split; [vm_compute; reflexivity|]. split; [vm_compute; reflexivity|].
  apply (convert_value_lemma S83 cs83) with (v := s_3) (w := s_ms) (C := C83) (U := U83_s) (M := Some m83_m)
                                            (ft := [49; 46; 48]).
  - vm_compute; reflexivity.
  - intros C H; eapply tag_unit_classes_sub; exact H.
  - vm_compute; reflexivity.
  - discriminate.
  - vm_compute; reflexivity.
  - discriminate.
  - vm_compute; reflexivity.
  - vm_compute; reflexivity.
  - in_list.
  - in_list.
  - split; [split; [in_list|vm_compute; reflexivity]|vm_compute; reflexivity].
  - vm_compute; reflexivity.
  - vm_compute; reflexivity.
  - vm_compute; reflexivity.
  - vm_compute; reflexivity.
  - vm_compute; reflexivity.
Qed.

(* non-vacuity for unit names with a blank: "Temperature/3 degree Celsius" (HED 8.1.0) meets the hypotheses
   of convert_value; the theorem gives 3 * (1.0 * 1) *)
Lemma nonvacuous_blank_lemma :
  exists fU,
    unit_factor U81_degC = Some fU /\ Qeq fU 1 /\
    check_units_valid true true S81 T81 cs81 (s_3 ++ 32 :: s_degree_Celsius) = [] /\
    value_as_default_unit true true true S81 cs81 (s_3 ++ 32 :: s_degree_Celsius)
      = Ok (Some (Qmult (Qmult (inject_Z 3) (pow10 0)) (Qmult fU 1))).
Proof.
  eexists.
  split; [vm_compute; reflexivity|]. split; [vm_compute; reflexivity|].
  split; [vm_compute; reflexivity|].
  apply (convert_value_lemma S81 cs81) with (v := s_3_degree) (w := s_Celsius) (C := C81) (U := U81_degC)
                                            (M := None) (ft := [49; 46; 48]).
  - vm_compute; reflexivity.
  - intros C H; eapply tag_unit_classes_sub; exact H.
  - vm_compute; reflexivity.
  - discriminate.
  - vm_compute; reflexivity.
  - discriminate.
  - vm_compute; reflexivity.
  - vm_compute; reflexivity.
  - in_list.
  - in_list.
  - split; [exact I|left; vm_compute; reflexivity].
  - vm_compute; reflexivity.
  - vm_compute; reflexivity.
  - vm_compute; reflexivity.
  - reflexivity.
  - vm_compute; reflexivity.
Qed.

(* ------------------------------------------------------------------ the one bundled text with two readings: uV
   in electricPotentialUnits (HED 8.3.0, score 2.0.0): micro + symbol V (factors 10e-6 and 0.000001 as the schema
   writes them) and the unit NAME uV (factor 1.0).  It is outside [unamb]; this is what the code does with it. *)

Definition s_epu : str :=
  [101; 108; 101; 99; 116; 114; 105; 99; 80; 111; 116; 101; 110; 116; 105; 97; 108; 85; 110; 105; 116; 115].
Definition s_V : str := [86].
Definition s_u : str := [117].
Definition s_uV : str := [117; 86].
Definition s_uv : str := [117; 118].
Definition s_UV : str := [85; 86].
Definition s_Feature_amplitude : str :=
  [70; 101; 97; 116; 117; 114; 101; 45; 97; 109; 112; 108; 105; 116; 117; 100; 101].

Definition find_class (S : uschema) (name : str) : classdef :=
  match find (fun c => str_eqb (c_name c) name) (s_classes S) with Some c => c | None => dummy_class end.

Definition C83_epu := find_class S83 s_epu.
Definition U83_V := find_unit C83_epu s_V.
Definition U83_uV := find_unit C83_epu s_uV.
Definition m83_u := find_mod S83 s_u.
Definition T_numeric : utag := mkUTag [] [] true.

Definition Ssc2 := Units_score_2_0_0.schema.
Definition Tsc2 := find_tag Units_score_2_0_0.tags s_Feature_amplitude.
Definition cssc2 := tag_unit_classes Ssc2 Tsc2.

Lemma ambiguous_uV_lemma :
  (* two readings, excluded by unamb *)
  spells S83 U83_V (Some m83_u) s_uV /\ spells S83 U83_uV None s_uV /\
  In U83_V (c_units C83_epu) /\ In U83_uV (c_units C83_epu) /\ In C83_epu (s_classes S83) /\
  unamb S83 [C83_epu] s_uV = false /\
  (* 3 uV is accepted, and converted through the SYMBOL reading micro-V (the exact-key lookup comes first):
     3 * 0.000001 * 10e-6 = 3e-11, not 3 * 1.0 *)
  check_units_valid true true S83 T_numeric [C83_epu] (s_3 ++ 32 :: s_uV) = [] /\
  (exists q, value_as_default_unit true true true S83 [C83_epu] (s_3 ++ 32 :: s_uV) = Ok (Some q) /\
             Qeq q (3 # 100000000000) /\
             Qeq q (Qmult (Qmult (inject_Z 3) (pow10 0)) (conv true U83_V (Some m83_u))) /\
             ~ Qeq q (Qmult (Qmult (inject_Z 3) (pow10 0)) (conv true U83_uV None))) /\
  (* in any other letter case only the NAME reading exists: factor 1.0 *)
  (exists q, value_as_default_unit true true true S83 [C83_epu] (s_3 ++ 32 :: s_uv) = Ok (Some q) /\ Qeq q 3) /\
  (exists q, value_as_default_unit true true true S83 [C83_epu] (s_3 ++ 32 :: s_UV) = Ok (Some q) /\ Qeq q 3) /\
  (* the same through the score 2.0.0 node Feature-amplitude, which uses this unit class *)
  check_units_valid true true Ssc2 Tsc2 cssc2 (s_3 ++ 32 :: s_uV) = [] /\
  (exists q, value_as_default_unit true true true Ssc2 cssc2 (s_3 ++ 32 :: s_uV) = Ok (Some q) /\
             Qeq q (3 # 100000000000)).
Proof.
  split; [split; [split; [in_list|vm_compute; reflexivity]|vm_compute; reflexivity]|].
  split; [split; [exact I|left; vm_compute; reflexivity]|].
  split; [in_list|]. split; [in_list|]. split; [in_list|].
  split; [vm_compute; reflexivity|].
  split; [vm_compute; reflexivity|].
  split.
  { eexists. split; [vm_compute; reflexivity|].
    split; [vm_compute; reflexivity|]. split; [vm_compute; reflexivity|]. vm_compute. discriminate. }
  split; [eexists; split; vm_compute; reflexivity|].
  split; [eexists; split; vm_compute; reflexivity|].
  split; [vm_compute; reflexivity|].
  eexists; split; vm_compute; reflexivity.
Qed.

(* ------------------------------------------------------------------ a per-string cache keyed by case-folded text
   would break the per-tag rule (the shape of seeded change C11/4): (Duration/3 ms), (Duration/3 MS) *)
Lemma memo_casefold_unsound_lemma :
  let V := fun te : utag * str => validate_units true true S83 (fst te) (snd te) in
  let key := fun te : utag * str => casefold (snd te) in
  let tags := [(T83, s_3 ++ 32 :: s_ms); (T83, s_3 ++ 32 :: [77; 83])] in
  flat_map V tags = [UNITS_INVALID] /\ memo_loop V key [] tags = [] /\
  validate_units_string true true S83 tags = [UNITS_INVALID].
Proof. vm_compute. repeat split; reflexivity. Qed.
