(* C13 -- concrete witnesses (refutations, non-vacuity) and kernel-evaluated checks on the translated
   bundled schemas (Gen/Repo_c13.v). *)
From Coq Require Import List NArith Arith Bool Lia.
From HV Require Import Base.Res Base.Str Base.SchemaData Model.Namespace Model.NamespaceX
  Proofs.NamespaceProofs Gen.Repo_c13.
Import ListNotations.
Local Open Scope N_scope.

Definition s_red : str := [82; 101; 100].
Definition s_blue : str := [66; 108; 117; 101].
Definition s_slash_red_slash : str := [47; 82; 101; 100; 47].            (* "/Red/" *)
Definition s_3a : str := [51; 97].                                        (* "3a" *)
Definition s_label_e : str := [76; 97; 98; 101; 108; 47; 233].            (* "Label/é" *)

Definition G83 : group := [([], std83); (ns_tl, lib83)].
Definition Gmixed : group := [([], std83); (ns_tl, lib82)].
Definition Gmixed' : group := [([], std82); (ns_tl, lib83)].
Definition G82e : group := [([], std82); (ns_e_acute, lib82)].

Lemma wf_ns_tl : wf_ns ns_tl.
Proof. exists [116; 108]. split; reflexivity. Qed.
Lemma wf_ns_e : wf_ns ns_e_acute.
Proof. exists [233]. split; reflexivity. Qed.

Lemma nodup2 (a b : str) : a <> b -> NoDup [a; b].
Proof. intro H. constructor; [intros [E|[]]; apply H; symmetry; exact E | constructor; [intros [] | constructor]]. Qed.

(* the structural side of the hypotheses of prefixed_equiv, shared by the witnesses *)
Definition structural (G : group) (p : str) (Sp : sch) (a : ann str) : Prop :=
  NoDup (map fst G) /\ lookup p G = Some Sp /\ wf_ns p /\ x_str_isalpha (drop_last p) = true /\
  Forall (fun t => get_schema_namespace t = []) (ann_tags a).

(* 1. "tl:/Red/" gets one NODE_NAME_EMPTY, "/Red/" two: the pattern ^/ is applied to the text with its namespace *)
Lemma prefixed_equiv_refuted_leading_slash :
  exists G p Sp a, structural G p Sp a /\ schema83_group G = schema83_single Sp /\
    x_verdict false (cfg_group G) (prefix_ann p a) <> x_verdict false (cfg_single ([], Sp)) a.
Proof.
  exists G83, ns_tl, lib83, (AGrp [ATag s_slash_red_slash]).
  split; [|split; [reflexivity | vm_compute; discriminate]].
  repeat split; try reflexivity; [apply nodup2; discriminate | exact wf_ns_tl | repeat constructor].
Qed.

(* 2. "tl:3a" gets a STYLE_WARNING, "3a" does not: capitalisation is checked on the text with its namespace *)
Lemma prefixed_equiv_refuted_capitalization :
  exists G p Sp a, structural G p Sp a /\ schema83_group G = schema83_single Sp /\
    x_verdict false (cfg_group G) (prefix_ann p a) <> x_verdict false (cfg_single ([], Sp)) a.
Proof.
  exists G83, ns_tl, lib83, (AGrp [ATag s_3a]).
  split; [|split; [reflexivity | vm_compute; discriminate]].
  repeat split; try reflexivity; [apply nodup2; discriminate | exact wf_ns_tl | repeat constructor].
Qed.

(* 3. a group mixing an 8.3-generation schema with an 8.2-partnered library validates the library's tags
      with the 8.3 character rules: "tl:Label/é" is clean, "Label/é" against the library alone is not *)
Lemma prefixed_equiv_refuted_mixed_generation :
  exists G p Sp a, structural G p Sp a /\
    x_verdict true (cfg_group G) (prefix_ann p a) = [] /\ x_verdict true (cfg_single ([], Sp)) a = [CharacterInvalid].
Proof.
  exists Gmixed, ns_tl, lib82, (AGrp [ATag s_label_e]).
  split; [|split; vm_compute; reflexivity].
  repeat split; try reflexivity; [apply nodup2; discriminate | exact wf_ns_tl | repeat constructor].
Qed.

Lemma unprefixed_equiv_refuted_mixed_generation :
  exists G Sp a, NoDup (map fst G) /\ lookup [] G = Some Sp /\
    Forall (fun t => get_schema_namespace t = []) (ann_tags a) /\
    x_verdict true (cfg_group G) a = [] /\ x_verdict true (cfg_single ([], Sp)) a = [CharacterInvalid].
Proof.
  exists Gmixed', std82, (AGrp [ATag s_label_e]).
  split; [apply nodup2; discriminate|]. split; [reflexivity|]. split; [repeat constructor|].
  split; vm_compute; reflexivity.
Qed.

(* 4. a non-ASCII alphabetic namespace is accepted by set_schema_prefix but, under pre-8.3 character
      rules, every tag written with it is CHARACTER_INVALID *)
Lemma prefixed_equiv_refuted_nonascii_prefix :
  exists G p Sp a, structural G p Sp a /\ schema83_group G = schema83_single Sp /\
    x_set_schema_prefix false p = Ok p /\
    x_verdict false (cfg_group G) (prefix_ann p a) = [CharacterInvalid] /\ x_verdict false (cfg_single ([], Sp)) a = [].
Proof.
  exists G82e, ns_e_acute, lib82, (AGrp [ATag s_red]).
  split; [|split; [reflexivity | split; [vm_compute; reflexivity | split; vm_compute; reflexivity]]].
  repeat split; try reflexivity; [apply nodup2; discriminate | exact wf_ns_e | repeat constructor].
Qed.

(* non-vacuity: every hypothesis of prefixed_equiv_partial holds for a nested annotation in G83 *)
Definition ex_ann : ann str := AGrp [ATag s_red; AGrp [ATag s_blue; ATag s_red]].

Lemma no_rules_uniform : RUniform no_rules.
Proof. intros b p t _ _. reflexivity. Qed.

(* CPython's tables have the three facts the theorems about the repaired code assume *)
Definition ascii_tables_check : bool :=
  forallb (fun n => let c := N.of_nat n in
             implb (is_ascii_letter c) (x_isalpha c)
             && implb ((32 <=? c) && (c <=? 126)) (x_isprint c)
             && implb (x_isalpha c) (is_ascii_letter c)) (seq 0 128).

Lemma ascii_tables_check_ok : ascii_tables_check = true.
Proof. vm_compute. reflexivity. Qed.

Lemma ascii_tables_at c : (c <= 127) ->
  implb (is_ascii_letter c) (x_isalpha c) && implb ((32 <=? c) && (c <=? 126)) (x_isprint c)
  && implb (x_isalpha c) (is_ascii_letter c) = true.
Proof.
  intro Hc. pose proof ascii_tables_check_ok as H. unfold ascii_tables_check in H.
  rewrite forallb_forall in H. specialize (H (N.to_nat c)).
  rewrite N2Nat.id in H. apply H. apply in_seq. lia.
Qed.

Lemma x_HA : forall c, is_ascii_letter c = true -> x_isalpha c = true.
Proof.
  intros c Hl. assert (Hc : c <= 127) by (apply letter_cases in Hl; lia).
  pose proof (ascii_tables_at c Hc) as H. apply andb_true_iff in H as [H _]. apply andb_true_iff in H as [H _].
  rewrite Hl in H. exact H.
Qed.

Lemma x_HP : forall c, 32 <= c <= 126 -> x_isprint c = true.
Proof.
  intros c Hr. assert (Hc : c <= 127) by lia.
  pose proof (ascii_tables_at c Hc) as H. apply andb_true_iff in H as [H _]. apply andb_true_iff in H as [_ H].
  replace ((32 <=? c) && (c <=? 126)) with true in H; [exact H|].
  symmetry. apply andb_true_iff. split; apply N.leb_le; lia.
Qed.

Lemma x_HC : forall c, x_isalpha c = true -> c <= 127 -> is_ascii_letter c = true.
Proof.
  intros c Ha Hc. pose proof (ascii_tables_at c Hc) as H. apply andb_true_iff in H as [_ H].
  rewrite Ha in H. exact H.
Qed.

Lemma ns_ok_tl : ns_ok ns_tl.
Proof. exists [116; 108]. split; [reflexivity | split; [discriminate | reflexivity]]. Qed.

Lemma toy_fits : FindFits lib83.
Proof. intros t e r iss H. cbv in H. injection H as _ <- _. simpl. lia. Qed.

(* non-vacuity: every hypothesis of prefixed_equiv (repaired code) holds for a nested annotation in G83,
   including the witnesses that refute the unrepaired code *)
Definition ex_ann2 : ann str := AGrp [ATag s_slash_red_slash; AGrp [ATag s_3a; ATag s_red]].

Lemma prefixed_equiv_nonvacuous :
  x_verdict true (cfg_group G83) (prefix_ann ns_tl ex_ann) = x_verdict true (cfg_single ([], lib83)) ex_ann
  /\ x_verdict true (cfg_group G83) (prefix_ann ns_tl ex_ann2) = x_verdict true (cfg_single ([], lib83)) ex_ann2
  /\ ann_tags (prefix_ann ns_tl ex_ann) = [ns_tl ++ s_red; ns_tl ++ s_blue; ns_tl ++ s_red].
Proof.
  assert (Hs : forall tags, ForeignSilent lower_ascii G83 ns_tl tags).
  { intros tags q Sq Hin Hq. simpl in Hin. destruct Hin as [E|[E|[]]]; inversion E; subst.
    - split; reflexivity.
    - contradiction. }
  split; [|split; [|reflexivity]];
    (apply (prefixed_equiv x_isalpha x_isprint lower_ascii upper_ascii lower_ascii no_rules no_rules no_rules x_HA x_HP);
     try exact no_rules_uniform; try reflexivity;
     [apply nodup2; discriminate | exact ns_ok_tl | exact toy_fits | repeat constructor | apply Hs]).
Qed.

(* ------------------------------------------------------------------ bundled data *)

Definition bundled_tables : list table := map (fun kf => build_table (f_nodes (snd kf))) bundled_repo.

(* side condition of the equivalence theorems on the bundled schemas: none has a `required` tag, and every
   `unique` name written with any of the namespaces "", "tl:", "sc:" is incomparable with every other one *)
Definition ns_sc : str := [115; 99; 58].
Definition incomparable (a b : str) : bool := negb (prefixb a b) && negb (prefixb b a).
Definition bundled_side_condition : bool :=
  forallb (fun T =>
    match table_twa T s_required with [] => true | _ => false end &&
    forallb (fun u =>
      forallb (fun qp => incomparable (fold_ascii (fst qp ++ u)) (fold_ascii (snd qp)))
              [([], ns_tl); ([], ns_sc); (ns_tl, ns_sc); (ns_sc, ns_tl)])
      (table_twa T s_unique)) bundled_tables.

Lemma bundled_side_condition_holds : bundled_side_condition = true.
Proof. vm_cast_no_check (eq_refl true). Qed.

Definition std_820 : table := build_table (f_nodes file_8_2_0).
Definition std_830 : table := build_table (f_nodes file_8_3_0).

(* every standard tag resolves in the partnered library schema to the same node (same names, same attributes
   up to inLibrary), and is not marked inLibrary there -- all five bundled pairings *)
Definition partnered_pairs_ok : bool :=
  contains_standard std_830 (build_table (f_nodes file_score_2_0_0)) &&
  contains_standard std_820 (build_table (f_nodes file_score_1_1_0)) &&
  contains_standard std_820 (build_table (f_nodes file_testlib_2_0_0)) &&
  contains_standard std_820 (build_table (f_nodes file_testlib_2_1_0)) &&
  contains_standard std_820 (build_table (f_nodes file_testlib_3_0_0)).

Lemma partnered_pairs_hold : partnered_pairs_ok = true.
Proof. vm_cast_no_check (eq_refl true). Qed.

(* the loader on the bundled files *)
Definition v (s : str) := s.
Definition k_830 : str := [56; 46; 51; 46; 48].
Definition k_score2 : str := [115; 99; 111; 114; 101; 95; 50; 46; 48; 46; 48].
Definition k_score1 : str := [115; 99; 111; 114; 101; 95; 49; 46; 49; 46; 48].
Definition k_tl2 : str := [116; 101; 115; 116; 108; 105; 98; 95; 50; 46; 48; 46; 48].
Definition k_tl21 : str := [116; 101; 115; 116; 108; 105; 98; 95; 50; 46; 49; 46; 48].
Definition k_tl3 : str := [116; 101; 115; 116; 108; 105; 98; 95; 51; 46; 48; 46; 48].

Definition summary (r : lres (list lschema)) : lres (list (str * nat * nat)) :=
  match r with
  | LOk ls => LOk (map (fun L => (l_ns L, length (t_entries (l_table L)), length (t_dups (l_table L)))) ls)
  | LErr e => LErr e
  end.

Definition bundled_load_cases : list (list str) :=
  [ [k_830; ns_sc ++ k_score2; ns_tl ++ k_tl3];     (* a group of three *)
    [k_score1; k_tl2];                               (* two libraries with the same partner, merged *)
    [k_tl2; k_tl2];                                  (* same library twice *)
    [k_tl2; k_tl21];                                 (* two versions of one library: clashing names *)
    [k_830; k_score2];                               (* a standard schema cannot be merged into *)
    [k_score2; k_tl3];                               (* different partners *)
    [k_tl2; ns_tl ++ k_tl2];                         (* same library under two prefixes: allowed *)
    [k_830; ns_e_acute ++ k_tl2] ].                  (* a non-ASCII namespace is refused (since the repair) *)

Definition bundled_load_expected : list (lres (list (str * nat * nat))) :=
  [ LOk [([], 1230%nat, 0%nat); (ns_sc, 1740%nat, 0%nat); (ns_tl, 1151%nat, 0%nat)];
    LOk [([], 2010%nat, 0%nat)];
    LErr SCHEMA_DUPLICATE_LIBRARY;
    LErr SCHEMA_DUPLICATE_NAMES;
    LErr SCHEMA_DUPLICATE_PREFIX;
    LErr BAD_WITH_STANDARD_MULTIPLE_VALUES;
    LOk [([], 1157%nat, 0%nat); (ns_tl, 1157%nat, 0%nat)];
    LErr INVALID_LIBRARY_PREFIX ].

Lemma bundled_loads :
  map (fun l => summary (x_load_schema_version true bundled_repo l)) bundled_load_cases = bundled_load_expected.
Proof. vm_cast_no_check (eq_refl bundled_load_expected). Qed.

(* C13-F4 repaired: the non-ASCII namespace of the record above is no longer accepted *)
Lemma nonascii_namespace_refused_now :
  x_set_schema_prefix false ns_e_acute = Ok ns_e_acute /\ x_set_schema_prefix true ns_e_acute = Exn HedFileError.
Proof. split; vm_compute; reflexivity. Qed.
