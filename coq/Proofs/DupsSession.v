(* Proofs about Model/Dups.v (property C04), part 5: validation sessions.
   The verdict of a row is a function of the row, whatever was validated
   before with the same object; hence the invariance theorems hold after any
   history.  (This is a statement about the group rules, which keep no state.
   Tag resolution -- HedSchema._find_tag_entry -- is an INPUT of this model;
   that the schema object does not remember earlier spellings is checked on
   the implementation by the history oracle of harness/c04.py.) *)
From Coq Require Import List NArith Arith Bool Lia Permutation.
From HV Require Import Base.Res Base.Str Model.Dups Proofs.DupsProofs Proofs.DupsCount Proofs.DupsRules.
Import ListNotations.

Definition verdict (s : session) (row : list tree) : res (list kind) :=
  group_checks (s_mode s) (s_nreq s) (s_nuniq s) row.

Lemma session_run_spec s rows : session_run s rows = (s, map (verdict s) rows).
Proof.
  induction rows as [|r rows IH]; [reflexivity|].
  cbn [session_run session_step map]. rewrite IH. reflexivity.
Qed.

(* the session object is never changed *)
Lemma session_state_constant s rows : fst (session_run s rows) = s.
Proof. rewrite session_run_spec. reflexivity. Qed.

(* the verdict of the row validated after the history [h] is the verdict of
   the row alone *)
Lemma history_independent s h row :
  nth (length h) (snd (session_run s (h ++ [row]))) (Exn Unmodelled) = verdict s row.
Proof.
  rewrite session_run_spec. cbn [snd]. rewrite map_app. cbn [map].
  rewrite app_nth2; rewrite map_length; [|lia]. rewrite Nat.sub_diag. reflexivity.
Qed.

Definition fixed_session (nr nu : nat) : session := mkSession Fx nr nu.

(* after ANY two histories, two writings of an annotation that differ in
   sibling order get the same multiset of issues (the code as it is) *)
Lemma history_order_invariant nr nu h h' top top' :
  PermForest top top' -> forallb wft top = true ->
  exists l l',
    nth (length h) (snd (session_run (fixed_session nr nu) (h ++ [top]))) (Exn Unmodelled) = Ok l /\
    nth (length h') (snd (session_run (fixed_session nr nu) (h' ++ [top']))) (Exn Unmodelled) = Ok l' /\
    Permutation l l'.
Proof.
  intros Hp Hw. rewrite !history_independent. unfold verdict, fixed_session. cbn [s_mode s_nreq s_nuniq].
  apply group_checks_perm_fixed; assumption.
Qed.

(* ... and two respellings get the same list *)
Lemma history_spelling_invariant nr nu h h' top top' :
  Respell top top' -> forallb wft top = true ->
  exists l,
    nth (length h) (snd (session_run (fixed_session nr nu) (h ++ [top]))) (Exn Unmodelled) = Ok l /\
    nth (length h') (snd (session_run (fixed_session nr nu) (h' ++ [top']))) (Exn Unmodelled) = Ok l.
Proof.
  intros Hr Hw. rewrite !history_independent. unfold verdict, fixed_session. cbn [s_mode s_nreq s_nuniq].
  apply group_checks_respell_fixed; assumption.
Qed.
