(* C07 -- lemmas about Model/FileValidate.v.  Everything is proved for arbitrary
   string-level phases (Section variables), i.e. relative to string validation. *)
From Coq Require Import List ZArith NArith Bool Arith Lia Permutation.
From HV Require Import Base.Res Model.FileValidate.
Import ListNotations.

(* ------------------------------------------------------------------ generic *)

Lemma insert_perm {A} (key : A -> option Z) x l : Permutation (insert key x l) (x :: l).
Proof.
  induction l as [|y l IH]; cbn [insert]; [reflexivity|].
  destruct (key_le (key x) (key y)) eqn:E; [reflexivity|].
  rewrite IH. apply perm_swap.
Qed.

Lemma sort_by_perm {A} (key : A -> option Z) l : Permutation (sort_by key l) l.
Proof.
  induction l as [|x l IH]; cbn [sort_by]; [reflexivity|].
  rewrite insert_perm. now rewrite IH.
Qed.

Lemma bind_ok {A B} (r : res A) (f : A -> res B) b :
  bind r f = Ok b -> exists a, r = Ok a /\ f a = Ok b.
Proof. destruct r as [a|e]; cbn; [eauto|discriminate]. Qed.

Lemma flat_map_nil {A B} (f : A -> list B) l : (forall x, In x l -> f x = []) -> flat_map f l = [].
Proof.
  induction l as [|x l IH]; intros H; cbn; [reflexivity|].
  rewrite H by (now left). rewrite IH; [reflexivity|]. intros y Hy. apply H. now right.
Qed.

(* ------------------------------------------------------------------ frames *)

Lemma indexed_from_length i t : length (indexed_from i t) = length t.
Proof. revert i; induction t as [|r t IH]; intros i; cbn; [reflexivity|]. now rewrite IH. Qed.

Lemma indexed_from_nth i t j d :
  nth_error (indexed_from i t) j = Some d ->
  dr_label d = i + j /\ exists r, nth_error t j = Some r /\ dr_onset d = r_onset r /\ dr_body d = r_body r.
Proof.
  revert i j d; induction t as [|r t IH]; intros i j d H; [destruct j; discriminate|].
  destruct j as [|j]; cbn in H.
  - inversion H; subst; cbn. split; [lia|]. exists r. auto.
  - apply IH in H as [Hl Hr]. split; [lia|]. exact Hr.
Qed.

Lemma indexed_from_nth_inv i t j r :
  nth_error t j = Some r ->
  nth_error (indexed_from i t) j = Some {| dr_label := i + j; dr_onset := r_onset r; dr_body := r_body r |}.
Proof.
  revert i j; induction t as [|r' t IH]; intros i j H; [destruct j; discriminate|].
  destruct j as [|j]; cbn in *.
  - inversion H; subst. replace (i + 0) with i by lia. reflexivity.
  - rewrite (IH (S i) j H). replace (i + S j) with (S i + j) by lia. reflexivity.
Qed.

(* what every row of a frame satisfies w.r.t. the table *)
Definition from_table (t : list row) (d : drow) : Prop :=
  dr_label d < length t /\ In (dr_onset d) (map r_onset t) /\ In (dr_body d) (map r_body t).

Lemma indexed_from_table t : Forall (from_table t) (indexed t).
Proof.
  apply Forall_forall. intros d Hd. apply In_nth_error in Hd as [j Hj].
  pose proof (nth_error_Some (indexed t) j) as Hlen.
  apply indexed_from_nth in Hj as (Hl & r & Hr & Ho & Hb).
  assert (j < length t) by (apply nth_error_Some; congruence).
  apply nth_error_In in Hr.
  split; [cbn in Hl; lia|]. split; [rewrite Ho|rewrite Hb]; now apply in_map.
Qed.

Lemma realign_from_table t data :
  Forall (from_table t) data -> Forall (from_table t) (realign data).
Proof.
  intros H. unfold realign. apply Forall_forall. intros d Hd.
  apply in_map_iff in Hd as (d0 & <- & Hd0).
  rewrite Forall_forall in H. pose proof (H d0 Hd0) as (H1 & H2 & H3).
  split; [exact H1|]. split; [exact H2|]. cbn.
  destruct (nth_error data (dr_label d0)) as [s|] eqn:E; [|exact H3].
  apply nth_error_In in E. now apply H in E as (_ & _ & E).
Qed.

Lemma realign_length data : length (realign data) = length data.
Proof. unfold realign. apply map_length. Qed.

Lemma realign_id data :
  (forall j d, nth_error data j = Some d -> dr_label d = j) -> realign data = data.
Proof.
  intros H. unfold realign. rewrite <- (map_id data) at 2. apply map_ext_in.
  intros d Hd. apply In_nth_error in Hd as [j Hj]. pose proof (H j d Hj) as Hl.
  rewrite Hl, Hj. destruct d; cbn in *; subst; reflexivity.
Qed.

Section WithCfg.
  Variable cfg : config.
  Variable t : list row.

  Lemma frame_from_table : Forall (from_table t) (frame cfg t).
  Proof.
    unfold frame.
    assert (H : Forall (from_table t)
                  (if needs_sorting cfg t then sort_by dr_onset (indexed t) else indexed t)).
    { destruct (needs_sorting cfg t); [|apply indexed_from_table].
      eapply Permutation_Forall; [symmetry; apply sort_by_perm|apply indexed_from_table]. }
    destruct (cf_has_refs cfg); [now apply realign_from_table|exact H].
  Qed.

  Lemma frame_length : length (frame cfg t) = length t.
  Proof.
    unfold frame.
    assert (H : length (if needs_sorting cfg t then sort_by dr_onset (indexed t) else indexed t) = length t).
    { destruct (needs_sorting cfg t).
      - rewrite (Permutation_length (sort_by_perm _ _)). apply indexed_from_length.
      - apply indexed_from_length. }
    destruct (cf_has_refs cfg); [now rewrite realign_length|exact H].
  Qed.

  (* no scrambling: no curly-brace reference, or the file is already sorted *)
  Definition no_scramble : Prop := cf_has_refs cfg = false \/ needs_sorting cfg t = false.

  Lemma frame_perm : no_scramble -> Permutation (frame cfg t) (indexed t).
  Proof.
    intros [H|H]; unfold frame; rewrite H.
    - destruct (needs_sorting cfg t); [apply sort_by_perm|reflexivity].
    - destruct (cf_has_refs cfg); [|reflexivity].
      rewrite realign_id; [reflexivity|].
      intros j d Hj. unfold indexed in Hj. apply indexed_from_nth in Hj as [Hl _]. lia.
  Qed.
End WithCfg.

(* ------------------------------------------------------------------ Delay split *)

Lemma mapM_total {A B} (f : A -> res B) l :
  Forall (fun x => exists y, f x = Ok y) l -> exists ys, mapM f l = Ok ys.
Proof.
  induction 1 as [|x l [y Hy] _ [ys IH]]; cbn [mapM]; [eauto|].
  rewrite Hy. cbn [bind]. rewrite IH. cbn [bind]. eauto.
Qed.

(* a successful mapM is a map *)
Lemma mapM_map {A B} (f : A -> res B) (dflt : A -> B) l ys :
  mapM f l = Ok ys ->
  ys = map (fun x => match f x with Ok y => y | Exn _ => dflt x end) l /\
  Forall (fun x => exists y, f x = Ok y) l.
Proof.
  revert ys; induction l as [|x l IH]; intros ys H; cbn [mapM] in H.
  - inversion H; subst. split; [reflexivity|constructor].
  - apply bind_ok in H as (y & Hy & H). apply bind_ok in H as (ys' & Hys & H). inversion H; subst.
    destruct (IH ys' Hys) as (-> & Hf). cbn [map]. rewrite Hy. split; [reflexivity|]. constructor; eauto.
Qed.

Definition decision_total (cfg : config) (o : option Z) (d : delay) : Prop :=
  exists x, delay_decision cfg o d = Ok x.

Lemma delay_rows_total cfg o lbl ids k ds :
  Forall (decision_total cfg o) ds -> exists r, delay_rows cfg o lbl ids k ds = Ok r.
Proof.
  intros H. revert k. induction H as [|d ds [x Hx] _ IH]; intros k; cbn [delay_rows]; [eauto|].
  rewrite Hx. cbn [bind]. destruct (IH (S k)) as [rest Hr]. rewrite Hr. cbn [bind]. destruct x; eauto.
Qed.

Lemma delay_rows_props cfg o lbl ids k ds r :
  delay_rows cfg o lbl ids k ds = Ok r ->
  Forall (fun x => s_orig x = lbl /\ s_time x <> None) (fst r) /\
  map s_ann (fst r) = map (fun j => [PDelay ids j]) (snd r).
Proof.
  revert k r; induction ds as [|d ds IH]; intros k r H; cbn [delay_rows] in H.
  - inversion H; subst; cbn. split; [constructor|reflexivity].
  - apply bind_ok in H as (dec & _ & H). apply bind_ok in H as (rest & Hr & H).
    destruct (IH (S k) rest Hr) as (Hf & Ha).
    destruct dec as [z|]; inversion H; subst; cbn [fst snd map].
    + split; [constructor; [cbn; split; [reflexivity|discriminate]|exact Hf]|]. now rewrite Ha.
    + split; assumption.
Qed.

(* without a numeric onset no group is ever moved *)
Lemma delay_rows_no_onset cfg lbl ids k ds r :
  delay_rows cfg None lbl ids k ds = Ok r -> r = ([], []).
Proof.
  revert k r; induction ds as [|d ds IH]; intros k r H; cbn [delay_rows] in H.
  - now inversion H.
  - apply bind_ok in H as (dec & Hd & H). apply bind_ok in H as (rest & Hr & H).
    apply IH in Hr. subst rest.
    assert (dec = None) as ->.
    { unfold delay_decision in Hd. destruct (cf_fix_value cfg).
      - destruct (value_as_default_unit (cf_fixed cfg) d) as [v|[]]; try discriminate; now inversion Hd.
      - apply bind_ok in Hd as (v & _ & Hd). destruct v as [v|]; [discriminate|].
        destruct (cf_fix_none cfg); [now inversion Hd|discriminate]. }
    now inversion H.
Qed.

Definition drow_ok (cfg : config) (d : drow) : Prop :=
  b_delaytext (dr_body d) = true -> Forall (decision_total cfg (dr_onset d)) (b_delays (dr_body d)).

Lemma split_row_total cfg d : drow_ok cfg d -> exists x, split_row cfg d = Ok x.
Proof.
  intros H. unfold split_row. destruct (b_delaytext (dr_body d)) eqn:E; [|eauto].
  destruct (delay_rows_total cfg (dr_onset d) (dr_label d) (ids_of (dr_body d)) 0 _ (H E)) as [r Hr].
  rewrite Hr. cbn [bind]. eauto.
Qed.

Lemma split_row_props cfg d x :
  split_row cfg d = Ok x ->
  s_orig (fst x) = dr_label d /\ s_time (fst x) = dr_onset d /\
  Forall (fun r => s_orig r = dr_label d /\ s_time r <> None) (snd x).
Proof.
  unfold split_row. intros H. destruct (b_delaytext (dr_body d)).
  - apply bind_ok in H as (r & Hr & H). inversion H; subst; cbn.
    split; [reflexivity|]. split; [reflexivity|]. now apply delay_rows_props in Hr as [Hr _].
  - inversion H; subst; cbn. auto.
Qed.

(* the rows of split_df before sorting *)
Definition split_rows (rs : list (srow * list srow)) : list srow := map fst rs ++ concat (map snd rs).

Lemma split_rows_flat rs : Permutation (split_rows rs) (flat_map (fun x => fst x :: snd x) rs).
Proof.
  unfold split_rows. induction rs as [|x rs IH]; cbn; [reflexivity|].
  apply perm_skip. rewrite <- IH. rewrite !app_assoc. apply Permutation_app_tail. apply Permutation_app_comm.
Qed.

Lemma merge_length l : length (merge_same_onset l) = length l.
Proof.
  induction l as [|r l IH]; cbn [merge_same_onset]; [reflexivity|].
  destruct (s_time r) as [z|]; [|cbn; now rewrite IH].
  destruct (merge_same_onset l) as [|nxt m'] eqn:E; [cbn in *; lia|].
  destruct (s_time nxt) as [z'|]; [destruct (z =? z')%Z|]; cbn in *; lia.
Qed.

Lemma merge_orig l : map s_orig (merge_same_onset l) = map s_orig l.
Proof.
  induction l as [|r l IH]; cbn [merge_same_onset]; [reflexivity|].
  destruct (s_time r) as [z|]; [|cbn; now rewrite IH].
  destruct (merge_same_onset l) as [|nxt m'] eqn:E.
  - destruct l; [reflexivity|]. apply (f_equal (@length _)) in IH. cbn in IH. discriminate.
  - destruct (s_time nxt) as [z'|]; [destruct (z =? z')%Z|]; cbn in *; now rewrite IH.
Qed.

Lemma merge_time l : map s_time (merge_same_onset l) = map s_time l.
Proof.
  induction l as [|r l IH]; cbn [merge_same_onset]; [reflexivity|].
  destruct (s_time r) as [z|] eqn:Er; [|cbn; now rewrite IH, Er].
  destruct (merge_same_onset l) as [|nxt m'] eqn:E.
  - destruct l; [cbn; now rewrite Er|]. apply (f_equal (@length _)) in IH. cbn in IH. discriminate.
  - destruct (s_time nxt) as [z'|] eqn:En; [destruct (z =? z')%Z|]; cbn in *; rewrite ?Er, ?En in *; now rewrite <- IH.
Qed.

(* with pairwise distinct numeric times nothing is merged *)
Lemma merge_distinct l :
  Forall (fun r => s_time r <> None) l -> NoDup (map s_time l) -> merge_same_onset l = l.
Proof.
  induction l as [|r l IH]; intros Hs Hn; cbn [merge_same_onset]; [reflexivity|].
  inversion Hs as [|? ? Hr Hs']; subst. inversion Hn as [|? ? Hnotin Hn']; subst.
  rewrite (IH Hs' Hn').
  destruct (s_time r) as [z|] eqn:Er; [|congruence].
  destruct l as [|nxt l']; [reflexivity|].
  destruct (s_time nxt) as [z'|] eqn:En; [|reflexivity].
  destruct (z =? z')%Z eqn:Ez; [|reflexivity].
  apply Z.eqb_eq in Ez; subst. exfalso. apply Hnotin. cbn. left. now rewrite En.
Qed.

Definition times_of (l : list srow) : list Z :=
  flat_map (fun r => match s_time r with Some z => [z] | None => [] end) l.
Definition norm (r : srow) : srow := match s_time r with Some _ => r | None => blank r end.

(* with pairwise distinct numeric times nothing is merged; rows without a time are blanked *)
Lemma merge_distinct_gen l : NoDup (times_of l) -> merge_same_onset l = map norm l.
Proof.
  induction l as [|r l IH]; intros Hn; cbn [merge_same_onset map]; [reflexivity|].
  unfold norm at 1. unfold times_of in Hn. cbn [flat_map] in Hn. fold (times_of l) in Hn.
  destruct (s_time r) as [z|] eqn:Er; cbn [app] in Hn.
  - inversion Hn as [|? ? Hnotin Hn']; subst. rewrite (IH Hn').
    destruct l as [|nxt l']; [reflexivity|]. cbn [map]. unfold norm at 1 3.
    destruct (s_time nxt) as [z'|] eqn:En.
    + rewrite En. destruct (z =? z')%Z eqn:Ez; [|reflexivity].
      apply Z.eqb_eq in Ez; subst. exfalso. apply Hnotin. unfold times_of. cbn. rewrite En. now left.
    + cbn [blank s_time]. rewrite En. reflexivity.
  - now rewrite (IH Hn).
Qed.

Lemma times_of_perm l l' : Permutation l l' -> Permutation (times_of l) (times_of l').
Proof.
  induction 1; unfold times_of in *; cbn.
  - reflexivity.
  - now apply Permutation_app_head.
  - rewrite !app_assoc. apply Permutation_app_tail. apply Permutation_app_comm.
  - etransitivity; eauto.
Qed.

(* ------------------------------------------------------------------ the validator *)

Section Validator.
  Variable raw : Type.
  Variable raw_is_error : raw -> bool.
  Variable basic : N -> list raw.
  Variable full banned : ann -> list raw.
  Variable nonempty : ann -> bool.
  Variable tstate : Type.
  Variable temporal : tstate -> ann -> tstate * list raw.
  Variable tinit : tstate.
  Variable pre post : list raw.

  Notation issue := (issue raw).
  Notation cells_loop := (cells_loop raw basic).
  Notation row_checks := (row_checks raw raw_is_error basic full banned nonempty).
  Notation run_checks := (run_checks raw raw_is_error basic full banned nonempty).
  Notation onset_checks := (onset_checks raw full nonempty tstate temporal).
  Notation column_structure := (column_structure raw pre post).
  Notation validate_unsorted :=
    (validate_unsorted raw raw_is_error basic full banned nonempty tstate temporal tinit pre post).
  Notation validate := (validate raw raw_is_error basic full banned nonempty tstate temporal tinit pre post).
  Notation truthy := (truthy nonempty).
  Notation sort_issues := (sort_issues raw).

  Lemma insert_issue_perm x (l : list issue) : Permutation (insert_issue raw x l) (x :: l).
  Proof.
    induction l as [|y l IH]; cbn [insert_issue]; [reflexivity|].
    destruct (issue_le raw x y); [reflexivity|]. rewrite IH. apply perm_swap.
  Qed.

  Lemma sort_issues_perm (l : list issue) : Permutation (sort_issues l) l.
  Proof.
    induction l as [|x l IH]; cbn [FileValidate.sort_issues]; [reflexivity|].
    rewrite insert_issue_perm. now rewrite IH.
  Qed.

  (* ---------------- cells_loop *)

  Definition cell_issues (rl : nat) (c : cell) : list issue :=
    if c_skip c then [] else map (fun x => mk (SBasic x) (Some rl) (Some (c_col c))) (basic (c_id c)).

  Lemma cells_loop_fst rl cells last :
    fst (cells_loop rl cells last) = flat_map (cell_issues rl) cells.
  Proof.
    revert last; induction cells as [|c cs IH]; intros last; cbn [FileValidate.cells_loop flat_map]; [reflexivity|].
    unfold cell_issues at 1. destruct (c_skip c).
    - apply IH.
    - specialize (IH (basic (c_id c))). destruct (cells_loop rl cs (basic (c_id c))) as [iss last'].
      cbn in *. now rewrite IH.
  Qed.

  (* the "last" list is the basic result of some non-skipped cell, or the initial value *)
  Lemma cells_loop_snd rl cells last :
    snd (cells_loop rl cells last) = last \/
    exists c, In c cells /\ c_skip c = false /\ snd (cells_loop rl cells last) = basic (c_id c).
  Proof.
    revert last; induction cells as [|c cs IH]; intros last; cbn [FileValidate.cells_loop]; [now left|].
    destruct (c_skip c) eqn:Es.
    - destruct (IH last) as [H|(c' & Hin & Hs & H)]; [now left|]. right. exists c'. split; [now right|]. auto.
    - specialize (IH (basic (c_id c))). destruct (cells_loop rl cs (basic (c_id c))) as [iss last'].
      cbn in *. destruct IH as [H|(c' & Hin & Hs & H)].
      + right. exists c. split; [now left|]. auto.
      + right. exists c'. split; [now right|]. auto.
  Qed.

  (* ---------------- row_checks: shape of the result *)

  Definition full_issues (rl : nat) (b : body) : list issue :=
    let a := [PJoin (ids_of b)] in
    map (fun x => mk (SFull x) (Some rl) None) (full a) ++ map (fun x => mk (SBanned x) (Some rl) None) (banned a).

  Lemma row_checks_shape adj mask d r :
    row_checks adj mask d = Ok r ->
    fst r = flat_map (cell_issues (dr_label d + adj)) (b_cells (dr_body d)) \/
    fst r = flat_map (cell_issues (dr_label d + adj)) (b_cells (dr_body d)) ++ full_issues (dr_label d + adj) (dr_body d).
  Proof.
    unfold FileValidate.row_checks. intros H.
    pose proof (cells_loop_fst (dr_label d + adj) (b_cells (dr_body d)) []) as Hf.
    destruct (cells_loop (dr_label d + adj) (b_cells (dr_body d)) []) as [iss last]. cbn in Hf. subst iss.
    destruct (existsb raw_is_error last).
    - inversion H; subst. now left.
    - apply bind_ok in H as (skip & _ & H). destruct skip.
      + inversion H; subst. now left.
      + destruct (truthy [PJoin (ids_of (dr_body d))]); inversion H; subst; [right|left]; reflexivity.
  Qed.

  Lemma run_checks_shape adj mask data r :
    run_checks adj mask data = Ok r ->
    Forall (fun i : issue => exists d, In d data /\
              (In i (flat_map (cell_issues (dr_label d + adj)) (b_cells (dr_body d))) \/
               In i (full_issues (dr_label d + adj) (dr_body d)))) (fst r)
    /\ (forall d, In d data -> incl (flat_map (cell_issues (dr_label d + adj)) (b_cells (dr_body d))) (fst r))
    /\ incl (snd r) (map dr_label data).
  Proof.
    revert r; induction data as [|d data IH]; intros r H; cbn [FileValidate.run_checks] in H.
    - inversion H; subst; cbn. split; [constructor|]. split; [intros ? []|intros ? []].
    - apply bind_ok in H as (r1 & H1 & H). apply bind_ok in H as (rest & H2 & H). inversion H; subst; cbn [fst snd].
      destruct (IH rest H2) as (IHa & IHb & IHc). clear IH.
      pose proof (row_checks_shape adj mask d r1 H1) as Hs.
      split; [|split].
      + apply Forall_app; split.
        * apply Forall_forall. intros i Hi. exists d. split; [now left|].
          destruct Hs as [Hs|Hs]; rewrite Hs in Hi; [now left|].
          apply in_app_or in Hi as [Hi|Hi]; [now left|now right].
        * eapply Forall_impl; [|exact IHa]. intros i (d' & Hin & Hi). exists d'. split; [now right|exact Hi].
      + intros d' [<-|Hin] i Hi.
        * apply in_or_app. left. destruct Hs as [Hs|Hs]; rewrite Hs; [exact Hi|]. apply in_or_app. now left.
        * apply in_or_app. right. now apply (IHb d' Hin).
      + intros x Hx. apply in_app_or in Hx as [Hx|Hx].
        * destruct (snd r1); [|destruct Hx]. destruct Hx as [<-|[]]. now left.
        * right. now apply IHc.
  Qed.

  (* run_checks never raises when every mask lookup succeeds *)
  Lemma run_checks_ok adj mask data :
    (forall m, mask = Some m -> Forall (fun d => exists b, mask_lookup m d = Ok b) data) ->
    exists r, run_checks adj mask data = Ok r.
  Proof.
    intros Hm. induction data as [|d data IH]; cbn [FileValidate.run_checks]; [eauto|].
    assert (exists r1, row_checks adj mask d = Ok r1) as [r1 H1].
    { unfold FileValidate.row_checks.
      destruct (cells_loop (dr_label d + adj) (b_cells (dr_body d)) []) as [iss last].
      destruct (existsb raw_is_error last); [eauto|].
      assert (exists skip, match ids_of (dr_body d) with
                           | [] => Ok true
                           | _ :: _ => match mask with
                                       | Some m => mask_lookup m d
                                       | None => Ok false end end = Ok skip) as [skip Hs].
      { destruct (ids_of (dr_body d)); [eauto|]. destruct mask as [m|]; [|eauto].
        specialize (Hm m eq_refl). inversion Hm as [|? ? Hd _]; subst. exact Hd. }
      rewrite Hs. cbn [bind]. destruct skip; [eauto|].
      destruct (truthy [PJoin (ids_of (dr_body d))]); eauto. }
    rewrite H1. cbn [bind].
    destruct IH as [rest H2].
    { intros m Hmm. specialize (Hm m Hmm). now inversion Hm. }
    rewrite H2. cbn [bind]. eauto.
  Qed.

  (* ---------------- onset_checks: labels *)

  Lemma onset_checks_labels adj invalid st rows :
    Forall (fun i : issue => i_col i = None /\ exists r, In r rows /\ i_row i = Some (s_orig r + adj))
           (onset_checks adj invalid st rows).
  Proof.
    revert st; induction rows as [|r rs IH]; intros st; cbn [FileValidate.onset_checks]; [constructor|].
    assert (Hrest : forall st', Forall (fun i : issue => i_col i = None /\
                       exists r0, In r0 (r :: rs) /\ i_row i = Some (s_orig r0 + adj)) (onset_checks adj invalid st' rs)).
    { intros st'. eapply Forall_impl; [|apply IH]. intros i (Hc & r0 & Hin & Hr). split; [exact Hc|].
      exists r0. split; [now right|exact Hr]. }
    destruct (existsb (Nat.eqb (s_orig r)) invalid); [apply Hrest|].
    destruct (truthy (s_ann r)); [|apply Hrest].
    destruct (temporal st (s_ann r)) as [st' ti].
    apply Forall_app; split; [|apply Forall_app; split; [|apply Hrest]].
    - apply Forall_forall. intros i Hi. apply in_map_iff in Hi as (x & <- & _). cbn. split; [reflexivity|].
      exists r. split; [now left|reflexivity].
    - apply Forall_forall. intros i Hi. apply in_map_iff in Hi as (x & <- & _). cbn. split; [reflexivity|].
      exists r. split; [now left|reflexivity].
  Qed.

  (* ---------------- the split frame *)

  Lemma split_ok cfg data :
    Forall (drow_ok cfg) data -> exists sp, split_delay_tags cfg data = Ok sp.
  Proof.
    intros H. unfold split_delay_tags.
    destruct (mapM_total (split_row cfg) data) as [rs Hrs].
    { eapply Forall_impl; [|exact H]. intros d Hd. now apply split_row_total. }
    rewrite Hrs. cbn [bind]. eauto.
  Qed.

  Definition split_out (cfg : config) (d : drow) : srow * list srow :=
    match split_row cfg d with
    | Ok x => x
    | Exn _ => ({| s_time := dr_onset d; s_ann := []; s_orig := dr_label d |}, [])
    end.

  Lemma split_unfold cfg data sp :
    split_delay_tags cfg data = Ok sp ->
    sp = merge_same_onset (sort_by s_time (split_rows (map (split_out cfg) data))) /\
    Forall (fun d => exists x, split_row cfg d = Ok x) data.
  Proof.
    unfold split_delay_tags. intros H. apply bind_ok in H as (rs & Hrs & H). inversion H; subst. clear H.
    destruct (mapM_map _ (fun d => ({| s_time := dr_onset d; s_ann := []; s_orig := dr_label d |}, [])) _ _ Hrs)
      as (-> & Hf).
    split; [reflexivity|exact Hf].
  Qed.

  Lemma split_out_props cfg d :
    s_orig (fst (split_out cfg d)) = dr_label d /\ s_time (fst (split_out cfg d)) = dr_onset d /\
    Forall (fun r => s_orig r = dr_label d /\ s_time r <> None) (snd (split_out cfg d)).
  Proof.
    unfold split_out. destruct (split_row cfg d) as [x|e] eqn:E; [now apply (split_row_props cfg d x E)|].
    cbn. auto.
  Qed.

  Lemma split_rows_orig cfg data :
    Forall (fun r => In (s_orig r) (map dr_label data)) (split_rows (map (split_out cfg) data)).
  Proof.
    eapply Permutation_Forall; [symmetry; apply split_rows_flat|].
    apply Forall_forall. intros r Hr. apply in_flat_map in Hr as (x & Hx & Hr).
    apply in_map_iff in Hx as (d & <- & Hd). destruct (split_out_props cfg d) as (H1 & _ & H3).
    destruct Hr as [<-|Hr].
    - rewrite H1. now apply in_map.
    - rewrite Forall_forall in H3. destruct (H3 r Hr) as [-> _]. now apply in_map.
  Qed.

  Lemma split_props cfg data sp :
    split_delay_tags cfg data = Ok sp ->
    length data <= length sp /\ Forall (fun r => In (s_orig r) (map dr_label data)) sp.
  Proof.
    intros H. apply split_unfold in H as (-> & _). split.
    - rewrite merge_length, (Permutation_length (sort_by_perm _ _)). unfold split_rows.
      rewrite app_length, !map_length. lia.
    - apply Forall_forall. intros r Hr.
      assert (In (s_orig r) (map s_orig (merge_same_onset (sort_by s_time (split_rows (map (split_out cfg) data))))))
        as Hin by now apply in_map.
      rewrite merge_orig in Hin. apply in_map_iff in Hin as (r0 & Ho & Hin). rewrite <- Ho.
      apply (Permutation_in _ (sort_by_perm _ _)) in Hin.
      pose proof (split_rows_orig cfg data) as Hf. rewrite Forall_forall in Hf. now apply Hf.
  Qed.

  (* ================================================================== never raises *)

  (* totality of the Delay-value function on the Delay groups of the table, for every onset of the table
     (pairing-independent, so it also covers a scrambled frame) *)
  Definition decisions_total (cfg : config) (t : list row) : Prop :=
    forall o r d, In o (map r_onset t) -> In r t -> In d (b_delays (r_body r)) -> decision_total cfg o d.

  Lemma frame_drow_ok cfg t : decisions_total cfg t -> Forall (drow_ok cfg) (frame cfg t).
  Proof.
    intros Hd. eapply Forall_impl; [|apply frame_from_table].
    intros d (_ & Hon & Hb) _.
    apply in_map_iff in Hb as (rb & Hrb & Hinb). apply Forall_forall. intros x Hx.
    apply (Hd _ rb); [exact Hon|exact Hinb|now rewrite Hrb].
  Qed.

  Lemma validate_never_raises cfg t :
    decisions_total cfg t -> exists l, validate cfg t = Ok l.
  Proof.
    intros Hd. unfold FileValidate.validate, FileValidate.validate_unsorted.
    pose proof (frame_drow_ok cfg t Hd) as Hok.
    destruct (cf_has_onset cfg).
    - destruct (split_ok _ _ Hok) as [sp Hsp]. rewrite Hsp. cbn [bind option_map].
      destruct (run_checks_ok (row_adj cfg)
                  (Some (if cf_fix_mask cfg then MLabel else MPos (map (fun r => is_some (s_time r)) sp))) (frame cfg t))
        as [r Hr].
      { intros m Hm. inversion Hm; subst. clear Hm. destruct (cf_fix_mask cfg).
        - apply Forall_forall. intros d _. cbn. eauto.
        - destruct (split_props _ _ _ Hsp) as [Hlen _]. rewrite frame_length in Hlen.
          eapply Forall_impl; [|apply frame_from_table]. intros d (Hl & _). cbn.
          destruct (nth_error (map (fun r => is_some (s_time r)) sp) (dr_label d)) eqn:E; [eauto|].
          apply nth_error_None in E. rewrite map_length in E. lia. }
      rewrite Hr. cbn [bind]. eauto.
    - cbn [bind option_map]. destruct (run_checks_ok (row_adj cfg) None (frame cfg t)) as [r Hr]; [intros m Hm; discriminate|].
      rewrite Hr. cbn [bind]. eauto.
  Qed.

  (* the repaired code: the Delay-value function is total *)
  Lemma decision_total_repaired cfg o d :
    cf_fixed cfg = true -> cf_fix_none cfg = true -> cf_fix_value cfg = true -> decision_total cfg o d.
  Proof.
    intros H1 H2 H3. unfold decision_total, delay_decision. rewrite H1, H2, H3.
    assert (Hv : (exists v, value_as_default_unit true d = Ok v) \/ value_as_default_unit true d = Exn ValueError).
    { unfold value_as_default_unit. destruct (d_unit d) as [|[]|[]|]; destruct (d_num d); eauto. }
    destruct Hv as [[v ->]| ->]; [|eauto]. destruct o; [|eauto]. destruct v; eauto.
  Qed.

  Lemma validate_never_raises_repaired cfg t :
    cf_fixed cfg = true -> cf_fix_none cfg = true -> cf_fix_value cfg = true -> exists l, validate cfg t = Ok l.
  Proof.
    intros H1 H2 H3. apply validate_never_raises. intros o r d _ _ _. now apply decision_total_repaired.
  Qed.

  (* ================================================================== labels *)

  Definition label_in_range (cfg : config) (t : list row) (i : issue) : Prop :=
    match i_row i with
    | None => i_col i = None
    | Some n => exists k, k < length t /\ n = k + row_adj cfg
    end.

  Lemma column_structure_labels cfg t :
    Forall (label_in_range cfg t) (column_structure cfg (row_adj cfg) t).
  Proof.
    unfold FileValidate.column_structure. apply Forall_app; split; [|apply Forall_app; split].
    - apply Forall_forall. intros i Hi. apply in_map_iff in Hi as (x & <- & _). reflexivity.
    - apply Forall_forall. intros i Hi. apply in_flat_map in Hi as (c & _ & Hi).
      unfold key_issues in Hi. apply in_flat_map in Hi as (d & Hd & Hi).
      destruct (existsb (N.eqb c) (b_badkeys (dr_body d))); [|destruct Hi]. destruct Hi as [<-|[]].
      pose proof (indexed_from_table t) as Hf. rewrite Forall_forall in Hf. destruct (Hf d Hd) as (Hl & _).
      unfold label_in_range; cbn. exists (dr_label d). split; [exact Hl|reflexivity].
    - apply Forall_forall. intros i Hi. apply in_map_iff in Hi as (x & <- & _). reflexivity.
  Qed.

  Lemma validate_labels_in_range cfg t l :
    validate cfg t = Ok l -> Forall (label_in_range cfg t) l.
  Proof.
    unfold FileValidate.validate. intros H. apply bind_ok in H as (u & Hu & H). inversion H; subst. clear H.
    eapply Permutation_Forall; [symmetry; apply sort_issues_perm|].
    unfold FileValidate.validate_unsorted in Hu.
    apply bind_ok in Hu as (onsets & Hon & Hu). apply bind_ok in Hu as (ci & Hci & Hu). inversion Hu; subst. clear Hu.
    pose proof (frame_from_table cfg t) as Hft. rewrite Forall_forall in Hft.
    apply Forall_app; split; [apply column_structure_labels|].
    apply Forall_app; split.
    { destruct (needs_sorting cfg t); constructor; [reflexivity|constructor]. }
    apply Forall_app; split.
    - destruct (run_checks_shape _ _ _ _ Hci) as (Ha & _ & _).
      eapply Forall_impl; [|exact Ha]. intros i (d & Hd & Hi).
      destruct (Hft d Hd) as (Hl & _).
      assert (i_row i = Some (dr_label d + row_adj cfg)) as Hrow.
      { destruct Hi as [Hi|Hi].
        - apply in_flat_map in Hi as (c & _ & Hi). unfold cell_issues in Hi.
          destruct (c_skip c); [destruct Hi|]. apply in_map_iff in Hi as (x & <- & _). reflexivity.
        - unfold full_issues in Hi. apply in_app_or in Hi as [Hi|Hi]; apply in_map_iff in Hi as (x & <- & _); reflexivity. }
      unfold label_in_range. rewrite Hrow. exists (dr_label d). split; [exact Hl|reflexivity].
    - destruct onsets as [rows|]; [|constructor].
      destruct (cf_has_onset cfg); [|discriminate].
      apply bind_ok in Hon as (sp & Hsp & Hon). inversion Hon; subst. clear Hon.
      destruct (split_props _ _ _ Hsp) as [_ Hor]. rewrite Forall_forall in Hor.
      eapply Forall_impl; [|apply onset_checks_labels].
      intros i (Hc & r & Hr & Hrow). unfold label_in_range. rewrite Hrow.
      specialize (Hor r Hr). apply in_map_iff in Hor as (d & Hd & Hin). destruct (Hft d Hin) as (Hl & _).
      exists (s_orig r). split; [lia|reflexivity].
  Qed.

  (* ================================================================== every cell error is kept *)

  Lemma frame_has_row cfg t k r :
    no_scramble cfg t -> nth_error t k = Some r ->
    In {| dr_label := k; dr_onset := r_onset r; dr_body := r_body r |} (frame cfg t).
  Proof.
    intros Hns Hk. apply (Permutation_in _ (Permutation_sym (frame_perm cfg t Hns))).
    apply (nth_error_In _ k). apply (indexed_from_nth_inv 0 t k r Hk).
  Qed.

  Lemma validate_unfold cfg t l :
    validate cfg t = Ok l ->
    exists onsets ci,
      (if cf_has_onset cfg
       then bind (split_delay_tags cfg (frame cfg t)) (fun sp => Ok (Some sp))
       else Ok None) = Ok onsets /\
      run_checks (row_adj cfg)
        (option_map (fun sp => if cf_fix_mask cfg then MLabel else MPos (map (fun r => is_some (s_time r)) sp)) onsets)
        (frame cfg t) = Ok ci /\
      Permutation l (column_structure cfg (row_adj cfg) t
                     ++ (if needs_sorting cfg t then [mk SUnordered None None] else [])
                     ++ fst ci
                     ++ match onsets with
                        | Some rows => onset_checks (row_adj cfg) (snd ci) tinit rows
                        | None => []
                        end).
  Proof.
    unfold FileValidate.validate. intros H. apply bind_ok in H as (u & Hu & H). inversion H; subst. clear H.
    unfold FileValidate.validate_unsorted in Hu.
    apply bind_ok in Hu as (onsets & Hon & Hu). apply bind_ok in Hu as (ci & Hci & Hu). inversion Hu; subst. clear Hu.
    exists onsets, ci. split; [exact Hon|]. split; [exact Hci|]. apply sort_issues_perm.
  Qed.

  Lemma validate_cell_errors_kept cfg t l k r c x :
    validate cfg t = Ok l -> no_scramble cfg t -> nth_error t k = Some r ->
    In c (b_cells (r_body r)) -> c_skip c = false -> In x (basic (c_id c)) ->
    In (mk (SBasic x) (Some (k + row_adj cfg)) (Some (c_col c))) l.
  Proof.
    intros H Hns Hk Hc Hs Hx. apply validate_unfold in H as (onsets & ci & _ & Hci & Hp).
    apply (Permutation_in _ (Permutation_sym Hp)).
    apply in_or_app. right. apply in_or_app. right. apply in_or_app. left.
    destruct (run_checks_shape _ _ _ _ Hci) as (_ & Hb & _).
    apply (Hb _ (frame_has_row cfg t k r Hns Hk)). cbn [dr_label dr_body].
    apply in_flat_map. exists c. split; [exact Hc|]. unfold cell_issues. rewrite Hs.
    apply in_map_iff. exists x. split; [reflexivity|exact Hx].
  Qed.

  (* ================================================================== true locations of column issues *)

  Definition true_location (cfg : config) (t : list row) (i : issue) : Prop :=
    forall c, i_col i = Some c ->
    exists k r, i_row i = Some (k + row_adj cfg) /\ nth_error t k = Some r /\
      ((exists cell x, In cell (b_cells (r_body r)) /\ c_col cell = c /\ c_skip cell = false /\
                       In x (basic (c_id cell)) /\ i_src i = SBasic x)
       \/ (i_src i = SKeyMissing /\ In c (b_badkeys (r_body r)) /\ In c (cf_cats cfg))).

  Lemma in_indexed t d :
    In d (indexed t) -> exists r, nth_error t (dr_label d) = Some r /\ dr_onset d = r_onset r /\ dr_body d = r_body r.
  Proof.
    intros Hd. apply In_nth_error in Hd as [j Hj]. unfold indexed in Hj.
    apply indexed_from_nth in Hj as (Hl & r & Hr & Ho & Hb). cbn in Hl. subst j. eauto.
  Qed.

  Lemma validate_true_location cfg t l :
    validate cfg t = Ok l -> no_scramble cfg t -> Forall (true_location cfg t) l.
  Proof.
    intros H Hns. apply validate_unfold in H as (onsets & ci & Hon & Hci & Hp).
    eapply Permutation_Forall; [symmetry; exact Hp|].
    apply Forall_app; split; [|apply Forall_app; split; [|apply Forall_app; split]].
    - unfold FileValidate.column_structure. apply Forall_app; split; [|apply Forall_app; split].
      + apply Forall_forall. intros i Hi. apply in_map_iff in Hi as (x & <- & _). intros c Hc. discriminate.
      + apply Forall_forall. intros i Hi. apply in_flat_map in Hi as (c & Hcat & Hi).
        unfold key_issues in Hi. apply in_flat_map in Hi as (d & Hd & Hi).
        destruct (existsb (N.eqb c) (b_badkeys (dr_body d))) eqn:E; [|destruct Hi]. destruct Hi as [<-|[]].
        intros c' Hc'. cbn in Hc'. inversion Hc'; subst c'.
        destruct (in_indexed t d Hd) as (r & Hr & _ & Hb).
        exists (dr_label d), r. split; [reflexivity|]. split; [exact Hr|]. right.
        split; [reflexivity|]. split; [|exact Hcat].
        apply existsb_exists in E as (c2 & Hin & Heq). apply N.eqb_eq in Heq. subst c2. now rewrite <- Hb.
      + apply Forall_forall. intros i Hi. apply in_map_iff in Hi as (x & <- & _). intros c Hc. discriminate.
    - destruct (needs_sorting cfg t); constructor; [intros c Hc; discriminate|constructor].
    - destruct (run_checks_shape _ _ _ _ Hci) as (Ha & _ & _).
      eapply Forall_impl; [|exact Ha]. intros i (d & Hd & Hi) c Hc.
      apply (Permutation_in _ (frame_perm cfg t Hns)) in Hd.
      destruct (in_indexed t d Hd) as (r & Hr & _ & Hb).
      destruct Hi as [Hi|Hi].
      + apply in_flat_map in Hi as (cell & Hcell & Hi). unfold cell_issues in Hi.
        destruct (c_skip cell) eqn:Es; [destruct Hi|]. apply in_map_iff in Hi as (x & <- & Hx).
        cbn in Hc. inversion Hc; subst c.
        exists (dr_label d), r. split; [reflexivity|]. split; [exact Hr|]. left.
        exists cell, x. rewrite <- Hb. auto.
      + unfold full_issues in Hi. apply in_app_or in Hi as [Hi|Hi]; apply in_map_iff in Hi as (x & <- & _); discriminate.
    - destruct onsets as [rows|]; [|constructor].
      eapply Forall_impl; [|apply onset_checks_labels]. intros i (Hc & _) c Hc'. congruence.
  Qed.

  (* ================================================================== rows with error-free cells *)

  Lemma flat_map_flat_map {A B C} (f : A -> list B) (g : B -> list C) l :
    flat_map g (flat_map f l) = flat_map (fun a => flat_map g (f a)) l.
  Proof. induction l as [|a l IH]; cbn; [reflexivity|]. now rewrite flat_map_app, IH. Qed.

  Lemma flat_map_map' {A B C} (f : A -> B) (g : B -> list C) l :
    flat_map g (map f l) = flat_map (fun a => g (f a)) l.
  Proof. induction l as [|a l IH]; cbn; [reflexivity|]. now rewrite IH. Qed.

  Lemma perm_flat_map {A B} (g : A -> list B) l l' :
    Permutation l l' -> Permutation (flat_map g l) (flat_map g l').
  Proof.
    induction 1; cbn.
    - reflexivity.
    - now apply Permutation_app_head.
    - rewrite !app_assoc. apply Permutation_app_tail. apply Permutation_app_comm.
    - etransitivity; eauto.
  Qed.

  (* only the row labelled k contributes *)
  Lemma flat_map_indexed_single {B} (F : drow -> list B) i t k r :
    nth_error t k = Some r -> (forall d, dr_label d <> i + k -> F d = []) ->
    flat_map F (indexed_from i t) = F {| dr_label := i + k; dr_onset := r_onset r; dr_body := r_body r |}.
  Proof.
    revert i k; induction t as [|r' t IH]; intros i k Hk HF; [destruct k; discriminate|].
    destruct k as [|k]; cbn in Hk; cbn [indexed_from flat_map].
    - inversion Hk; subst. rewrite flat_map_nil.
      + rewrite app_nil_r. replace (i + 0) with i by lia. reflexivity.
      + intros d Hd. apply HF. apply In_nth_error in Hd as [j Hj]. apply indexed_from_nth in Hj as [Hl _]. lia.
    - rewrite (HF {| dr_label := i; dr_onset := r_onset r'; dr_body := r_body r' |}) by (cbn; lia).
      cbn [app]. rewrite (IH (S i) k Hk).
      + replace (S i + k) with (i + S k) by lia. reflexivity.
      + intros d Hd. apply HF. lia.
  Qed.

  Definition at_row (n : nat) (i : issue) : bool :=
    match i_row i with Some m => Nat.eqb m n | None => false end.

  (* the string-level payload of one issue at row n: basic, full and banned-tag issues *)
  Definition sr (n : nat) (i : issue) : list raw :=
    if at_row n i then match i_src i with SBasic x | SFull x | SBanned x => [x] | _ => [] end else [].
  Definition string_raws (l : list issue) (n : nat) : list raw := flat_map (sr n) l.

  Lemma sr_cells_same rl cells :
    flat_map (sr rl) (flat_map (cell_issues rl) cells) = flat_map basic (map c_id (filter (fun c => negb (c_skip c)) cells)).
  Proof.
    induction cells as [|c cs IH]; cbn [flat_map filter map]; [reflexivity|].
    rewrite flat_map_app, IH. unfold cell_issues at 1. destruct (c_skip c); cbn [negb map flat_map app]; [reflexivity|].
    f_equal. induction (basic (c_id c)) as [|x xs IHx]; cbn; [reflexivity|].
    unfold sr at 1, at_row; cbn. rewrite Nat.eqb_refl. cbn. now rewrite IHx.
  Qed.

  Lemma sr_cells_other rl n cells : rl <> n -> flat_map (sr n) (flat_map (cell_issues rl) cells) = [].
  Proof.
    intros Hne. apply flat_map_nil. intros i Hi. apply in_flat_map in Hi as (c & _ & Hi).
    unfold cell_issues in Hi. destruct (c_skip c); [destruct Hi|]. apply in_map_iff in Hi as (x & <- & _).
    unfold sr, at_row; cbn. apply Nat.eqb_neq in Hne. now rewrite Hne.
  Qed.

  (* exact result of _run_checks when the mask value g of every row is known *)
  Definition row_invalid (adj : nat) (d : drow) : bool :=
    existsb raw_is_error (snd (cells_loop (dr_label d + adj) (b_cells (dr_body d)) [])).

  Definition row_issues (adj : nat) (g : drow -> bool) (d : drow) : list issue :=
    flat_map (cell_issues (dr_label d + adj)) (b_cells (dr_body d))
    ++ (if row_invalid adj d then []
        else match ids_of (dr_body d) with
             | [] => []
             | _ :: _ => if g d then []
                         else if truthy [PJoin (ids_of (dr_body d))]
                              then full_issues (dr_label d + adj) (dr_body d) else []
             end).

  Lemma row_checks_exact adj m g d r1 :
    mask_lookup m d = Ok (g d) -> row_checks adj (Some m) d = Ok r1 ->
    fst r1 = row_issues adj g d /\ snd r1 = row_invalid adj d.
  Proof.
    intros Hd H1. unfold FileValidate.row_checks in H1. unfold row_issues, row_invalid.
    pose proof (cells_loop_fst (dr_label d + adj) (b_cells (dr_body d)) []) as Hf.
    destruct (cells_loop (dr_label d + adj) (b_cells (dr_body d)) []) as [iss last]. cbn [fst snd] in *. subst iss.
    destruct (existsb raw_is_error last).
    - inversion H1; subst. cbn [fst snd]. now rewrite app_nil_r.
    - apply bind_ok in H1 as (skip & Hs & H1).
      destruct (ids_of (dr_body d)) as [|i0 ids0] eqn:Eids.
      + inversion Hs; subst skip. inversion H1; subst. cbn [fst snd]. now rewrite app_nil_r.
      + rewrite Hd in Hs. inversion Hs; subst skip. clear Hs.
        destruct (g d).
        * inversion H1; subst. cbn [fst snd]. now rewrite app_nil_r.
        * destruct (truthy [PJoin (i0 :: ids0)]); inversion H1; subst; cbn [fst snd].
          -- unfold full_issues. rewrite Eids. auto.
          -- now rewrite app_nil_r.
  Qed.

  Lemma run_checks_exact adj m g data r :
    Forall (fun d => mask_lookup m d = Ok (g d)) data ->
    run_checks adj (Some m) data = Ok r ->
    fst r = flat_map (row_issues adj g) data /\
    snd r = flat_map (fun d => if row_invalid adj d then [dr_label d] else []) data.
  Proof.
    intros Hm. revert r. induction Hm as [|d data Hd _ IH]; intros r H; cbn [FileValidate.run_checks] in H.
    - inversion H; subst; cbn. auto.
    - apply bind_ok in H as (r1 & H1 & H). apply bind_ok in H as (rest & H2 & H). inversion H; subst; cbn [fst snd flat_map].
      destruct (IH rest H2) as (IHa & IHb). rewrite IHa, IHb.
      destruct (row_checks_exact _ _ _ _ _ Hd H1) as (Ha & Hb). rewrite Ha, Hb. auto.
  Qed.

  Lemma row_issues_rows adj g d :
    Forall (fun i : issue => i_row i = Some (dr_label d + adj)) (row_issues adj g d).
  Proof.
    unfold row_issues. apply Forall_app; split.
    - apply Forall_forall. intros i Hi. apply in_flat_map in Hi as (c & _ & Hi). unfold cell_issues in Hi.
      destruct (c_skip c); [destruct Hi|]. apply in_map_iff in Hi as (x & <- & _). reflexivity.
    - destruct (row_invalid adj d); [constructor|]. destruct (ids_of (dr_body d)); [constructor|].
      destruct (g d); [constructor|]. destruct (truthy _); [|constructor].
      unfold full_issues. apply Forall_app; split; apply Forall_forall; intros i Hi;
        apply in_map_iff in Hi as (x & <- & _); reflexivity.
  Qed.

  Lemma sr_other_rows n (l : list issue) m :
    m <> n -> Forall (fun i : issue => i_row i = Some m) l -> flat_map (sr n) l = [].
  Proof.
    intros Hne Hf. apply flat_map_nil. intros i Hi. rewrite Forall_forall in Hf.
    unfold sr, at_row. rewrite (Hf i Hi). apply Nat.eqb_neq in Hne. now rewrite Hne.
  Qed.

  Lemma sr_full_issues rl b :
    flat_map (sr rl) (full_issues rl b) = full [PJoin (ids_of b)] ++ banned [PJoin (ids_of b)].
  Proof.
    unfold full_issues. rewrite flat_map_app. f_equal.
    - induction (full [PJoin (ids_of b)]) as [|x xs IHx]; cbn; [reflexivity|].
      unfold sr at 1, at_row; cbn. rewrite Nat.eqb_refl. cbn. now rewrite IHx.
    - induction (banned [PJoin (ids_of b)]) as [|x xs IHx]; cbn; [reflexivity|].
      unfold sr at 1, at_row; cbn. rewrite Nat.eqb_refl. cbn. now rewrite IHx.
  Qed.

  (* string payload of _run_onset_checks at row n: independent of the temporal state *)
  Definition onset_payload (adj : nat) (invalid : list nat) (n : nat) (r : srow) : list raw :=
    if existsb (Nat.eqb (s_orig r)) invalid then []
    else if truthy (s_ann r) then (if Nat.eqb (s_orig r + adj) n then full (s_ann r) else []) else [].

  Lemma onset_checks_string adj invalid n st rows :
    flat_map (sr n) (onset_checks adj invalid st rows) = flat_map (onset_payload adj invalid n) rows.
  Proof.
    revert st; induction rows as [|r rs IH]; intros st; cbn [FileValidate.onset_checks flat_map]; [reflexivity|].
    unfold onset_payload at 1.
    destruct (existsb (Nat.eqb (s_orig r)) invalid); [apply IH|].
    destruct (truthy (s_ann r)); [|apply IH].
    destruct (temporal st (s_ann r)) as [st' ti]. rewrite !flat_map_app, IH.
    assert (HA : flat_map (sr n) (map (fun x => mk (SFull x) (Some (s_orig r + adj)) None) (full (s_ann r)))
                 = if Nat.eqb (s_orig r + adj) n then full (s_ann r) else []).
    { induction (full (s_ann r)) as [|x xs IHx]; cbn [map flat_map]; [now destruct (Nat.eqb (s_orig r + adj) n)|].
      rewrite IHx. unfold sr, at_row; cbn. now destruct (Nat.eqb (s_orig r + adj) n). }
    assert (HB : flat_map (sr n) (map (fun x => mk (STemporal x) (Some (s_orig r + adj)) None) ti) = []).
    { apply flat_map_nil. intros i Hi. apply in_map_iff in Hi as (x & <- & _). unfold sr, at_row; cbn.
      now destruct (Nat.eqb (s_orig r + adj) n). }
    rewrite HA, HB. reflexivity.
  Qed.

  Lemma onset_payload_other adj invalid n r :
    s_orig r + adj <> n -> onset_payload adj invalid n (norm r) = [].
  Proof.
    intros Hne. assert (Ho : s_orig (norm r) = s_orig r) by (unfold norm; destruct (s_time r); reflexivity).
    unfold onset_payload. rewrite Ho. destruct (existsb _ invalid); [reflexivity|].
    destruct (truthy _); [|reflexivity]. apply Nat.eqb_neq in Hne. now rewrite Hne.
  Qed.

  (* positions of the Delay groups that are moved out of the row *)
  Fixpoint removed (cfg : config) (o : option Z) (k : nat) (ds : list delay) : list nat :=
    match ds with
    | [] => []
    | d :: ds' => match delay_decision cfg o d with
                  | Ok (Some _) => k :: removed cfg o (S k) ds'
                  | _ => removed cfg o (S k) ds'
                  end
    end.

  Lemma delay_rows_removed cfg o lbl ids k ds r :
    delay_rows cfg o lbl ids k ds = Ok r -> snd r = removed cfg o k ds.
  Proof.
    revert k r; induction ds as [|d ds IH]; intros k r H; cbn [delay_rows removed] in *.
    - now inversion H.
    - apply bind_ok in H as (dec & Hd & H). apply bind_ok in H as (rest & Hr & H). rewrite Hd.
      apply IH in Hr. destruct dec; inversion H; subst; cbn [snd]; now rewrite Hr.
  Qed.

  (* the strings a row with a numeric onset is validated as: the row without the moved Delay groups,
     and each moved Delay group *)
  Definition pieces (cfg : config) (o : option Z) (b : body) : list piece :=
    if b_delaytext b
    then PRem (ids_of b) (removed cfg o 0 (b_delays b)) :: map (PDelay (ids_of b)) (removed cfg o 0 (b_delays b))
    else [PCells (ids_of b)].

  (* string-level row issues of a row: through _run_onset_checks when it has a numeric onset, through
     _run_checks (with the banned temporal tags) otherwise *)
  Definition row_payload (cfg : config) (r : row) : list raw :=
    match r_onset r with
    | Some _ => flat_map (fun p => if truthy [p] then full [p] else []) (pieces cfg (r_onset r) (r_body r))
    | None => match ids_of (r_body r) with
              | [] => []
              | _ :: _ => if truthy [PJoin (ids_of (r_body r))]
                          then full [PJoin (ids_of (r_body r))] ++ banned [PJoin (ids_of (r_body r))] else []
              end
    end.

  Definition cells_error_free (r : row) : Prop :=
    Forall (fun c => c_skip c = false -> existsb raw_is_error (basic (c_id c)) = false) (b_cells (r_body r)).

  (* effective times (onset, onset + Delay) of the rows of the split frame are pairwise distinct *)
  Definition distinct_times (cfg : config) (t : list row) : Prop :=
    NoDup (times_of (split_rows (map (split_out cfg) (frame cfg t)))).

  Lemma row_not_invalid cfg t k r (data : list drow) :
    Permutation data (indexed t) -> nth_error t k = Some r -> cells_error_free r ->
    existsb (Nat.eqb k)
      (flat_map (fun d => if row_invalid (row_adj cfg) d then [dr_label d] else []) data) = false.
  Proof.
    intros Hp Hk Hfree. destruct (existsb _ _) eqn:E; [|reflexivity]. exfalso.
    apply existsb_exists in E as (x & Hx & Heq). apply Nat.eqb_eq in Heq. subst x.
    apply in_flat_map in Hx as (d & Hd & Hx).
    destruct (row_invalid (row_adj cfg) d) eqn:Ei; [|destruct Hx]. destruct Hx as [Hx|[]].
    apply (Permutation_in _ Hp) in Hd. destruct (in_indexed t d Hd) as (r' & Hr' & _ & Hb).
    rewrite Hx, Hk in Hr'. inversion Hr'; subst r'. clear Hr'.
    unfold row_invalid in Ei. rewrite Hb in Ei.
    destruct (cells_loop_snd (dr_label d + row_adj cfg) (b_cells (r_body r)) []) as [Hl|(c & Hc & Hs & Hl)];
      rewrite Hl in Ei; [discriminate|].
    unfold cells_error_free in Hfree. rewrite Forall_forall in Hfree. rewrite (Hfree c Hc Hs) in Ei. discriminate.
  Qed.

  Lemma validate_row_equals_string cfg t l k r :
    validate cfg t = Ok l -> cf_has_onset cfg = true -> no_scramble cfg t ->
    cf_fix_mask cfg = true \/ Forall (fun r => r_onset r <> None) t ->
    distinct_times cfg t ->
    nth_error t k = Some r -> cells_error_free r ->
    Permutation (string_raws l (k + row_adj cfg)) (flat_map basic (ids_of (r_body r)) ++ row_payload cfg r).
  Proof.
    intros H Hon Hns Hmk Hdist Hk Hfree.
    apply validate_unfold in H as (onsets & ci & Hsp & Hci & Hp).
    set (adj := row_adj cfg) in *. set (n := k + adj).
    rewrite Hon in Hsp. apply bind_ok in Hsp as (sp & Hsp & Ho). inversion Ho; subst onsets. clear Ho.
    unfold string_raws. rewrite (perm_flat_map (sr n) _ _ Hp). clear Hp l.
    pose proof (frame_perm cfg t Hns) as Hfp.
    apply split_unfold in Hsp as (-> & Hrows).
    set (X := split_rows (map (split_out cfg) (frame cfg t))) in *.
    pose proof (sort_by_perm s_time X) as Hsort.
    assert (Hmerge : merge_same_onset (sort_by s_time X) = map norm (sort_by s_time X)).
    { apply merge_distinct_gen. eapply Permutation_NoDup; [symmetry; apply times_of_perm; exact Hsort|exact Hdist]. }
    rewrite Hmerge in Hci. rewrite Hmerge. clear Hmerge.
    (* the mask value of every row is "its onset is numeric" *)
    cbn [option_map] in Hci.
    assert (Hmask : Forall (fun d => mask_lookup (if cf_fix_mask cfg then MLabel
                                        else MPos (map (fun r0 => is_some (s_time r0)) (map norm (sort_by s_time X)))) d
                                     = Ok (is_some (dr_onset d))) (frame cfg t)).
    { destruct (cf_fix_mask cfg) eqn:Efm; [apply Forall_forall; intros d _; reflexivity|].
      destruct Hmk as [Hmk|Hnum]; [discriminate|].
      assert (Hall : Forall (fun r0 => s_time r0 <> None) X).
      { eapply Permutation_Forall; [symmetry; apply split_rows_flat|].
        apply Forall_forall. intros r0 Hr0. apply in_flat_map in Hr0 as (x & Hx & Hr0).
        apply in_map_iff in Hx as (d & <- & Hd). destruct (split_out_props cfg d) as (_ & H2 & H3).
        destruct Hr0 as [<-|Hr0].
        - rewrite H2. pose proof (frame_from_table cfg t) as Hft. rewrite Forall_forall in Hft.
          destruct (Hft d Hd) as (_ & Hin & _). apply in_map_iff in Hin as (r1 & <- & Hr1).
          rewrite Forall_forall in Hnum. now apply Hnum.
        - rewrite Forall_forall in H3. now destruct (H3 r0 Hr0). }
      pose proof (frame_from_table cfg t) as Hft.
      apply Forall_forall. intros d Hd. rewrite Forall_forall in Hft. destruct (Hft d Hd) as (Hl & Hin & _).
      assert (Hdo : is_some (dr_onset d) = true).
      { apply in_map_iff in Hin as (r1 & <- & Hr1). rewrite Forall_forall in Hnum. specialize (Hnum r1 Hr1).
        destruct (r_onset r1); [reflexivity|congruence]. }
      rewrite Hdo. cbn [mask_lookup].
      destruct (nth_error (map (fun r0 => is_some (s_time r0)) (map norm (sort_by s_time X))) (dr_label d)) eqn:E.
      - apply nth_error_In in E. apply in_map_iff in E as (r0 & <- & Hr0). apply in_map_iff in Hr0 as (r1 & <- & Hr1).
        apply (Permutation_in _ Hsort) in Hr1. rewrite Forall_forall in Hall. specialize (Hall r1 Hr1).
        unfold norm. destruct (s_time r1) eqn:E1; [now rewrite E1|congruence].
      - apply nth_error_None in E. rewrite !map_length, (Permutation_length Hsort) in E.
        unfold X, split_rows in E. rewrite app_length, !map_length, frame_length in E. lia. }
    destruct (run_checks_exact _ _ _ _ _ Hmask Hci) as (Hfst & Hsnd). rewrite Hfst, Hsnd. clear Hci Hfst Hsnd Hmask.
    set (g := fun d : drow => is_some (dr_onset d)).
    set (invalid := flat_map (fun d => if row_invalid adj d then [dr_label d] else []) (frame cfg t)).
    assert (Hinv : existsb (Nat.eqb k) invalid = false) by (eapply row_not_invalid; eauto).
    (* drop the parts that carry no string-level payload *)
    rewrite !flat_map_app.
    assert (Hcs : flat_map (sr n) (column_structure cfg adj t) = []).
    { apply flat_map_nil. intros i Hi. unfold FileValidate.column_structure in Hi.
      apply in_app_or in Hi as [Hi|Hi]; [|apply in_app_or in Hi as [Hi|Hi]].
      - apply in_map_iff in Hi as (x & <- & _). reflexivity.
      - apply in_flat_map in Hi as (c & _ & Hi). unfold key_issues in Hi. apply in_flat_map in Hi as (d & _ & Hi).
        destruct (existsb (N.eqb c) (b_badkeys (dr_body d))); [|destruct Hi]. destruct Hi as [<-|[]].
        unfold sr. destruct (at_row n _); reflexivity.
      - apply in_map_iff in Hi as (x & <- & _). reflexivity. }
    rewrite Hcs. cbn [app].
    assert (Hun : flat_map (sr n) (if needs_sorting cfg t then [mk SUnordered None None] else []) = []).
    { destruct (needs_sorting cfg t); reflexivity. }
    rewrite Hun. cbn [app]. clear Hcs Hun.
    rewrite onset_checks_string, flat_map_map'.
    rewrite (perm_flat_map (fun a => onset_payload adj invalid n (norm a)) _ _ Hsort).
    unfold X. rewrite (perm_flat_map (fun a => onset_payload adj invalid n (norm a)) _ _ (split_rows_flat _)).
    rewrite flat_map_map', !flat_map_flat_map.
    (* move from the frame to the table *)
    rewrite (perm_flat_map _ _ _ Hfp).
    rewrite (perm_flat_map (fun a => flat_map (fun a0 => onset_payload adj invalid n (norm a0))
                                       (fst (split_out cfg a) :: snd (split_out cfg a))) _ _ Hfp).
    assert (Hrows' : Forall (fun d => exists x, split_row cfg d = Ok x) (indexed t)).
    { eapply Permutation_Forall; [exact Hfp|exact Hrows]. }
    set (dk := {| dr_label := 0 + k; dr_onset := r_onset r; dr_body := r_body r |}).
    unfold indexed.
    rewrite (flat_map_indexed_single _ 0 t k r Hk).
    2:{ intros d Hd. eapply sr_other_rows; [|apply row_issues_rows]. unfold n. cbn in Hd. lia. }
    rewrite (flat_map_indexed_single _ 0 t k r Hk).
    2:{ intros d Hd. apply flat_map_nil. intros r0 Hr0. apply onset_payload_other.
        destruct (split_out_props cfg d) as (H1 & _ & H3).
        assert (s_orig r0 = dr_label d) as ->.
        { destruct Hr0 as [<-|Hr0]; [exact H1|]. rewrite Forall_forall in H3. now destruct (H3 r0 Hr0). }
        unfold n. cbn in Hd. lia. }
    fold dk.
    assert (Hin : In dk (indexed_from 0 t)).
    { apply (nth_error_In _ k). apply (indexed_from_nth_inv 0 t k r Hk). }
    rewrite Forall_forall in Hrows'. destruct (Hrows' dk Hin) as (xk & Hxk).
    assert (Hout : split_out cfg dk = xk) by (unfold split_out; now rewrite Hxk).
    rewrite Hout. clear Hrows' Hrows Hin.
    (* the row's own issues of _run_checks *)
    unfold row_issues. rewrite flat_map_app. cbn [dr_label dr_body dk].
    replace (0 + k + adj) with n by (unfold n; lia).
    rewrite sr_cells_same. fold (ids_of (r_body r)). rewrite <- app_assoc. apply Permutation_app_head.
    assert (Hri : row_invalid adj dk = false).
    { destruct (row_invalid adj dk) eqn:Ei; [|reflexivity]. exfalso.
      unfold row_invalid in Ei. cbn [dr_label dr_body dk] in Ei.
      destruct (cells_loop_snd (0 + k + adj) (b_cells (r_body r)) []) as [Hl|(c & Hc & Hs & Hl)];
        rewrite Hl in Ei; [discriminate|].
      unfold cells_error_free in Hfree. rewrite Forall_forall in Hfree. rewrite (Hfree c Hc Hs) in Ei. discriminate. }
    rewrite Hri. unfold g. cbn [dr_onset dk]. unfold row_payload.
    unfold split_row in Hxk. cbn [dr_label dr_onset dr_body dk] in Hxk.
    destruct (r_onset r) as [z|] eqn:Eo; cbn [is_some].
    - (* numeric onset: everything comes from _run_onset_checks *)
      assert (Hnil : flat_map (sr n) (match ids_of (r_body r) with [] => [] | _ :: _ => [] end) = [])
        by (destruct (ids_of (r_body r)); reflexivity).
      rewrite Hnil. cbn [app]. clear Hnil. unfold pieces.
      destruct (b_delaytext (r_body r)).
      + apply bind_ok in Hxk as (dr & Hdr & Hxk). inversion Hxk; subst xk. clear Hxk. cbn [fst snd flat_map].
        pose proof (delay_rows_removed _ _ _ _ _ _ _ Hdr) as Hrem. rewrite <- Hrem.
        destruct (delay_rows_props _ _ _ _ _ _ _ Hdr) as (Hfp2 & Hanns).
        unfold norm at 1. cbn [s_time]. unfold onset_payload at 1. cbn [s_orig s_ann].
        replace (0 + k) with k by lia. rewrite Hinv.
        replace (Nat.eqb (k + adj) n) with true by (symmetry; apply Nat.eqb_eq; reflexivity).
        apply Permutation_app_head.
        assert (Hgen : forall (l1 : list srow) (js : list nat),
                   map s_ann l1 = map (fun j => [PDelay (ids_of (r_body r)) j]) js ->
                   Forall (fun r0 => s_orig r0 = 0 + k /\ s_time r0 <> None) l1 ->
                   flat_map (fun a0 => onset_payload adj invalid n (norm a0)) l1 =
                   flat_map (fun p => if truthy [p] then full [p] else []) (map (PDelay (ids_of (r_body r))) js)).
        { induction l1 as [|r1 l1 IH1]; intros js Hm Hf; destruct js as [|j js]; try discriminate; [reflexivity|].
          cbn in Hm. inversion Hm as [[Ha Hm']]. inversion Hf as [|? ? [Ho1 Ht1] Hf']; subst.
          cbn [flat_map map]. rewrite (IH1 js Hm' Hf'). f_equal.
          unfold norm. destruct (s_time r1); [|congruence].
          unfold onset_payload. rewrite Ho1, Ha. replace (0 + k) with k by lia. rewrite Hinv.
          replace (Nat.eqb (k + adj) n) with true by (symmetry; apply Nat.eqb_eq; reflexivity). reflexivity. }
        rewrite (Hgen (fst dr) (snd dr) Hanns Hfp2). reflexivity.
      + inversion Hxk; subst xk. clear Hxk. cbn [fst snd flat_map].
        unfold norm. cbn [s_time]. unfold onset_payload. cbn [s_orig s_ann].
        replace (0 + k) with k by lia. rewrite Hinv.
        replace (Nat.eqb (k + adj) n) with true by (symmetry; apply Nat.eqb_eq; reflexivity).
        rewrite !app_nil_r. reflexivity.
    - (* no numeric onset: the full checks of _run_checks; nothing from _run_onset_checks *)
      assert (Hons : flat_map (fun a0 => onset_payload adj invalid n (norm a0)) (fst xk :: snd xk) = []).
      { destruct (b_delaytext (r_body r)).
        - apply bind_ok in Hxk as (dr & Hdr & Hxk). inversion Hxk; subst xk. clear Hxk.
          apply delay_rows_no_onset in Hdr. subst dr. cbn [fst snd flat_map].
          unfold norm. cbn [s_time blank]. unfold onset_payload. cbn [s_ann s_orig truthy].
          destruct (existsb _ invalid); reflexivity.
        - inversion Hxk; subst xk. cbn [fst snd flat_map].
          unfold norm. cbn [s_time blank]. unfold onset_payload. cbn [s_ann s_orig truthy].
          destruct (existsb _ invalid); reflexivity. }
      rewrite Hons, app_nil_r.
      destruct (ids_of (r_body r)) as [|i0 ids0] eqn:Eids; [reflexivity|].
      destruct (truthy [PJoin (i0 :: ids0)]) eqn:Et; [|reflexivity].
      replace (0 + k + adj) with n by (unfold n; lia).
      rewrite sr_full_issues, Eids. reflexivity.
  Qed.

  (* ================================================================== the issue list, up to order *)

  Lemma split_rows_times_numeric cfg t :
    Forall (fun r => r_onset r <> None) t ->
    Forall (fun r0 => s_time r0 <> None) (split_rows (map (split_out cfg) (frame cfg t))).
  Proof.
    intros Hnum. eapply Permutation_Forall; [symmetry; apply split_rows_flat|].
    apply Forall_forall. intros r0 Hr0. apply in_flat_map in Hr0 as (x & Hx & Hr0).
    apply in_map_iff in Hx as (d & <- & Hd). destruct (split_out_props cfg d) as (_ & H2 & H3).
    destruct Hr0 as [<-|Hr0].
    - rewrite H2. pose proof (frame_from_table cfg t) as Hft. rewrite Forall_forall in Hft.
      destruct (Hft d Hd) as (_ & Hin & _). apply in_map_iff in Hin as (r1 & <- & Hr1).
      rewrite Forall_forall in Hnum. now apply Hnum.
    - rewrite Forall_forall in H3. now destruct (H3 r0 Hr0).
  Qed.

  Lemma validate_shape cfg t l :
    validate cfg t = Ok l -> cf_has_onset cfg = true ->
    cf_fix_mask cfg = true \/ Forall (fun r => r_onset r <> None) t ->
    distinct_times cfg t ->
    Permutation l
      (column_structure cfg (row_adj cfg) t
       ++ (if needs_sorting cfg t then [mk SUnordered None None] else [])
       ++ flat_map (row_issues (row_adj cfg) (fun d => is_some (dr_onset d))) (frame cfg t)
       ++ onset_checks (row_adj cfg)
            (flat_map (fun d => if row_invalid (row_adj cfg) d then [dr_label d] else []) (frame cfg t)) tinit
            (map norm (sort_by s_time (split_rows (map (split_out cfg) (frame cfg t))))))
    /\ Forall (fun d => exists x, split_row cfg d = Ok x) (frame cfg t).
  Proof.
    intros H Hon Hmk Hdist.
    apply validate_unfold in H as (onsets & ci & Hsp & Hci & Hp).
    set (adj := row_adj cfg) in *.
    rewrite Hon in Hsp. apply bind_ok in Hsp as (sp & Hsp & Ho). inversion Ho; subst onsets. clear Ho.
    apply split_unfold in Hsp as (-> & Hrows). split; [|exact Hrows].
    set (X := split_rows (map (split_out cfg) (frame cfg t))) in *.
    pose proof (sort_by_perm s_time X) as Hsort.
    assert (Hmerge : merge_same_onset (sort_by s_time X) = map norm (sort_by s_time X)).
    { apply merge_distinct_gen. eapply Permutation_NoDup; [symmetry; apply times_of_perm; exact Hsort|exact Hdist]. }
    rewrite Hmerge in Hci, Hp. clear Hmerge.
    cbn [option_map] in Hci.
    assert (Hmask : Forall (fun d => mask_lookup (if cf_fix_mask cfg then MLabel
                                        else MPos (map (fun r0 => is_some (s_time r0)) (map norm (sort_by s_time X)))) d
                                     = Ok (is_some (dr_onset d))) (frame cfg t)).
    { destruct (cf_fix_mask cfg) eqn:Efm; [apply Forall_forall; intros d _; reflexivity|].
      destruct Hmk as [Hmk|Hnum]; [discriminate|].
      pose proof (split_rows_times_numeric cfg t Hnum) as Hall. fold X in Hall.
      pose proof (frame_from_table cfg t) as Hft.
      apply Forall_forall. intros d Hd. rewrite Forall_forall in Hft. destruct (Hft d Hd) as (Hl & Hin & _).
      assert (Hdo : is_some (dr_onset d) = true).
      { apply in_map_iff in Hin as (r1 & <- & Hr1). rewrite Forall_forall in Hnum. specialize (Hnum r1 Hr1).
        destruct (r_onset r1); [reflexivity|congruence]. }
      rewrite Hdo. cbn [mask_lookup].
      destruct (nth_error (map (fun r0 => is_some (s_time r0)) (map norm (sort_by s_time X))) (dr_label d)) eqn:E.
      - apply nth_error_In in E. apply in_map_iff in E as (r0 & <- & Hr0). apply in_map_iff in Hr0 as (r1 & <- & Hr1).
        apply (Permutation_in _ Hsort) in Hr1. rewrite Forall_forall in Hall. specialize (Hall r1 Hr1).
        unfold norm. destruct (s_time r1) eqn:E1; [now rewrite E1|congruence].
      - apply nth_error_None in E. rewrite !map_length, (Permutation_length Hsort) in E.
        unfold X, split_rows in E. rewrite app_length, !map_length, frame_length in E. lia. }
    destruct (run_checks_exact _ _ _ _ _ Hmask Hci) as (Hfst & Hsnd). rewrite Hfst, Hsnd in Hp. exact Hp.
  Qed.

  (* ================================================================== the ASSEMBLED annotation *)

  (* string-level issues of an annotation (none when the parsed string is empty) *)
  Definition sl (a : ann) : list raw := if truthy a then full a else [].

  Lemma row_payload_numeric cfg r z :
    r_onset r = Some z ->
    row_payload cfg r = flat_map (fun p => sl [p]) (pieces cfg (r_onset r) (r_body r)).
  Proof. intros H. unfold row_payload. rewrite H. reflexivity. Qed.

  (* a row WITHOUT Delay text and with a numeric onset: exactly the issues of its assembled annotation *)
  Lemma validate_row_equals_assembled_no_delay cfg t l k r z :
    validate cfg t = Ok l -> cf_has_onset cfg = true -> no_scramble cfg t ->
    cf_fix_mask cfg = true \/ Forall (fun r => r_onset r <> None) t ->
    distinct_times cfg t ->
    nth_error t k = Some r -> cells_error_free r ->
    r_onset r = Some z -> b_delaytext (r_body r) = false ->
    Permutation (string_raws l (k + row_adj cfg))
                (flat_map basic (ids_of (r_body r)) ++ sl [PCells (ids_of (r_body r))]).
  Proof.
    intros H Hon Hns Hmk Hd Hk Hfree Hz Hdt.
    rewrite (validate_row_equals_string cfg t l k r H Hon Hns Hmk Hd Hk Hfree).
    rewrite (row_payload_numeric cfg r z Hz). unfold pieces. rewrite Hdt. cbn [flat_map]. now rewrite app_nil_r.
  Qed.

  (* the hypothesis about STRING validation under which the split into pieces is invisible: validating an
     annotation gives the issues of the annotation without some of its top-level Delay groups plus the issues of
     each of these groups (a property of the string validator, not of the file validator) *)
  Definition delay_split_neutral : Prop :=
    forall ids ks, Permutation (sl [PCells ids]) (sl [PRem ids ks] ++ flat_map (fun k => sl [PDelay ids k]) ks).

  Lemma validate_row_equals_assembled cfg t l k r z :
    delay_split_neutral ->
    validate cfg t = Ok l -> cf_has_onset cfg = true -> no_scramble cfg t ->
    cf_fix_mask cfg = true \/ Forall (fun r => r_onset r <> None) t ->
    distinct_times cfg t ->
    nth_error t k = Some r -> cells_error_free r -> r_onset r = Some z ->
    Permutation (string_raws l (k + row_adj cfg))
                (flat_map basic (ids_of (r_body r)) ++ sl [PCells (ids_of (r_body r))]).
  Proof.
    intros Hsplit H Hon Hns Hmk Hd Hk Hfree Hz.
    rewrite (validate_row_equals_string cfg t l k r H Hon Hns Hmk Hd Hk Hfree).
    apply Permutation_app_head. rewrite (row_payload_numeric cfg r z Hz). unfold pieces.
    destruct (b_delaytext (r_body r)); [|cbn [flat_map]; now rewrite app_nil_r].
    cbn [flat_map]. rewrite flat_map_map'. symmetry. apply Hsplit.
  Qed.

  (* ================================================================== row labels of row-level issues *)

  Lemma onset_checks_sources adj invalid st rows :
    Forall (fun i : issue => exists r0, In r0 rows /\ i_row i = Some (s_orig r0 + adj) /\ i_col i = None /\
                                        truthy (s_ann r0) = true /\
                                        ((exists x, i_src i = SFull x /\ In x (full (s_ann r0))) \/
                                         (exists x st0, i_src i = STemporal x /\ In x (snd (temporal st0 (s_ann r0))))))
           (onset_checks adj invalid st rows).
  Proof.
    revert st; induction rows as [|r rs IH]; intros st; cbn [FileValidate.onset_checks]; [constructor|].
    assert (Hrest : forall st', Forall (fun i : issue => exists r0, In r0 (r :: rs) /\ i_row i = Some (s_orig r0 + adj) /\
                       i_col i = None /\ truthy (s_ann r0) = true /\
                       ((exists x, i_src i = SFull x /\ In x (full (s_ann r0))) \/
                        (exists x st0, i_src i = STemporal x /\ In x (snd (temporal st0 (s_ann r0))))))
                     (onset_checks adj invalid st' rs)).
    { intros st'. eapply Forall_impl; [|apply IH]. intros i (r0 & Hin & Hr). exists r0. split; [now right|exact Hr]. }
    destruct (existsb (Nat.eqb (s_orig r)) invalid); [apply Hrest|].
    destruct (truthy (s_ann r)) eqn:Et; [|apply Hrest].
    destruct (temporal st (s_ann r)) as [st' ti] eqn:Etm.
    apply Forall_app; split; [|apply Forall_app; split; [|apply Hrest]].
    - apply Forall_forall. intros i Hi. apply in_map_iff in Hi as (x & <- & Hx). exists r.
      split; [now left|]. cbn. repeat split; auto. left. eauto.
    - apply Forall_forall. intros i Hi. apply in_map_iff in Hi as (x & <- & Hx). exists r.
      split; [now left|]. cbn. repeat split; auto. right. exists x, st. rewrite Etm. split; [reflexivity|exact Hx].
  Qed.

  Lemma split_out_pieces cfg d x :
    split_row cfg d = Ok x ->
    Forall (fun r0 => exists p, In p (pieces cfg (dr_onset d) (dr_body d)) /\ s_ann r0 = [p]) (fst x :: snd x).
  Proof.
    unfold split_row, pieces. intros H. destruct (b_delaytext (dr_body d)).
    - apply bind_ok in H as (dr & Hdr & H). inversion H; subst x. clear H. cbn [fst snd].
      rewrite <- (delay_rows_removed _ _ _ _ _ _ _ Hdr).
      destruct (delay_rows_props _ _ _ _ _ _ _ Hdr) as (_ & Hanns).
      constructor; [eexists; split; [left; reflexivity|reflexivity]|].
      apply Forall_forall. intros r0 Hr0.
      assert (In (s_ann r0) (map s_ann (fst dr))) as Hin by now apply in_map.
      rewrite Hanns in Hin. apply in_map_iff in Hin as (j & Hj & Hjin).
      exists (PDelay (ids_of (dr_body d)) j). split; [right; now apply in_map|now symmetry].
    - inversion H; subst x. cbn [fst snd]. constructor; [|constructor].
      eexists; split; [left; reflexivity|reflexivity].
  Qed.

  (* an annotation of the row itself: the string assembled from its cells, or one of the pieces it is split into *)
  Definition own_annotation (cfg : config) (r : row) (a : ann) : Prop :=
    a = [PJoin (ids_of (r_body r))] \/ exists p, In p (pieces cfg (r_onset r) (r_body r)) /\ a = [p].

  (* every row-level issue (full-string, banned-tag, temporal) is labelled with the file row whose own annotation
     produced it *)
  Definition row_level_located (cfg : config) (t : list row) (i : issue) : Prop :=
    match i_src i with
    | SFull x => i_col i = None /\ exists k r a, i_row i = Some (k + row_adj cfg) /\ nth_error t k = Some r /\
                                                  own_annotation cfg r a /\ In x (full a)
    | SBanned x => i_col i = None /\ exists k r a, i_row i = Some (k + row_adj cfg) /\ nth_error t k = Some r /\
                                                    own_annotation cfg r a /\ In x (banned a)
    | STemporal x => i_col i = None /\ exists k r a st0, i_row i = Some (k + row_adj cfg) /\ nth_error t k = Some r /\
                                                          own_annotation cfg r a /\ In x (snd (temporal st0 a))
    | _ => True
    end.

  Lemma validate_row_level_located cfg t l :
    validate cfg t = Ok l -> cf_has_onset cfg = true -> no_scramble cfg t ->
    cf_fix_mask cfg = true \/ Forall (fun r => r_onset r <> None) t ->
    distinct_times cfg t ->
    Forall (row_level_located cfg t) l.
  Proof.
    intros H Hon Hns Hmk Hdist.
    destruct (validate_shape cfg t l H Hon Hmk Hdist) as (Hp & Hrows).
    eapply Permutation_Forall; [symmetry; exact Hp|]. clear Hp.
    pose proof (frame_perm cfg t Hns) as Hfp.
    apply Forall_app; split; [|apply Forall_app; split; [|apply Forall_app; split]].
    - unfold FileValidate.column_structure. apply Forall_app; split; [|apply Forall_app; split];
        apply Forall_forall; intros i Hi.
      + apply in_map_iff in Hi as (x & <- & _). exact I.
      + apply in_flat_map in Hi as (c & _ & Hi). unfold key_issues in Hi. apply in_flat_map in Hi as (d & _ & Hi).
        destruct (existsb (N.eqb c) (b_badkeys (dr_body d))); [|destruct Hi]. destruct Hi as [<-|[]]. exact I.
      + apply in_map_iff in Hi as (x & <- & _). exact I.
    - destruct (needs_sorting cfg t); constructor; [exact I|constructor].
    - apply Forall_forall. intros i Hi. apply in_flat_map in Hi as (d & Hd & Hi).
      apply (Permutation_in _ Hfp) in Hd. destruct (in_indexed t d Hd) as (r & Hr & Ho & Hb).
      unfold row_issues in Hi. apply in_app_or in Hi as [Hi|Hi].
      + apply in_flat_map in Hi as (c & _ & Hi). unfold cell_issues in Hi. destruct (c_skip c); [destruct Hi|].
        apply in_map_iff in Hi as (x & <- & _). exact I.
      + destruct (row_invalid (row_adj cfg) d); [destruct Hi|]. destruct (ids_of (dr_body d)) eqn:Eids; [destruct Hi|].
        destruct (is_some (dr_onset d)); [destruct Hi|]. destruct (truthy _); [|destruct Hi].
        unfold full_issues in Hi. rewrite Hb in Hi.
        apply in_app_or in Hi as [Hi|Hi]; apply in_map_iff in Hi as (x & <- & Hx); cbn;
          (split; [reflexivity|]); exists (dr_label d), r, [PJoin (ids_of (r_body r))];
          (split; [reflexivity|]); (split; [exact Hr|]); (split; [now left|exact Hx]).
    - eapply Forall_impl; [|apply onset_checks_sources].
      intros i (r0' & Hin & Hrow & Hcol & Htr & Hsrc).
      apply in_map_iff in Hin as (r0 & <- & Hr0).
      apply (Permutation_in _ (sort_by_perm _ _)) in Hr0.
      apply (Permutation_in _ (split_rows_flat _)) in Hr0.
      apply in_flat_map in Hr0 as (x & Hx & Hr0). apply in_map_iff in Hx as (d & <- & Hd).
      assert (Hnorm : norm r0 = r0).
      { unfold norm in *. destruct (s_time r0); [reflexivity|]. cbn in Htr. discriminate. }
      rewrite Hnorm in *. clear Hnorm.
      rewrite Forall_forall in Hrows. destruct (Hrows d Hd) as (xk & Hxk).
      assert (Hout : split_out cfg d = xk) by (unfold split_out; now rewrite Hxk). rewrite Hout in Hr0.
      pose proof (split_out_pieces cfg d xk Hxk) as Hpc. rewrite Forall_forall in Hpc.
      destruct (Hpc r0 Hr0) as (p & Hp & Hann).
      destruct (split_row_props cfg d xk Hxk) as (H1 & _ & H3).
      assert (Horig : s_orig r0 = dr_label d).
      { destruct Hr0 as [<-|Hr0]; [exact H1|]. rewrite Forall_forall in H3. now destruct (H3 r0 Hr0). }
      apply (Permutation_in _ Hfp) in Hd. destruct (in_indexed t d Hd) as (r & Hr & Ho & Hb).
      assert (Hown : own_annotation cfg r (s_ann r0)).
      { right. exists p. rewrite <- Ho, <- Hb. auto. }
      unfold row_level_located. rewrite Horig in Hrow.
      destruct Hsrc as [(x0 & Hs & Hx0)|(x0 & st0 & Hs & Hx0)]; rewrite Hs.
      + split; [exact Hcol|]. exists (dr_label d), r, (s_ann r0). auto.
      + split; [exact Hcol|]. exists (dr_label d), r, (s_ann r0), st0. auto.
  Qed.

  (* which issues carry a row: exactly those that do not concern the file as a whole *)
  Definition row_classified (cfg : config) (t : list row) (i : issue) : Prop :=
    match i_src i with
    | SPre _ | SPost _ | SUnordered => i_row i = None /\ i_col i = None
    | _ => exists k, k < length t /\ i_row i = Some (k + row_adj cfg)
    end.

  Lemma validate_row_classified cfg t l : validate cfg t = Ok l -> Forall (row_classified cfg t) l.
  Proof.
    intros H. pose proof (validate_labels_in_range cfg t l H) as Hr.
    apply validate_unfold in H as (onsets & ci & Hon & Hci & Hp).
    assert (Hk : Forall (fun i : issue => match i_src i with
                                          | SPre _ | SPost _ | SUnordered => i_row i = None /\ i_col i = None
                                          | _ => i_row i <> None end) l).
    { eapply Permutation_Forall; [symmetry; exact Hp|].
      apply Forall_app; split; [|apply Forall_app; split; [|apply Forall_app; split]].
      - unfold FileValidate.column_structure. apply Forall_app; split; [|apply Forall_app; split];
          apply Forall_forall; intros i Hi.
        + apply in_map_iff in Hi as (x & <- & _). cbn. auto.
        + apply in_flat_map in Hi as (c & _ & Hi). unfold key_issues in Hi. apply in_flat_map in Hi as (d & _ & Hi).
          destruct (existsb (N.eqb c) (b_badkeys (dr_body d))); [|destruct Hi]. destruct Hi as [<-|[]]. cbn. discriminate.
        + apply in_map_iff in Hi as (x & <- & _). cbn. auto.
      - destruct (needs_sorting cfg t); constructor; [cbn; auto|constructor].
      - destruct (run_checks_shape _ _ _ _ Hci) as (Ha & _ & _).
        eapply Forall_impl; [|exact Ha]. intros i (d & _ & [Hi|Hi]).
        + apply in_flat_map in Hi as (c & _ & Hi). unfold cell_issues in Hi.
          destruct (c_skip c); [destruct Hi|]. apply in_map_iff in Hi as (x & <- & _). cbn. discriminate.
        + unfold full_issues in Hi. apply in_app_or in Hi as [Hi|Hi]; apply in_map_iff in Hi as (x & <- & _); cbn; discriminate.
      - destruct onsets as [rows|]; [|constructor].
        eapply Forall_impl; [|apply onset_checks_sources].
        intros i (r0 & _ & Hrow & _ & _ & [(x & Hs & _)|(x & st0 & Hs & _)]); rewrite Hs, Hrow; discriminate. }
    rewrite Forall_forall in *. intros i Hi. specialize (Hr i Hi). specialize (Hk i Hi).
    unfold row_classified, label_in_range in *.
    destruct (i_src i); try exact Hk;
      (destruct (i_row i) as [n|]; [destruct Hr as (k & Hk1 & ->); exists k; auto|congruence]).
  Qed.

  (* ================================================================== the out-of-order warning *)

  Definition is_unordered (i : issue) : bool := match i_src i with SUnordered => true | _ => false end.
  Definition count_unordered (l : list issue) : nat := length (filter is_unordered l).

  Lemma count_unordered_app l1 l2 : count_unordered (l1 ++ l2) = count_unordered l1 + count_unordered l2.
  Proof. unfold count_unordered. now rewrite filter_app, app_length. Qed.

  Lemma count_unordered_zero l : Forall (fun i => is_unordered i = false) l -> count_unordered l = 0.
  Proof.
    unfold count_unordered. induction 1 as [|i l Hi _ IH]; cbn; [reflexivity|]. now rewrite Hi.
  Qed.

  Lemma count_unordered_perm l l' : Permutation l l' -> count_unordered l = count_unordered l'.
  Proof.
    unfold count_unordered. induction 1; cbn; try lia.
    - destruct (is_unordered x); cbn; lia.
    - destruct (is_unordered x), (is_unordered y); cbn; lia.
  Qed.

  Lemma onset_checks_not_unordered adj invalid st rows :
    Forall (fun i => is_unordered i = false) (onset_checks adj invalid st rows).
  Proof.
    revert st; induction rows as [|r rs IH]; intros st; cbn [FileValidate.onset_checks]; [constructor|].
    destruct (existsb (Nat.eqb (s_orig r)) invalid); [apply IH|].
    destruct (truthy (s_ann r)); [|apply IH].
    destruct (temporal st (s_ann r)) as [st' ti].
    apply Forall_app; split; [|apply Forall_app; split; [|apply IH]];
      apply Forall_forall; intros i Hi; apply in_map_iff in Hi as (x & <- & _); reflexivity.
  Qed.

  Lemma validate_unordered_once cfg t l :
    validate cfg t = Ok l -> count_unordered l = if needs_sorting cfg t then 1 else 0.
  Proof.
    intros H. apply validate_unfold in H as (onsets & ci & _ & Hci & Hp).
    rewrite (count_unordered_perm _ _ Hp), !count_unordered_app.
    rewrite (count_unordered_zero (column_structure cfg (row_adj cfg) t)).
    2:{ unfold FileValidate.column_structure. apply Forall_app; split; [|apply Forall_app; split].
        - apply Forall_forall. intros i Hi. apply in_map_iff in Hi as (x & <- & _). reflexivity.
        - apply Forall_forall. intros i Hi. apply in_flat_map in Hi as (c & _ & Hi).
          unfold key_issues in Hi. apply in_flat_map in Hi as (d & _ & Hi).
          destruct (existsb (N.eqb c) (b_badkeys (dr_body d))); [|destruct Hi]. destruct Hi as [<-|[]]. reflexivity.
        - apply Forall_forall. intros i Hi. apply in_map_iff in Hi as (x & <- & _). reflexivity. }
    rewrite (count_unordered_zero (fst ci)).
    2:{ destruct (run_checks_shape _ _ _ _ Hci) as (Ha & _ & _).
        eapply Forall_impl; [|exact Ha]. intros i (d & _ & [Hi|Hi]).
        - apply in_flat_map in Hi as (c & _ & Hi). unfold cell_issues in Hi.
          destruct (c_skip c); [destruct Hi|]. apply in_map_iff in Hi as (x & <- & _). reflexivity.
        - unfold full_issues in Hi. apply in_app_or in Hi as [Hi|Hi]; apply in_map_iff in Hi as (x & <- & _); reflexivity. }
    rewrite (count_unordered_zero (match onsets with Some rows => _ | None => [] end)).
    2:{ destruct onsets; [apply onset_checks_not_unordered|constructor]. }
    destruct (needs_sorting cfg t); reflexivity.
  Qed.

  (* ================================================================== shuffling: rows follow *)

  (* the string-level payload reported for a row with error-free cells is the same wherever the row stands *)
  Lemma validate_shuffle_rows_follow cfg t t' l l' k k' r :
    Permutation t t' ->
    validate cfg t = Ok l -> validate cfg t' = Ok l' ->
    cf_has_onset cfg = true -> no_scramble cfg t -> no_scramble cfg t' ->
    cf_fix_mask cfg = true \/ Forall (fun r => r_onset r <> None) t ->
    distinct_times cfg t -> distinct_times cfg t' ->
    nth_error t k = Some r -> nth_error t' k' = Some r -> cells_error_free r ->
    Permutation (string_raws l (k + row_adj cfg)) (string_raws l' (k' + row_adj cfg)).
  Proof.
    intros Hp H H' Hon Hns Hns' Hnum Hd Hd' Hk Hk' Hfree.
    rewrite (validate_row_equals_string cfg t l k r H Hon Hns Hnum Hd Hk Hfree).
    symmetry. apply (validate_row_equals_string cfg t' l' k' r H' Hon Hns'); auto.
    destruct Hnum as [Hm|Hnum]; [now left|right]. eapply Permutation_Forall; eauto.
  Qed.

  (* ---- the statements for the code as it is (mask indexed by row label, fix c357095) and, separately, for the
     positional mask that the code had before ---- *)
  Lemma validate_row_equals_string_current cfg t l k r :
    cf_fix_mask cfg = true ->
    validate cfg t = Ok l -> cf_has_onset cfg = true -> no_scramble cfg t -> distinct_times cfg t ->
    nth_error t k = Some r -> cells_error_free r ->
    Permutation (string_raws l (k + row_adj cfg)) (flat_map basic (ids_of (r_body r)) ++ row_payload cfg r).
  Proof. intros Hm H Hon Hns Hd Hk Hf. apply (validate_row_equals_string cfg t l k r); auto. Qed.

  Lemma validate_row_equals_string_positional cfg t l k r :
    Forall (fun r => r_onset r <> None) t ->
    validate cfg t = Ok l -> cf_has_onset cfg = true -> no_scramble cfg t -> distinct_times cfg t ->
    nth_error t k = Some r -> cells_error_free r ->
    Permutation (string_raws l (k + row_adj cfg)) (flat_map basic (ids_of (r_body r)) ++ row_payload cfg r).
  Proof. intros Hm H Hon Hns Hd Hk Hf. apply (validate_row_equals_string cfg t l k r); auto. Qed.

  Lemma validate_row_equals_assembled_no_delay_current cfg t l k r z :
    cf_fix_mask cfg = true ->
    validate cfg t = Ok l -> cf_has_onset cfg = true -> no_scramble cfg t -> distinct_times cfg t ->
    nth_error t k = Some r -> cells_error_free r ->
    r_onset r = Some z -> b_delaytext (r_body r) = false ->
    Permutation (string_raws l (k + row_adj cfg))
                (flat_map basic (ids_of (r_body r)) ++ sl [PCells (ids_of (r_body r))]).
  Proof. intros Hm H Hon Hns Hd Hk Hf Hz Hdt. apply (validate_row_equals_assembled_no_delay cfg t l k r z); auto. Qed.

  Lemma validate_row_equals_assembled_current cfg t l k r z :
    delay_split_neutral -> cf_fix_mask cfg = true ->
    validate cfg t = Ok l -> cf_has_onset cfg = true -> no_scramble cfg t -> distinct_times cfg t ->
    nth_error t k = Some r -> cells_error_free r -> r_onset r = Some z ->
    Permutation (string_raws l (k + row_adj cfg))
                (flat_map basic (ids_of (r_body r)) ++ sl [PCells (ids_of (r_body r))]).
  Proof. intros Hs Hm H Hon Hns Hd Hk Hf Hz. apply (validate_row_equals_assembled cfg t l k r z); auto. Qed.

  Lemma validate_row_level_located_current cfg t l :
    cf_fix_mask cfg = true ->
    validate cfg t = Ok l -> cf_has_onset cfg = true -> no_scramble cfg t -> distinct_times cfg t ->
    Forall (row_level_located cfg t) l.
  Proof. intros Hm H Hon Hns Hd. apply validate_row_level_located; auto. Qed.

  Lemma validate_shuffle_rows_follow_current cfg t t' l l' k k' r :
    cf_fix_mask cfg = true -> Permutation t t' ->
    validate cfg t = Ok l -> validate cfg t' = Ok l' ->
    cf_has_onset cfg = true -> no_scramble cfg t -> no_scramble cfg t' ->
    distinct_times cfg t -> distinct_times cfg t' ->
    nth_error t k = Some r -> nth_error t' k' = Some r -> cells_error_free r ->
    Permutation (string_raws l (k + row_adj cfg)) (string_raws l' (k' + row_adj cfg)).
  Proof. intros Hm Hp H H' Hon Hns Hns' Hd Hd' Hk Hk' Hf. apply (validate_shuffle_rows_follow cfg t t' l l' k k' r); auto. Qed.

End Validator.

(* ==================================================================== concrete witnesses *)

Definition w_err (x : nat) : bool := Nat.eqb x 1.
Definition w_basic (c : N) : list nat := if N.eqb c 9 then [1] else if N.eqb c 8 then [3] else [].
Definition w_full (a : ann) : list nat := match a with [] => [] | _ => [2] end.
Definition w_banned (a : ann) : list nat := [].
Definition w_nonempty (a : ann) : bool := true.
Definition w_temporal (st : nat) (a : ann) : nat * list nat := (S st, [10 + st]).
Definition w_validate := validate nat w_err w_basic w_full w_banned w_nonempty nat w_temporal 0 [] [].

(* refs: curly-brace scrambling (before fd59dc0); fixed: case-insensitive unit lookup (f83491d);
   rep: the repairs fix commit ef31cc7, fix commit e4bce88, fix commit c357095 *)
Definition cfg0 (refs fixed rep : bool) : config :=
  {| cf_header := true; cf_has_onset := true; cf_has_refs := refs; cf_cats := []; cf_fixed := fixed;
     cf_fix_none := rep; cf_fix_value := rep; cf_fix_mask := rep |}.
Definition plain_row (o : option Z) (id : N) : row :=
  {| r_onset := o; r_body := {| b_cells := [{| c_col := 1; c_id := id; c_skip := false |}]; b_badkeys := [];
                                b_delaytext := false; b_delays := [] |} |}.
Definition delay_row (o : option Z) (id : N) (d : delay) : row :=
  {| r_onset := o; r_body := {| b_cells := [{| c_col := 1; c_id := id; c_skip := false |}]; b_badkeys := [];
                                b_delaytext := true; b_delays := [d] |} |}.

(* witness 6: "(Delay/2 Seconds,(Red))" at onset 1 s, then "Blue" at 2 s (times in microseconds) *)
Definition t_seconds : list row :=
  [delay_row (Some 1000000%Z) 5 {| d_num := Some 2000000%Z; d_unit := UCase true |}; plain_row (Some 2000000%Z) 6].
(* "(Delay/2 years,(Red))": accepted unit without conversion factor *)
Definition t_years : list row :=
  [delay_row (Some 1000000%Z) 5 {| d_num := Some 0%Z; d_unit := UKey false |}; plain_row (Some 2000000%Z) 6].

(* every Delay unit is an accepted spelling of a unit with a conversion factor and the value is a number *)
Definition accepted_convertible (d : delay) : Prop :=
  d_num d <> None /\ (d_unit d = UNone \/ d_unit d = UKey true \/ d_unit d = UCase true).

Lemma accepted_decision_fixed cfg o d :
  cf_fixed cfg = true -> o <> None -> accepted_convertible d -> decision_total cfg o d.
Proof.
  intros Hf Ho [Hn Hu]. unfold decision_total, delay_decision. rewrite Hf.
  assert (Hv : exists v, value_as_default_unit true d = Ok (Some v)).
  { unfold value_as_default_unit. destruct (d_num d) as [v|]; [|congruence]. exists v.
    destruct Hu as [->|[->| ->]]; reflexivity. }
  destruct Hv as [v ->]. destruct o as [z|]; [|congruence].
  destruct (cf_fix_value cfg); cbn; eauto.
Qed.

(* ---- records of the defects before the repairs (rep = false, and fixed / refs as they then were) ---- *)

Lemma never_raises_refuted :
  exists t, Forall (fun r => r_onset r <> None) t /\
            Forall (fun r => Forall accepted_convertible (b_delays (r_body r))) t /\
            w_validate (cfg0 false false false) t = Exn TypeError /\
            exists l, w_validate (cfg0 false true false) t = Ok l.
Proof.
  exists t_seconds. split; [|split; [|split]].
  - repeat constructor; discriminate.
  - repeat constructor; cbn; auto; discriminate.
  - vm_compute. reflexivity.
  - vm_compute. eexists. reflexivity.
Qed.

(* C07-F2 before fix commit ef31cc7: an accepted unit WITHOUT conversion factor (month, year) raised TypeError;
   the repaired code validates the same table *)
Lemma never_raises_no_factor_refuted :
  w_validate (cfg0 false true false) t_years = Exn TypeError /\
  exists l, w_validate (cfg0 false true true) t_years = Ok l.
Proof. split; [vm_compute; reflexivity|vm_compute; eexists; reflexivity]. Qed.

(* C07-F3 before fix commit e4bce88: a non-numeric Delay value ("Delay/abc s") or a Delay in a row with n/a onset raised
   ValueError; the repaired code validates the same tables *)
Definition t_abc : list row :=
  [delay_row (Some 1000000%Z) 5 {| d_num := None; d_unit := UKey true |}; plain_row (Some 2000000%Z) 6].
Definition t_na_delay : list row :=
  [delay_row None 5 {| d_num := Some 1000000%Z; d_unit := UKey true |}; plain_row (Some 2000000%Z) 6].
Lemma never_raises_value_refuted :
  w_validate (cfg0 false true false) t_abc = Exn ValueError /\
  w_validate (cfg0 false true false) t_na_delay = Exn ValueError /\
  (exists l, w_validate (cfg0 false true true) t_abc = Ok l) /\
  (exists l, w_validate (cfg0 false true true) t_na_delay = Ok l).
Proof.
  split; [vm_compute; reflexivity|]. split; [vm_compute; reflexivity|].
  split; vm_compute; eexists; reflexivity.
Qed.

(* curly-brace reference + unsorted file: the error of the cell in file row 3 (index 1) is labelled row 2 *)
Definition t_refs : list row := [plain_row (Some 3%Z) 5; plain_row (Some 1%Z) 9; plain_row (Some 2%Z) 6].

Lemma true_location_refuted :
  exists l, w_validate (cfg0 true true false) t_refs = Ok l /\
            ~ Forall (true_location nat w_basic (cfg0 true true false) t_refs) l.
Proof.
  eexists. split; [vm_compute; reflexivity|].
  intros H. rewrite Forall_forall in H.
  specialize (H (mk (SBasic 1) (Some 2) (Some 1%N))).
  destruct H with (c := 1%N) as (k & r & Hrow & Hk & Hc); [cbn; tauto|reflexivity|].
  cbn in Hrow. inversion Hrow as [Hk2]. assert (k = 0) by lia. subst k. cbn in Hk. inversion Hk; subst r. clear Hk.
  destruct Hc as [(cell & x & Hin & _ & _ & Hx & _)|(Hs & _)]; [|discriminate].
  cbn in Hin. destruct Hin as [<-|[]]. cbn in Hx. exact Hx.
Qed.

(* C07-F4 before fix commit c357095: with an n/a onset the row-level issue of the row in file row 2 was lost although all
   other hypotheses hold; with the mask indexed by label (rep = true) the equation holds (general theorem) *)
Definition t_na : list row := [plain_row None 5; plain_row (Some 2%Z) 6].

Lemma row_equals_string_na_refuted :
  exists l, w_validate (cfg0 false true false) t_na = Ok l /\
            cells_error_free nat w_err w_basic (plain_row None 5) /\
            no_scramble (cfg0 false true false) t_na /\ distinct_times (cfg0 false true false) t_na /\
            ~ Permutation (string_raws nat l 2)
                (flat_map w_basic (ids_of (r_body (plain_row None 5)))
                 ++ row_payload nat w_full w_banned w_nonempty (cfg0 false true false) (plain_row None 5)).
Proof.
  eexists. split; [vm_compute; reflexivity|]. split; [|split; [|split]].
  - repeat constructor.
  - now left.
  - unfold distinct_times. vm_compute. constructor; [intros []|constructor].
  - vm_compute. intros H. apply Permutation_nil in H. discriminate.
Qed.

(* non-vacuity: an unsorted table with a movable Delay group, a Delay group that stays (years), and a row
   without onset meets every hypothesis of validate_row_equals_string for the repaired code *)
Definition t_ok : list row :=
  [plain_row (Some 2000000%Z) 6;
   {| r_onset := Some 1000000%Z;
      r_body := {| b_cells := [{| c_col := 1; c_id := 5; c_skip := false |}]; b_badkeys := []; b_delaytext := true;
                   b_delays := [{| d_num := Some 3000000%Z; d_unit := UKey true |};
                                {| d_num := Some 0%Z; d_unit := UKey false |}] |} |};
   plain_row None 7].

Lemma row_equals_string_nonvacuous :
  exists l, w_validate (cfg0 false true true) t_ok = Ok l /\
            no_scramble (cfg0 false true true) t_ok /\ distinct_times (cfg0 false true true) t_ok /\
            Forall (cells_error_free nat w_err w_basic) t_ok /\
            string_raws nat l 3 = [2; 2] /\ string_raws nat l 4 = [2] /\
            needs_sorting (cfg0 false true true) t_ok = true /\ count_unordered nat l = 1.
Proof.
  eexists. split; [vm_compute; reflexivity|]. split; [|split; [|split; [|split; [|split; [|split]]]]].
  - now left.
  - unfold distinct_times. vm_compute.
    constructor; [intros [H|[H|[]]]; discriminate|].
    constructor; [intros [H|[]]; discriminate|]. constructor; [intros []|constructor].
  - repeat constructor.
  - vm_compute. reflexivity.
  - vm_compute. reflexivity.
  - vm_compute. reflexivity.
  - vm_compute. reflexivity.
Qed.

(* with the case-insensitive unit lookup alone (before fix commits ef31cc7 and e4bce88): numeric onsets and accepted spellings of
   units that have a conversion factor never raise *)
Lemma validate_never_raises_fixed (raw : Type) raw_is_error basic full banned nonempty (tstate : Type) temporal tinit
      (pre post : list raw) cfg t :
  cf_fixed cfg = true ->
  Forall (fun r => r_onset r <> None) t ->
  Forall (fun r => Forall accepted_convertible (b_delays (r_body r))) t ->
  exists l, validate raw raw_is_error basic full banned nonempty tstate temporal tinit pre post cfg t = Ok l.
Proof.
  intros Hf Hn Hd. apply validate_never_raises. intros o r d Ho Hr Hdd.
  apply accepted_decision_fixed; [exact Hf| |].
  - apply in_map_iff in Ho as (r0 & <- & Hr0). rewrite Forall_forall in Hn. now apply Hn.
  - rewrite Forall_forall in Hd. specialize (Hd r Hr). rewrite Forall_forall in Hd. now apply Hd.
Qed.
