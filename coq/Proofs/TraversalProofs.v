(* Lemmas about the traversal model (C05 (a)). *)
From Coq Require Import List NArith ZArith Arith Bool Lia.
From HV Require Import Base.Res Base.Str Base.StrOps Model.Traversal.
Import ListNotations.

Lemma memb_nonempty c s : memb c s = true -> nonempty s = true.
Proof. destruct s; simpl; [discriminate | reflexivity]. Qed.

(* A schema merged from several libraries (a comma in its library attribute) refuses to save,
   whatever the save mode and content. *)
Lemma multi_library_refuses library ws m tags ucs secs :
  memb ch_comma library = true ->
  process_schema library ws m tags ucs secs = Exn HedFileError.
Proof.
  intro H. unfold process_schema, can_save.
  rewrite (memb_nonempty _ _ H), H. reflexivity.
Qed.

Lemma single_library_saves library ws m tags ucs secs :
  memb ch_comma library = false ->
  exists o, process_schema library ws m tags ucs secs = Ok o.
Proof.
  intro H. unfold process_schema, can_save. rewrite H.
  rewrite orb_true_r. simpl. eexists. reflexivity.
Qed.

(* which entries are written: exactly those not skipped, in order, each once *)
Lemma output_tags_go_entries f tags la an :
  map w_entry (output_tags_go f tags la an)
  = filter (fun e => negb (should_skip f (te_inlib e))) tags.
Proof.
  revert la an. induction tags as [|e rest IH]; intros la an; [reflexivity|].
  cbn [output_tags_go filter].
  destruct (should_skip f (te_inlib e)) eqn:Hs; cbn [negb].
  - apply IH.
  - destruct (Nat.eqb (length (te_name e) - 1) 0); cbn [map w_entry]; f_equal; apply IH.
Qed.

Lemma filter_true {A} (p : A -> bool) l : (forall x, In x l -> p x = true) -> filter p l = l.
Proof.
  induction l as [|x t IH]; intro H; [reflexivity|].
  simpl. rewrite (H x (or_introl eq_refl)). f_equal. apply IH. intros y Hy. apply H. right. exact Hy.
Qed.

Lemma filter_ext_in' {A} (p q : A -> bool) l : (forall x, p x = q x) -> filter p l = filter q l.
Proof. intro H. induction l as [|x t IH]; simpl; [reflexivity|]. rewrite H, IH. reflexivity. Qed.

(* merged save, or any save of a schema that has no partner: every entry exactly once, in order *)
Lemma merged_emits_all_once ws m tags :
  nonempty ws = false \/ m = true ->
  map w_entry (output_tags (compute_flags ws m) tags) = tags.
Proof.
  intro H. unfold output_tags. rewrite output_tags_go_entries.
  apply filter_true. intros e _.
  unfold compute_flags. destruct H as [H|H]; rewrite H.
  - reflexivity.
  - destruct (nonempty ws); reflexivity.
Qed.

(* unmerged save of a partnered library: exactly the entries that carry inLibrary *)
Lemma unmerged_only_library ws tags :
  nonempty ws = true ->
  map w_entry (output_tags (compute_flags ws false) tags) = filter te_inlib tags.
Proof.
  intro H. unfold output_tags. rewrite output_tags_go_entries.
  unfold compute_flags. rewrite H. apply filter_ext_in'. intro e.
  unfold should_skip. simpl. destruct (te_inlib e); reflexivity.
Qed.

Lemma unmerged_never_base ws tags w :
  nonempty ws = true ->
  In w (output_tags (compute_flags ws false) tags) -> te_inlib (w_entry w) = true.
Proof.
  intros H Hin.
  assert (Hm : In (w_entry w) (map w_entry (output_tags (compute_flags ws false) tags))) by (apply in_map; exact Hin).
  rewrite (unmerged_only_library _ _ H) in Hm. apply filter_In in Hm. tauto.
Qed.

(* attributes that reach the file *)
Lemma output_tags_go_attrs f tags la an :
  Forall (fun w => w_attrs w = emitted_attrs f (te_attrs (w_entry w))) (output_tags_go f tags la an).
Proof.
  revert la an. induction tags as [|e rest IH]; intros la an; [constructor|].
  cbn [output_tags_go].
  destruct (should_skip f (te_inlib e)); [apply IH|].
  destruct (Nat.eqb (length (te_name e) - 1) 0); constructor; try reflexivity; apply IH.
Qed.

Lemma emitted_attrs_strip f l : f_strip f = true -> ~ In a_inLibrary (emitted_attrs f l).
Proof.
  intros H Hin. unfold emitted_attrs in Hin. apply filter_In in Hin as [_ Hin].
  unfold attribute_disallowed in Hin. rewrite H, Nat.eqb_refl in Hin. discriminate.
Qed.

Lemma emitted_attrs_keep f l : f_strip f = false -> emitted_attrs f l = l.
Proof.
  intro H. unfold emitted_attrs. apply filter_true. intros x _.
  unfold attribute_disallowed. rewrite H. reflexivity.
Qed.

Lemma emitted_attrs_others f l a : a <> a_inLibrary -> In a l -> In a (emitted_attrs f l).
Proof.
  intros Hne Hin. unfold emitted_attrs. apply filter_In. split; [exact Hin|].
  unfold attribute_disallowed. apply Nat.eqb_neq in Hne. rewrite Hne, andb_false_r. reflexivity.
Qed.

(* inLibrary is kept exactly in a merged save of a partnered library and stripped otherwise *)
Lemma inlibrary_stripped_or_kept ws m tags w :
  In w (output_tags (compute_flags ws m) tags) ->
  (nonempty ws = true /\ m = true -> w_attrs w = te_attrs (w_entry w)) /\
  (nonempty ws = false \/ m = false ->
     ~ In a_inLibrary (w_attrs w) /\
     forall a, a <> a_inLibrary -> In a (te_attrs (w_entry w)) -> In a (w_attrs w)).
Proof.
  intro Hin.
  pose proof (output_tags_go_attrs (compute_flags ws m) tags 0 []) as HF.
  rewrite Forall_forall in HF. specialize (HF w Hin). rewrite HF.
  split.
  - intros [H1 H2]. apply emitted_attrs_keep. unfold compute_flags. rewrite H1, H2. reflexivity.
  - intro H. assert (Hs : f_strip (compute_flags ws m) = true).
    { unfold compute_flags. destruct H as [H|H]; rewrite H; [reflexivity|]. destruct (nonempty ws); reflexivity. }
    split; [apply emitted_attrs_strip; exact Hs|].
    intros a Hne Ha. apply emitted_attrs_others; assumption.
Qed.

(* in a merged save the level written is the depth of the tag: level_adj stays 0 *)
Lemma merged_levels_go f tags an :
  f_save_merged f = true ->
  Forall (fun w => w_level w = Z.of_nat (length (te_name (w_entry w)) - 1)) (output_tags_go f tags 0 an).
Proof.
  intro Hm. revert an. induction tags as [|e rest IH]; intro an; [constructor|].
  cbn [output_tags_go].
  destruct (should_skip f (te_inlib e)); [apply IH|].
  assert (H0 : match parent_name e with [] => 0 | _ :: _ => 0 end = 0) by (destruct (parent_name e); reflexivity).
  rewrite H0.
  destruct (Nat.eqb (length (te_name e) - 1) 0) eqn:El.
  - constructor; [|apply IH]. cbn [w_level w_entry]. apply Nat.eqb_eq in El. rewrite El. reflexivity.
  - assert (Hadj : match te_parent e with
                   | Some (pn, pin) =>
                       if te_inlib e && negb pin && negb (f_save_merged f)
                       then if negb (in_nodes pn an) then length (te_name e) - 1 else 0 else 0
                   | None => 0 end = 0).
    { destruct (te_parent e) as [[pn pin]|]; [|reflexivity]. rewrite Hm, andb_false_r. reflexivity. }
    rewrite Hadj. constructor; [|apply IH]. cbn [w_level w_entry]. lia.
Qed.

Lemma merged_levels ws m tags w :
  nonempty ws = false \/ m = true ->
  In w (output_tags (compute_flags ws m) tags) ->
  w_level w = Z.of_nat (length (te_name (w_entry w)) - 1).
Proof.
  intros H Hin.
  assert (Hm : f_save_merged (compute_flags ws m) = true).
  { unfold compute_flags. destruct H as [H|H]; rewrite H; [reflexivity|]. destruct (nonempty ws); reflexivity. }
  pose proof (merged_levels_go _ tags [] Hm) as HF. rewrite Forall_forall in HF. apply HF. exact Hin.
Qed.

(* other sections *)
Lemma output_section_entries f l :
  map fst (output_section f l) = filter (fun e => negb (should_skip f (e_inlib e))) l.
Proof. unfold output_section. rewrite map_map. simpl. apply map_id. Qed.

(* ------------------------------------------------------------------ every multi-library merge refuses *)

Lemma merge_library_comma old new : memb ch_comma (merge_library false old new) = true.
Proof.
  unfold merge_library. cbn [andb]. unfold memb. rewrite existsb_app. cbn [existsb].
  rewrite N.eqb_refl. rewrite orb_true_r. reflexivity.
Qed.

Lemma merged_library_keeps_comma more : forall x,
  memb ch_comma x = true -> memb ch_comma (merged_library false x more) = true.
Proof.
  unfold merged_library. induction more as [|m ms IH]; intros x H; [exact H|].
  cbn [fold_left]. apply IH. apply merge_library_comma.
Qed.

(* whatever the library names are -- different, equal, empty -- and however many files are merged, a schema
   built from two or more library files refuses every save *)
Lemma merged_libraries_refuse first m more ws mode tags ucs secs :
  process_schema (merged_library false first (m :: more)) ws mode tags ucs secs = Exn HedFileError.
Proof.
  apply multi_library_refuses. unfold merged_library. cbn [fold_left].
  apply (merged_library_keeps_comma more). apply merge_library_comma.
Qed.

(* not the code: if a name already listed were not repeated, two files of one library would save *)
Lemma merged_dedupe_saves :
  exists l ws mode tags ucs secs,
    is_ok (process_schema (merged_library true l [l]) ws mode tags ucs secs) = true.
Proof. exists [116%N], [], true, [], [], []. reflexivity. Qed.

(* ------------------------------------------------------------------ names rebuilt from order and level *)

Lemma rebuild_parents_first names : forall previous,
  parents_first previous names -> rebuild_names previous (map wiki_tag_line names) = Ok names.
Proof.
  induction names as [|n rest IH]; intros previous H; [reflexivity|].
  destruct H as (Hne & Hle & Hpre & Hrest).
  cbn [map rebuild_names wiki_tag_line].
  assert (Hlt : Nat.ltb (length previous) (length n - 1) = false) by (apply Nat.ltb_ge; exact Hle).
  rewrite Hlt. rewrite <- Hpre.
  assert (Hn : removelast n ++ [last n 0] = n) by (symmetry; apply app_removelast_last; exact Hne).
  rewrite Hn. rewrite (IH n Hrest). reflexivity.
Qed.

(* a merged MediaWiki save that lists the tags parents-first is read back with every long name intact *)
Lemma wiki_names_rebuilt names :
  parents_first [] names -> rebuild_names [] (map wiki_tag_line names) = Ok names.
Proof. apply rebuild_parents_first. Qed.

(* ... and an order that is not parents-first is not: a library node listed behind the last subtree of its
   tree is attached to the wrong parent (finding C05-F7) *)
Lemma wiki_names_wrong_parent :
  exists names, rebuild_names [] (map wiki_tag_line names) <> Ok names
                /\ exists wrong, rebuild_names [] (map wiki_tag_line names) = Ok wrong.
Proof.
  exists [[1]; [1; 2]; [1; 3]; [1; 2; 4]]. split.
  - vm_compute. intro H. discriminate.
  - eexists. vm_compute. reflexivity.
Qed.
