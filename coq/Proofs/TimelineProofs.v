(* Proofs about Model/Timeline.v:
   - the order-preserving sort used for the processing order is a permutation,
     sorted by effective time, and stable (for ALL inputs);
   - the declarative "time points by effective time" specification of the whole
     file pipeline (proved equal to the model in Proofs/TimelineRuns.v). *)
From Coq Require Import List NArith Arith Bool Lia Permutation Sorted.
From HV Require Import Base.Res Base.Str Model.Onset Model.Timeline Proofs.OnsetProofs.
Import ListNotations.

(* ------------------------------------------------------------------ *)
(* stable_sort                                                         *)
(* ------------------------------------------------------------------ *)
Section SortProofs.
  Context {A : Type} (key : A -> N).

  Definition le_key (a b : A) : Prop := (key a <= key b)%N.

  Lemma insert_perm x l : Permutation (x :: l) (insert_by key x l).
  Proof.
    induction l as [|y r IH]; cbn [insert_by]; [apply Permutation_refl|].
    destruct (key x <=? key y)%N; [apply Permutation_refl|].
    eapply Permutation_trans; [apply perm_swap|]. apply perm_skip. exact IH.
  Qed.

  Lemma sort_perm l : Permutation l (stable_sort key l).
  Proof.
    induction l as [|x r IH]; cbn [stable_sort]; [constructor|].
    eapply Permutation_trans; [apply perm_skip; exact IH | apply insert_perm].
  Qed.

  Lemma insert_sorted x l : Sorted le_key l -> Sorted le_key (insert_by key x l).
  Proof.
    induction l as [|y r IH]; intro H; cbn [insert_by].
    - constructor; constructor.
    - destruct (key x <=? key y)%N eqn:E.
      + apply N.leb_le in E. constructor; [exact H | constructor; exact E].
      + apply N.leb_gt in E. inversion H as [|? ? Hs Hh]; subst.
        constructor; [apply IH; exact Hs|].
        destruct r as [|z r']; cbn [insert_by].
        * constructor. unfold le_key. lia.
        * destruct (key x <=? key z)%N; constructor; [unfold le_key; lia|].
          inversion Hh; assumption.
  Qed.

  Lemma sort_sorted l : Sorted le_key (stable_sort key l).
  Proof.
    induction l as [|x r IH]; cbn [stable_sort]; [constructor|]. apply insert_sorted. exact IH.
  Qed.

  Definition at_time (t : N) (x : A) : bool := N.eqb (key x) t.

  Lemma insert_filter x l t :
    filter (at_time t) (insert_by key x l) = filter (at_time t) (x :: l).
  Proof.
    induction l as [|y r IH]; cbn [insert_by]; [reflexivity|].
    destruct (key x <=? key y)%N eqn:E; [reflexivity|]. apply N.leb_gt in E.
    cbn [filter] in *. rewrite IH. unfold at_time.
    destruct (N.eqb (key y) t) eqn:Ey; [|reflexivity].
    destruct (N.eqb (key x) t) eqn:Ex; [|reflexivity].
    apply N.eqb_eq in Ey, Ex. lia.
  Qed.

  (* stability: for every key value the elements carrying it keep their original relative order *)
  Lemma sort_stable l t : filter (at_time t) (stable_sort key l) = filter (at_time t) l.
  Proof.
    induction l as [|x r IH]; cbn [stable_sort]; [reflexivity|].
    rewrite insert_filter. cbn [filter]. rewrite IH. reflexivity.
  Qed.

  Lemma sortedb_Sorted l : sortedb key l = true <-> Sorted le_key l.
  Proof.
    induction l as [|x r IH]; [split; [constructor | reflexivity]|].
    destruct r as [|y r'].
    - split; [intro; constructor; constructor | reflexivity].
    - change (sortedb key (x :: y :: r')) with ((key x <=? key y)%N && sortedb key (y :: r')).
      rewrite andb_true_iff, IH, N.leb_le. split.
      + intros [H1 H2]. constructor; [exact H2 | constructor; exact H1].
      + intro H. inversion H as [|? ? Hs Hh]; subst. inversion Hh; subst. split; assumption.
  Qed.

  (* whatever tie order the platform sort picks ([perm]), an accepted order is sorted by key *)
  Lemma sort_by_sorted perm l out : sort_by key perm l = Ok out -> Sorted le_key out.
  Proof.
    unfold sort_by. destruct perm as [p|].
    - destruct (is_perm p (seq 0 (length l))); [|discriminate].
      destruct (reorder p l) as [o|e]; cbn [bind]; [|discriminate].
      destruct (sortedb key o) eqn:E; [|discriminate]. intro H. inversion H; subst.
      apply sortedb_Sorted. exact E.
    - intro H. inversion H. apply sort_sorted.
  Qed.
End SortProofs.

(* The processing order of a file: split_df lines (rows in file order, then the Delay groups in file
   order) sorted by effective time.  For ALL files: it is a permutation of the lines, ordered by
   effective time, and lines with the same effective time keep the above order. *)
Theorem processing_order_is_stable_sort (irows : list (nat * row)) :
  let es := split_entries irows in
  let out := stable_sort e_time es in
  (forall perm, sort_dataframe_by_onsets e_time true perm es = Ok out) /\
  sort_by e_time None es = Ok out /\
  Permutation es out /\
  Sorted (fun a b => (e_time a <= e_time b)%N) out /\
  forall t, filter (fun e => N.eqb (e_time e) t) out = filter (fun e => N.eqb (e_time e) t) es.
Proof.
  cbn zeta. split; [reflexivity|]. split; [reflexivity|]. split; [apply sort_perm|]. split; [apply sort_sorted|].
  intro t. apply (sort_stable e_time).
Qed.

(* a Delay group whose value converts to seconds takes effect at onset + delay, carrying the row it came
   from -- whatever other groups (without Delay, or with a Delay that has no conversion) the row holds *)
Theorem delayed_entry_time (i : nat) (r : row) (e : entry) :
  In e (delayed_entries (i, r)) <->
  exists d g, In (Delay (Some d), g) (r_groups r) /\ e = mkEntry (r_onset r + d)%N i [g].
Proof.
  unfold delayed_entries. cbn [fst snd]. rewrite in_flat_map. split.
  - intros [[[|[d|]] g] [Hin He]]; cbn [fst snd] in He; try (destruct He; fail).
    destruct He as [He | []]. exists d, g. split; [exact Hin | symmetry; exact He].
  - intros [d [g [Hin He]]]. exists (Delay (Some d), g). split; [exact Hin|]. cbn [fst snd]. left. symmetry. exact He.
Qed.

(* every other group -- no Delay tag, or a Delay without a conversion to seconds (year, month) -- stays in
   its row, in order, and so takes effect at the row's own onset *)
Definition shifts (g : group) : bool := match fst g with Delay (Some _) => true | _ => false end.

Theorem remaining_groups_spec (r : row) :
  remaining_groups r = map snd (filter (fun g => negb (shifts g)) (r_groups r)).
Proof.
  unfold remaining_groups. induction (r_groups r) as [|[[|[d|]] m] l IH]; cbn [flat_map filter shifts fst snd negb map app];
    try rewrite IH; reflexivity.
Qed.

(* a row fails (is left out of the bookkeeping when it starts a time point) exactly when the issues of its
   last non-empty HED cell contain an ERROR; warnings -- TAG_EXTENDED, STYLE_WARNING, UNITS_MISSING ... --
   never make a row fail *)
Theorem row_failed_iff (r : row) : row_failed r = true <-> In SevError (last (r_cells r) []).
Proof.
  unfold row_failed, check_for_any_errors. rewrite existsb_exists. split.
  - intros [x [Hin Hx]]. destruct x; [exact Hin | discriminate].
  - intro H. exists SevError. split; [exact H | reflexivity].
Qed.

Corollary warnings_only_row_takes_part (r : row) :
  (forall c, In c (r_cells r) -> forall x, In x c -> x = SevWarning) -> row_failed r = false.
Proof.
  intro H. destruct (row_failed r) eqn:E; [|reflexivity]. apply row_failed_iff in E.
  destruct (r_cells r) as [|c cs] eqn:Ec; [destruct E|].
  assert (Hl : In (last (c :: cs) []) (c :: cs)).
  { clear. revert c. induction cs as [|c' cs IH]; intro c; [left; reflexivity|].
    right. exact (IH c'). }
  specialize (H _ Hl _ E). discriminate H.
Qed.

(* ------------------------------------------------------------------ *)
(* Declarative specification of the file pipeline                      *)
(* ------------------------------------------------------------------ *)

(* all lines with effective time t, rows first (file order), then Delay groups (file order) *)
Definition lines_at (t : N) (irows : list (nat * row)) : list entry :=
  filter (fun e => N.eqb (e_time e) t) (split_entries irows).

Definition max_time (es : list entry) : N := fold_right (fun e m => N.max (e_time e) m) 0%N es.

(* one time point per effective time that occurs, in increasing time order; reported at the row of its
   first line; it holds every group whose effective time it is *)
Definition spec_time_points (irows : list (nat * row)) : list (nat * list (option marker)) :=
  flat_map (fun t => match lines_at t irows with
                     | [] => []
                     | (e :: _) as ls => [(e_orig e, flat_map e_groups ls)]
                     end)
           (map N.of_nat (seq 0 (S (N.to_nat (max_time (split_entries irows)))))).

Definition spec_file (rows : list row) : state * list (nat * list issue) :=
  let irows := index_from 0 rows in
  let invalid := flat_map (fun ir : nat * row => if row_failed (snd ir) then [fst ir] else []) irows in
  run_onset_checks invalid state0 (spec_time_points irows).

(* ------------------------------------------------------------------ *)
(* Declarative consequences (not restatements of the model)            *)
(* ------------------------------------------------------------------ *)

(* the effective time of a group of row r *)
Definition group_time (r : row) (g : group) : N :=
  match fst g with Delay (Some d) => (r_onset r + d)%N | _ => r_onset r end.

Lemma index_from_In {B} (l : list B) : forall a i x, nth_error l i = Some x -> In ((a + i)%nat, x) (index_from a l).
Proof.
  induction l as [|y l IH]; intros a i x H; [destruct i; discriminate|].
  destruct i as [|i]; cbn [nth_error index_from] in *.
  - inversion H; subst. rewrite Nat.add_0_r. left. reflexivity.
  - right. rewrite <- Nat.add_succ_comm. apply IH. exact H.
Qed.

(* group_takes_effect_at: EVERY top-level group of EVERY row of a file belongs to the lines of exactly its
   effective time (onset + delay when its Delay converts to seconds, the row's own onset otherwise), in a
   line that carries the row's index.  With effective_time (one time point per effective time holding all
   lines of that time) this is the clause "rows sharing an onset time, and groups shifted by a Delay tag,
   take effect at their effective time", group by group. *)
Theorem group_takes_effect_at (rows : list row) (i : nat) (r : row) (g : group) :
  nth_error rows i = Some r -> In g (r_groups r) ->
  exists e, In e (lines_at (group_time r g) (index_from 0 rows)) /\ e_orig e = i /\ In (snd g) (e_groups e).
Proof.
  intros Hn Hg. pose proof (index_from_In rows 0 i r Hn) as Hin. cbn [Nat.add] in Hin.
  unfold lines_at, split_entries, group_time.
  destruct g as [[|[d|]] m]; cbn [fst snd].
  - exists (mkEntry (r_onset r) i (remaining_groups r)). repeat split.
    + apply filter_In. split; [|cbn; apply N.eqb_refl]. apply in_or_app. left.
      apply in_map_iff. exists (i, r). split; [reflexivity | exact Hin].
    + cbn. rewrite remaining_groups_spec. apply in_map_iff. exists (NoDelay, m). split; [reflexivity|].
      apply filter_In. split; [exact Hg | reflexivity].
  - exists (mkEntry (r_onset r + d)%N i [m]). repeat split.
    + apply filter_In. split; [|cbn; apply N.eqb_refl]. apply in_or_app. right.
      apply in_flat_map. exists (i, r). split; [exact Hin|]. apply delayed_entry_time. exists d, m. split; [exact Hg | reflexivity].
    + cbn. left. reflexivity.
  - exists (mkEntry (r_onset r) i (remaining_groups r)). repeat split.
    + apply filter_In. split; [|cbn; apply N.eqb_refl]. apply in_or_app. left.
      apply in_map_iff. exists (i, r). split; [reflexivity | exact Hin].
    + cbn. rewrite remaining_groups_spec. apply in_map_iff. exists (Delay None, m). split; [reflexivity|].
      apply filter_In. split; [exact Hg | reflexivity].
Qed.

(* non-vacuity: a Delay moves an Offset from row 0 (time 1) to time 3, where it is unmatched because
   row 1 (time 2) already closed the scope; equal onsets 4,4 merge and are reported at row 2 *)
Definition ex_rows : list row :=
  [mkRow 1 [[SevWarning]] [(NoDelay, Some (mk Onset nA)); (Delay (Some 2%N), Some (mk Offset nA))];
   mkRow 2 [] [(NoDelay, Some (mk Offset na))];
   mkRow 4 [[SevError]; []] [(Delay None, Some (mk Inset nB1))];
   mkRow 4 [] [(NoDelay, Some (mk Onset nB1)); (NoDelay, Some (mk Offset nA))]].

Lemma ex_rows_run :
  needs_sorting ex_rows = false /\
  process_file true None None ex_rows =
    Ok ([], [(0, []); (1, []); (0, [mkIssue OffsetBeforeOnset 0 nA]);
             (2, [mkIssue InsetBeforeOnset 0 nB1; mkIssue SameDefsOneRow 1 nB1; mkIssue OffsetBeforeOnset 2 nA])])
  /\ process_file true None None ex_rows = Ok (spec_file ex_rows).
Proof. vm_compute. repeat split; reflexivity. Qed.
