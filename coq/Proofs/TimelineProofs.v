(* Proofs about Model/Timeline.v:
   - the order-preserving sort used for the processing order is a permutation,
     sorted by effective time, and stable (for ALL inputs);
   - the whole file pipeline (Delay split, sort, merge of equal onsets, skipping
     failed rows) equals the declarative "time points by effective time"
     specification, kernel-checked exhaustively on a bounded domain of files. *)
From Coq Require Import List NArith Arith Bool Lia Permutation Sorted.
From HV Require Import Base.Res Base.Str Model.Onset Model.Timeline Proofs.OnsetProofs.
Import ListNotations.

(* ------------------------------------------------------------------ *)
(* stable_sort                                                         *)
(* ------------------------------------------------------------------ *)
Section SortProofs.
  Context {A : Type} (key : A -> N).

  Definition le_key (a b : A) : Prop := (key a <= key b)%N.

  Lemma insert_perm x l : Permutation (x :: l) (insert_by key x l).
  Proof.
    induction l as [|y r IH]; cbn [insert_by]; [apply Permutation_refl|].
    destruct (key x <=? key y)%N; [apply Permutation_refl|].
    eapply Permutation_trans; [apply perm_swap|]. apply perm_skip. exact IH.
  Qed.

  Lemma sort_perm l : Permutation l (stable_sort key l).
  Proof.
    induction l as [|x r IH]; cbn [stable_sort]; [constructor|].
    eapply Permutation_trans; [apply perm_skip; exact IH | apply insert_perm].
  Qed.

  Lemma insert_sorted x l : Sorted le_key l -> Sorted le_key (insert_by key x l).
  Proof.
    induction l as [|y r IH]; intro H; cbn [insert_by].
    - constructor; constructor.
    - destruct (key x <=? key y)%N eqn:E.
      + apply N.leb_le in E. constructor; [exact H | constructor; exact E].
      + apply N.leb_gt in E. inversion H as [|? ? Hs Hh]; subst.
        constructor; [apply IH; exact Hs|].
        destruct r as [|z r']; cbn [insert_by].
        * constructor. unfold le_key. lia.
        * destruct (key x <=? key z)%N; constructor; [unfold le_key; lia|].
          inversion Hh; assumption.
  Qed.

  Lemma sort_sorted l : Sorted le_key (stable_sort key l).
  Proof.
    induction l as [|x r IH]; cbn [stable_sort]; [constructor|]. apply insert_sorted. exact IH.
  Qed.

  Definition at_time (t : N) (x : A) : bool := N.eqb (key x) t.

  Lemma insert_filter x l t :
    filter (at_time t) (insert_by key x l) = filter (at_time t) (x :: l).
  Proof.
    induction l as [|y r IH]; cbn [insert_by]; [reflexivity|].
    destruct (key x <=? key y)%N eqn:E; [reflexivity|]. apply N.leb_gt in E.
    cbn [filter] in *. rewrite IH. unfold at_time.
    destruct (N.eqb (key y) t) eqn:Ey; [|reflexivity].
    destruct (N.eqb (key x) t) eqn:Ex; [|reflexivity].
    apply N.eqb_eq in Ey, Ex. lia.
  Qed.

  (* stability: for every key value the elements carrying it keep their original relative order *)
  Lemma sort_stable l t : filter (at_time t) (stable_sort key l) = filter (at_time t) l.
  Proof.
    induction l as [|x r IH]; cbn [stable_sort]; [reflexivity|].
    rewrite insert_filter. cbn [filter]. rewrite IH. reflexivity.
  Qed.

  Lemma sortedb_Sorted l : sortedb key l = true <-> Sorted le_key l.
  Proof.
    induction l as [|x r IH]; [split; [constructor | reflexivity]|].
    destruct r as [|y r'].
    - split; [intro; constructor; constructor | reflexivity].
    - change (sortedb key (x :: y :: r')) with ((key x <=? key y)%N && sortedb key (y :: r')).
      rewrite andb_true_iff, IH, N.leb_le. split.
      + intros [H1 H2]. constructor; [exact H2 | constructor; exact H1].
      + intro H. inversion H as [|? ? Hs Hh]; subst. inversion Hh; subst. split; assumption.
  Qed.

  (* whatever tie order the platform sort picks ([perm]), an accepted order is sorted by key *)
  Lemma sort_by_sorted perm l out : sort_by key perm l = Ok out -> Sorted le_key out.
  Proof.
    unfold sort_by. destruct perm as [p|].
    - destruct (is_perm p (seq 0 (length l))); [|discriminate].
      destruct (reorder p l) as [o|e]; cbn [bind]; [|discriminate].
      destruct (sortedb key o) eqn:E; [|discriminate]. intro H. inversion H; subst.
      apply sortedb_Sorted. exact E.
    - intro H. inversion H. apply sort_sorted.
  Qed.
End SortProofs.

(* The processing order of a file: split_df lines (rows in file order, then the Delay groups in file
   order) sorted by effective time.  For ALL files: it is a permutation of the lines, ordered by
   effective time, and lines with the same effective time keep the above order. *)
Theorem processing_order_is_stable_sort (irows : list (nat * row)) :
  let es := split_entries irows in
  let out := stable_sort e_time es in
  sort_by e_time None es = Ok out /\
  Permutation es out /\
  Sorted (fun a b => (e_time a <= e_time b)%N) out /\
  forall t, filter (fun e => N.eqb (e_time e) t) out = filter (fun e => N.eqb (e_time e) t) es.
Proof.
  cbn zeta. split; [reflexivity|]. split; [apply sort_perm|]. split; [apply sort_sorted|].
  intro t. apply (sort_stable e_time).
Qed.

(* a Delay group takes effect at onset + delay, carrying the row it came from *)
Theorem delayed_entry_time (i : nat) (r : row) (e : entry) :
  In e (delayed_entries (i, r)) <->
  exists d g, In (Some d, g) (r_groups r) /\ e = mkEntry (r_onset r + d)%N i [g].
Proof.
  unfold delayed_entries. cbn [fst snd]. rewrite in_flat_map. split.
  - intros [[[d|] g] [Hin He]]; cbn [fst snd] in He; [|destruct He].
    destruct He as [He | []]. exists d, g. split; [exact Hin | symmetry; exact He].
  - intros [d [g [Hin He]]]. exists (Some d, g). split; [exact Hin|]. cbn [fst snd]. left. symmetry. exact He.
Qed.

(* ------------------------------------------------------------------ *)
(* Declarative specification of the file pipeline                      *)
(* ------------------------------------------------------------------ *)

(* all lines with effective time t, rows first (file order), then Delay groups (file order) *)
Definition lines_at (t : N) (irows : list (nat * row)) : list entry :=
  filter (fun e => N.eqb (e_time e) t) (split_entries irows).

Definition max_time (es : list entry) : N := fold_right (fun e m => N.max (e_time e) m) 0%N es.

(* one time point per effective time that occurs, in increasing time order; reported at the row of its
   first line; it holds every group whose effective time it is *)
Definition spec_time_points (irows : list (nat * row)) : list (nat * list (option marker)) :=
  flat_map (fun t => match lines_at t irows with
                     | [] => []
                     | (e :: _) as ls => [(e_orig e, flat_map e_groups ls)]
                     end)
           (map N.of_nat (seq 0 (S (N.to_nat (max_time (split_entries irows)))))).

Definition spec_file (rows : list row) : state * list (nat * list issue) :=
  let irows := index_from 0 rows in
  let invalid := flat_map (fun ir : nat * row => if r_invalid (snd ir) then [fst ir] else []) irows in
  run_onset_checks invalid state0 (spec_time_points irows).

(* ---- decidable equality of results (sound) ---- *)
Fixpoint list_eqb {B} (e : B -> B -> bool) (a b : list B) : bool :=
  match a, b with
  | [], [] => true
  | x :: a', y :: b' => e x y && list_eqb e a' b'
  | _, _ => false
  end.

Lemma list_eqb_sound {B} (e : B -> B -> bool) :
  (forall x y, e x y = true -> x = y) -> forall a b, list_eqb e a b = true -> a = b.
Proof.
  intros He a. induction a as [|x a IH]; destruct b as [|y b]; cbn; intro H; try reflexivity; try discriminate.
  apply andb_true_iff in H. destruct H as [H1 H2]. f_equal; [apply He; exact H1 | apply IH; exact H2].
Qed.

Definition ikind_eqb (a b : ikind) : bool :=
  match a, b with
  | OffsetBeforeOnset, OffsetBeforeOnset | InsetBeforeOnset, InsetBeforeOnset
  | SameDefsOneRow, SameDefsOneRow => true
  | _, _ => false
  end.

Definition issue_eqb (a b : issue) : bool :=
  ikind_eqb (ikd a) (ikd b) && Nat.eqb (ipos a) (ipos b) && str_eqb (iname a) (iname b).

Lemma issue_eqb_sound a b : issue_eqb a b = true -> a = b.
Proof.
  destruct a as [k1 p1 n1], b as [k2 p2 n2]. unfold issue_eqb. cbn [ikd ipos iname]. intro H.
  apply andb_true_iff in H. destruct H as [H H3]. apply andb_true_iff in H. destruct H as [H1 H2].
  apply Nat.eqb_eq in H2. apply str_eqb_spec in H3. subst.
  destruct k1, k2; try discriminate; reflexivity.
Qed.

Definition line_eqb (x y : nat * list issue) : bool :=
  Nat.eqb (fst x) (fst y) && list_eqb issue_eqb (snd x) (snd y).

Lemma line_eqb_sound x y : line_eqb x y = true -> x = y.
Proof.
  destruct x as [i1 l1], y as [i2 l2]. unfold line_eqb. cbn [fst snd]. intro H.
  apply andb_true_iff in H. destruct H as [Ha Hb]. apply Nat.eqb_eq in Ha. subst. f_equal.
  apply (list_eqb_sound issue_eqb issue_eqb_sound). exact Hb.
Qed.

Definition out_eqb (a b : state * list (nat * list issue)) : bool :=
  list_eqb str_eqb (fst a) (fst b) && list_eqb line_eqb (snd a) (snd b).

Lemma out_eqb_sound a b : out_eqb a b = true -> a = b.
Proof.
  destruct a as [s1 o1], b as [s2 o2]. unfold out_eqb. cbn [fst snd]. intro H.
  apply andb_true_iff in H. destruct H as [H1 H2]. f_equal.
  - apply (list_eqb_sound str_eqb); [|exact H1]. intros x y E. apply str_eqb_spec. exact E.
  - apply (list_eqb_sound line_eqb line_eqb_sound). exact H2.
Qed.

(* a time-ordered file agrees with the specification *)
Definition file_ok (rows : list row) : bool :=
  if needs_sorting rows then true
  else match process_file None None rows with
       | Ok out => out_eqb out (spec_file rows)
       | Exn _ => false
       end.

Lemma file_ok_sound rows :
  file_ok rows = true -> needs_sorting rows = false -> process_file None None rows = Ok (spec_file rows).
Proof.
  unfold file_ok. intros H Hs. rewrite Hs in H.
  destruct (process_file None None rows) as [out|e]; [|discriminate].
  f_equal. apply out_eqb_sound. exact H.
Qed.

(* ---- the bounded domain ---- *)
Definition small_markers : list (option marker) :=
  [Some (mk Onset nA); Some (mk Offset na); None].
Definition small_delays : list (option N) := [None; Some 1%N; Some 2%N].
Definition small_groups : list group :=
  flat_map (fun d => map (fun m => (d, m)) small_markers) small_delays.

(* all lists of at most n groups *)
Fixpoint glists (n : nat) : list (list group) :=
  match n with
  | O => [[]]
  | S n' => [] :: flat_map (fun g => map (cons g) (glists n')) small_groups
  end.

Definition rows_over (onsets : list N) (invs : list bool) (gls : list (list group)) : list row :=
  flat_map (fun o => flat_map (fun i => map (fun gl => mkRow o i gl) gls) invs) onsets.

Definition files2 : list (list row) :=
  let rs := rows_over [0%N; 1%N; 2%N] [false] (glists 2) in
  map (fun r => [r]) (rows_over [0%N; 1%N] [false; true] (glists 2))
  ++ flat_map (fun a => map (fun b => [a; b]) rs) rs.

Definition files3 : list (list row) :=
  let rs := rows_over [0%N; 1%N; 2%N] [false; true] (glists 1) in
  flat_map (fun a => flat_map (fun b => map (fun c => [a; b; c]) rs) rs) rs.

Lemma files2_ok : forallb file_ok files2 = true.
Proof. vm_compute. reflexivity. Qed.

Lemma files3_ok : forallb file_ok files3 = true.
Proof. vm_compute. reflexivity. Qed.

(* effective_time_bounded: for every time-ordered file of the bounded domain
   (<= 2 rows with <= 2 groups each, or 3 rows with <= 1 group, onsets in {0,1,2}, Delay in {none,1,2},
   groups in {Onset A, Offset a, no marker}, rows failed or not), the file pipeline processes exactly one
   time point per effective time, in increasing time order, holding all groups with that effective time,
   reported at the first row/line of that time, skipping time points that start with a failed row. *)
Theorem effective_time_bounded rows :
  In rows (files2 ++ files3) -> needs_sorting rows = false ->
  process_file None None rows = Ok (spec_file rows).
Proof.
  intros Hin Hs. apply file_ok_sound; [|exact Hs].
  apply in_app_or in Hin. destruct Hin as [Hin | Hin].
  - exact (proj1 (forallb_forall file_ok files2) files2_ok rows Hin).
  - exact (proj1 (forallb_forall file_ok files3) files3_ok rows Hin).
Qed.

(* the domain is not trivial: 74893 + 216000 files (sizes computed in binary) *)
Fixpoint lengthN {B} (l : list B) : N := match l with [] => 0%N | _ :: r => N.succ (lengthN r) end.
Lemma domain_sizes : lengthN files2 = 74893%N /\ lengthN files3 = 216000%N.
Proof. vm_compute. split; reflexivity. Qed.

(* non-vacuity: a Delay moves an Offset from row 0 (time 1) to time 3, where it is unmatched because
   row 1 (time 2) already closed the scope; equal onsets 4,4 merge and are reported at row 2 *)
Definition ex_rows : list row :=
  [mkRow 1 false [(None, Some (mk Onset nA)); (Some 2%N, Some (mk Offset nA))];
   mkRow 2 false [(None, Some (mk Offset na))];
   mkRow 4 false [(None, Some (mk Inset nB1))];
   mkRow 4 false [(None, Some (mk Onset nB1)); (None, Some (mk Offset nA))]].

Lemma ex_rows_run :
  needs_sorting ex_rows = false /\
  process_file None None ex_rows =
    Ok ([], [(0, []); (1, []); (0, [mkIssue OffsetBeforeOnset 0 nA]);
             (2, [mkIssue InsetBeforeOnset 0 nB1; mkIssue SameDefsOneRow 1 nB1; mkIssue OffsetBeforeOnset 2 nA])])
  /\ process_file None None ex_rows = Ok (spec_file ex_rows).
Proof. vm_compute. repeat split; reflexivity. Qed.
