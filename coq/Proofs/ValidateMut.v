(* C01: a relational formulation of the string-level mutations: [MutString cfg f r x] says that the text x is
   the canonical text of the forest f with exactly one violation of the string-level rule r injected. *)
From Coq Require Import List NArith Arith Bool Lia.
From HV Require Import Base.Res Base.Str Model.Parse Model.ValKinds Model.ValStr Model.Validate.
From HV Require Import Gen.ValidationCodes Proofs.ParseProofs Proofs.ValidateProofs.
Import ListNotations.

Inductive srule := S_forbidden_character | S_tilde | S_curly_brace | S_unbalanced | S_empty | S_missing_comma.

Definition skind (r : srule) : kind :=
  match r with
  | S_forbidden_character => K_CHARACTER_INVALID
  | S_tilde => K_TILDES_UNSUPPORTED
  | S_curly_brace => K_CHARACTER_INVALID
  | S_unbalanced => K_PARENTHESES_MISMATCH
  | S_empty => K_TAG_EMPTY
  | S_missing_comma => K_COMMA_MISSING
  end.

Inductive MutString (cfg : config) (f : list fnode) : srule -> str -> Prop :=
(* a forbidden character inserted anywhere *)
| MS_char s1 s2 c : fprint f = s1 ++ s2 -> char_invalid cfg c = true -> N.eqb c 126 = false ->
    MutString cfg f S_forbidden_character (s1 ++ c :: s2)
| MS_tilde s1 s2 : fprint f = s1 ++ s2 -> MutString cfg f S_tilde (s1 ++ 126%N :: s2)
| MS_curly s1 s2 c : fprint f = s1 ++ s2 -> c_ph cfg = false -> (c = 123 \/ c = 125)%N ->
    MutString cfg f S_curly_brace (s1 ++ c :: s2)
(* one parenthesis inserted or deleted anywhere *)
| MS_paren_ins s1 s2 c : fprint f = s1 ++ s2 -> (c = ch_open \/ c = ch_close) ->
    MutString cfg f S_unbalanced (s1 ++ c :: s2)
| MS_paren_del s1 s2 c : fprint f = s1 ++ c :: s2 -> (c = ch_open \/ c = ch_close) ->
    MutString cfg f S_unbalanced (s1 ++ s2)
(* an extra comma: in front, at the end, or doubled between two top-level members *)
| MS_empty_lead : MutString cfg f S_empty (ch_comma :: fprint f)
| MS_empty_trail : f <> [] -> MutString cfg f S_empty (fprint f ++ [ch_comma])
| MS_empty_mid f1 f2 : f = f1 ++ f2 -> f1 <> [] -> f2 <> [] ->
    MutString cfg f S_empty (fprint f1 ++ [ch_comma; ch_comma] ++ fprint f2)
(* the comma in front of a top-level group replaced by k blanks *)
| MS_comma f1 g f2 k : f = f1 ++ FGroup g :: f2 -> f1 <> [] ->
    MutString cfg f S_missing_comma (fprint f1 ++ repeat ch_space k ++ fprint (FGroup g :: f2)).

Lemma printed_balanced f : Forall (wf_n Qword) f -> balanced (fprint f) = true.
Proof.
  intros H. unfold balanced, fprint. rewrite <- (app_nil_r (join [ch_comma] (map fprint_n f))).
  rewrite (balanced_join (wf_n Qword)); [reflexivity | intros n Hn; eapply balanced_node; exact Hn | exact H].
Qed.

Lemma balanced_counts s : balanced s = true -> count ch_open s = count ch_close s.
Proof. unfold balanced. intros H. apply balanced_from_counts in H. lia. Qed.

Lemma count_paren c : (c = ch_open \/ c = ch_close) ->
  forall s, count ch_open (c :: s) + count ch_close s <> count ch_close (c :: s) + count ch_open s.
Proof. intros [-> | ->] s; simpl; lia. Qed.

Lemma insert_paren_unbalanced s1 s2 c :
  balanced (s1 ++ s2) = true -> (c = ch_open \/ c = ch_close) -> balanced (s1 ++ c :: s2) = false.
Proof.
  intros Hb Hc. destruct (balanced (s1 ++ c :: s2)) eqn:E; [|reflexivity].
  apply balanced_counts in Hb. apply balanced_counts in E. rewrite !count_app in *.
  pose proof (count_paren c Hc s2). lia.
Qed.

Lemma delete_paren_unbalanced s1 s2 c :
  balanced (s1 ++ c :: s2) = true -> (c = ch_open \/ c = ch_close) -> balanced (s1 ++ s2) = false.
Proof.
  intros Hb Hc. destruct (balanced (s1 ++ s2)) eqn:E; [|reflexivity].
  apply balanced_counts in Hb. apply balanced_counts in E. rewrite !count_app in *.
  pose proof (count_paren c Hc s2). lia.
Qed.

Lemma fprint_group_head g f2 : exists rest, fprint (FGroup g :: f2) = ch_open :: rest.
Proof. destruct f2; eexists; unfold fprint; cbn [map join fprint_n]; simpl; reflexivity. Qed.

Lemma Forall_app_l {A} (P : A -> Prop) a b : Forall P (a ++ b) -> Forall P a.
Proof. intros H. apply Forall_app in H. tauto. Qed.

(* ONE injected string-level violation of a well-formed annotation is reported with the code of its rule,
   whatever tree the parser builds for the damaged text *)
Theorem mut_string_reports (code : srule -> str) :
  (forall r, code r = kind_code (skind r)) ->
  forall cfg f r x, Forall (wf_n Qword) f -> MutString cfg f r x -> forall fx, reports cfg x fx (code r).
Proof.
  intros Hcode cfg f r x Hwf Hm fx. rewrite Hcode. destruct Hm.
  - apply (rule_forbidden_character cfg _ fx c); [apply in_or_app; right; left; reflexivity | assumption | assumption].
  - apply rule_tilde. apply in_or_app. right. left. reflexivity.
  - apply (rule_curly_brace cfg _ fx c); [assumption | assumption | apply in_or_app; right; left; reflexivity].
  - apply rule_unbalanced_parentheses. apply insert_paren_unbalanced; [|assumption].
    rewrite <- H. apply printed_balanced. exact Hwf.
  - apply rule_unbalanced_parentheses. apply (delete_paren_unbalanced s1 s2 c); [|assumption].
    rewrite <- H. apply printed_balanced. exact Hwf.
  - apply rule_empty_leading_comma.
  - apply rule_empty_trailing_comma; assumption.
  - subst f. apply rule_empty_double_comma; [assumption | eapply Forall_app_l; exact Hwf].
  - subst f. destruct (fprint_group_head g f2) as (rest & ->).
    apply (rule_missing_comma cfg f1 k rest fx); [assumption | eapply Forall_app_l; exact Hwf].
Qed.

Lemma conforming_words cfg f : Conforming cfg f -> Forall (wf_n Qword) f.
Proof.
  intros H. eapply Forall_impl; [|exact (cf_tags _ _ H)]. apply wf_n_weaken. intros t ((A & _) & _). exact A.
Qed.
