(* C14 -- an INSTANCE of [one_attribute_seed], used through C14_seed_preserves_checkable:
   the bundled 8.3.0 and the same schema with the attribute takesValue (declared for tags only) added to the
   unit modifier "deca".  The relation between the two LOADED records is decided by kernel evaluation
   ([appended_seed_raw]: equalities of closed terms), [checkable] of the original comes from C14Ex_8_3_0, and
   [checkable] of the seeded schema is then obtained from the preservation lemma (skip_attribute branch) --
   not by evaluating the checker on the seeded schema. *)
From Coq Require Import List NArith ZArith String.
From HV Require Import Base.Res Base.Str Base.C14Base Gen.ComplianceTables Model.Compliance
     Proofs.ComplianceProofs Proofs.C14ExCommon Proofs.C14Ex_8_3_0 Gen.C14_Env.
From HV Require Gen.Schema_8_3_0_c14 Gen.Schema_8_2_0_c14.
Import ListNotations.
Local Open Scope string_scope.

Definition add_modifier_attr (S : rschema) (name : str) (kv : str * aval) : rschema :=
  mkS (rs_version S) (rs_library S) (rs_with_standard S) (rs_unmerged S)
      (rs_props S) (rs_attrs S)
      (map (fun r => if str_eqb (re_name r) name then mkE (re_name r) (re_attrs r ++ [kv]) else r) (rs_mods S))
      (rs_uclasses S) (rs_vclasses S) (rs_tags S).

Definition seeded_takes_value_on_deca_830 : rschema :=
  add_modifier_attr Schema_8_3_0_c14.schema (s2str "deca") (HedKey_TakesValue, VFlag).

Lemma seed_relation_830_deca :
  appended_seed_raw env_8_3_0 Schema_8_3_0_c14.schema seeded_takes_value_on_deca_830
                    SecUnitModifiers (s2str "deca") HedKey_TakesValue VFlag.
Proof. vm_compute. repeat split; reflexivity. Qed.

Lemma ex_checkable_through_seed_lemma :
  exists L', load env_8_3_0 seeded_takes_value_on_deca_830 = Ok L' /\ checkable env_8_3_0 L'.
Proof. exact (checkable_of_appended_seed _ _ _ _ _ _ _ checkable_8_3_0 seed_relation_830_deca). Qed.
