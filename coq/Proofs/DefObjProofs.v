(* Lemmas about the object layers Model/DefStore.v and Model/DefObj.v (C09). *)
From Coq Require Import List NArith Arith Bool Lia.
From HV Require Import Base.Res Base.Str Model.Defs Model.DefStore Model.DefObj Proofs.DefsProofs.
Import ListNotations.

(* ------------------------------------------------------------------ induction on ownership trees *)

Section ONodeInd.
  Variable P : onode -> Prop.
  Hypothesis HT : forall t, P (OT t).
  Hypothesis HG : forall ch, Forall P ch -> P (OG ch).
  Hypothesis HX : forall t c, P (OX t c).
  Hypothesis HC : P OCyc.
  Fixpoint onode_ind2 (n : onode) : P n :=
    match n with
    | OT t => HT t
    | OG ch => HG ch ((fix go (l : list onode) : Forall P l :=
                         match l with
                         | [] => Forall_nil P
                         | x :: l' => Forall_cons x (onode_ind2 x) (go l')
                         end) ch)
    | OX t c => HX t c
    | OCyc => HC
    end.
End ONodeInd.

(* the inner loops are mapM *)
Lemma abs_o_G ch : abs_o (OG ch) = let* l := mapM abs_o ch in Ok (G l).
Proof.
  cbn [abs_o].
  assert (H : forall l,
    (fix go (l : list onode) : res (list node) :=
       match l with
       | [] => Ok []
       | x :: l' => let* y := abs_o x in let* ys := go l' in Ok (y :: ys)
       end) l = mapM abs_o l).
  { induction l as [|x l IH]; cbn; [reflexivity|]. rewrite IH. reflexivity. }
  rewrite H. reflexivity.
Qed.

Lemma expand_o_G fx D top ch :
  expand_o fx D top (OG ch) = let* l := mapM (expand_o fx D false) ch in Ok (OG l).
Proof.
  cbn [expand_o].
  assert (H : forall l,
    (fix go (l : list onode) : res (list onode) :=
       match l with
       | [] => Ok []
       | x :: l' => let* y := expand_o fx D false x in let* ys := go l' in Ok (y :: ys)
       end) l = mapM (expand_o fx D false) l).
  { induction l as [|x l IH]; cbn; [reflexivity|]. rewrite IH. reflexivity. }
  rewrite H. reflexivity.
Qed.

(* ------------------------------------------------------------------ invariant *)

(* the content part of a tag's cached expansion, as the dictionary defines it *)
Definition content_of (D : dict) (t : tag) : option (list node) :=
  match def_entry D t with
  | Some e => match get_definition e t (def_placeholder t) with
              | Ok (Some ch) => Some (tl ch)
              | _ => None
              end
  | None => None
  end.

Lemma content_of_base D t b : content_of D (set_base t b) = content_of D t.
Proof.
  unfold content_of, def_entry, def_placeholder. cbn [set_base text].
  destruct (lookup (lower (fst (partition_slash (text t)))) D) as [e|]; [|reflexivity].
  destruct (get_definition_shape e (snd (partition_slash (text t)))) as [[x Hx] | [Hn | (c & _ & Hs & _)]].
  - rewrite !Hx. reflexivity.
  - rewrite !Hn. reflexivity.
  - rewrite !Hs. reflexivity.
Qed.

(* a Def/Def-expand tag object: the _def_entry lookup was made, a cached expansion is
   the dictionary's, and _expanded says whether the tag currently is Def-expand *)
Definition inv_tag (D : dict) (t : otag) : Prop :=
  (defy (tbase (otg t)) = true -> ohd t = true) /\
  (forall c, ocache t = Some c ->
             content_of D (otg t) = Some c /\ oexp t = is_defexpand (tbase (otg t))).

Inductive Inv (D : dict) : onode -> Prop :=
| Inv_T t : inv_tag D t -> Inv D (OT t)
| Inv_G ch : Forall (Inv D) ch -> Inv D (OG ch)
| Inv_X t c : inv_tag D t -> ocache t = Some c -> tbase (otg t) = BDefExpand -> Inv D (OX t c).

Definition InvF (D : dict) (f : oforest) : Prop := Forall (Inv D) f.

Lemma Inv_T_inv D t : Inv D (OT t) -> inv_tag D t.
Proof. intro H; inversion H; assumption. Qed.
Lemma Inv_G_inv D ch : Inv D (OG ch) -> Forall (Inv D) ch.
Proof. intro H; inversion H; assumption. Qed.
Lemma Inv_X_inv D t c : Inv D (OX t c) -> inv_tag D t /\ ocache t = Some c /\ tbase (otg t) = BDefExpand.
Proof. intro H; inversion H; auto. Qed.
Lemma Inv_C_inv D : Inv D OCyc -> False.
Proof. intro H; inversion H. Qed.
Lemma Forall_cons_inv {A} (P : A -> Prop) x l : Forall P (x :: l) -> P x /\ Forall P l.
Proof. intro H; inversion H; auto. Qed.

(* total version of abs_o on invariant states *)
Fixpoint abs_p (n : onode) : node :=
  match n with
  | OT t => T (otg t)
  | OG ch => G (map abs_p ch)
  | OX t c => G (T (otg t) :: c)
  | OCyc => G []
  end.

Lemma abs_o_inv D n : Inv D n -> abs_o n = Ok (abs_p n).
Proof.
  induction n as [t | ch IH | t c | ] using onode_ind2; intro H; try reflexivity;
    [|exfalso; eapply Inv_C_inv; eauto].
  apply Inv_G_inv in H.
  rewrite abs_o_G. cbn [abs_p].
  assert (Hm : mapM abs_o ch = Ok (map abs_p ch)).
  { induction IH as [|x l Hx Hl IHl]; cbn; [reflexivity|].
    apply Forall_cons_inv in H as [Hix Hil]. rewrite (Hx Hix), (IHl Hil). reflexivity. }
  rewrite Hm. reflexivity.
Qed.

Lemma abs_of_inv D f : InvF D f -> abs_of f = Ok (map abs_p f).
Proof.
  unfold InvF, abs_of. induction 1 as [|x l Hx Hl IH]; cbn; [reflexivity|].
  rewrite (abs_o_inv D x Hx), IH. reflexivity.
Qed.

Lemma load_inv D f : InvF D (load_o f) /\ map abs_p (load_o f) = f.
Proof.
  assert (H : forall n, Inv D (load_node n) /\ abs_p (load_node n) = n).
  { induction n as [t | ch IH] using node_ind2; cbn [load_node abs_p].
    - split; [|reflexivity]. constructor. split; cbn; [auto | discriminate].
    - assert (Forall (Inv D) (map load_node ch) /\ map abs_p (map load_node ch) = ch).
      { induction IH as [|x l [Hx1 Hx2] Hl [IH1 IH2]]; cbn; [split; [constructor | reflexivity]|].
        split; [constructor; assumption | rewrite Hx2, IH2; reflexivity]. }
      destruct H as [H1 H2]. split; [constructor; assumption | rewrite H2; reflexivity]. }
  unfold InvF, load_o. induction f as [|x l [IH1 IH2]]; cbn; [split; [constructor | reflexivity]|].
  destruct (H x) as [Hx1 Hx2]. split; [constructor; assumption | rewrite Hx2, IH2; reflexivity].
Qed.

(* ------------------------------------------------------------------ expandable *)

Lemma content_shape D t c :
  content_of D t = Some c -> (c = [] \/ exists c', c = [G c']).
Proof.
  unfold content_of. destruct (def_entry D t) as [e|]; [|discriminate].
  destruct (get_definition_shape e (def_placeholder t)) as [[x Hx] | [Hn | (c0 & Hc & Hs & _)]].
  - rewrite Hx. discriminate.
  - rewrite Hn. discriminate.
  - rewrite Hs. cbn. intro H. inversion H; subst. exact Hc.
Qed.

Lemma content_expansion D t :
  expansion D t = match content_of D t with
                  | Some c => Some (T (set_base t BDefExpand) :: c)
                  | None => None
                  end.
Proof.
  unfold expansion, content_of, def_entry, def_placeholder.
  destruct (lookup (lower (fst (partition_slash (text t)))) D) as [e|]; [|reflexivity].
  destruct (get_definition_shape e (snd (partition_slash (text t)))) as [[x Hx] | [Hn | (c & _ & Hs & _)]].
  - rewrite !Hx. reflexivity.
  - rewrite !Hn. reflexivity.
  - rewrite !Hs. reflexivity.
Qed.

Lemma content_nodefish D t c :
  wf_dict D = true -> content_of D t = Some c -> forallb no_defish (all_tags_f c) = true.
Proof.
  intros Hw Hc. pose proof (content_expansion D t) as He. rewrite Hc in He.
  destruct (expansion_shape D t _ Hw He) as (c1 & Heq & _ & Hn). inversion Heq; subst. exact Hn.
Qed.

(* HedTag.expandable on an invariant tag: never raises, fills the cache with the
   dictionary's content when there is one *)
Lemma expandable_o_spec D t :
  wf_dict D = true -> inv_tag D t -> defy (tbase (otg t)) = true ->
  exists t', expandable_o D t = Ok t' /\ inv_tag D t' /\ otg t' = otg t /\
             ocache t' = content_of D (otg t).
Proof.
  intros Hw Hinv Hd. pose proof Hinv as [Hhd Hc]. unfold expandable_o.
  destruct (ocache t) as [c|] eqn:Ec.
  - exists t. split; [reflexivity|]. split; [exact Hinv|]. split; [reflexivity|].
    rewrite Ec. symmetry. apply (proj1 (Hc c eq_refl)).
  - rewrite (Hhd Hd). unfold content_of.
    destruct (def_entry D (otg t)) as [e|] eqn:Ee.
    2:{ exists t. split; [reflexivity|]. split; [exact Hinv|]. split; [reflexivity | exact Ec]. }
    assert (Hwe : wf_entry e = true) by (unfold def_entry in Ee; eapply wf_lookup; eauto).
    destruct (get_definition e (otg t) (def_placeholder (otg t))) as [[ch|]|x] eqn:Eg.
    + cbn [bind]. eexists. split; [reflexivity|]. cbn [otg ocache]. split; [|split; reflexivity].
      split; cbn [otg ocache oexp ohd]; [auto|]. intros c H. inversion H; subst. split; [|reflexivity].
      unfold content_of. rewrite Ee, Eg. reflexivity.
    + cbn [bind]. exists t. split; [reflexivity|]. split; [exact Hinv|]. split; [reflexivity | exact Ec].
    + exfalso. eapply wf_no_exn; eauto.
Qed.

(* ------------------------------------------------------------------ expand_defs refines expand_t *)

Lemma mapM_ok {A B} (f : A -> res B) (g : A -> B) l :
  Forall (fun x => f x = Ok (g x)) l -> mapM f l = Ok (map g l).
Proof. induction 1 as [|x l Hx Hl IH]; cbn; [reflexivity|]. rewrite Hx, IH. reflexivity. Qed.

(* the invariant is stated for Def/Def-expand tags; base changes stay inside that class *)
Lemma inv_tag_rebase D t b x :
  inv_tag D t -> defy (tbase (otg t)) = true -> x = is_defexpand b ->
  inv_tag D (set_obase t b x).
Proof.
  intros [H1 H2] Hd Hx. split; cbn.
  - intros _. apply H1. exact Hd.
  - intros c Hc. destruct (H2 c Hc) as [Ha _]. split; [rewrite content_of_base; exact Ha | exact Hx].
Qed.

(* one node: [fx] arbitrary for the abstraction, the invariant is kept by the code as it is (fx = true) *)
Lemma expand_o_refines fx D n : forall top,
  wf_dict D = true -> Inv D n ->
  exists n', expand_o fx D top n = Ok n' /\
             abs_p n' = expand_node D (abs_p n) /\
             (fx = true -> Inv D n') /\
             has_cyc n' = false.
Proof.
  intros top Hw. revert top.
  induction n as [t | ch IH | t c | ] using onode_ind2; intros top Hi.
  - (* a tag in place *)
    apply Inv_T_inv in Hi. rename Hi into Hit.
    cbn [expand_o abs_p expand_node].
    destruct (is_def (tbase (otg t))) eqn:Edef.
    + cbn [orb].
      assert (Hd : defy (tbase (otg t)) = true) by (unfold defy; rewrite Edef; reflexivity).
      destruct (expandable_o_spec D t Hw Hit Hd) as (t' & He & Hi' & Ht & Hc).
      rewrite He. cbn [bind]. rewrite Hc, content_expansion.
      destruct (content_of D (otg t)) as [c|] eqn:Ecc.
      * assert (Hx : oexp t' = false).
        { destruct Hi' as [_ Hi2]. destruct (Hi2 c Hc) as [_ Hx]. rewrite Hx, Ht.
          destruct (tbase (otg t)); cbn in Edef |- *; congruence. }
        rewrite Hx.
        eexists. split; [reflexivity|]. cbn [abs_p set_obase otg]. rewrite Ht.
        split; [reflexivity|]. split; [|reflexivity].
        intros ->. apply Inv_X; [| exact Hc | reflexivity].
        apply inv_tag_rebase; [exact Hi' | rewrite Ht; exact Hd | reflexivity].
      * exists (OT t'). split; [reflexivity|]. cbn [abs_p]. rewrite Ht.
        split; [reflexivity|]. split; [intros _; constructor; exact Hi' | reflexivity].
    + cbn [orb].
      destruct (is_defexpand (tbase (otg t)) && negb top) eqn:Ede.
      * apply andb_true_iff in Ede as [Ede Etop].
        assert (Hd : defy (tbase (otg t)) = true) by (unfold defy; rewrite Ede; apply orb_true_r).
        destruct (expandable_o_spec D t Hw Hit Hd) as (t' & He & Hi' & Ht & Hc).
        rewrite He. cbn [bind].
        destruct (ocache t') as [c|] eqn:Ec.
        -- assert (Hx : oexp t' = true).
           { destruct Hi' as [_ Hi2]. destruct (Hi2 c Ec) as [_ Hx]. rewrite Hx, Ht. exact Ede. }
           rewrite Hx.
           exists (OT t'). split; [reflexivity|]. cbn [abs_p]. rewrite Ht.
           split; [reflexivity|]. split; [intros _; constructor; exact Hi' | reflexivity].
        -- exists (OT t'). split; [reflexivity|]. cbn [abs_p]. rewrite Ht.
           split; [reflexivity|]. split; [intros _; constructor; exact Hi' | reflexivity].
      * exists (OT t). split; [reflexivity|]. split; [reflexivity|].
        split; [intros _; constructor; exact Hit | reflexivity].
  - (* an ordinary group *)
    apply Inv_G_inv in Hi.
    rewrite expand_o_G. cbn [abs_p expand_node].
    assert (Hl : exists l, mapM (expand_o fx D false) ch = Ok l /\
                           map abs_p l = map (expand_node D) (map abs_p ch) /\
                           (fx = true -> Forall (Inv D) l) /\ existsb has_cyc l = false).
    { induction IH as [|x l Hx Hl IHl]; cbn.
      - exists []. repeat split; auto.
      - apply Forall_cons_inv in Hi as [Hix Hil].
        destruct (Hx false Hix) as (x' & Hx1 & Hx2 & Hx3 & Hx4).
        destruct (IHl Hil) as (l' & Hl1 & Hl2 & Hl3 & Hl4).
        rewrite Hx1, Hl1. cbn. exists (x' :: l'). split; [reflexivity|]. split; [|split].
        + cbn. rewrite Hx2, Hl2. reflexivity.
        + intro Hf. constructor; auto.
        + cbn [existsb]. rewrite Hx4, Hl4. reflexivity. }
    destruct Hl as (l & Hl1 & Hl2 & Hl3 & Hl4). rewrite Hl1. cbn [bind].
    exists (OG l). split; [reflexivity|]. cbn [abs_p]. rewrite Hl2.
    split; [reflexivity|]. split; [intro Hf; constructor; auto | exact Hl4].
  - (* the tag's own expansion group *)
    pose proof Hi as Hi0.
    apply Inv_X_inv in Hi as (Hit & Hcache & Hbase).
    cbn [expand_o abs_p]. unfold defy. rewrite Hbase. cbn [is_def is_defexpand orb].
    destruct Hit as [Hi1 Hi2]. destruct (Hi2 c Hcache) as [Hcc Hx].
    rewrite Hbase in Hx. cbn in Hx. rewrite Hx.
    exists (OX t c). split; [reflexivity|]. split.
    + cbn [abs_p expand_node map]. rewrite Hbase. cbn [is_def]. f_equal. f_equal.
      symmetry. apply expand_list_id. eapply forallb_impl; [|eapply content_nodefish; eauto].
      apply no_defish_no_def.
    + split; [intros _; exact Hi0 | reflexivity].
  - exfalso. eapply Inv_C_inv; eauto.
Qed.

Lemma expand_of_refines fx D f :
  wf_dict D = true -> InvF D f ->
  exists f', expand_of fx D f = Ok f' /\ map abs_p f' = expand_t D (map abs_p f) /\
             (fx = true -> InvF D f') /\ existsb has_cyc f' = false.
Proof.
  intros Hw Hi. unfold expand_of, expand_t, InvF in *.
  induction Hi as [|x l Hx Hl IH]; cbn.
  - exists []. repeat split; auto.
  - destruct (expand_o_refines fx D x true Hw Hx) as (x' & Hx1 & Hx2 & Hx3 & Hx4).
    destruct IH as (l' & Hl1 & Hl2 & Hl3 & Hl4). rewrite Hx1, Hl1. cbn.
    exists (x' :: l'). split; [reflexivity|]. split; [cbn; rewrite Hx2, Hl2; reflexivity|].
    split; [intro Hf; constructor; auto | cbn [existsb]; rewrite Hx4, Hl4; reflexivity].
Qed.

(* ------------------------------------------------------------------ shrink_defs refines shrink_t *)

Lemma de_otags_abs D ch : Forall (Inv D) ch -> de_tags (map abs_p ch) = map otg (de_otags ch).
Proof.
  unfold de_tags, direct_tags, de_otags.
  induction 1 as [|x l Hx Hl IH]; cbn; [reflexivity|].
  destruct x as [t | c | t c |]; cbn.
  - destruct (is_defexpand (tbase (otg t))) eqn:E; cbn; rewrite IH; reflexivity.
  - exact IH.
  - exact IH.
  - exact IH.
Qed.

Lemma de_otags_in ch t : In t (de_otags ch) -> In (OT t) ch /\ is_defexpand (tbase (otg t)) = true.
Proof.
  unfold de_otags. rewrite in_flat_map. intros (x & Hx & Ht).
  destruct x as [t0 | | |]; try contradiction.
  destruct (is_defexpand (tbase (otg t0))) eqn:E; [|contradiction].
  destruct Ht as [-> | []]. auto.
Qed.

Lemma multi_o_abs D n : Inv D n -> multi_o n = multi_de (abs_p n).
Proof.
  induction n as [t | ch IH | t c | ] using onode_ind2; intro Hi; try reflexivity.
  apply Inv_G_inv in Hi.
  cbn [multi_o abs_p multi_de]. rewrite (de_otags_abs D ch Hi), map_length. f_equal.
  induction IH as [|x l Hx Hl IHl]; cbn; [reflexivity|].
  apply Forall_cons_inv in Hi as [Hix Hil]. rewrite (Hx Hix), (IHl Hil). reflexivity.
Qed.

Lemma has_cyc_inv D n : Inv D n -> has_cyc n = false.
Proof.
  induction n as [t | ch IH | t c | ] using onode_ind2; intro Hi; try reflexivity;
    [|exfalso; eapply Inv_C_inv; eauto].
  apply Inv_G_inv in Hi.
  cbn [has_cyc]. induction IH as [|x l Hx Hl IHl]; cbn; [reflexivity|].
  apply Forall_cons_inv in Hi as [Hix Hil]. rewrite (Hx Hix), (IHl Hil). reflexivity.
Qed.

Lemma shrink_o_refines D n :
  Inv D n -> abs_p (shrink_o true n) = shrink_node (abs_p n) /\ Inv D (shrink_o true n).
Proof.
  induction n as [t | ch IH | t c | ] using onode_ind2; intro Hi.
  - split; [reflexivity | exact Hi].
  - apply Inv_G_inv in Hi.
    cbn [shrink_o abs_p shrink_node]. rewrite (de_otags_abs D ch Hi).
    destruct (de_otags ch) as [|t r] eqn:Ed; cbn [map].
    + assert (H : map abs_p (map (shrink_o true) ch) = map shrink_node (map abs_p ch) /\
                  Forall (Inv D) (map (shrink_o true) ch)).
      { clear Ed. induction IH as [|x l Hx Hl IHl]; cbn; [split; [reflexivity | constructor]|].
        apply Forall_cons_inv in Hi as [Hix Hil].
        destruct (Hx Hix) as [Ha Hb]. destruct (IHl Hil) as [Hc Hd].
        rewrite Ha, Hc. split; [reflexivity | constructor; assumption]. }
      destruct H as [Ha Hb]. cbn [abs_p]. rewrite Ha. split; [reflexivity | constructor; assumption].
    + assert (Hin : In t (de_otags ch)) by (rewrite Ed; left; reflexivity).
      apply de_otags_in in Hin as [Hin Hde].
      rewrite Forall_forall in Hi. specialize (Hi _ Hin). apply Inv_T_inv in Hi.
      split; [reflexivity|]. constructor. apply inv_tag_rebase; [assumption | | reflexivity].
      unfold defy. rewrite Hde. apply orb_true_r.
  - apply Inv_X_inv in Hi as (Hit & Hcache & Hbase).
    cbn [shrink_o abs_p shrink_node]. rewrite Hbase. cbn [is_defexpand].
    pose proof Hit as [Hi1 Hi2]. destruct (Hi2 c Hcache) as [Hcc _].
    assert (Hde : de_tags (T (otg t) :: c) = [otg t]).
    { unfold de_tags. cbn [direct_tags flat_map app]. fold (direct_tags c).
      rewrite (direct_tags_groups c (content_shape D _ _ Hcc)). cbn. rewrite Hbase. reflexivity. }
    rewrite Hde. split; [reflexivity|]. constructor.
    apply inv_tag_rebase; [exact Hit | rewrite Hbase; reflexivity | reflexivity].
  - exfalso. eapply Inv_C_inv; eauto.
Qed.

Lemma shrink_of_refines D f :
  InvF D f ->
  match shrink_of true f with
  | Ok f' => shrink_t (map abs_p f) = Ok (map abs_p f') /\ InvF D f'
  | Exn e => shrink_t (map abs_p f) = Exn e
  end.
Proof.
  intro Hi. unfold shrink_of, shrink_t, shrink_pure, InvF in *.
  assert (Hc : existsb has_cyc f = false).
  { induction Hi as [|x l Hx Hl IH]; cbn; [reflexivity|]. rewrite (has_cyc_inv D x Hx), IH. reflexivity. }
  assert (Hm : existsb multi_o f = existsb multi_de (map abs_p f)).
  { induction Hi as [|x l Hx Hl IH]; cbn; [reflexivity|]. rewrite (multi_o_abs D x Hx).
    cbn in Hc. apply orb_false_iff in Hc as [_ Hc]. rewrite (IH Hc). reflexivity. }
  rewrite Hc, Hm. destruct (existsb multi_de (map abs_p f)); [reflexivity|].
  clear Hc Hm. induction Hi as [|x l Hx Hl IH]; cbn; [split; [reflexivity | constructor]|].
  destruct (shrink_o_refines D x Hx) as [Ha Hb]. destruct IH as [Hc Hd].
  inversion Hc. rewrite Ha. split; [reflexivity | constructor; assumption].
Qed.

(* ------------------------------------------------------------------ all interleavings (code as it is, fx = true) *)

Definition InvS (D : dict) (st : ostate) : Prop := InvF D (fst st) /\ Forall (InvF D) (snd st).
Definition abs_st (st : ostate) : tstate := (map abs_p (fst st), map (map abs_p) (snd st)).

Lemma interleaving D : wf_dict D = true -> forall ops st, InvS D st ->
  match run_os true D ops st with
  | Ok st' => InvS D st' /\ run_ts D ops (abs_st st) = Ok (abs_st st') /\
              abs_of (fst st') = Ok (map abs_p (fst st'))
  | Exn e => run_ts D ops (abs_st st) = Exn e
  end.
Proof.
  intros Hw ops. induction ops as [|o ops IH]; intros [f sv] [Hi Hs]; cbn [run_os run_ts].
  - split; [split; assumption|]. split; [reflexivity | apply (abs_of_inv D); assumption].
  - cbn [fst snd] in Hi, Hs. change (abs_st (f, sv)) with (map abs_p f, map (map abs_p) sv).
    destruct o; cbn [step_os step_ts bind].
    + destruct (expand_of_refines true D f Hw Hi) as (f' & He & Ha & Hi' & _).
      rewrite He. cbn [bind]. rewrite <- Ha.
      apply (IH (f', sv)). split; [apply Hi'; reflexivity | assumption].
    + pose proof (shrink_of_refines D f Hi) as Hsh.
      destruct (shrink_of true f) as [f'|e]; cbn [bind].
      * destruct Hsh as [Hs1 Hs2]. rewrite Hs1. cbn [bind].
        apply (IH (f', sv)). split; assumption.
      * rewrite Hsh. reflexivity.
    + apply (IH (f, f :: sv)). split; [assumption | constructor; assumption].
    + apply (IH (f, sv)). split; assumption.
    + destruct sv as [|g r]; cbn [map].
      * apply (IH (f, [])). split; assumption.
      * apply Forall_cons_inv in Hs as [Hg Hr].
        apply (IH (g, f :: r)). split; [assumption | constructor; assumption].
Qed.

(* printing never fails on a tree without the cyclic group *)
Lemma abs_o_nocyc n : has_cyc n = false -> abs_o n = Ok (abs_p n).
Proof.
  induction n as [t | ch IH | t c | ] using onode_ind2; cbn [has_cyc]; intro H; try reflexivity; [|discriminate].
  rewrite abs_o_G. cbn [abs_p].
  assert (Hm : mapM abs_o ch = Ok (map abs_p ch)).
  { induction IH as [|x l Hx Hl IHl]; cbn in *; [reflexivity|].
    apply orb_false_iff in H as [H1 H2]. rewrite (Hx H1), (IHl H2). reflexivity. }
  rewrite Hm. reflexivity.
Qed.

(* a first expansion refines expand_t, before and after fix commit 60986da (either value of the switch) *)
Lemma expand_refines fx D f :
  wf_dict D = true -> InvF D f ->
  exists f', expand_of fx D f = Ok f' /\ abs_of f' = Ok (expand_t D (map abs_p f)).
Proof.
  intros Hw Hi. destruct (expand_of_refines fx D f Hw Hi) as (f' & He & Ha & _ & Hc).
  exists f'. split; [assumption|]. rewrite <- Ha. unfold abs_of.
  clear He Ha. induction f' as [|x l IH]; cbn in *; [reflexivity|].
  apply orb_false_iff in Hc as [H1 H2]. rewrite (abs_o_nocyc x H1), (IH H2). reflexivity.
Qed.

(* ------------------------------------------------------------------ witnesses; fx = false: behaviour before fix commit 60986da *)

Definition s_mydef : str := [77;121;68;101;102]%N.
Definition s_red : str := [82;101;100]%N.
Definition s_blue : str := [66;108;117;101]%N.
Definition tg (b : base) (e : str) : tag := mkTag b e (short_tag (mkTag b e [] [])) [].
Definition t_red : node := T (tg (BOther s_red false false) []).
Definition t_blue : node := T (tg (BOther s_blue false false) []).
(* (Definition/MyDef,(Red,Blue)) *)
Definition ex_defs : list forest := [[G [T (tg BDefinition s_mydef); G [t_red; t_blue]]]].
Definition ex_dict : dict := fst (add_definitions [] ex_defs).
(* Def/MyDef *)
Definition ex_ann : forest := [T (tg BDef s_mydef)].
(* (Def-expand/MyDef,(Blue,Red)),Def/MyDef *)
Definition ex_ann2 : forest := [G [T (tg BDefExpand s_mydef); G [t_blue; t_red]]; T (tg BDef s_mydef)].

Lemma ex_dict_wf : wf_dict ex_dict = true.
Proof. vm_compute. reflexivity. Qed.

(* C09-F1 on the heap: the second expand_defs makes the group its own child *)
Lemma expand_twice_refuted :
  exists s2, run false ex_dict [OpExpand; OpExpand] (load ex_ann) = Ok s2 /\
             abs s2 = Exn RecursionError /\
             run_t ex_dict [OpExpand; OpExpand] ex_ann = Ok (expand_t ex_dict ex_ann).
Proof. eexists. split; [vm_compute; reflexivity|]. split; vm_compute; reflexivity. Qed.

(* the same on the ownership trees *)
Lemma expand_twice_refuted_o :
  exists f2, run_o false ex_dict [OpExpand; OpExpand] (load_o ex_ann) = Ok f2 /\
             abs_of f2 = Exn RecursionError.
Proof. eexists. split; vm_compute; reflexivity. Qed.

(* the code as it is (since 60986da) on the same witness *)
Lemma expand_twice_fixed :
  exists s2, run true ex_dict [OpExpand; OpExpand] (load ex_ann) = Ok s2 /\
             abs s2 = Ok (expand_t ex_dict ex_ann).
Proof. eexists. split; vm_compute; reflexivity. Qed.

(* C09-F3: expand, shrink, expand leaves a Def tag that was written as Def-expand *)
Lemma expand_after_shrink_refuted :
  exists s3 f3, run false ex_dict [OpExpand; OpShrink; OpExpand] (load ex_ann2) = Ok s3 /\
                abs s3 = Ok f3 /\
                run_t ex_dict [OpExpand; OpShrink; OpExpand] ex_ann2 <> Ok f3.
Proof. eexists. eexists. split; [vm_compute; reflexivity|]. split; [vm_compute; reflexivity|]. vm_compute. discriminate. Qed.

(* heap layer and ownership-tree layer agree on a finite family: every op sequence
   of length <= 4 over {expand, shrink, copy, swap} on the two witnesses, both switches *)
Fixpoint all_ops (n : nat) : list (list op) :=
  match n with
  | 0 => [[]]
  | S k => [] :: flat_map (fun l => [OpExpand :: l; OpShrink :: l; OpCopy :: l; OpSwap :: l]) (all_ops k)
  end.

Definition res_forest_eqb (a b : res forest) : bool :=
  match a, b with
  | Ok x, Ok y => str_eqb (str_forest x) (str_forest y)
  | Exn RecursionError, Exn RecursionError => true
  | Exn KeyError, Exn KeyError => true
  | Exn Unmodelled, Exn Unmodelled => true
  | _, _ => false
  end.

Definition layers_agree (fx : bool) (D : dict) (f : forest) (ops : list op) : bool :=
  res_forest_eqb (let* s := run fx D ops (load f) in abs s)
                 (let* o := run_o fx D ops (load_o f) in abs_of o).

Lemma layers_agree_bounded :
  forall fx f ops, In fx [false; true] -> In f [ex_ann; ex_ann2] -> In ops (all_ops 4) ->
  layers_agree fx ex_dict f ops = true.
Proof.
  assert (H : forallb (fun fx => forallb (fun f => forallb (layers_agree fx ex_dict f) (all_ops 4))
                                          [ex_ann; ex_ann2]) [false; true] = true)
    by (vm_compute; reflexivity).
  intros fx f ops Hfx Hf Hops.
  rewrite forallb_forall in H. specialize (H fx Hfx).
  rewrite forallb_forall in H. specialize (H f Hf).
  rewrite forallb_forall in H. exact (H ops Hops).
Qed.

(* ------------------------------------------------------------------ Def-expand validation: witnesses *)

(* C09-F2: the definition's own spelling is rejected, the sorted one accepted *)
Lemma defexpand_valid_refuted :
  exists t content,
    ex_defs = [[G [T (tg BDefinition s_mydef); G content]]] /\
    defexpand_accepted false ex_dict t [T t; G content] = false /\
    defexpand_accepted false ex_dict t [T t; G (sorted_children content)] = true /\
    defexpand_accepted true ex_dict t [T t; G content] = true.
Proof.
  exists (tg BDefExpand s_mydef), [t_red; t_blue].
  split; [reflexivity|]. split; [vm_compute; reflexivity|]. split; vm_compute; reflexivity.
Qed.

(* completeness of the repaired comparison on a finite family: every sibling order
   (both levels, tag first or last) of (Definition/MyDef,(Red,Blue,(Green,Square))) *)
Definition s_green : str := [71;114;101;101;110]%N.
Definition s_square : str := [83;113;117;97;114;101]%N.
Definition t_green : node := T (tg (BOther s_green false false) []).
Definition t_square : node := T (tg (BOther s_square false false) []).
Definition ex_defs3 : list forest :=
  [[G [T (tg BDefinition s_mydef); G [t_red; t_blue; G [t_green; t_square]]]]].
Definition ex_dict3 : dict := fst (add_definitions [] ex_defs3).

Fixpoint insert_all {A} (x : A) (l : list A) : list (list A) :=
  match l with
  | [] => [[x]]
  | y :: l' => (x :: l) :: map (cons y) (insert_all x l')
  end.
Fixpoint perms {A} (l : list A) : list (list A) :=
  match l with
  | [] => [[]]
  | x :: l' => flat_map (insert_all x) (perms l')
  end.

Definition spellings3 : list (list node) :=
  flat_map (fun inner =>
    flat_map (fun content =>
      perms [T (tg BDefExpand s_mydef); G content])
      (perms [t_red; t_blue; G inner]))
    (perms [t_green; t_square]).

Lemma defexpand_complete_bounded :
  length spellings3 = 24 /\
  (forall g, In g spellings3 -> defexpand_accepted true ex_dict3 (tg BDefExpand s_mydef) g = true) /\
  defexpand_accepted true ex_dict3 (tg BDefExpand s_mydef)
    [T (tg BDefExpand s_mydef); G [t_red; t_blue; G [t_green; t_green]]] = false.
Proof.
  split; [vm_compute; reflexivity|]. split; [|vm_compute; reflexivity].
  assert (H : forallb (defexpand_accepted true ex_dict3 (tg BDefExpand s_mydef)) spellings3 = true)
    by (vm_compute; reflexivity).
  intros g Hg. rewrite forallb_forall in H. exact (H g Hg).
Qed.

(* former C09-F4 (repaired upstream by comparing tags by their case-folded short form):
   the literal placeholder tag in place of the value is rejected *)
Definition s_q : str := [81]%N.
Definition s_label : str := [76;97;98;101;108]%N.
Definition ex_defs_q : list forest :=
  [[G [T (tg BDefinition (s_q ++ [47;35]%N)); G [T (tg (BOther s_label true false) [35]%N)]]]].
Definition ex_dict_q : dict := fst (add_definitions [] ex_defs_q).

Lemma defexpand_literal_placeholder_rejected :
  exists t g,
    expansion ex_dict_q (set_base t BDef) =
      Some [T t; G [T (mkTag (BOther s_label true false) [51]%N (s_label ++ [47;35]%N) [])]] /\
    g = [T t; G [T (tg (BOther s_label true false) [35]%N)]] /\
    defexpand_accepted false ex_dict_q t g = false /\ defexpand_accepted true ex_dict_q t g = false.
Proof.
  exists (tg BDefExpand (s_q ++ [47;51]%N)). eexists.
  split; [vm_compute; reflexivity|]. split; [reflexivity|]. split; vm_compute; reflexivity.
Qed.

Lemma nonvacuous :
  wf_dict ex_dict = true /\ InvF ex_dict (load_o ex_ann) /\
  str_forest (expand_t ex_dict ex_ann) =
    [40;68;101;102;45;101;120;112;97;110;100;47;77;121;68;101;102;44;40;66;108;117;101;44;82;101;100;41;41]%N.
Proof.
  split; [exact ex_dict_wf|]. split; [exact (proj1 (load_inv ex_dict ex_ann))|].
  vm_compute. reflexivity.
Qed.

(* ------------------------------------------------------------------ names are compared case-folded *)

Definition s_strasse_sz : str := [83;116;114;97;223;101]%N.      (* "Straße" *)
Definition s_strasse_up : str := [83;84;82;65;83;83;69]%N.       (* "STRASSE" *)
Definition s_strasse_lo : str := [115;116;114;97;115;115;101]%N. (* "strasse" *)
Definition ex_dict_sz : dict :=
  fst (add_definitions [] [[G [T (tg BDefinition s_strasse_sz); G [t_red]]]]).

(* "Straße" is stored under its casefold "strasse" (not under lower() = "straße"); a later
   "STRASSE" is a duplicate: reported, and the first entry stays; Def/strasse finds it *)
Lemma casefold_duplicate_example :
  map fst ex_dict_sz = [s_strasse_lo] /\
  check_one ex_dict_sz (tg BDefinition s_strasse_up) [T (tg BDefinition s_strasse_up); G [t_blue]]
    = (ex_dict_sz, [DuplicateDefinition]) /\
  option_map ename (def_entry ex_dict_sz (tg BDef s_strasse_up)) = Some s_strasse_sz.
Proof. split; [vm_compute; reflexivity|]. split; vm_compute; reflexivity. Qed.

(* ------------------------------------------------------------------ the mode of the code as it is *)

Lemma current_mode : current_fx = true /\ current_fs = true.
Proof. split; reflexivity. Qed.

Lemma expand_twice_now :
  (exists s2, run current_fx ex_dict [OpExpand; OpExpand] (load ex_ann) = Ok s2 /\
              abs s2 = Ok (expand_t ex_dict ex_ann)) /\
  (exists s3 f3, run current_fx ex_dict [OpExpand; OpShrink; OpExpand] (load ex_ann2) = Ok s3 /\
                 abs s3 = Ok f3 /\ run_t ex_dict [OpExpand; OpShrink; OpExpand] ex_ann2 = Ok f3).
Proof.
  split; [eexists; split; vm_compute; reflexivity|].
  eexists. eexists. split; [vm_compute; reflexivity|]. split; vm_compute; reflexivity.
Qed.

Lemma interleaving_now D : wf_dict D = true -> forall ops st, InvS D st ->
  match run_os current_fx D ops st with
  | Ok st' => InvS D st' /\ run_ts D ops (abs_st st) = Ok (abs_st st') /\
              abs_of (fst st') = Ok (map abs_p (fst st'))
  | Exn e => run_ts D ops (abs_st st) = Exn e
  end.
Proof. exact (interleaving D). Qed.

Lemma expansion_declarative_example :
  wf_dict ex_dict_q = true /\
  exists e c, def_entry ex_dict_q (tg BDef (s_q ++ [47;51]%N)) = Some e /\ etakes e = true /\
              econtents e = Some c /\ ph_count c = 1 /\
              expansion ex_dict_q (tg BDef (s_q ++ [47;51]%N)) =
                Some [T (set_base (tg BDef (s_q ++ [47;51]%N)) BDefExpand); G (map (plug_node [51]%N) c)].
Proof. split; [vm_compute; reflexivity|]. eexists. eexists. repeat split; vm_compute; reflexivity. Qed.
