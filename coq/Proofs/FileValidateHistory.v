(* C07 -- histories of operations on one input object: every report is the report of the table the object
   holds at that moment (validation is a function of the current table and sidecar only). *)
From Coq Require Import List ZArith NArith Bool Arith Lia.
From HV Require Import Base.Res Model.FileValidate Proofs.FileValidateProofs.
Import ListNotations.

(* the table after a sequence of operations (an edit that raises changes nothing; validate changes nothing) *)
Fixpoint table_after (t : list row) (ops : list op) : list row :=
  match ops with
  | [] => t
  | OSet k r :: ops' => match set_row k r t with
                        | Ok t' => table_after t' ops'
                        | Exn _ => table_after t ops'
                        end
  | OValidate :: ops' => table_after t ops'
  end.

Lemma set_row_ok k r t : k < length t -> exists t', set_row k r t = Ok t' /\ nth_error t' k = Some r /\ length t' = length t.
Proof.
  revert k; induction t as [|x t IH]; intros k Hk; [cbn in Hk; lia|].
  destruct k as [|k]; cbn [set_row].
  - eexists; split; [reflexivity|]. split; reflexivity.
  - destruct (IH k) as (t' & Ht & Hn & Hl); [cbn in Hk; lia|]. rewrite Ht. cbn [bind].
    eexists; split; [reflexivity|]. split; [exact Hn|cbn; now rewrite Hl].
Qed.

Section History.
  Variable raw : Type.
  Variable raw_is_error : raw -> bool.
  Variable basic : N -> list raw.
  Variable full banned : ann -> list raw.
  Variable nonempty : ann -> bool.
  Variable tstate : Type.
  Variable temporal : tstate -> ann -> tstate * list raw.
  Variable tinit : tstate.
  Variable pre post : list raw.

  Notation validate := (validate raw raw_is_error basic full banned nonempty tstate temporal tinit pre post).
  Notation run_history := (run_history raw raw_is_error basic full banned nonempty tstate temporal tinit pre post).

  Lemma run_history_length cfg t ops : length (run_history cfg t ops) = length ops.
  Proof.
    revert t; induction ops as [|o ops IH]; intros t; cbn [FileValidate.run_history]; [reflexivity|].
    destruct o as [k r|]; [destruct (set_row k r t)|]; cbn; now rewrite IH.
  Qed.

  (* every report in a history is validate of the table held at that moment *)
  Lemma history_reports cfg t ops k rep :
    nth_error (run_history cfg t ops) k = Some (HReport rep) ->
    rep = validate cfg (table_after t (firstn k ops)).
  Proof.
    revert t k; induction ops as [|o ops IH]; intros t k H; [destruct k; discriminate|].
    cbn [FileValidate.run_history] in H. destruct o as [j r|].
    - destruct (set_row j r t) as [t'|e] eqn:E; (destruct k as [|k]; cbn in H; [discriminate|]);
        cbn [firstn table_after]; rewrite E; now apply IH.
    - destruct k as [|k]; cbn in H.
      + inversion H; subst. reflexivity.
      + cbn [firstn table_after]. now apply IH.
  Qed.

  (* ... and so equals the report of a fresh object that holds the current table *)
  Lemma history_same_as_fresh cfg t ops k rep :
    nth_error (run_history cfg t ops) k = Some (HReport rep) ->
    run_history cfg (table_after t (firstn k ops)) [OValidate] = [HReport rep].
  Proof. intros H. cbn. now rewrite <- (history_reports cfg t ops k rep H). Qed.

  (* validating again without an edit in between gives the same report *)
  Lemma history_revalidate cfg t ops1 ops2 :
    exists rep, run_history cfg t (ops1 ++ OValidate :: OValidate :: ops2)
                = run_history cfg t ops1 ++ HReport rep :: HReport rep :: run_history cfg (table_after t ops1) ops2.
  Proof.
    revert t; induction ops1 as [|o ops1 IH]; intros t.
    - eexists. reflexivity.
    - cbn [app FileValidate.run_history table_after]. destruct o as [j r|].
      + destruct (set_row j r t) as [t'|e]; [destruct (IH t') as [rep ->]|destruct (IH t) as [rep ->]]; eexists; reflexivity.
      + destruct (IH t) as [rep ->]. eexists; reflexivity.
  Qed.

  (* the repaired code never raises anywhere in a history *)
  Lemma history_never_raises cfg t ops rep :
    cf_fixed cfg = true -> cf_fix_none cfg = true -> cf_fix_value cfg = true ->
    In (HReport rep) (run_history cfg t ops) -> exists l, rep = Ok l.
  Proof.
    intros H1 H2 H3 Hin. apply In_nth_error in Hin as [k Hk].
    rewrite (history_reports cfg t ops k rep Hk).
    now apply (validate_never_raises_repaired raw raw_is_error basic full banned nonempty tstate temporal tinit pre post).
  Qed.
End History.

(* non-vacuity: validate, repair the erroneous cell of row 2 in place, validate again: the second report no longer
   holds the cell error (a stale report would) *)
Definition h_ops : list op := [OValidate; OSet 1 (plain_row (Some 1000000%Z) 6); OValidate].
Definition h_tab : list row := [plain_row (Some 500000%Z) 5; plain_row (Some 1000000%Z) 9].
Lemma history_nonvacuous :
  exists l1 l2, run_history nat w_err w_basic w_full w_banned w_nonempty nat w_temporal 0 [] [] (cfg0 false true true) h_tab h_ops
                = [HReport (Ok l1); HSet None; HReport (Ok l2)] /\
                In (mk (SBasic 1) (Some 3) (Some 1%N)) l1 /\ ~ In (mk (SBasic 1) (Some 3) (Some 1%N)) l2.
Proof.
  eexists. eexists. split; [vm_compute; reflexivity|]. split; [cbn; tauto|].
  cbn. intros H. repeat (destruct H as [H|H]; [discriminate|]). exact H.
Qed.

(* a file WITHOUT a header line (SpreadsheetInput(..., has_column_names=False)): no onset column, the first data row
   is file row 1; a row with a cell issue (column label) and a row-level issue (no column label) *)
Definition cfg_headerless : config :=
  {| cf_header := false; cf_has_onset := false; cf_has_refs := false; cf_cats := []; cf_fixed := true;
     cf_fix_none := true; cf_fix_value := true; cf_fix_mask := true |}.
Definition t_headerless : list row :=
  [{| r_onset := None;
      r_body := {| b_cells := [{| c_col := 1; c_id := 8; c_skip := false |}; {| c_col := 2; c_id := 6; c_skip := false |}];
                   b_badkeys := []; b_delaytext := false; b_delays := [] |} |}].
Lemma headerless_example :
  w_validate cfg_headerless t_headerless
  = Ok [mk (SFull 2) (Some 1) None; mk (SBasic 3) (Some 1) (Some 1%N)].
Proof. vm_compute. reflexivity. Qed.
