(* C13 -- lemmas about Model/Namespace.v *)
From Coq Require Import List NArith Arith Bool Lia.
From HV Require Import Base.Res Base.Str Base.SchemaData Model.Namespace.
Import ListNotations.

(* ------------------------------------------------------------------ strings *)

Lemma str_eqb_refl s : str_eqb s s = true.
Proof. apply str_eqb_spec. reflexivity. Qed.

Lemma str_eqb_false a b : a <> b -> str_eqb a b = false.
Proof.
  intro H. destruct (str_eqb a b) eqn:E; [|reflexivity]. apply str_eqb_spec in E. contradiction.
Qed.

Lemma str_eqb_sym a b : str_eqb a b = str_eqb b a.
Proof.
  destruct (str_eqb a b) eqn:E1, (str_eqb b a) eqn:E2; try reflexivity.
  - apply str_eqb_spec in E1. subst. rewrite str_eqb_refl in E2. discriminate.
  - apply str_eqb_spec in E2. subst. rewrite str_eqb_refl in E1. discriminate.
Qed.

Lemma skipn_app_exact {A} (p t : list A) : skipn (length p) (p ++ t) = t.
Proof. induction p as [|x p IH]; simpl; auto. Qed.

Lemma firstn_app_exact {A} (p t : list A) : firstn (length p) (p ++ t) = p.
Proof. induction p as [|x p IH]; simpl; [destruct t; reflexivity | rewrite IH; reflexivity]. Qed.

Lemma prefixb_app_same p a b : prefixb (p ++ a) (p ++ b) = prefixb a b.
Proof. induction p as [|x p IH]; simpl; [reflexivity | rewrite N.eqb_refl; simpl; exact IH]. Qed.

Definition no_cs (q : str) : bool :=
  forallb (fun c => negb (N.eqb c ch_colon) && negb (N.eqb c ch_slash)) q.

(* a well-formed namespace: text without ':' or '/' followed by one ':' *)
Definition wf_ns (p : str) : Prop := exists q, p = q ++ [ch_colon] /\ no_cs q = true.

Lemma find_char_skip c q t :
  forallb (fun x => negb (N.eqb x c)) q = true ->
  find_char c (q ++ t) = option_map (fun i => length q + i) (find_char c t).
Proof.
  induction q as [|x q IH]; simpl; intro H.
  - destruct (find_char c t); reflexivity.
  - apply andb_true_iff in H as [H1 H2]. apply negb_true_iff in H1. rewrite H1.
    rewrite (IH H2). destruct (find_char c t); reflexivity.
Qed.

Lemma no_cs_colon q : no_cs q = true -> forallb (fun x => negb (N.eqb x ch_colon)) q = true.
Proof.
  unfold no_cs. induction q as [|x q IH]; simpl; intro H; [reflexivity|].
  apply andb_true_iff in H as [H1 H2]. apply andb_true_iff in H1 as [H1 _]. rewrite H1, (IH H2). reflexivity.
Qed.

Lemma no_cs_slash q : no_cs q = true -> forallb (fun x => negb (N.eqb x ch_slash)) q = true.
Proof.
  unfold no_cs. induction q as [|x q IH]; simpl; intro H; [reflexivity|].
  apply andb_true_iff in H as [H1 H2]. apply andb_true_iff in H1 as [_ H1]. rewrite H1, (IH H2). reflexivity.
Qed.

(* the namespace of a tag written  q:t  is  q:  whatever t is *)
Lemma ns_of_prefixed q t :
  no_cs q = true -> get_schema_namespace (q ++ [ch_colon] ++ t) = q ++ [ch_colon].
Proof.
  intro Hq. unfold get_schema_namespace.
  rewrite (find_char_skip ch_colon q _ (no_cs_colon q Hq)).
  rewrite (find_char_skip ch_slash q _ (no_cs_slash q Hq)).
  cbn [app find_char option_map]. rewrite N.eqb_refl.
  replace (N.eqb ch_colon ch_slash) with false by reflexivity.
  cbn [option_map].
  assert (Hf : firstn (S (length q + 0)) (q ++ ch_colon :: t) = q ++ [ch_colon]).
  { replace (S (length q + 0)) with (length (q ++ [ch_colon])) by (rewrite app_length; simpl; lia).
    replace (q ++ ch_colon :: t) with ((q ++ [ch_colon]) ++ t) by (rewrite <- app_assoc; reflexivity).
    apply firstn_app_exact. }
  destruct (find_char ch_slash t) as [i|]; cbn [option_map].
  - replace (Nat.ltb (length q + S i) (length q + 0)) with false
      by (symmetry; apply Nat.ltb_ge; lia).
    exact Hf.
  - exact Hf.
Qed.

Lemma ns_of_wf p t : wf_ns p -> get_schema_namespace (p ++ t) = p.
Proof.
  intros [q [-> Hq]]. rewrite <- app_assoc. apply ns_of_prefixed. exact Hq.
Qed.

Lemma wf_ns_nonempty p : wf_ns p -> p <> [].
Proof. intros [q [-> _]]. destruct q; discriminate. Qed.

(* ------------------------------------------------------------------ lookup *)

Lemma lookup_split {A} (k : str) (l : list (str * A)) v :
  lookup k l = Some v ->
  exists l1 l2, l = l1 ++ (k, v) :: l2 /\ Forall (fun kv => fst kv <> k) l1.
Proof.
  induction l as [|[k' v'] l IH]; simpl; intro H; [discriminate|].
  destruct (str_eqb k k') eqn:E.
  - apply str_eqb_spec in E. subst k'. injection H as ->. exists [], l. split; [reflexivity | constructor].
  - destruct (IH H) as [l1 [l2 [-> Hf]]]. exists ((k', v') :: l1), l2. split; [reflexivity|].
    constructor; [|exact Hf]. simpl. intro Heq. subst k'. rewrite str_eqb_refl in E. discriminate.
Qed.

Lemma mem_str_In x l : mem_str x l = true <-> In x l.
Proof.
  induction l as [|y l IH]; simpl; [split; [discriminate | tauto]|].
  rewrite orb_true_iff, IH, str_eqb_spec. split; intros [H|H]; auto.
Qed.

Lemma has_dup_NoDup l : has_dup l = false -> NoDup l.
Proof.
  induction l as [|x l IH]; simpl; intro H; [constructor|].
  apply orb_false_iff in H as [H1 H2]. constructor; [|exact (IH H2)].
  intro Hin. apply mem_str_In in Hin. rewrite Hin in H1. discriminate.
Qed.

(* ------------------------------------------------------------------ annotations *)

Section AnnInd.
  Variable A : Type.
  Variable P : ann A -> Prop.
  Hypothesis Htag : forall t, P (ATag t).
  Hypothesis Hgrp : forall l, Forall P l -> P (AGrp l).
  Fixpoint ann_ind2 (a : ann A) : P a :=
    match a with
    | ATag t => Htag t
    | AGrp l => Hgrp l ((fix go (l : list (ann A)) : Forall P l :=
                           match l with
                           | [] => Forall_nil P
                           | x :: r => Forall_cons x (ann_ind2 x) (go r)
                           end) l)
    end.
End AnnInd.

Lemma ann_tags_map {A B} (f : A -> B) (a : ann A) : ann_tags (ann_map f a) = map f (ann_tags a).
Proof.
  induction a as [t | l IH] using ann_ind2; simpl; [reflexivity|].
  induction IH as [|x l Hx _ IHl]; simpl; [reflexivity|].
  rewrite map_app, Hx, IHl. reflexivity.
Qed.

Lemma ann_map_map {A B C} (f : A -> B) (g : B -> C) (a : ann A) :
  ann_map g (ann_map f a) = ann_map (fun x => g (f x)) a.
Proof.
  induction a as [t | l IH] using ann_ind2; simpl; [reflexivity|]. f_equal.
  induction IH as [|x l Hx _ IHl]; simpl; [reflexivity|]. rewrite Hx, IHl. reflexivity.
Qed.

Lemma ann_map_ext_in {A B} (f g : A -> B) (a : ann A) :
  Forall (fun t => f t = g t) (ann_tags a) -> ann_map f a = ann_map g a.
Proof.
  induction a as [t | l IH] using ann_ind2; simpl; intro H.
  - inversion H; subst. congruence.
  - f_equal. induction IH as [|x l Hx _ IHl]; simpl in *; [reflexivity|].
    apply Forall_app in H as [H1 H2]. rewrite (Hx H1), (IHl H2). reflexivity.
Qed.

Lemma flat_map_ext_in {A B} (f g : A -> list B) l :
  Forall (fun x => f x = g x) l -> flat_map f l = flat_map g l.
Proof. induction 1 as [|x l Hx _ IH]; simpl; [reflexivity | rewrite Hx, IH; reflexivity]. Qed.

Lemma flat_map_map {A B C} (f : A -> B) (g : B -> list C) l :
  flat_map g (map f l) = flat_map (fun x => g (f x)) l.
Proof. induction l as [|x l IH]; simpl; [reflexivity | rewrite IH; reflexivity]. Qed.

Lemma flat_map_nil {A B} (f : A -> list B) l : Forall (fun x => f x = []) l -> flat_map f l = [].
Proof. induction 1 as [|x l Hx _ IH]; simpl; [reflexivity | rewrite Hx, IH; reflexivity]. Qed.

(* ------------------------------------------------------------------ the validator *)

Section V.
Variable isalpha_c isprint_c : N -> bool.
Variable foldc titlec lowerc : N -> N.
Variable R1 R2 R3 : bool -> ann rtag -> list code.
Variable fixed : bool.

Notation verdict := (verdict isalpha_c isprint_c foldc titlec lowerc fixed R1 R2 R3).
Notation check_capitalization := (check_capitalization titlec lowerc fixed).
Notation check_tag_formatting := (check_tag_formatting fixed).
Notation check_required := (check_required foldc).
Notation check_unique := (check_unique foldc).
Notation char_issues := (char_issues isprint_c).
Notation str_isalpha := (str_isalpha isalpha_c).
Notation check_invalid_prefix_issues := (check_invalid_prefix_issues isalpha_c).

(* the abstract rules do not look at the namespace text of a uniformly prefixed annotation *)
Definition RUniform (R : bool -> ann rtag -> list code) : Prop :=
  forall b p t, wf_ns p -> Forall (fun r => rt_ns r = []) (ann_tags t) -> R b (ann_map (set_ns p) t) = R b t.

Definition all_unprefixed (a : ann str) : Prop := Forall (fun t => get_schema_namespace t = []) (ann_tags a).

Definition resolved (c : cfg) (a : ann str) : ann rtag := ann_map (fun t => fst (resolve_tag c t)) a.

(* schemas other than p's contribute nothing through get_tags_with_attribute *)
Definition ForeignSilent (G : group) (p : str) (tags : list rtag) : Prop :=
  forall q Sq, In (q, Sq) G -> q <> p ->
    check_required (schema_twa (q, Sq) Required) tags = [] /\ check_unique (schema_twa (q, Sq) Unique) tags = [].

(* -- dispatch *)

Lemma resolve_group_prefix G p Sp t :
  lookup p G = Some Sp -> wf_ns p ->
  resolve_tag (cfg_group G) (p ++ t) =
    (let '(e, rem, iss) := s_find Sp t in (mkR p t e rem, iss)).
Proof.
  intros HL Hp. unfold resolve_tag, cfg_group, c_find, group_find_tag_entry, schema_for_namespace.
  rewrite (ns_of_wf p t Hp), HL, skipn_app_exact. reflexivity.
Qed.

Lemma resolve_single_unprefixed Sp t :
  get_schema_namespace t = [] ->
  resolve_tag (cfg_single ([], Sp)) t = (let '(e, rem, iss) := s_find Sp t in (mkR [] t e rem, iss)).
Proof.
  intro Hn. unfold resolve_tag, cfg_single, c_find, schema_find_tag_entry. rewrite Hn. reflexivity.
Qed.

Lemma resolve_group_unprefixed G Sp t :
  lookup [] G = Some Sp -> get_schema_namespace t = [] ->
  resolve_tag (cfg_group G) t = resolve_tag (cfg_single ([], Sp)) t.
Proof.
  intros HL Hn. unfold resolve_tag, cfg_group, cfg_single, c_find, group_find_tag_entry,
    schema_find_tag_entry, schema_for_namespace. rewrite Hn, HL. reflexivity.
Qed.

Lemma resolve_prefixed_relabel G p Sp t :
  lookup p G = Some Sp -> wf_ns p -> get_schema_namespace t = [] ->
  fst (resolve_tag (cfg_group G) (p ++ t)) = set_ns p (fst (resolve_tag (cfg_single ([], Sp)) t))
  /\ snd (resolve_tag (cfg_group G) (p ++ t)) = snd (resolve_tag (cfg_single ([], Sp)) t).
Proof.
  intros HL Hp Hn. rewrite (resolve_group_prefix G p Sp t HL Hp), (resolve_single_unprefixed Sp t Hn).
  destruct (s_find Sp t) as [[e rem] iss]. split; reflexivity.
Qed.

Lemma resolved_ns_unprefixed c a :
  all_unprefixed a -> Forall (fun r => rt_ns r = []) (ann_tags (resolved c a)).
Proof.
  unfold all_unprefixed, resolved. rewrite ann_tags_map. intro H.
  apply Forall_map. eapply Forall_impl; [|exact H]. intros t Ht. simpl in Ht.
  unfold resolve_tag. rewrite Ht. destruct (c_find c t []) as [[e rem] iss]. reflexivity.
Qed.

(* -- group-level rules *)

Lemma long_tag_set_ns p r : rt_ns r = [] -> long_tag (set_ns p r) = p ++ long_tag r.
Proof.
  intro Hn. unfold long_tag, set_ns. destruct r as [ns body e rem]. simpl in *. subst ns.
  destruct e; reflexivity.
Qed.

Lemma starts_with_own p u r :
  rt_ns r = [] -> starts_with_fold foldc (p ++ u) (set_ns p r) = starts_with_fold foldc u r.
Proof.
  intro Hn. unfold starts_with_fold. rewrite (long_tag_set_ns p r Hn). unfold fold.
  rewrite !map_app. apply prefixb_app_same.
Qed.

Lemma existsb_map' {A B} (f : A -> B) (g : B -> bool) l : existsb g (map f l) = existsb (fun x => g (f x)) l.
Proof. induction l as [|x l IH]; simpl; [reflexivity | rewrite IH; reflexivity]. Qed.

Lemma existsb_ext_in {A} (f g : A -> bool) l : Forall (fun x => f x = g x) l -> existsb f l = existsb g l.
Proof. induction 1 as [|x l Hx _ IH]; simpl; [reflexivity | rewrite Hx, IH; reflexivity]. Qed.

Lemma map_ext_Forall {A B} (f g : A -> B) l : Forall (fun x => f x = g x) l -> map f l = map g l.
Proof. induction 1 as [|x l Hx _ IH]; simpl; [reflexivity | rewrite Hx, IH; reflexivity]. Qed.

Lemma check_required_own p us tags :
  Forall (fun r => rt_ns r = []) tags ->
  check_required (map (app p) us) (map (set_ns p) tags) = check_required us tags.
Proof.
  intro Hn. unfold Namespace.check_required. rewrite flat_map_map. apply flat_map_ext_in.
  apply Forall_forall. intros u _. rewrite existsb_map'.
  rewrite (existsb_ext_in _ (starts_with_fold foldc u) tags); [reflexivity|].
  eapply Forall_impl; [|exact Hn]. intros r Hr. apply starts_with_own. exact Hr.
Qed.

Lemma check_unique_own p us tags :
  Forall (fun r => rt_ns r = []) tags ->
  check_unique (map (app p) us) (map (set_ns p) tags) = check_unique us tags.
Proof.
  intro Hn. unfold Namespace.check_unique. rewrite flat_map_map. apply flat_map_ext_in.
  apply Forall_forall. intros u _. rewrite map_map.
  rewrite (map_ext_Forall _ (starts_with_fold foldc u) tags); [reflexivity|].
  eapply Forall_impl; [|exact Hn]. intros r Hr. apply starts_with_own. exact Hr.
Qed.

Lemma check_required_app a b tags : check_required (a ++ b) tags = check_required a tags ++ check_required b tags.
Proof. unfold Namespace.check_required. apply flat_map_app. Qed.
Lemma check_unique_app a b tags : check_unique (a ++ b) tags = check_unique a tags ++ check_unique b tags.
Proof. unfold Namespace.check_unique. apply flat_map_app. Qed.

Lemma group_twa_silent (G : group) p tags a :
  (forall q Sq, In (q, Sq) G -> q <> p ->
     check_required (schema_twa (q, Sq) Required) tags = [] /\ check_unique (schema_twa (q, Sq) Unique) tags = []) ->
  Forall (fun L => fst L <> p) G ->
  check_required (group_twa G a) tags = check_required (group_twa G a) tags /\
  check_required (group_twa G Required) tags = [] /\ check_unique (group_twa G Unique) tags = [].
Proof.
  intros HS HF. split; [reflexivity|]. induction G as [|[q Sq] G IH]; simpl.
  - split; reflexivity.
  - inversion HF as [|? ? Hq HF']; subst. simpl in Hq.
    destruct (HS q Sq (or_introl eq_refl) Hq) as [H1 H2].
    destruct IH as [I1 I2]; [intros q' S' Hin; apply HS; right; exact Hin | exact HF' |].
    unfold group_twa in *. simpl. rewrite check_required_app, check_unique_app, H1, H2, I1, I2. split; reflexivity.
Qed.

Lemma NoDup_keys_after {A} (l1 l2 : list (str * A)) k v :
  NoDup (map fst (l1 ++ (k, v) :: l2)) -> Forall (fun L => fst L <> k) l2.
Proof.
  rewrite map_app. simpl. intro H. apply NoDup_remove_2 in H.
  apply Forall_forall. intros [k' v'] Hin Heq. simpl in Heq. subst k'. apply H.
  apply in_or_app. right. apply (in_map fst) in Hin. exact Hin.
Qed.

Lemma group_rules_own G p Sp tags :
  NoDup (map fst G) -> lookup p G = Some Sp ->
  ForeignSilent G p (map (set_ns p) tags) ->
  Forall (fun r => rt_ns r = []) tags ->
  check_required (group_twa G Required) (map (set_ns p) tags) = check_required (s_twa Sp Required) tags /\
  check_unique (group_twa G Unique) (map (set_ns p) tags) = check_unique (s_twa Sp Unique) tags.
Proof.
  intros HND HL HF Hn. destruct (lookup_split p G Sp HL) as [G1 [G2 [-> H1]]].
  pose proof (NoDup_keys_after G1 G2 p Sp HND) as H2.
  assert (F1 : forall q Sq, In (q, Sq) G1 -> q <> p ->
     check_required (schema_twa (q, Sq) Required) (map (set_ns p) tags) = [] /\
     check_unique (schema_twa (q, Sq) Unique) (map (set_ns p) tags) = []).
  { intros q Sq Hin Hq. apply HF; [apply in_or_app; left; exact Hin | exact Hq]. }
  assert (F2 : forall q Sq, In (q, Sq) G2 -> q <> p ->
     check_required (schema_twa (q, Sq) Required) (map (set_ns p) tags) = [] /\
     check_unique (schema_twa (q, Sq) Unique) (map (set_ns p) tags) = []).
  { intros q Sq Hin Hq. apply HF; [apply in_or_app; right; right; exact Hin | exact Hq]. }
  destruct (group_twa_silent G1 p _ Required F1 H1) as [_ [A1 B1]].
  destruct (group_twa_silent G2 p _ Required F2 H2) as [_ [A2 B2]].
  assert (Happ : forall a, group_twa (G1 ++ (p, Sp) :: G2) a = group_twa G1 a ++ schema_twa (p, Sp) a ++ group_twa G2 a).
  { intro a. unfold group_twa. rewrite flat_map_app. reflexivity. }
  rewrite !Happ, !check_required_app, !check_unique_app, A1, B1, A2, B2. simpl. rewrite !app_nil_r.
  unfold schema_twa. simpl. split; [apply check_required_own | apply check_unique_own]; exact Hn.
Qed.

(* -- the equivalence, under the explicit side conditions *)

Lemma char_issues_app b x y : char_issues b (x ++ y) = char_issues b x ++ char_issues b y.
Proof. unfold Namespace.char_issues. apply flat_map_app. Qed.

Theorem prefixed_equiv_gen G p Sp a :
  RUniform R1 -> RUniform R2 -> RUniform R3 ->
  NoDup (map fst G) -> lookup p G = Some Sp -> wf_ns p -> str_isalpha (drop_last p) = true ->
  schema83_group G = schema83_single Sp ->
  char_issues (schema83_group G) p = [] ->
  all_unprefixed a ->
  Forall (fun t => check_tag_formatting (p ++ t) = check_tag_formatting t) (ann_tags a) ->
  Forall (fun r => check_capitalization (set_ns p r) = check_capitalization r)
         (ann_tags (resolved (cfg_single ([], Sp)) a)) ->
  ForeignSilent G p (map (set_ns p) (ann_tags (resolved (cfg_single ([], Sp)) a))) ->
  verdict (cfg_group G) (prefix_ann p a) = verdict (cfg_single ([], Sp)) a.
Proof.
  intros U1 U2 U3 HND HL Hp Halpha Hflag Hchars Hun Hfmt Hcap Hsil.
  set (cS := cfg_single ([], Sp)) in *. set (cG := cfg_group G).
  assert (Hp0 : p <> []) by (apply wf_ns_nonempty; exact Hp).
  assert (Hrs : resolved cG (prefix_ann p a) = ann_map (set_ns p) (resolved cS a)).
  { unfold resolved, prefix_ann. rewrite !ann_map_map. apply ann_map_ext_in.
    eapply Forall_impl; [|exact Hun]. intros t Ht. simpl in Ht.
    apply (resolve_prefixed_relabel G p Sp t HL Hp Ht). }
  assert (Hns : Forall (fun r => rt_ns r = []) (ann_tags (resolved cS a))) by (apply resolved_ns_unprefixed; exact Hun).
  unfold Namespace.verdict.
  fold (resolved cG (prefix_ann p a)). fold (resolved cS a).
  rewrite !Hrs.
  assert (Htags : ann_tags (prefix_ann p a) = map (app p) (ann_tags a)) by (unfold prefix_ann; apply ann_tags_map).
  rewrite !Htags. rewrite !ann_tags_map.
  change (c_flag cG) with (schema83_group G). change (c_flag cS) with (schema83_single Sp).
  rewrite <- Hflag.
  (* stage 1 *)
  assert (E1 : flat_map (char_issues (schema83_group G)) (map (app p) (ann_tags a)) ++
               flat_map (check_tag_formatting) (map (app p) (ann_tags a)) =
               flat_map (char_issues (schema83_group G)) (ann_tags a) ++
               flat_map check_tag_formatting (ann_tags a)).
  { rewrite !flat_map_map. f_equal.
    - apply flat_map_ext_in. apply Forall_forall. intros t _. rewrite char_issues_app, Hchars. reflexivity.
    - apply flat_map_ext_in. exact Hfmt. }
  rewrite E1. clear E1.
  set (s1 := flat_map (char_issues (schema83_group G)) (ann_tags a) ++ flat_map check_tag_formatting (ann_tags a)).
  destruct (any_error s1); [reflexivity|].
  (* stage 2 *)
  assert (E2 : flat_map (fun t => check_invalid_prefix_issues (get_schema_namespace t)) (map (app p) (ann_tags a)) = []
               /\ flat_map (fun t => check_invalid_prefix_issues (get_schema_namespace t)) (ann_tags a) = []).
  { split.
    - rewrite flat_map_map. apply flat_map_nil. apply Forall_forall. intros t _.
      rewrite (ns_of_wf p t Hp). unfold Namespace.check_invalid_prefix_issues.
      destruct p; [contradiction|]. rewrite Halpha. reflexivity.
    - apply flat_map_nil. eapply Forall_impl; [|exact Hun]. intros t Ht. simpl in Ht. rewrite Ht. reflexivity. }
  destruct E2 as [E2a E2b]. rewrite E2a, E2b. clear E2a E2b.
  assert (E3 : flat_map (fun t => snd (resolve_tag cG t)) (map (app p) (ann_tags a)) =
               flat_map (fun t => snd (resolve_tag cS t)) (ann_tags a)).
  { rewrite flat_map_map. apply flat_map_ext_in. eapply Forall_impl; [|exact Hun]. intros t Ht. simpl in Ht.
    apply (resolve_prefixed_relabel G p Sp t HL Hp Ht). }
  rewrite E3. clear E3.
  rewrite (U1 _ p _ Hp Hns).
  set (s2 := [] ++ R1 (schema83_group G) (resolved cS a) ++ flat_map (fun t => snd (resolve_tag cS t)) (ann_tags a)).
  destruct (any_error (s1 ++ s2)); [reflexivity|].
  (* stage 3 *)
  assert (E4 : flat_map check_capitalization (map (set_ns p) (ann_tags (resolved cS a))) =
               flat_map check_capitalization (ann_tags (resolved cS a))).
  { rewrite flat_map_map. apply flat_map_ext_in. exact Hcap. }
  rewrite E4. clear E4. rewrite (U2 _ p _ Hp Hns).
  set (s3 := flat_map check_capitalization (ann_tags (resolved cS a)) ++ R2 (schema83_group G) (resolved cS a)).
  destruct (any_error (s1 ++ s2 ++ s3)); [reflexivity|].
  (* stage 4 *)
  rewrite (U3 _ p _ Hp Hns).
  destruct (group_rules_own G p Sp (ann_tags (resolved cS a)) HND HL Hsil Hns) as [Q1 Q2].
  change (c_twa cG) with (group_twa G). rewrite Q1, Q2.
  change (c_twa cS Required) with (schema_twa ([], Sp) Required).
  change (c_twa cS Unique) with (schema_twa ([], Sp) Unique).
  unfold schema_twa. simpl. rewrite !map_id. reflexivity.
Qed.

Lemma set_ns_nil r : rt_ns r = [] -> set_ns [] r = r.
Proof. destruct r; simpl; intros ->; reflexivity. Qed.

Theorem unprefixed_equiv_partial G Sp a :
  NoDup (map fst G) -> lookup [] G = Some Sp ->
  schema83_group G = schema83_single Sp ->
  all_unprefixed a ->
  ForeignSilent G [] (ann_tags (resolved (cfg_single ([], Sp)) a)) ->
  verdict (cfg_group G) a = verdict (cfg_single ([], Sp)) a.
Proof.
  intros HND HL Hflag Hun Hsil.
  set (cS := cfg_single ([], Sp)) in *. set (cG := cfg_group G).
  assert (Hrs : resolved cG a = resolved cS a).
  { unfold resolved. apply ann_map_ext_in. eapply Forall_impl; [|exact Hun]. intros t Ht. simpl in Ht.
    exact (f_equal fst (resolve_group_unprefixed G Sp t HL Ht)). }
  assert (Hns : Forall (fun r => rt_ns r = []) (ann_tags (resolved cS a))) by (apply resolved_ns_unprefixed; exact Hun).
  unfold Namespace.verdict. fold (resolved cG a). fold (resolved cS a). rewrite Hrs.
  change (c_flag cG) with (schema83_group G). change (c_flag cS) with (schema83_single Sp). rewrite <- Hflag.
  assert (E3 : flat_map (fun t => snd (resolve_tag cG t)) (ann_tags a) =
               flat_map (fun t => snd (resolve_tag cS t)) (ann_tags a)).
  { apply flat_map_ext_in. eapply Forall_impl; [|exact Hun]. intros t Ht. simpl in Ht.
    exact (f_equal snd (resolve_group_unprefixed G Sp t HL Ht)). }
  rewrite !E3.
  assert (Hmap : map (set_ns []) (ann_tags (resolved cS a)) = ann_tags (resolved cS a)).
  { rewrite <- (map_id (ann_tags (resolved cS a))) at 2. apply map_ext_Forall.
    eapply Forall_impl; [|exact Hns]. intros r Hr. apply set_ns_nil. exact Hr. }
  assert (Hsil' : ForeignSilent G [] (map (set_ns []) (ann_tags (resolved cS a)))) by (rewrite Hmap; exact Hsil).
  destruct (group_rules_own G [] Sp (ann_tags (resolved cS a)) HND HL Hsil' Hns) as [Q1 Q2].
  rewrite Hmap in Q1, Q2.
  change (c_twa cG) with (group_twa G). rewrite Q1, Q2.
  change (c_twa cS Required) with (schema_twa ([], Sp) Required).
  change (c_twa cS Unique) with (schema_twa ([], Sp) Unique).
  unfold schema_twa. simpl. rewrite !map_id. reflexivity.
Qed.

(* -- unknown / malformed prefixes *)

Lemma any_error_app a b : any_error (a ++ b) = any_error a || any_error b.
Proof. unfold any_error. apply existsb_app. Qed.

Lemma any_error_in c l : In c l -> is_error c = true -> any_error l = true.
Proof. intros Hin He. unfold any_error. apply existsb_exists. exists c. split; assumption. Qed.

Lemma in_flat_map_intro {A B} (f : A -> list B) l x y : In x l -> In y (f x) -> In y (flat_map f l).
Proof. intros H1 H2. apply in_flat_map. exists x. split; assumption. Qed.

Theorem bad_prefix_is_error (c : cfg) a t :
  In t (ann_tags a) ->
  (In LibraryUnmatched (snd (resolve_tag c t))
   \/ (get_schema_namespace t <> [] /\ str_isalpha (drop_last (get_schema_namespace t)) = false)) ->
  any_error (verdict c a) = true.
Proof.
  intros Hin Hbad. unfold Namespace.verdict.
  match goal with |- context [if any_error ?s then _ else _] => set (s1 := s) end.
  destruct (any_error s1) eqn:E1; [exact E1|].
  match goal with |- context [if any_error (s1 ++ ?s) then _ else _] => set (s2 := s) end.
  assert (E2 : any_error (s1 ++ s2) = true).
  { rewrite any_error_app. apply orb_true_iff. right. unfold s2.
    destruct Hbad as [Hb | [Hne Hna]].
    - rewrite !any_error_app. apply orb_true_iff. right. apply orb_true_iff. right.
      apply (any_error_in LibraryUnmatched); [|reflexivity].
      apply (in_flat_map_intro _ _ t); assumption.
    - rewrite any_error_app. apply orb_true_iff. left.
      apply (any_error_in PrefixInvalidChars); [|reflexivity].
      apply (in_flat_map_intro _ _ t); [assumption|].
      unfold Namespace.check_invalid_prefix_issues.
      destruct (get_schema_namespace t); [contradiction|]. rewrite Hna. left. reflexivity. }
  rewrite E2. exact E2.
Qed.

Lemma group_unknown_ns_unmatched G t :
  lookup (get_schema_namespace t) G = None -> snd (resolve_tag (cfg_group G) t) = [LibraryUnmatched].
Proof.
  intro H. unfold resolve_tag, cfg_group, c_find, group_find_tag_entry, schema_for_namespace. rewrite H. reflexivity.
Qed.

Lemma single_other_ns_unmatched L t :
  get_schema_namespace t <> fst L -> snd (resolve_tag (cfg_single L) t) = [LibraryUnmatched].
Proof.
  intro H. unfold resolve_tag, cfg_single, c_find, schema_find_tag_entry.
  rewrite (str_eqb_false _ _ H). reflexivity.
Qed.

Theorem unknown_or_bad_prefix_is_error G a t :
  In t (ann_tags a) -> get_schema_namespace t <> [] ->
  (lookup (get_schema_namespace t) G = None \/ str_isalpha (drop_last (get_schema_namespace t)) = false) ->
  any_error (verdict (cfg_group G) a) = true.
Proof.
  intros Hin Hne [H|H]; apply (bad_prefix_is_error _ a t Hin).
  - left. rewrite (group_unknown_ns_unmatched G t H). left. reflexivity.
  - right. split; assumption.
Qed.

Theorem foreign_prefix_single_is_error L a t :
  In t (ann_tags a) -> get_schema_namespace t <> fst L -> any_error (verdict (cfg_single L) a) = true.
Proof.
  intros Hin Hne. apply (bad_prefix_is_error _ a t Hin). left.
  rewrite (single_other_ns_unmatched L t Hne). left. reflexivity.
Qed.

(* a namespace that set_schema_prefix accepts is alphabetic text + ':' *)
Lemma set_schema_prefix_ok ns ns' :
  set_schema_prefix isalpha_c fixed ns = Ok ns' -> ns' = [] \/ (str_isalpha (drop_last ns') = true).
Proof.
  unfold set_schema_prefix. destruct ns as [|c r]; [intro H; injection H as <-; left; reflexivity|].
  set (x := if N.eqb (last (c :: r) 0%N) ch_colon then c :: r else (c :: r) ++ [ch_colon]).
  destruct x as [|d x'] eqn:Ex; [intro H; injection H as <-; left; reflexivity|].
  destruct (Namespace.str_isalpha isalpha_c (drop_last (d :: x'))) eqn:Ea; [|discriminate].
  destruct (negb fixed || is_ascii (d :: x')); [|discriminate].
  intro H. injection H as <-. right. exact Ea.
Qed.

Lemma mk_group_nodup l G : mk_group l = Ok G -> NoDup (map fst G) /\ G <> [].
Proof.
  unfold mk_group. destruct l as [|x l]; [discriminate|].
  destruct (has_dup (map fst (x :: l))) eqn:E; [discriminate|].
  intro H. injection H as <-. split; [apply has_dup_NoDup; exact E | discriminate].
Qed.

End V.

(* ------------------------------------------------------------------ formatting rule under a prefix *)

Lemma fmt_mid_skip_clean p t :
  forallb (fun c => negb (is_sts c)) p = true -> fmt_mid 0 false (p ++ t) = fmt_mid 0 false t.
Proof.
  induction p as [|c p IH]; simpl; intro H; [reflexivity|].
  apply andb_true_iff in H as [H1 H2]. apply negb_true_iff in H1. rewrite H1. simpl. exact (IH H2).
Qed.

(* with a namespace in front, the leading-slash alternative of the pattern can no longer fire *)
Lemma fmt_count_prefixed p t :
  p <> [] -> forallb (fun c => negb (is_sts c)) p = true -> fmt_count (p ++ t) = fmt_mid 0 false t.
Proof.
  intros Hp Hc. destruct p as [|c p]; [contradiction|]. simpl in Hc.
  apply andb_true_iff in Hc as [H1 H2]. apply negb_true_iff in H1.
  unfold fmt_count. cbn [app].
  assert (Hs : N.eqb c ch_slash = false).
  { unfold is_sts in H1. apply orb_false_iff in H1 as [_ H1]. exact H1. }
  rewrite Hs. cbn [fmt_mid]. rewrite H1. simpl. apply fmt_mid_skip_clean. exact H2.
Qed.

(* ------------------------------------------------------------------ version lists *)

Lemma split_ns_eq_dec (x y : str * str) : {x = y} + {x <> y}.
Proof. decide equality; apply (list_eq_dec N.eq_dec). Qed.

Definition od_mem (x : str * str) (d : list (str * list str)) : bool := mem_str (snd x) (od_get (fst x) d).

Lemma mem_str_app x a b : mem_str x (a ++ b) = mem_str x a || mem_str x b.
Proof. induction a as [|y a IH]; simpl; [reflexivity | rewrite IH, orb_assoc; reflexivity]. Qed.

Lemma od_get_append k x d k' :
  od_get k' (od_append k x d) = if str_eqb k' k then od_get k' d ++ [x] else od_get k' d.
Proof.
  induction d as [|[k0 v0] d IH]; simpl.
  - destruct (str_eqb k' k); reflexivity.
  - destruct (str_eqb k k0) eqn:E0; simpl.
    + apply str_eqb_spec in E0. subst k0. destruct (str_eqb k' k); reflexivity.
    + destruct (str_eqb k' k0) eqn:E1.
      * apply str_eqb_spec in E1. subst k0. rewrite str_eqb_sym, E0. reflexivity.
      * exact IH.
Qed.

Lemma od_mem_append k x d y :
  od_mem y (od_append k x d) = od_mem y d || (str_eqb (fst y) k && str_eqb (snd y) x).
Proof.
  unfold od_mem. rewrite od_get_append. destruct (str_eqb (fst y) k); simpl.
  - rewrite mem_str_app. simpl. rewrite orb_false_r. reflexivity.
  - rewrite orb_false_r. reflexivity.
Qed.

Lemma pair_eqb_spec (x y : str * str) : (str_eqb (fst y) (fst x) && str_eqb (snd y) (snd x)) = true <-> y = x.
Proof.
  destruct x, y. simpl. rewrite andb_true_iff, !str_eqb_spec. split; [intros [-> ->]; reflexivity | intro H; inversion H; auto].
Qed.

Lemma pvl_loop_only_dup l out e : pvl_loop l out = LErr e -> e = SCHEMA_DUPLICATE_LIBRARY.
Proof.
  revert out. induction l as [|v l IH]; simpl; intros out H; [discriminate|].
  destruct (split_ns v) as [ns ver]. destruct (mem_str ver (od_get ns out)); [congruence | eapply IH; exact H].
Qed.

(* the loop fails exactly when an element is already recorded or occurs twice *)
Lemma pvl_loop_spec l : forall out,
  (exists d, pvl_loop l out = LOk d) <->
  (NoDup (map split_ns l) /\ Forall (fun v => od_mem (split_ns v) out = false) l).
Proof.
  induction l as [|v l IH]; intro out; simpl.
  - split; [intros _; split; constructor | intros _; eexists; reflexivity].
  - destruct (split_ns v) as [ns ver] eqn:Ev.
    change (mem_str ver (od_get ns out)) with (od_mem (ns, ver) out).
    destruct (od_mem (ns, ver) out) eqn:Em.
    + split; [intros [d Hd]; discriminate|]. intros [_ HF]. inversion HF as [|? ? Hv ?]; subst. rewrite Ev in Hv. congruence.
    + rewrite (IH (od_append ns ver out)). split.
      * intros [HND HF]. split; [|constructor; [rewrite Ev; exact Em|]].
        -- constructor; [|exact HND]. intro Hin. apply in_map_iff in Hin as [w [Hw Hinw]].
           rewrite Forall_forall in HF. specialize (HF w Hinw). rewrite od_mem_append in HF.
           apply orb_false_iff in HF as [_ HF]. rewrite Hw in HF. simpl in HF. rewrite !str_eqb_refl in HF. discriminate.
        -- apply Forall_forall. intros w Hinw. rewrite Forall_forall in HF. specialize (HF w Hinw).
           rewrite od_mem_append in HF. apply orb_false_iff in HF as [HF _]. exact HF.
      * intros [HND HF]. inversion HND as [|? ? Hnin HND']; subst. inversion HF as [|? ? _ HF']; subst.
        split; [exact HND'|]. apply Forall_forall. intros w Hinw. rewrite od_mem_append.
        rewrite Forall_forall in HF'. rewrite (HF' w Hinw). simpl.
        destruct (str_eqb (fst (split_ns w)) ns && str_eqb (snd (split_ns w)) ver) eqn:Eq; [|reflexivity].
        exfalso. apply Hnin. apply (pair_eqb_spec (ns, ver) (split_ns w)) in Eq. rewrite <- Eq.
        apply in_map. exact Hinw.
Qed.

Lemma pvl_loop_nil_spec l : (exists d, pvl_loop l [] = LOk d) <-> NoDup (map split_ns l).
Proof.
  rewrite pvl_loop_spec. split; [tauto|]. intro H. split; [exact H|].
  apply Forall_forall. intros v _. unfold od_mem. simpl. reflexivity.
Qed.

Theorem parse_version_list_refuses_iff l :
  parse_version_list l = LErr SCHEMA_DUPLICATE_LIBRARY <-> ~ NoDup (map split_ns l).
Proof.
  unfold parse_version_list. split.
  - intros H HND. apply pvl_loop_nil_spec in HND as [d Hd]. rewrite Hd in H. discriminate.
  - intro HN. destruct (pvl_loop l []) as [d|e] eqn:E.
    + exfalso. apply HN. apply pvl_loop_nil_spec. exists d. exact E.
    + simpl. rewrite (pvl_loop_only_dup _ _ _ E). reflexivity.
Qed.

Theorem same_library_twice_refused isalpha_c fixed rp l1 v l2 v' l3 :
  split_ns v = split_ns v' ->
  parse_version_list (l1 ++ v :: l2 ++ v' :: l3) = LErr SCHEMA_DUPLICATE_LIBRARY /\
  load_schema_version isalpha_c fixed rp (l1 ++ v :: l2 ++ v' :: l3) = LErr SCHEMA_DUPLICATE_LIBRARY.
Proof.
  intro Heq.
  assert (H : parse_version_list (l1 ++ v :: l2 ++ v' :: l3) = LErr SCHEMA_DUPLICATE_LIBRARY).
  { apply parse_version_list_refuses_iff. rewrite map_app. simpl. rewrite map_app. simpl. intro HND.
    apply NoDup_remove_2 in HND. apply HND. apply in_or_app. right. apply in_or_app. right. left.
    symmetry. exact Heq. }
  split; [exact H|]. unfold load_schema_version. rewrite H.
  destruct (l1 ++ v :: l2 ++ v' :: l3) eqn:E; [destruct l1; discriminate | reflexivity].
Qed.

Theorem distinct_versions_parse l : NoDup (map split_ns l) -> exists d, parse_version_list l = LOk d.
Proof.
  intro H. apply pvl_loop_nil_spec in H as [d Hd]. unfold parse_version_list. rewrite Hd. eexists. reflexivity.
Qed.

(* ------------------------------------------------------------------ tag tables: clashes and the partner merge *)

Lemma strs_eqb_spec a b : strs_eqb a b = true <-> a = b.
Proof.
  revert b. induction a as [|x a IH]; destruct b as [|y b]; simpl; split; intro H; try reflexivity; try discriminate.
  - apply andb_true_iff in H as [H1 H2]. apply str_eqb_spec in H1. apply IH in H2. congruence.
  - inversion H; subst. rewrite str_eqb_refl. simpl. apply IH. reflexivity.
Qed.

Lemma strs_eqb_refl a : strs_eqb a a = true.
Proof. apply strs_eqb_spec. reflexivity. Qed.

Definition has_key (k : key) (T : table) : bool :=
  match km_get k (t_keys T) with Some _ => true | None => false end.

(* the bucketed map behaves like one association list with the new bindings in front *)
Lemma km_get_bucket_add k b kvs M :
  km_get k (bucket_add b kvs M) =
    if str_eqb (bid k) b then match key_lookup k kvs with Some v => Some v | None => km_get k M end
    else km_get k M.
Proof.
  unfold km_get. induction M as [|[b' l] M IH]; simpl.
  - destruct (str_eqb (bid k) b); [destruct (key_lookup k kvs); reflexivity | reflexivity].
  - destruct (str_eqb b b') eqn:Eb; simpl.
    + apply str_eqb_spec in Eb. subst b'. destruct (str_eqb (bid k) b) eqn:Ek; [|reflexivity].
      clear IH. induction kvs as [|[k0 v0] kvs IHk]; simpl; [reflexivity|].
      destruct (strs_eqb k k0); [reflexivity | exact IHk].
    + destruct (str_eqb (bid k) b') eqn:Ek'.
      * destruct (str_eqb (bid k) b) eqn:Ek; [|reflexivity].
        apply str_eqb_spec in Ek, Ek'. subst. rewrite str_eqb_refl in Eb. discriminate.
      * exact IH.
Qed.

Lemma key_lookup_app k l1 l2 :
  key_lookup k (l1 ++ l2) = match key_lookup k l1 with Some v => Some v | None => key_lookup k l2 end.
Proof.
  induction l1 as [|[k' v] l1 IH]; simpl; [reflexivity|]. destruct (strs_eqb k k'); [reflexivity | exact IH].
Qed.

Lemma key_lookup_not_in k (fs : list key) e :
  ~ In k fs -> key_lookup k (rev (map (fun f => (f, e)) fs)) = None.
Proof.
  intro H. rewrite <- map_rev. assert (H' : ~ In k (rev fs)) by (rewrite <- in_rev; exact H).
  induction (rev fs) as [|f r IH]; simpl; [reflexivity|].
  destruct (strs_eqb k f) eqn:E.
  - apply strs_eqb_spec in E. subst. exfalso. apply H'. left. reflexivity.
  - apply IH. intro Hin. apply H'. right. exact Hin.
Qed.

Lemma key_lookup_in k (fs : list key) e :
  In k fs -> key_lookup k (rev (map (fun f => (f, e)) fs)) = Some e.
Proof.
  intro H. rewrite <- map_rev. assert (H' : In k (rev fs)) by (rewrite <- in_rev; exact H).
  induction (rev fs) as [|f r IH]; simpl; [contradiction|].
  destruct (strs_eqb k f) eqn:E; [reflexivity|].
  destruct H' as [->|Hin]; [rewrite strs_eqb_refl in E; discriminate | exact (IH Hin)].
Qed.

(* what identifies the forms of a name: the last component, or the last two when the last is "#" *)
Definition tail_id (k : key) : key :=
  match rev k with
  | x :: y :: _ => if str_eqb x hash_comp then [y; x] else [x]
  | [x] => [x]
  | [] => []
  end.

Lemma tails_ne_spec {A} (l s : list A) : In s (tails_ne l) <-> s <> [] /\ exists p, l = p ++ s.
Proof.
  induction l as [|x l IH]; simpl.
  - split; [contradiction|]. intros [Hne [p Hp]]. destruct p, s; try discriminate. congruence.
  - split.
    + intros [<-|Hin]; [split; [discriminate | exists []; reflexivity]|].
      apply IH in Hin as [Hne [p ->]]. split; [exact Hne | exists (x :: p); reflexivity].
    + intros [Hne [p Hp]]. destruct p as [|y p]; simpl in Hp; [left; congruence|].
      injection Hp as -> ->. right. apply IH. split; [exact Hne | exists p; reflexivity].
Qed.

Lemma tail_id_suffix (p s : key) :
  s <> [] -> s <> [hash_comp] -> tail_id (p ++ s) = tail_id s.
Proof.
  intros Hne Hh. unfold tail_id. rewrite rev_app_distr.
  destruct (rev s) as [|x [|y r]] eqn:Er.
  - exfalso. apply Hne. apply (f_equal (@rev str)) in Er. rewrite rev_involutive in Er. exact Er.
  - assert (Hs : s = [x]) by (apply (f_equal (@rev str)) in Er; rewrite rev_involutive in Er; exact Er).
    simpl. destruct (rev p) as [|z r']; [reflexivity|].
    destruct (str_eqb x hash_comp) eqn:Ex; [|reflexivity].
    exfalso. apply Hh. apply str_eqb_spec in Ex. subst x. exact Hs.
  - simpl. reflexivity.
Qed.

(* all forms under which a name is registered share its tail_id *)
Lemma forms_tail_id (k f : key) : In f (snd (tag_forms k)) -> tail_id f = tail_id k.
Proof.
  unfold tag_forms. cbn [snd]. intro Hin. apply filter_In in Hin as [Hin Hf].
  apply tails_ne_spec in Hin as [Hne [p ->]]. symmetry. apply tail_id_suffix; [exact Hne|].
  intro Heq. subst f. cbv in Hf. discriminate.
Qed.

Lemma bid_tail_id (k : key) : bid k = hd [] (tail_id k).
Proof.
  unfold bid, tail_id, hash_comp. destruct (rev k) as [|x [|y r]]; [reflexivity | reflexivity |].
  destruct (str_eqb x [ch_hash]); reflexivity.
Qed.

Lemma forms_bid (k f : key) : In f (snd (tag_forms k)) -> bid f = bid k.
Proof. intro H. rewrite !bid_tail_id, (forms_tail_id k f H). reflexivity. Qed.

Lemma add_tag_other k T e :
  tail_id k <> tail_id (key_of (en_name e)) -> km_get k (t_keys (add_tag T e)) = km_get k (t_keys T).
Proof.
  intro Hd. unfold add_tag. destruct (tag_forms (key_of (en_name e))) as [short forms] eqn:Ef.
  destruct (km_get short (t_keys T)); [reflexivity|]. cbn [t_keys].
  rewrite km_get_bucket_add. destruct (str_eqb (bid k) (bid (key_of (en_name e)))); [|reflexivity].
  rewrite key_lookup_not_in; [reflexivity|].
  intro Hin. apply Hd. apply forms_tail_id. rewrite Ef. exact Hin.
Qed.

(* the partner merge at the level of tag tables: entries whose names do not collide with a standard
   name leave every standard lookup -- by long, intermediate or short form -- exactly as it was *)
Theorem merge_keeps_standard es : forall B k x,
  km_get k (t_keys B) = Some x ->
  Forall (fun e => tail_id (key_of (en_name e)) <> tail_id k) es ->
  km_get k (t_keys (fold_left add_tag es B)) = Some x.
Proof.
  induction es as [|e es IH]; intros B k x HB HF; simpl; [exact HB|].
  inversion HF as [|? ? He HF']; subst. apply IH; [|exact HF'].
  rewrite add_tag_other; [exact HB | intro Heq; apply He; symmetry; exact Heq].
Qed.

(* keys and recorded duplicates only grow *)
Lemma add_tag_has_key_mono k T e : has_key k T = true -> has_key k (add_tag T e) = true.
Proof.
  unfold has_key, add_tag. destruct (tag_forms (key_of (en_name e))) as [short forms].
  destruct (km_get short (t_keys T)); cbn [t_keys]; [auto|].
  rewrite km_get_bucket_add. destruct (str_eqb (bid k) (bid (key_of (en_name e)))); [|auto].
  destruct (key_lookup k (rev (map (fun f => (f, e)) forms))); auto.
Qed.

Lemma add_tag_dups_mono T e : t_dups T <> [] -> t_dups (add_tag T e) <> [].
Proof.
  unfold add_tag. destruct (tag_forms (key_of (en_name e))) as [short forms].
  destruct (km_get short (t_keys T)); cbn [t_dups]; [|auto].
  intros H Happ. apply app_eq_nil in Happ as [Happ _]. contradiction.
Qed.

Lemma fold_dups_mono es : forall T, t_dups T <> [] -> t_dups (fold_left add_tag es T) <> [].
Proof. induction es as [|e es IH]; intros T H; simpl; [exact H | apply IH, add_tag_dups_mono, H]. Qed.

Lemma fold_has_key_mono es : forall T k, has_key k T = true -> has_key k (fold_left add_tag es T) = true.
Proof. induction es as [|e es IH]; intros T k H; simpl; [exact H | apply IH, add_tag_has_key_mono, H]. Qed.

Definition last_key (e : entry) : key := fst (tag_forms (key_of (en_name e))).

(* a name whose last component is already registered is recorded as a duplicate *)
Lemma add_tag_clash T e : has_key (last_key e) T = true -> t_dups (add_tag T e) <> [].
Proof.
  unfold has_key, last_key, add_tag. destruct (tag_forms (key_of (en_name e))) as [short forms]. cbn [fst].
  destruct (km_get short (t_keys T)); [|discriminate]. intros _. cbn [t_dups].
  destruct (mem_key short (t_dups T)) eqn:Em.
  - rewrite app_nil_r. intro Hn. rewrite Hn in Em. discriminate.
  - intro Happ. apply app_eq_nil in Happ as [_ Happ]. discriminate.
Qed.

Lemma last_in_forms (k : key) x :
  rev k = x :: tl (rev k) -> x <> hash_comp -> In [x] (snd (tag_forms k)).
Proof.
  intros Hr Hx. unfold tag_forms. cbn [snd]. apply filter_In. split.
  - apply tails_ne_spec. split; [discriminate|]. exists (rev (tl (rev k))).
    rewrite <- (rev_involutive k) at 1. rewrite Hr. simpl. reflexivity.
  - simpl. rewrite (str_eqb_false _ _ Hx). reflexivity.
Qed.

(* after registration the last component of an ordinary (non-"#") name is a key *)
Lemma add_tag_registers T e x :
  last_key e = [x] -> x <> hash_comp -> has_key [x] (add_tag T e) = true.
Proof.
  intros Hl Hx. unfold last_key in Hl.
  assert (Hin : In [x] (snd (tag_forms (key_of (en_name e))))).
  { apply last_in_forms; [|exact Hx]. unfold tag_forms in Hl. cbn [fst] in Hl.
    destruct (rev (key_of (en_name e))) as [|y r]; [discriminate|]. injection Hl as ->. reflexivity. }
  unfold has_key, add_tag. destruct (tag_forms (key_of (en_name e))) as [short forms] eqn:Ef.
  cbn [fst snd] in *. subst short.
  destruct (km_get [x] (t_keys T)) eqn:E; cbn [t_keys]; [rewrite E; reflexivity|].
  rewrite km_get_bucket_add.
  assert (Hb : bid [x] = bid (key_of (en_name e))) by (apply forms_bid; rewrite Ef; exact Hin).
  rewrite Hb, str_eqb_refl, (key_lookup_in _ _ _ Hin). reflexivity.
Qed.

(* two names with the same last component can never be loaded into one table silently *)
Theorem same_prefix_clash_recorded T es1 e1 es2 e2 es3 x :
  last_key e1 = [x] -> last_key e2 = [x] -> x <> hash_comp ->
  t_dups (fold_left add_tag (es1 ++ e1 :: es2 ++ e2 :: es3) T) <> [].
Proof.
  intros H1 H2 Hx. rewrite fold_left_app. simpl. rewrite fold_left_app. simpl.
  apply fold_dups_mono. apply add_tag_clash. rewrite H2. apply fold_has_key_mono.
  apply add_tag_registers; assumption.
Qed.

Theorem load_rest_clash_refused isalpha_c fixed rp v rest ns first L :
  load_sub isalpha_c fixed rp v ns (Some first) = LOk L -> t_dups (l_table L) <> [] ->
  load_rest isalpha_c fixed rp (v :: rest) ns first = LErr SCHEMA_DUPLICATE_NAMES.
Proof.
  intros HL Hd. simpl. rewrite HL. simpl. destruct (t_dups (l_table L)); [contradiction | reflexivity].
Qed.

(* tables built by registration: an ordinary key always has its last component registered too *)
Definition KeyInv (T : table) : Prop :=
  forall k x, has_key k T = true -> rev k = x :: tl (rev k) -> x <> hash_comp -> has_key [x] T = true.

Lemma has_key_add_cases k T e :
  has_key k (add_tag T e) = true ->
  has_key k T = true \/ (In k (snd (tag_forms (key_of (en_name e)))) /\ has_key (last_key e) T = false).
Proof.
  unfold has_key, last_key, add_tag. destruct (tag_forms (key_of (en_name e))) as [short forms] eqn:Ef. cbn [fst snd].
  destruct (km_get short (t_keys T)) eqn:Es; cbn [t_keys]; [auto|].
  rewrite km_get_bucket_add. destruct (in_dec (list_eq_dec (list_eq_dec N.eq_dec)) k forms) as [Hin|Hnin].
  - intros _. right. split; [exact Hin | reflexivity].
  - rewrite (key_lookup_not_in _ _ _ Hnin). destruct (str_eqb (bid k) (bid (key_of (en_name e)))); auto.
Qed.

Lemma rev_suffix_head (p f : key) x : f <> [] -> rev (p ++ f) = x :: tl (rev (p ++ f)) -> rev f = x :: tl (rev f).
Proof.
  intros Hne. rewrite rev_app_distr. destruct (rev f) as [|y r] eqn:Er.
  - exfalso. apply Hne. apply (f_equal (@rev str)) in Er. rewrite rev_involutive in Er. exact Er.
  - simpl. intro H. injection H as ->. reflexivity.
Qed.

Lemma KeyInv_add T e : KeyInv T -> KeyInv (add_tag T e).
Proof.
  intros HI k x Hk Hr Hx. destruct (has_key_add_cases k T e Hk) as [Hold | [Hin Hnew]].
  - apply add_tag_has_key_mono. exact (HI k x Hold Hr Hx).
  - apply add_tag_registers; [|exact Hx]. unfold last_key, tag_forms. cbn [fst].
    unfold tag_forms in Hin. cbn [snd] in Hin. apply filter_In in Hin as [Hin _].
    apply tails_ne_spec in Hin as [Hne [p Hp]]. rewrite Hp.
    rewrite rev_app_distr. rewrite Hr. reflexivity.
Qed.

Lemma KeyInv_empty : KeyInv empty_table.
Proof. intros k x H. unfold has_key in H. simpl in H. discriminate. Qed.

Lemma KeyInv_fold es : forall T, KeyInv T -> KeyInv (fold_left add_tag es T).
Proof. induction es as [|e es IH]; intros T H; simpl; [exact H | apply IH, KeyInv_add, H]. Qed.

Lemma KeyInv_build nodes : KeyInv (build_table nodes).
Proof.
  unfold build_table. assert (H : forall T, KeyInv T -> KeyInv (fold_left (fun T n => add_tag T (entry_of_tagdef n)) nodes T)).
  { induction nodes as [|n nodes IH]; intros T HT; simpl; [exact HT | apply IH, KeyInv_add, HT]. }
  apply H, KeyInv_empty.
Qed.

Lemma tail_id_ordinary (k : key) x : rev k = x :: tl (rev k) -> x <> hash_comp -> tail_id k = [x].
Proof.
  intros Hr Hx. unfold tail_id. rewrite Hr. destruct (tl (rev k)); [reflexivity|].
  rewrite (str_eqb_false _ _ Hx). reflexivity.
Qed.

Lemma last_key_tail_id e x : last_key e = [x] -> x <> hash_comp -> tail_id (key_of (en_name e)) = [x].
Proof.
  unfold last_key, tag_forms. cbn [fst]. intros Hl Hx.
  destruct (rev (key_of (en_name e))) as [|y r] eqn:Er; [discriminate|]. injection Hl as ->.
  apply tail_id_ordinary; [rewrite Er; reflexivity | exact Hx].
Qed.

Lemma tail_id_last_key e x : tail_id (key_of (en_name e)) = [x] -> x <> hash_comp -> last_key e = [x].
Proof.
  unfold tail_id, last_key, tag_forms. cbn [fst]. intros Ht Hx.
  destruct (rev (key_of (en_name e))) as [|y [|z r]]; [discriminate | exact Ht |].
  destruct (str_eqb y hash_comp); [discriminate | exact Ht].
Qed.

(* A partnered table contains every ordinary standard name with its entry unchanged, or the load
   has recorded a name clash (which has_duplicates / check_compliance report). *)
Theorem standard_kept_or_clash es : forall B k x v,
  KeyInv B -> km_get k (t_keys B) = Some v -> rev k = x :: tl (rev k) -> x <> hash_comp ->
  km_get k (t_keys (fold_left add_tag es B)) = Some v \/ t_dups (fold_left add_tag es B) <> [].
Proof.
  induction es as [|e es IH]; intros B k x v HI HB Hr Hx; simpl; [left; exact HB|].
  destruct (list_eq_dec (list_eq_dec N.eq_dec) (tail_id (key_of (en_name e))) (tail_id k)) as [Heq|Hne].
  - right. apply fold_dups_mono. apply add_tag_clash.
    rewrite (tail_id_ordinary k x Hr Hx) in Heq. rewrite (tail_id_last_key e x Heq Hx).
    apply (HI k x); [unfold has_key; rewrite HB; reflexivity | exact Hr | exact Hx].
  - apply (IH (add_tag B e) k x v); [apply KeyInv_add; exact HI | | exact Hr | exact Hx].
    rewrite add_tag_other; [exact HB | intro H; apply Hne; symmetry; exact H].
Qed.

(* ------------------------------------------------------------------ discharging ForeignSilent *)

Lemma prefixb_incomparable a : forall b x, prefixb a b = false -> prefixb b a = false -> prefixb a (b ++ x) = false.
Proof.
  induction a as [|c a IH]; intros b x H1 H2; [destruct b; discriminate|].
  destruct b as [|d b]; [discriminate|]. simpl in *.
  destruct (N.eqb c d) eqn:E; simpl in *; [|reflexivity].
  assert (E' : N.eqb d c = true) by (apply N.eqb_eq in E; subst; apply N.eqb_refl).
  rewrite E' in H2. simpl in H2. apply IH; assumption.
Qed.

Section Silent.
Variable foldc : N -> N.

Lemma long_tag_starts_ns r : exists x, long_tag r = rt_ns r ++ x.
Proof. unfold long_tag. destruct (rt_entry r); eexists; reflexivity. Qed.

Lemma count_true_all_false {A} (f : A -> bool) l : Forall (fun x => f x = false) l -> count_true (map f l) = 0.
Proof. induction 1 as [|x l Hx _ IH]; simpl; [reflexivity|]. unfold count_true in *. simpl. rewrite Hx. exact IH. Qed.

(* Sufficient and checkable on data: the other schemas have no required tags, and each of their unique
   names, written with its namespace, is incomparable (after case folding) with the namespace p. *)
Theorem foreign_silent_incomparable (G : group) p tags :
  Forall (fun r => rt_ns r = p) tags ->
  (forall q Sq, In (q, Sq) G -> q <> p ->
     s_twa Sq Required = [] /\
     Forall (fun u => prefixb (fold foldc (q ++ u)) (fold foldc p) = false /\
                      prefixb (fold foldc p) (fold foldc (q ++ u)) = false) (s_twa Sq Unique)) ->
  ForeignSilent foldc G p tags.
Proof.
  intros Hns H q Sq Hin Hq. destruct (H q Sq Hin Hq) as [Hreq Huni]. split.
  - unfold schema_twa. simpl. rewrite Hreq. reflexivity.
  - unfold check_unique, schema_twa. simpl. rewrite flat_map_map. apply flat_map_nil.
    eapply Forall_impl; [|exact Huni]. intros u [H1 H2]. simpl.
    rewrite count_true_all_false; [reflexivity|].
    eapply Forall_impl; [|exact Hns]. intros r Hr. simpl in Hr.
    unfold starts_with_fold. destruct (long_tag_starts_ns r) as [x ->]. rewrite Hr.
    unfold fold in *. rewrite (map_app foldc p x). apply prefixb_incomparable; assumption.
Qed.
End Silent.

(* ------------------------------------------------------------------ the code after the repairs (fixed = true) *)

Definition is_ascii_letter (c : N) : bool := ((65 <=? c) && (c <=? 90) || (97 <=? c) && (c <=? 122))%N.

(* a namespace the repaired set_schema_prefix accepts: ASCII letters followed by ':' *)
Definition ns_ok (p : str) : Prop :=
  exists q, p = q ++ [ch_colon] /\ q <> [] /\ forallb is_ascii_letter q = true.

(* the remainder a resolver returns is part of the text it was given *)
Definition FindFits (Sp : sch) : Prop :=
  forall t e r iss, s_find Sp t = (e, Some r, iss) -> length r <= length t.

Lemma letter_cases c : is_ascii_letter c = true -> (65 <= c <= 90 \/ 97 <= c <= 122)%N.
Proof.
  unfold is_ascii_letter. intro H. apply orb_true_iff in H as [H|H];
    apply andb_true_iff in H as [H1 H2]; apply N.leb_le in H1, H2; [left | right]; split; assumption.
Qed.

Lemma ns_ok_wf p : ns_ok p -> wf_ns p.
Proof.
  intros [q [-> [_ Hq]]]. exists q. split; [reflexivity|]. unfold no_cs.
  induction q as [|c q IH]; simpl in *; [reflexivity|].
  apply andb_true_iff in Hq as [Hc Hq]. rewrite (IH Hq), andb_true_r.
  apply letter_cases in Hc. unfold ch_colon, ch_slash.
  destruct (N.eqb_spec c 58); [lia|]. destruct (N.eqb_spec c 47); [lia|]. reflexivity.
Qed.

Lemma drop_last_snoc (q : str) c : drop_last (q ++ [c]) = q.
Proof.
  unfold drop_last. rewrite app_length. simpl. replace (length q + 1 - 1) with (length q) by lia.
  apply firstn_app_exact.
Qed.

Lemma prefixb_app_self p x : prefixb p (p ++ x) = true.
Proof. induction p as [|c p IH]; simpl; [reflexivity | rewrite N.eqb_refl; exact IH]. Qed.

Section Fixed.
Variable isalpha_c isprint_c : N -> bool.
Variable foldc titlec lowerc : N -> N.
Variable R1 R2 R3 : bool -> ann rtag -> list code.
(* what the theorems need to know about the Unicode tables (checked on CPython's tables in NamespaceData.v) *)
Hypothesis HA : forall c, is_ascii_letter c = true -> isalpha_c c = true.
Hypothesis HP : forall c, (32 <= c <= 126)%N -> isprint_c c = true.

Lemma ns_ok_alpha p : ns_ok p -> str_isalpha isalpha_c (drop_last p) = true.
Proof.
  intros [q [-> [Hne Hq]]]. rewrite drop_last_snoc. unfold str_isalpha. destruct q as [|c q]; [contradiction|].
  clear Hne. induction (c :: q) as [|d l IH]; simpl in *; [reflexivity|].
  apply andb_true_iff in Hq as [Hd Hl]. rewrite (HA d Hd), (IH Hl). reflexivity.
Qed.

Lemma char_issue_clean flag c :
  (is_ascii_letter c = true \/ c = ch_colon) -> char_issue isprint_c flag c = [].
Proof.
  intro H.
  assert (Hb : (32 <= c <= 126)%N /\ c <> 91%N /\ c <> 93%N /\ c <> 123%N /\ c <> 125%N /\ c <> 126%N).
  { destruct H as [H| ->]; [apply letter_cases in H; lia | unfold ch_colon; lia]. }
  destruct Hb as [Hr [H1 [H2 [H3 [H4 H5]]]]].
  unfold char_issue, mem_char, invalid_string_chars. simpl existsb.
  destruct (N.eqb_spec c 91); [contradiction|]. destruct (N.eqb_spec c 93); [contradiction|].
  destruct (N.eqb_spec c 123); [contradiction|]. destruct (N.eqb_spec c 125); [contradiction|].
  destruct (N.eqb_spec c 126); [contradiction|]. simpl.
  destruct flag.
  - rewrite (HP c Hr). reflexivity.
  - replace (127 <? c)%N with false by (symmetry; apply N.ltb_ge; lia). reflexivity.
Qed.

Lemma ns_ok_chars flag p : ns_ok p -> char_issues isprint_c flag p = [].
Proof.
  intros [q [-> [_ Hq]]]. unfold char_issues. rewrite flat_map_app. simpl.
  rewrite (char_issue_clean flag ch_colon (or_intror eq_refl)). rewrite app_nil_r.
  apply flat_map_nil. apply Forall_forall. intros c Hc. apply char_issue_clean. left.
  rewrite forallb_forall in Hq. exact (Hq c Hc).
Qed.

(* C13-F2 repaired: the slash pattern sees the same text with and without the namespace *)
Lemma fmt_fixed_neutral p t :
  wf_ns p -> get_schema_namespace t = [] ->
  check_tag_formatting true (p ++ t) = check_tag_formatting true t.
Proof.
  intros Hp Ht. unfold check_tag_formatting. rewrite (ns_of_wf p t Hp), skipn_app_exact, Ht. reflexivity.
Qed.

(* C13-F3 repaired: the capitalisation rule sees the same names with and without the namespace *)
Lemma cap_fixed_neutral p r :
  p <> [] -> rt_ns r = [] -> length (ext_value r) <= length (rt_body r) ->
  check_capitalization titlec lowerc true (set_ns p r) = check_capitalization titlec lowerc true r.
Proof.
  intros Hp Hn Hfit. unfold check_capitalization.
  assert (E : cap_base true (set_ns p r) = cap_base true r); [|rewrite E; reflexivity].
  destruct r as [ns body e rem]. simpl in Hn. subst ns. unfold cap_base, set_ns, org_base_tag. cbn [rt_ns rt_body rt_entry rt_rem].
  destruct p as [|c p']; [contradiction|]. set (p := c :: p') in *.
  cbn [app]. change (c :: p' ++ body) with (p ++ body).
  destruct e as [e|].
  - unfold ext_value in *. cbn [rt_rem rt_body] in *. set (ext := match rem with Some x => x | None => [] end) in *.
    destruct (Nat.eqb (length ext) 0) eqn:E0.
    + rewrite prefixb_app_self, skipn_app_exact. reflexivity.
    + destruct (Nat.eqb (length (p ++ body)) (length ext)) eqn:E1.
      * apply Nat.eqb_eq in E1. rewrite app_length in E1. unfold p in E1. simpl in E1. lia.
      * rewrite app_length.
        replace (length p + length body - length ext) with (length p + (length body - length ext)) by lia.
        rewrite firstn_app_2, prefixb_app_self, skipn_app_exact.
        destruct (Nat.eqb (length body) (length ext)) eqn:E2; [|reflexivity].
        apply Nat.eqb_eq in E2. rewrite E2, Nat.sub_diag. reflexivity.
  - rewrite prefixb_app_self, skipn_app_exact. reflexivity.
Qed.

(* Clause 1 of the property for the code as it is now: no condition on slashes, capitalisation or the
   characters of the namespace is left.  What remains explicit: the group and p's schema use the same
   character-rule generation (C13-F1), and the other schemas contribute no matching required/unique names. *)
Theorem prefixed_equiv G p Sp a :
  RUniform R1 -> RUniform R2 -> RUniform R3 ->
  NoDup (map fst G) -> lookup p G = Some Sp -> ns_ok p -> FindFits Sp ->
  schema83_group G = schema83_single Sp ->
  all_unprefixed a ->
  ForeignSilent foldc G p (map (set_ns p) (ann_tags (resolved (cfg_single ([], Sp)) a))) ->
  verdict isalpha_c isprint_c foldc titlec lowerc true R1 R2 R3 (cfg_group G) (prefix_ann p a) =
  verdict isalpha_c isprint_c foldc titlec lowerc true R1 R2 R3 (cfg_single ([], Sp)) a.
Proof.
  intros U1 U2 U3 HND HL Hok Hfit Hflag Hun Hsil.
  pose proof (ns_ok_wf p Hok) as Hp.
  apply prefixed_equiv_gen; try assumption.
  - apply ns_ok_alpha. exact Hok.
  - apply ns_ok_chars. exact Hok.
  - eapply Forall_impl; [|exact Hun]. intros t Ht. simpl in Ht. apply fmt_fixed_neutral; assumption.
  - unfold resolved. rewrite ann_tags_map. apply Forall_map.
    eapply Forall_impl; [|exact Hun]. intros t Ht. simpl in Ht.
    rewrite (resolve_single_unprefixed Sp t Ht).
    destruct (s_find Sp t) as [[e rem] iss] eqn:Ef. cbn [fst].
    apply cap_fixed_neutral; [apply wf_ns_nonempty; exact Hp | reflexivity |].
    unfold ext_value. cbn [rt_rem rt_body]. destruct rem as [r|]; [exact (Hfit t e r iss Ef) | simpl; lia].
Qed.

(* the namespaces the repaired loader can put on a schema are exactly of this shape *)
Hypothesis HC : forall c, isalpha_c c = true -> (c <= 127)%N -> is_ascii_letter c = true.

Theorem loaded_namespace_ok ns ns' :
  set_schema_prefix isalpha_c true ns = Ok ns' -> ns' = [] \/ ns_ok ns'.
Proof.
  unfold set_schema_prefix. destruct ns as [|c r]; [intro H; injection H as <-; left; reflexivity|].
  set (x := if N.eqb (last (c :: r) 0%N) ch_colon then c :: r else (c :: r) ++ [ch_colon]).
  assert (Hx : exists q, x = q ++ [ch_colon]).
  { unfold x. destruct (N.eqb (last (c :: r) 0%N) ch_colon) eqn:El.
    - apply N.eqb_eq in El. exists (removelast (c :: r)). rewrite <- El. apply app_removelast_last. discriminate.
    - exists (c :: r). reflexivity. }
  destruct Hx as [q Hq]. rewrite Hq.
  destruct (q ++ [ch_colon]) as [|d x'] eqn:Ex; [destruct q; discriminate|]. rewrite <- Ex.
  rewrite drop_last_snoc. simpl negb. rewrite orb_false_l.
  destruct (str_isalpha isalpha_c q) eqn:Ea; [|discriminate].
  destruct (is_ascii (q ++ [ch_colon])) eqn:Eas; [|discriminate].
  intro H. injection H as <-. right. exists q. split; [reflexivity|].
  unfold str_isalpha in Ea. destruct q as [|e q']; [discriminate|]. split; [discriminate|].
  unfold is_ascii in Eas. rewrite forallb_app in Eas. apply andb_true_iff in Eas as [Eas _].
  rewrite forallb_forall in *. intros y Hy. apply HC; [apply Ea; exact Hy|]. apply N.leb_le. apply Eas. exact Hy.
Qed.
End Fixed.

(* ------------------------------------------------------------------ record: the code before the repairs *)

(* what could be proved of the unrepaired code (fixed = false): the same equivalence, but only for annotations on
   which the slash pattern and the capitalisation rule happen to agree, and namespaces whose characters pass *)
Theorem prefixed_equiv_partial isalpha_c isprint_c foldc titlec lowerc R1 R2 R3 G p Sp a :
  RUniform R1 -> RUniform R2 -> RUniform R3 ->
  NoDup (map fst G) -> lookup p G = Some Sp -> wf_ns p -> str_isalpha isalpha_c (drop_last p) = true ->
  schema83_group G = schema83_single Sp ->
  char_issues isprint_c (schema83_group G) p = [] ->
  all_unprefixed a ->
  Forall (fun t => fmt_count (p ++ t) = fmt_count t) (ann_tags a) ->
  Forall (fun r => check_capitalization titlec lowerc false (set_ns p r) = check_capitalization titlec lowerc false r)
         (ann_tags (resolved (cfg_single ([], Sp)) a)) ->
  ForeignSilent foldc G p (map (set_ns p) (ann_tags (resolved (cfg_single ([], Sp)) a))) ->
  verdict isalpha_c isprint_c foldc titlec lowerc false R1 R2 R3 (cfg_group G) (prefix_ann p a) =
  verdict isalpha_c isprint_c foldc titlec lowerc false R1 R2 R3 (cfg_single ([], Sp)) a.
Proof.
  intros U1 U2 U3 HND HL Hp Ha Hflag Hc Hun Hfmt Hcap Hsil.
  apply prefixed_equiv_gen; try assumption.
  eapply Forall_impl; [|exact Hfmt]. intros t Ht. simpl in Ht. unfold check_tag_formatting. rewrite Ht. reflexivity.
Qed.

(* ------------------------------------------------------------------ the table resolver meets FindFits *)

Lemma split_on_nonempty c s : split_on c s <> [].
Proof.
  induction s as [|x xs IH]; simpl; [discriminate|].
  destruct (N.eqb x c); [discriminate|]. destruct (split_on c xs); [contradiction | discriminate].
Qed.

Lemma join_cons2 (sep x y : str) r : join sep (x :: y :: r) = x ++ sep ++ join sep (y :: r).
Proof. reflexivity. Qed.

Lemma join_split c s : join [c] (split_on c s) = s.
Proof.
  induction s as [|x xs IH]; simpl; [reflexivity|].
  destruct (N.eqb x c) eqn:E.
  - apply N.eqb_eq in E. subst x. destruct (split_on c xs) as [|p ps] eqn:Es; [exfalso; eapply split_on_nonempty; exact Es|].
    rewrite join_cons2, IH. reflexivity.
  - destruct (split_on c xs) as [|p ps] eqn:Es; [exfalso; eapply split_on_nonempty; exact Es|].
    destruct ps as [|p' ps'].
    + simpl in *. rewrite IH. reflexivity.
    + rewrite join_cons2 in *. rewrite <- IH. reflexivity.
Qed.

Lemma join_tl_le sep (l : list str) : length (join sep (tl l)) <= length (join sep l).
Proof.
  destruct l as [|x [|y r]]; simpl; try lia. rewrite !app_length. lia.
Qed.

Lemma join_skipn_le sep k : forall l : list str, length (join sep (skipn k l)) <= length (join sep l).
Proof.
  induction k as [|k IH]; intro l; [simpl; lia|].
  destruct l as [|x l]; [simpl; lia|]. simpl skipn.
  etransitivity; [apply IH|]. apply (join_tl_le sep (x :: l)).
Qed.

Lemma join_skipn_lt c k (l : list str) :
  1 <= k -> k < length l -> S (length (join [c] (skipn k l))) <= length (join [c] l).
Proof.
  intros Hk Hl. destruct k as [|k]; [lia|]. destruct l as [|x [|y r]]; simpl in Hl; try lia.
  change (skipn (S k) (x :: y :: r)) with (skipn k (y :: r)). rewrite join_cons2, !app_length.
  change (length [c]) with 1.
  pose proof (join_skipn_le [c] k (y :: r)). lia.
Qed.

Lemma join_ge_last sep (l : list str) d : l <> [] -> length (last l d) <= length (join sep l).
Proof.
  induction l as [|x l IH]; [contradiction|]. intros _. destruct l as [|y r]; [simpl; lia|].
  rewrite join_cons2, !app_length. change (last (x :: y :: r) d) with (last (y :: r) d).
  assert (H : y :: r <> []) by discriminate. specialize (IH H). lia.
Qed.

Lemma walk_ge T w n : forall k cur e k',
  walk T w k n cur = (Some e, k') -> k <= k' /\ (cur = None -> S k <= k').
Proof.
  induction n as [|n IH]; intros k cur e k' H; cbn [walk] in H.
  - injection H as -> <-. split; [lia | discriminate].
  - destruct (km_get (firstn (S k) w) (t_keys T)) as [e0|].
    + apply IH in H as [H1 _]. split; [lia | intros _; lia].
    + injection H as -> <-. split; [lia | discriminate].
Qed.

Theorem table_find_fits T clean e r iss : table_find T clean = (e, Some r, iss) -> length r <= length clean.
Proof.
  unfold table_find. set (comps := split_on ch_slash clean). set (w := map fold_ascii comps).
  assert (Hclean : length (join [ch_slash] comps) = length clean) by (unfold comps; rewrite join_split; reflexivity).
  destruct (km_get w (t_keys T)) as [e0|].
  - intro H. injection H as _ <- _.
    destruct (rev w) as [|x [|y r']] eqn:Er; try (simpl; lia).
    destruct (str_eqb x hash_comp) eqn:Ex; [|simpl; lia]. apply str_eqb_spec in Ex. subst x.
    (* at least two components, the last one of length 1 *)
    assert (Hw : w = rev (hash_comp :: y :: r')) by (rewrite <- Er, rev_involutive; reflexivity).
    assert (Hlen : 2 <= length comps).
    { unfold w in Hw. apply (f_equal (@length str)) in Hw. rewrite map_length, rev_length in Hw. simpl in Hw. lia. }
    destruct comps as [|a [|b rest]] eqn:Ec; simpl in Hlen; try lia.
    rewrite <- Hclean, join_cons2, !app_length. change (length [ch_slash]) with 1.
    change (length [ch_slash; ch_hash]) with 2.
    assert (Hlast : length (last (b :: rest) []) = 1).
    { assert (Hl : last w [] = hash_comp).
      { rewrite Hw. simpl rev. rewrite last_last. reflexivity. }
      unfold w in Hl. change (map fold_ascii (a :: b :: rest)) with (fold_ascii a :: map fold_ascii (b :: rest)) in Hl.
      change (last (fold_ascii a :: map fold_ascii (b :: rest)) []) with (last (map fold_ascii (b :: rest)) []) in Hl.
      assert (Hm : forall l : list str, l <> [] -> last (map fold_ascii l) [] = fold_ascii (last l [])).
      { induction l as [|u l IHl]; [contradiction|]. intros _. destruct l as [|v l']; [reflexivity|].
        change (last (map fold_ascii (u :: v :: l')) []) with (last (map fold_ascii (v :: l')) []).
        change (last (u :: v :: l') []) with (last (v :: l') []). apply IHl. discriminate. }
      rewrite Hm in Hl by discriminate. apply (f_equal (@length N)) in Hl.
      unfold fold_ascii in Hl. rewrite map_length in Hl. exact Hl. }
    pose proof (join_ge_last [ch_slash] (b :: rest) [] ltac:(discriminate)) as Hj. lia.
  - destruct (walk T w 0 (length w) None) as [[e0|] k] eqn:Ew; [|intro H; discriminate].
    destruct (walk_ge T w (length w) 0 None e0 k Ew) as [_ Hk]. specialize (Hk eq_refl).
    destruct (Nat.ltb k (length w) && match takes_value_child T e0 with None => true | Some _ => false end
              && validate_remaining_terms T (skipn k w)); [intro H; discriminate|].
    assert (Hrem : length (if Nat.ltb k (length w) then ch_slash :: join [ch_slash] (skipn k comps) else [])
                   <= length clean).
    { destruct (Nat.ltb k (length w)) eqn:Elt; [|simpl; lia]. apply Nat.ltb_lt in Elt.
      unfold w in Elt. rewrite map_length in Elt. simpl length. rewrite <- Hclean.
      apply join_skipn_lt; assumption. }
    destruct (if Nat.ltb k (length w) then ch_slash :: join [ch_slash] (skipn k comps) else []) as [|c0 rem'] eqn:Erem.
    + intro H. injection H as _ <- _. simpl. lia.
    + destruct (takes_value_child T e0); intro H; injection H as _ <- _; exact Hrem.
Qed.

(* every schema the loader model produces satisfies the FindFits hypothesis of prefixed_equiv *)
Corollary sch_of_fits (L : lschema) : FindFits (sch_of L).
Proof. intros t e r iss H. exact (table_find_fits (l_table L) t e r iss H). Qed.
