(* Proofs about Model/Assemble.v (property C06): WHICH columns are listed and WHAT kind of
   part each contributes, stated against the sidecar's JSON shape -- detect_column_type,
   sidecar_basic_map, final_column_map and get_transformers are characterised here, so
   that C06_row_is_union is not merely relative to the model's own transformer list. *)
From Coq Require Import List NArith Arith Bool Lia Sorted.
From HV Require Import Base.Res Base.Str Model.RefSplice Model.Assemble Proofs.AssembleProofs
  Proofs.AssembleTotal.
Import ListNotations.

(* ---------- association lists ---------- *)

Lemma str_eqb_eq a b : str_eqb a b = true -> a = b.
Proof. apply str_eqb_spec. Qed.

Lemma str_eqb_neq a b : str_eqb a b = false -> a <> b.
Proof. intros H E. subst. rewrite str_eqb_refl in H. discriminate. Qed.

Lemma assoc_none {A} k (l : list (str * A)) : ~ In k (map fst l) -> assoc k l = None.
Proof.
  induction l as [|[k' v] l IH]; simpl; intros H; [reflexivity|].
  destruct (str_eqb k k') eqn:E; [apply str_eqb_eq in E; subst; tauto | apply IH; tauto].
Qed.

Lemma assoc_dict_set {A} k k' (v : A) d :
  assoc k (dict_set k' v d) = if str_eqb k k' then Some v else assoc k d.
Proof.
  induction d as [|[k0 v0] d IH]; simpl.
  - destruct (str_eqb k k'); reflexivity.
  - destruct (str_eqb k' k0) eqn:E0; simpl.
    + apply str_eqb_eq in E0. subst k0. destruct (str_eqb k k'); reflexivity.
    + rewrite IH. destruct (str_eqb k k0) eqn:E1; [|reflexivity].
      destruct (str_eqb k k') eqn:E2; [|reflexivity].
      apply str_eqb_eq in E1. apply str_eqb_eq in E2. subst. rewrite str_eqb_refl in E0. discriminate.
Qed.

Lemma dict_set_nodup {A} k (v : A) d : NoDup (map fst d) -> NoDup (map fst (dict_set k v d)).
Proof.
  induction d as [|[k0 v0] d IH]; simpl; intros H.
  - constructor; [intros [] | constructor].
  - inversion H as [|? ? Hn Hd]; subst.
    destruct (str_eqb k k0) eqn:E; simpl.
    + constructor; assumption.
    + constructor; [|apply IH; exact Hd].
      intros Hin. destruct (dict_set_keys _ _ _ _ Hin) as [Hk|Hk]; [|tauto].
      subst. rewrite str_eqb_refl in E. discriminate.
Qed.

(* ---------- _get_sidecar_basic_map ---------- *)

Definition meta_of (e : jv) : colmeta := (detect_column_type e, hed_dict e).

Lemma assoc_basic sc : forall cols acc c,
  assoc c (sidecar_basic_map cols sc acc)
  = if mem c cols then match assoc c sc with Some e => Some (meta_of e) | None => assoc c acc end
    else assoc c acc.
Proof.
  induction cols as [|c0 cols IH]; intros acc c; simpl; [reflexivity|].
  destruct (assoc c0 sc) as [e0|] eqn:E0.
  - rewrite IH, assoc_dict_set.
    destruct (str_eqb c c0) eqn:E; simpl.
    + apply str_eqb_eq in E. subst c0. rewrite E0. destruct (mem c cols); reflexivity.
    + reflexivity.
  - rewrite IH. destruct (str_eqb c c0) eqn:E; simpl; [|reflexivity].
    apply str_eqb_eq in E. subst c0. rewrite E0. destruct (mem c cols); reflexivity.
Qed.

Lemma basic_nodup sc : forall cols acc,
  NoDup (map fst acc) -> NoDup (map fst (sidecar_basic_map cols sc acc)).
Proof.
  induction cols as [|c0 cols IH]; intros acc H; simpl; [exact H|].
  destruct (assoc c0 sc); apply IH; [apply dict_set_nodup|]; exact H.
Qed.

(* ---------- sorted(final_map.items()) ---------- *)

Lemma assoc_insert_key {A} (kv : str * A) l c : ~ In (fst kv) (map fst l) ->
  assoc c (insert_key kv l) = if str_eqb c (fst kv) then Some (snd kv) else assoc c l.
Proof.
  destruct kv as [k v]. simpl. induction l as [|[k' v'] l IH]; simpl; intros H; [reflexivity|].
  destruct (str_ltb k' k); simpl.
  - rewrite IH by tauto.
    destruct (str_eqb c k') eqn:E1; [|reflexivity].
    destruct (str_eqb c k) eqn:E2; [|reflexivity].
    apply str_eqb_eq in E1. apply str_eqb_eq in E2. subst. tauto.
  - reflexivity.
Qed.

Lemma insert_key_nodup {A} (kv : str * A) l :
  ~ In (fst kv) (map fst l) -> NoDup (map fst l) -> NoDup (map fst (insert_key kv l)).
Proof.
  induction l as [|kv' l IH]; simpl; intros Hn Hd.
  - constructor; [intros [] | constructor].
  - inversion Hd as [|? ? Hn' Hd']; subst.
    destruct (str_ltb (fst kv') (fst kv)); simpl.
    + constructor; [|apply IH; tauto].
      intros Hin. destruct (insert_key_keys _ _ _ Hin) as [Hk|Hk]; [|tauto].
      apply Hn. left. exact Hk.
    + constructor; [exact Hn | exact Hd].
Qed.

Lemma sort_keys_assoc_nodup {A} (l : list (str * A)) : NoDup (map fst l) ->
  NoDup (map fst (sort_keys l)) /\ forall c, assoc c (sort_keys l) = assoc c l.
Proof.
  unfold sort_keys. induction l as [|[k v] l IH]; simpl; intros H.
  - split; [constructor | reflexivity].
  - inversion H as [|? ? Hn Hd]; subst. destruct (IH Hd) as [Hnd Ha].
    assert (Hk : ~ In (fst (k, v)) (map fst (fold_right insert_key [] l))).
    { intros Hin. apply Hn. apply (sort_keys_keys l). exact Hin. }
    split; [apply insert_key_nodup; assumption|].
    intros c. rewrite assoc_insert_key by exact Hk. simpl. rewrite Ha. reflexivity.
Qed.

(* the listing order is the order of the names: every adjacent pair is in str order
   (code points, as Python compares str) *)
Definition key_le {A} (a b : str * A) : Prop := str_ltb (fst b) (fst a) = false.

Lemma str_ltb_asym : forall a b, str_ltb a b = true -> str_ltb b a = false.
Proof.
  induction a as [|x a IH]; destruct b as [|y b]; simpl; intros H; try reflexivity; try discriminate.
  destruct (N.ltb x y) eqn:Hxy.
  - apply N.ltb_lt in Hxy.
    assert (Hyx : N.ltb y x = false) by (apply N.ltb_ge; lia). rewrite Hyx.
    assert (He : N.eqb y x = false) by (apply N.eqb_neq; lia). rewrite He. reflexivity.
  - destruct (N.eqb x y) eqn:He; [|discriminate].
    apply N.eqb_eq in He. subst y. rewrite N.ltb_irrefl, N.eqb_refl. apply IH. exact H.
Qed.

Lemma insert_key_sorted {A} (kv : str * A) l : Sorted key_le l -> Sorted key_le (insert_key kv l).
Proof.
  induction l as [|kv' l IH]; simpl; intros H; [repeat constructor|].
  inversion H as [|? ? Hs Hh]; subst.
  destruct (str_ltb (fst kv') (fst kv)) eqn:E.
  - constructor; [apply IH; exact Hs|].
    destruct l as [|kv'' l]; simpl.
    + constructor. unfold key_le. apply str_ltb_asym. exact E.
    + destruct (str_ltb (fst kv'') (fst kv)).
      * inversion Hh; subst. constructor. assumption.
      * constructor. unfold key_le. apply str_ltb_asym. exact E.
  - constructor; [exact H|]. constructor. unfold key_le. exact E.
Qed.

Lemma sort_keys_sorted {A} (l : list (str * A)) : Sorted key_le (sort_keys l).
Proof.
  unfold sort_keys. induction l as [|kv l IH]; simpl; [constructor | apply insert_key_sorted; exact IH].
Qed.

(* ---------- the final column map ---------- *)

Definition final_meta (sc : sidecar) (c : str) : option colmeta :=
  if str_eqb c hed_key then Some (HEDTags, None)
  else match assoc c sc with Some e => Some (meta_of e) | None => None end.

Lemma final_map_assoc cols sc :
  NoDup (map fst (final_column_map cols sc)) /\
  forall c, assoc c (final_column_map cols sc) = if mem c cols then final_meta sc c else None.
Proof.
  unfold final_column_map.
  set (basic := sidecar_basic_map cols sc []).
  assert (Hb : NoDup (map fst basic)) by (apply basic_nodup; constructor).
  assert (Ht : NoDup (map fst (if mem hed_key cols then dict_set hed_key (HEDTags, None) basic else basic))).
  { destruct (mem hed_key cols); [apply dict_set_nodup|]; exact Hb. }
  destruct (sort_keys_assoc_nodup _ Ht) as [Hnd Ha]. split; [exact Hnd|].
  intros c. rewrite Ha. unfold final_meta.
  destruct (mem hed_key cols) eqn:Hh.
  - rewrite assoc_dict_set. destruct (str_eqb c hed_key) eqn:E.
    + apply str_eqb_eq in E. subst c. rewrite Hh. reflexivity.
    + unfold basic. rewrite assoc_basic. simpl. destruct (mem c cols); reflexivity.
  - unfold basic. rewrite assoc_basic. simpl.
    destruct (str_eqb c hed_key) eqn:E.
    + apply str_eqb_eq in E. subst c. rewrite Hh. reflexivity.
    + destruct (mem c cols); reflexivity.
Qed.

(* ---------- get_transformers ---------- *)

(* the transformer a column description stands for; None = the column is not listed *)
Definition xform_of (m : colmeta) : option xform :=
  match fst m with
  | Ignore => None
  | Value => Some (XValue (match snd m with Some (JStr s) => s | _ => [] end))
  | Categorical => Some (XCat (cat_entries (snd m)))
  | HEDTags | Unknown => Some XId
  end.

Lemma transformers_assoc : forall fm c, NoDup (map fst fm) ->
  assoc c (fst (get_transformers fm))
  = match assoc c fm with Some m => xform_of m | None => None end.
Proof.
  induction fm as [|[name [ty h]] fm IH]; intros c H; [reflexivity|].
  inversion H as [|? ? Hn Hd]; subst. specialize (IH c Hd).
  cbn [get_transformers assoc].
  destruct (get_transformers fm) as [tf need] eqn:Hg. cbn [fst] in IH.
  destruct (str_eqb c name) eqn:E.
  - apply str_eqb_eq in E. subst c.
    assert (Hnone : assoc name tf = None).
    { rewrite IH. rewrite (assoc_none _ _ Hn). reflexivity. }
    destruct ty; cbn [fst assoc xform_of snd]; rewrite ?str_eqb_refl; try reflexivity.
    exact Hnone.
  - destruct ty; cbn [fst assoc xform_of snd]; rewrite ?E; exact IH.
Qed.

(* the need_categorical list: exactly the categorical columns, in listing order *)
Lemma transformers_need : forall fm,
  snd (get_transformers fm)
  = map fst (filter (fun p => match fst (snd p) with Categorical => true | _ => false end) fm).
Proof.
  induction fm as [|[name [ty h]] fm IH]; [reflexivity|].
  cbn [get_transformers]. destruct (get_transformers fm) as [tf need]. cbn [snd] in IH.
  destruct ty; cbn [snd filter fst map]; rewrite IH; reflexivity.
Qed.

(* listing order = order of the final map (sorted by name), unlisted columns removed *)
Lemma transformers_order : forall fm,
  map fst (fst (get_transformers fm))
  = map fst (filter (fun p => match xform_of (snd p) with Some _ => true | None => false end) fm).
Proof.
  induction fm as [|[name [ty h]] fm IH]; [reflexivity|].
  cbn [get_transformers]. destruct (get_transformers fm) as [tf need]. cbn [fst] in IH.
  destruct ty; cbn [fst snd filter map xform_of]; rewrite IH; reflexivity.
Qed.

(* ---------- the specification of the listed columns ---------- *)

(* what the statement prescribes for the table column named c, read off the sidecar *)
Definition column_xform (sc : sidecar) (c : str) : option xform :=
  match final_meta sc c with Some m => xform_of m | None => None end.

Definition transformers_of (cols : list str) (sc : sidecar) : list (str * xform) :=
  fst (get_transformers (final_column_map cols sc)).

Theorem listed_columns (cols : list str) (sc : sidecar) (c : str) :
  assoc c (transformers_of cols sc) = if mem c cols then column_xform sc c else None.
Proof.
  unfold transformers_of, column_xform.
  destruct (final_map_assoc cols sc) as [Hnd Ha].
  rewrite (transformers_assoc _ _ Hnd), Ha. destruct (mem c cols); reflexivity.
Qed.

Theorem listed_columns_sorted (cols : list str) (sc : sidecar) :
  Sorted key_le (final_column_map cols sc) /\
  NoDup (map fst (final_column_map cols sc)) /\
  map fst (transformers_of cols sc)
  = map fst (filter (fun p => match xform_of (snd p) with Some _ => true | None => false end)
                    (final_column_map cols sc)).
Proof.
  split; [unfold final_column_map; apply sort_keys_sorted|].
  split; [apply (final_map_assoc cols sc) | apply transformers_order].
Qed.

(* ---------- read against the JSON shape of the sidecar entry ---------- *)

Definition str_entries (entries : list (str * str)) : list (str * jv) :=
  map (fun p => (fst p, JStr (snd p))) entries.

Lemma str_entries_all entries : forallb is_jstr (map snd (str_entries entries)) = true.
Proof. induction entries as [|p l IH]; simpl; [reflexivity | exact IH]. Qed.

Lemma str_entries_cat entries : cat_entries (Some (JDict (str_entries entries))) = entries.
Proof.
  unfold cat_entries, str_entries. induction entries as [|[k s] l IH]; simpl; [reflexivity|].
  f_equal. exact IH.
Qed.

(* the HED column of the table is listed as it is, whatever the sidecar says about "HED" *)
Theorem hed_column_kind cols sc :
  mem hed_key cols = true -> assoc hed_key (transformers_of cols sc) = Some XId.
Proof.
  intros H. rewrite listed_columns, H. unfold column_xform, final_meta.
  rewrite str_eqb_refl. reflexivity.
Qed.

(* a table column whose sidecar entry has "HED": {key: text, ...} contributes the entry
   selected by its cell (category_handler over exactly those key/text pairs) *)
Theorem categorical_kind cols sc c kv entries :
  mem c cols = true -> str_eqb c hed_key = false ->
  assoc c sc = Some (JDict kv) -> assoc hed_key kv = Some (JDict (str_entries entries)) ->
  assoc c (transformers_of cols sc) = Some (XCat entries).
Proof.
  intros Hc Hh Hs Hk. rewrite listed_columns, Hc. unfold column_xform, final_meta.
  rewrite Hh, Hs. unfold meta_of, xform_of. cbn [fst snd].
  destruct kv as [|p kv]; [discriminate|].
  unfold detect_column_type, hed_dict. rewrite Hk, str_entries_all.
  rewrite str_entries_cat. reflexivity.
Qed.

(* a table column whose sidecar entry has "HED": "...#..." contributes that template *)
Theorem value_kind cols sc c kv s :
  mem c cols = true -> str_eqb c hed_key = false ->
  assoc c sc = Some (JDict kv) -> assoc hed_key kv = Some (JStr s) -> memc ch_hash s = true ->
  assoc c (transformers_of cols sc) = Some (XValue s).
Proof.
  intros Hc Hh Hs Hk Hm. rewrite listed_columns, Hc. unfold column_xform, final_meta.
  rewrite Hh, Hs. unfold meta_of, xform_of. cbn [fst snd].
  destruct kv as [|p kv]; [discriminate|].
  unfold detect_column_type, hed_dict. rewrite Hk, Hm. reflexivity.
Qed.

(* not listed: columns absent from the table, columns without a sidecar entry (other than
   HED), entries that are not a JSON object or have no "HED" key *)
Theorem unlisted_kinds cols sc c :
  (mem c cols = false -> assoc c (transformers_of cols sc) = None) /\
  (str_eqb c hed_key = false -> assoc c sc = None -> assoc c (transformers_of cols sc) = None) /\
  (str_eqb c hed_key = false ->
   forall e, assoc c sc = Some e ->
   (match e with JDict kv => assoc hed_key kv = None | _ => True end) ->
   assoc c (transformers_of cols sc) = None).
Proof.
  repeat split.
  - intros H. rewrite listed_columns, H. reflexivity.
  - intros Hh Hs. rewrite listed_columns. unfold column_xform, final_meta. rewrite Hh, Hs.
    destruct (mem c cols); reflexivity.
  - intros Hh e Hs He. rewrite listed_columns. unfold column_xform, final_meta. rewrite Hh, Hs.
    assert (Hd : detect_column_type e = Ignore).
    { destruct e as [s|kv|]; try reflexivity. destruct kv as [|p kv]; [reflexivity|].
      unfold detect_column_type. rewrite He. reflexivity. }
    unfold meta_of, xform_of. cbn [fst]. rewrite Hd. destruct (mem c cols); reflexivity.
Qed.

(* non-vacuity on the example table of AssembleProofs: v (value), c (categorical), HED *)
Example ex_listed :
  transformers_of (map fst (t_cols ex_table)) ex_sidecar
  = [ (hed_key, XId);
      ([99]%N, XCat [([103]%N, [82]%N)]);
      ([118]%N, XValue [40; 123; 99; 125; 44; 32; 76; 47; 35; 41]%N) ].
Proof. vm_compute. reflexivity. Qed.

(* ---------- the order of names is total: the listing is sorted, not just locally ---------- *)

Lemma str_ltb_cotrans : forall c a b, str_ltb c a = true -> str_ltb c b = true \/ str_ltb b a = true.
Proof.
  induction c as [|z c IH]; intros a b H.
  - destruct a as [|x a]; [discriminate|]. destruct b as [|y b]; [right | left]; reflexivity.
  - destruct a as [|x a]; [discriminate|]. destruct b as [|y b]; [right; reflexivity|].
    simpl in *.
    destruct (N.ltb z x) eqn:Hzx.
    + apply N.ltb_lt in Hzx.
      destruct (N.ltb z y) eqn:Hzy; [left; reflexivity|].
      apply N.ltb_ge in Hzy.
      destruct (N.eqb z y) eqn:Ezy.
      * apply N.eqb_eq in Ezy. subst y. right.
        assert (Hl : N.ltb z x = true) by (apply N.ltb_lt; lia). rewrite Hl. reflexivity.
      * apply N.eqb_neq in Ezy. right.
        assert (Hl : N.ltb y x = true) by (apply N.ltb_lt; lia). rewrite Hl. reflexivity.
    + destruct (N.eqb z x) eqn:Ezx; [|discriminate].
      apply N.eqb_eq in Ezx. subst x.
      destruct (N.ltb z y) eqn:Hzy; [left; reflexivity|].
      apply N.ltb_ge in Hzy.
      destruct (N.eqb z y) eqn:Ezy.
      * apply N.eqb_eq in Ezy. subst y. rewrite N.ltb_irrefl, N.eqb_refl.
        destruct (IH a b H) as [H1|H1]; [left | right]; exact H1.
      * apply N.eqb_neq in Ezy. right.
        assert (Hl : N.ltb y z = true) by (apply N.ltb_lt; lia). rewrite Hl. reflexivity.
Qed.

Lemma key_le_trans {A} (a b c : str * A) : key_le a b -> key_le b c -> key_le a c.
Proof.
  unfold key_le. intros H1 H2.
  destruct (str_ltb (fst c) (fst a)) eqn:E; [|reflexivity].
  destruct (str_ltb_cotrans _ _ (fst b) E) as [H|H]; congruence.
Qed.

Theorem final_map_strongly_sorted (cols : list str) (sc : sidecar) :
  StronglySorted key_le (final_column_map cols sc).
Proof.
  apply Sorted_StronglySorted.
  - intros a b c. apply key_le_trans.
  - unfold final_column_map. apply sort_keys_sorted.
Qed.

(* a sub-list of a sorted list is sorted: the listed columns come in name order *)
Lemma filter_strongly_sorted {A} (R : A -> A -> Prop) (P : A -> bool) l :
  StronglySorted R l -> StronglySorted R (filter P l).
Proof.
  induction 1 as [|x l Hs IH Hf]; simpl; [constructor|].
  destruct (P x); [|exact IH]. constructor; [exact IH|].
  apply Forall_forall. intros y Hy. apply filter_In in Hy. rewrite Forall_forall in Hf. apply Hf. tauto.
Qed.

Lemma map_fst_strongly_sorted {A} (l : list (str * A)) :
  StronglySorted key_le l -> StronglySorted (fun a b : str => str_ltb b a = false) (map fst l).
Proof.
  induction 1 as [|x l Hs IH Hf]; simpl; [constructor|].
  constructor; [exact IH|]. apply Forall_forall. intros y Hy. apply in_map_iff in Hy.
  destruct Hy as (p & Hp & Hin). subst y. rewrite Forall_forall in Hf. apply (Hf p Hin).
Qed.

Theorem listed_names_sorted (cols : list str) (sc : sidecar) :
  StronglySorted (fun a b : str => str_ltb b a = false) (map fst (transformers_of cols sc)).
Proof.
  destruct (listed_columns_sorted cols sc) as (_ & _ & Ho). rewrite Ho.
  apply map_fst_strongly_sorted. apply filter_strongly_sorted. apply final_map_strongly_sorted.
Qed.

(* ---------- row_is_union against the SPECIFIED list of columns ---------- *)

Lemma spec_row_nil fixed all refs i : spec_row fixed all refs [] i = Ok (combine_row []).
Proof.
  unfold spec_row.
  assert (H : filter (fun r : str => mem r []) refs = []) by (induction refs; simpl; auto).
  rewrite H. reflexivity.
Qed.

(* The assembled row, with the transformer list no longer existential: it is
   [transformers_of] (characterised above column by column from the sidecar's JSON shape
   and sorted by name), every listed column is the table column with its transformer
   applied cell by cell, and row i is the ", "-join of the spliced, non-skipped parts. *)
Theorem row_is_union_listed (st st' : tabular) (ord : list str) (rows : list str) :
  series_a true st ord = Ok (st', rows) -> wf_table (tb_df st) ->
  let tf := transformers_of (map fst (t_cols (tb_df st))) (tb_sidecar st) in
  exists all,
    Forall2 (fun (nf : str * xform) (nc : str * list str) =>
               fst nc = fst nf /\
               exists c, get_col (fst nf) (t_cols (tb_df st)) = Ok c /\
                         snd nc = map (apply_xform true (snd nf)) c) tf all /\
    length rows = t_rows (tb_df st) /\
    forall i, i < t_rows (tb_df st) ->
      spec_row true all (set_order ord (column_refs (tb_sidecar st))) (map fst tf) i
      = Ok (nth i rows []).
Proof.
  intros Hs Hw tf.
  destruct (row_is_union true st st' ord rows Hs Hw) as (all0 & tf0 & Hh & Hl & Hrows).
  unfold handle_transforms in Hh. unfold tf, transformers_of.
  destruct (get_transformers (final_column_map (map fst (t_cols (tb_df st))) (tb_sidecar st)))
    as [tf1 need] eqn:Hg. cbn [fst].
  destruct tf1 as [|t1 tf1].
  - inversion Hh; subst. exists []. split; [constructor|]. split; [exact Hl|].
    intros i Hi. rewrite <- (Hrows i Hi). cbn [map]. rewrite !spec_row_nil. reflexivity.
  - apply bind_ok in Hh. destruct Hh as (all1 & Ht & Hh). inversion Hh; subst.
    exists all0. split; [apply transform_cells; exact Ht|]. split; [exact Hl | exact Hrows].
Qed.

(* ---------- column NAMES: no name other than "HED" is special ---------- *)

(* corollary of value_kind / categorical_kind for the BIDS timing columns: a sidecar that
   annotates "onset" or "duration" itself is listed like any other column *)
Definition name_onset : str := [111; 110; 115; 101; 116]%N.
Definition name_duration : str := [100; 117; 114; 97; 116; 105; 111; 110]%N.

Theorem timing_columns_listed cols sc c kv :
  c = name_onset \/ c = name_duration ->
  mem c cols = true -> assoc c sc = Some (JDict kv) ->
  (forall s, assoc hed_key kv = Some (JStr s) -> memc ch_hash s = true ->
             assoc c (transformers_of cols sc) = Some (XValue s)) /\
  (forall entries, assoc hed_key kv = Some (JDict (str_entries entries)) ->
             assoc c (transformers_of cols sc) = Some (XCat entries)).
Proof.
  intros Hc Hm Hs.
  assert (Hh : str_eqb c hed_key = false) by (destruct Hc; subst; reflexivity).
  split; intros; [eapply value_kind | eapply categorical_kind]; eauto.
Qed.
