(* Proofs about Model/QueryEdit.v (property C15): the answer of a search
   depends on the current content of the annotation only; a tag added with
   append is visible to every term mode. *)
From Coq Require Import List NArith Arith Bool Lia Permutation Relations.
From HV Require Import Base.Res Base.Str Model.Query Model.QueryParse Model.QueryEdit Proofs.QueryProofs.
Import ListNotations.

(* ---------------------------------------------------------------- history *)

Lemma run_history fx limit (h : list step) : forall o,
  o_root (fold_left (run_step fx limit) h o) = fold_left apply_edit (edits_of h) (o_root o) /\
  o_src (fold_left (run_step fx limit) h o) = o_src o.
Proof.
  induction h as [|s h IH]; intro o; [split; reflexivity|].
  simpl. destruct s as [e | q].
  - destruct (IH (obj_edit o e)) as [H1 H2]. simpl. rewrite H1, H2. split; reflexivity.
  - simpl. apply IH.
Qed.

(* whatever the source text and whatever the history of edits and earlier
   searches, the answer is the answer on the current content *)
Lemma search_history_irrelevant fx limit q h o :
  obj_search fx limit q (fold_left (run_step fx limit) h o) =
  search fx limit q (fold_left apply_edit (edits_of h) (o_root o)).
Proof. unfold obj_search. rewrite (proj1 (run_history fx limit h o)). reflexivity. Qed.

Lemma search_same_content fx limit q o1 o2 :
  o_root o1 = o_root o2 -> obj_search fx limit q o1 = obj_search fx limit q o2.
Proof. unfold obj_search. intro H. rewrite H. reflexivity. Qed.

(* ---------------------------------------------------------------- an appended member is visible *)

Lemma upd_nth_split {A} (f : A -> A) : forall (l : list A) k a,
  nth_error l k = Some a -> exists pre post, l = pre ++ a :: post /\ upd_nth k f l = pre ++ f a :: post.
Proof.
  induction l as [|b l IH]; intros k a H; [destruct k; discriminate|].
  destruct k as [|k]; simpl in H.
  - inversion H; subst. exists [], l. split; reflexivity.
  - destruct (IH k a H) as (pre & post & H1 & H2). exists (b :: pre), post. simpl. rewrite H2, <- H1. split; reflexivity.
Qed.

Lemma flat_tags_same (d d' : chain) l :
  Permutation (map fst (flat_map (tags_ctx d) l)) (map fst (flat_map (tags_ctx d') l)).
Proof. apply flat_tags_perm. apply Permutation_refl. Qed.

Lemma perm_move_end {A} (a b x c : list A) : Permutation (a ++ (b ++ x) ++ c) ((a ++ b ++ c) ++ x).
Proof.
  rewrite <- !app_assoc. apply Permutation_app_head. apply Permutation_app_head. apply Permutation_app_comm.
Qed.

Lemma append_tags x : forall p n c c',
  path_ok p n = true ->
  Permutation (map fst (tags_ctx c (append_at p x n))) (map fst (tags_ctx c' n) ++ map fst (tags_ctx c' x)).
Proof.
  induction p as [|k p IH]; intros n c c' Hok.
  - destruct n as [|i ch]; [discriminate|]. cbn [append_at tags_ctx].
    rewrite flat_map_app, map_app. simpl. rewrite app_nil_r.
    apply Permutation_app; [apply flat_tags_same|].
    rewrite (tags_fst_chain x _ c'). apply Permutation_refl.
  - destruct n as [|i ch]; [discriminate|]. cbn [path_ok] in Hok.
    destruct (nth_error ch k) as [c0|] eqn:Hn; [|discriminate].
    destruct (upd_nth_split (append_at p x) ch k c0 Hn) as (pre & post & H1 & H2).
    subst ch. cbn [append_at tags_ctx]. rewrite H2.
    rewrite !flat_map_app. cbn [flat_map]. rewrite !map_app.
    set (d := Group i (pre ++ append_at p x c0 :: post) :: c).
    set (d' := Group i (pre ++ c0 :: post) :: c').
    apply Permutation_trans with
      (map fst (flat_map (tags_ctx d') pre) ++ (map fst (tags_ctx d' c0) ++ map fst (tags_ctx d' x)) ++
       map fst (flat_map (tags_ctx d') post)).
    + apply Permutation_app; [apply flat_tags_same|].
      apply Permutation_app; [apply IH; exact Hok | apply flat_tags_same].
    + rewrite (tags_fst_chain x c' d'). apply perm_move_end.
Qed.

Lemma append_at_group p x i ch : exists ch', append_at p x (Group i ch) = Group i ch'.
Proof. destruct p; simpl; eexists; reflexivity. Qed.

Lemma existsb_app_bool {A} (P : A -> bool) l l' : existsb P (l ++ l') = existsb P l || existsb P l'.
Proof. apply existsb_app. Qed.

(* a member appended anywhere in the annotation is seen by a search term in
   each of the three modes, and nothing else changes for terms *)
Lemma append_visible fx tok mode text p x i ch :
  term_info tok = (mode, false, text) -> path_ok p (Group i ch) = true ->
  matches fx (ETerm tok) (append_at p x (Group i ch)) =
  matches fx (ETerm tok) (Group i ch) || existsb (tag_matches mode text) (map fst (tags_ctx [] x)).
Proof.
  intros Hinfo Hok. destruct (append_at_group p x i ch) as (ch' & He).
  pose proof (append_tags x p (Group i ch) [] [] Hok) as Hp. rewrite He in Hp |- *.
  rewrite (term_matches fx tok mode text i ch' Hinfo), (term_matches fx tok mode text i ch Hinfo).
  rewrite !existsb_map_fst. unfold all_tags. rewrite (existsb_perm _ _ _ Hp). apply existsb_app.
Qed.

(* ---------------------------------------------------------------- a tag whose base was changed (Def <-> Def-expand) *)

(* current code (fix commit c19994c): the bare-term mode sees the schema path of the NEW entry *)
Lemma rebase_terms_fixed text new_terms new_short i terms s o :
  tag_matches 0 text (rebase_tag true new_terms new_short (Tag i terms s o)) = true <-> In (fold text) new_terms.
Proof. simpl. apply (proj1 (tag_matches_modes text i new_terms new_short o)). Qed.

(* RECORD OF THE DEFECT (fx4 = false, finding C15-F4): the statement above is
   false of the behaviour before fix commit c19994c: "def" still matches a tag rebased to
   Def-expand, whose schema path does not contain it *)
Definition w_def_terms : list str := [[111; 114; 103; 97; 110; 105; 122; 97; 116; 105; 111; 110; 97; 108; 45; 112; 114; 111; 112; 101; 114; 116; 121]%N; [100; 101; 102]%N].
Definition w_defexp_terms : list str := [[111; 114; 103; 97; 110; 105; 122; 97; 116; 105; 111; 110; 97; 108; 45; 112; 114; 111; 112; 101; 114; 116; 121]%N; [100; 101; 102; 45; 101; 120; 112; 97; 110; 100]%N].
Lemma rebase_terms_refuted :
  exists text new_terms new_short t,
    tag_matches 0 text (rebase_tag false new_terms new_short t) = true /\ ~ In (fold text) new_terms.
Proof.
  exists [68; 101; 102]%N, w_defexp_terms, [68; 101; 102; 45; 101; 120; 112; 97; 110; 100; 47; 77; 121; 68; 101; 102]%N, (Tag 1 w_def_terms [68; 101; 102; 47; 77; 121; 68; 101; 102]%N [68; 101; 102; 47; 77; 121; 68; 101; 102]%N).
  split; [vm_compute; reflexivity|]. simpl. intros [H | [H | []]]; discriminate.
Qed.

(* ---------------------------------------------------------------- the batch entry point, row by row *)

(* row i of the frame is the answer on annotation i alone, wherever the None /
   empty entries stand (by construction of the model: one [map] over the rows) *)
Lemma batch_row_by_row fx es rows i :
  nth_error (search_batch fx es rows) i = option_map (batch_row fx es) (nth_error rows i).
Proof. unfold search_batch. apply nth_error_map. Qed.

Lemma batch_cell fx es r e i j :
  children r <> [] -> nth_error es j = Some e ->
  option_map (fun row => nth_error row j) (Some (batch_row fx es (Some r))) = Some (Some (matches fx e r)) /\
  (forall rows, nth_error rows i = Some None ->
     nth_error (search_batch fx es rows) i = Some (map (fun _ => false) es)).
Proof.
  intros Hc He. split.
  - simpl. destruct (children r); [congruence|]. rewrite nth_error_map, He. reflexivity.
  - intros rows Hr. rewrite batch_row_by_row, Hr. reflexivity.
Qed.
