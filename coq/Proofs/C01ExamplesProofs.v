(* Kernel-evaluated facts about the concrete annotations of Proofs/C01Examples.v. *)
From Coq Require Import List NArith Arith Bool Lia.
From HV Require Import Base.Res Base.Str Model.Parse Model.ValKinds Model.ValStr Model.Validate.
From HV Require Import Gen.ValidationCodes Proofs.ValidateProofs Proofs.C01Examples.
Import ListNotations.

Lemma ex_valid_conforming :
  Conforming cfg830 ex_valid /\ validate_forest cfg830 ex_valid = Ok [iss K_TAG_EXTENDED].
Proof.
  split; [|vm_compute; reflexivity].
  constructor.
  - apply forest_wfb_sound. vm_compute. reflexivity.
  - vm_compute. repeat constructor.
  - vm_compute. repeat constructor.
  - vm_compute. repeat constructor.
  - vm_compute. repeat constructor.
  - vm_compute. repeat constructor.
Qed.

(* "(Red,Blue),(Green),(Blue,Red)": the repeated group is reported since fix commit 7597eca
   (before it this annotation was accepted: former finding C01-F2) *)
Lemma ex_f2_reported : reports cfg830 (fprint ex_f2) ex_f2 (kind_code K_HED_TAG_REPEATED_GROUP).
Proof. eexists; split; [vm_compute; reflexivity | vm_compute; tauto]. Qed.

Lemma ex_mutations_report :
  reports cfg830 (fprint ex_unknown) ex_unknown (kind_code K_NO_VALID_TAG_FOUND)
  /\ reports cfg830 (fprint ex_ext) ex_ext (kind_code K_TAG_EXTENSION_INVALID)
  /\ reports cfg830 (fprint ex_placeholder) ex_placeholder (ocode_str O_PLACEHOLDER_INVALID)
  /\ reports cfg830 (fprint ex_reqchild) ex_reqchild (kind_code K_TAG_REQUIRES_CHILD)
  /\ reports cfg830 (fprint ex_badunit) ex_badunit (kind_code K_UNITS_INVALID)
  /\ reports cfg830 (fprint ex_badvalue) ex_badvalue (kind_code K_INVALID_VALUE_CLASS_VALUE)
  /\ reports cfg830 (fprint ex_definition) ex_definition (kind_code K_BAD_DEFINITION_LOCATION)
  /\ reports cfg830 (fprint ex_def) ex_def (kind_code K_HED_DEF_UNMATCHED)
  /\ reports cfg830 (fprint ex_defexpand) ex_defexpand (kind_code K_HED_DEF_EXPAND_INVALID)
  /\ reports cfg830 (fprint ex_taggroup) ex_taggroup (kind_code K_HED_TAG_GROUP_TAG)
  /\ reports cfg830 (fprint ex_toplevel) ex_toplevel (kind_code K_HED_TOP_LEVEL_TAG)
  /\ reports cfg830 (fprint ex_multitop) ex_multitop (kind_code K_HED_MULTIPLE_TOP_TAGS)
  /\ reports cfg830 (fprint ex_repeat) ex_repeat (kind_code K_HED_TAG_REPEATED)
  /\ reports cfg830 (fprint ex_unique) ex_unique (kind_code K_TAG_NOT_UNIQUE)
  /\ reports cfg830 (fprint ex_slash) ex_slash (kind_code K_NODE_NAME_EMPTY)
  /\ reports cfg830 (fprint ex_tagchar) ex_tagchar (kind_code K_INVALID_TAG_CHARACTER)
  /\ reports cfg830 (fprint ex_prefix) ex_prefix (kind_code K_TAG_NAMESPACE_PREFIX_INVALID).
Proof.
  repeat split; (eexists; split; [vm_compute; reflexivity | vm_compute; tauto]).
Qed.

(* ---- full conformity (no equal siblings, well-shaped temporal groups) of two real annotations *)
From HV Require Import Proofs.ValidateDups Proofs.ValidateTemporal.
From Coq Require Import Lia.

Ltac nodup_lits :=
  repeat (constructor; [simpl; intuition discriminate|]); try constructor.

Ltac conf_base :=
  constructor;
  [ apply forest_wfb_sound; vm_compute; reflexivity
  | vm_compute; repeat constructor
  | vm_compute; repeat constructor
  | vm_compute; repeat constructor
  | vm_compute; repeat constructor
  | vm_compute; repeat constructor ].

Ltac dur_ok :=
  first [ left; vm_compute; reflexivity
        | right; left; vm_compute; reflexivity
        | right; right; split; vm_compute; reflexivity ].

Lemma ex_valid_conforming_full :
  ConformingFull cfg830 ex_valid /\ validate_forest cfg830 ex_valid = Ok [iss K_TAG_EXTENDED].
Proof.
  split; [|vm_compute; reflexivity]. constructor.
  - conf_base.
  - unfold nodup_groups. vm_compute. repeat (constructor; [nodup_lits|]). constructor.
  - cbn [ex_valid groups_of flat_map app]. repeat (constructor; [dur_ok|]). constructor.
  - cbn [ex_valid groups_of flat_map app]. repeat (constructor; [vm_compute; exact I|]). constructor.
Qed.

Lemma ex_temporal_conforming_full :
  ConformingFull cfg830 ex_temporal /\ validate_forest cfg830 ex_temporal = Ok [].
Proof.
  split; [|vm_compute; reflexivity]. constructor.
  - conf_base.
  - unfold nodup_groups. vm_compute. repeat (constructor; [nodup_lits|]). constructor.
  - cbn [ex_temporal groups_of flat_map app]. repeat (constructor; [dur_ok|]). constructor.
  - cbn [ex_temporal groups_of flat_map app].
    repeat (constructor;
      [ unfold onset_group_ok;
        match goal with |- match ?x with _ => _ end =>
          let v := eval vm_compute in x in change x with v end;
        cbv beta iota;
        first [ exact I
              | eexists; eexists; split; [vm_compute; reflexivity|];
                split; [vm_compute; lia|];
                split; [intros u rest H; vm_compute in H; discriminate|];
                split; vm_compute; reflexivity ] |]).
    constructor.
Qed.

Lemma ex_temporal_mutations :
  reports cfg830 (fprint ex_onset_bad) ex_onset_bad (kind_code K_ONSET_NO_DEF_TAG_FOUND)
  /\ reports cfg830 (fprint ex_duration_bad) ex_duration_bad (kind_code K_DURATION_WRONG_NUMBER_GROUPS).
Proof. split; (eexists; split; [vm_compute; reflexivity | vm_compute; tauto]). Qed.

(* repeats inside a group that is the ONLY member of its enclosing group: "Sensory-event,((Red,Red))" and
   "Sensory-event,(((Red,Blue),(Blue,Red)))" *)
Lemma ex_nested_repeats :
  reports cfg830 (fprint ex_nested_rep1) ex_nested_rep1 (kind_code K_HED_TAG_REPEATED)
  /\ reports cfg830 (fprint ex_nested_rep2) ex_nested_rep2 (kind_code K_HED_TAG_REPEATED_GROUP).
Proof. split; (eexists; split; [vm_compute; reflexivity | vm_compute; tauto]). Qed.

(* ---- empty groups: "Red,()", "(),()", "((),(Red)),((Red),())" *)
From HV Require Import Proofs.ValidateEmpty.

Lemma ex_empty_groups :
  basic_clean cfg830 (fprint ex_empty1) ex_empty1 /\ In [] (sub_groups ex_empty1)
  /\ reports cfg830 (fprint ex_empty1) ex_empty1 (kind_code K_HED_GROUP_EMPTY)
  /\ reports cfg830 (fprint ex_empty2) ex_empty2 (kind_code K_HED_GROUP_EMPTY)
  /\ reports cfg830 (fprint ex_empty2) ex_empty2 (kind_code K_HED_TAG_REPEATED_GROUP)
  /\ reports cfg830 (fprint ex_empty3) ex_empty3 (kind_code K_HED_TAG_REPEATED_GROUP).
Proof.
  split; [eexists; split; vm_compute; reflexivity|].
  split; [vm_compute; tauto|].
  repeat split; (eexists; split; [vm_compute; reflexivity | vm_compute; tauto]).
Qed.

(* RECORD of the repaired defect: before fix commit 3e47c8c the duplicate check raised IndexError on a repeated group
   that holds nothing but empty groups; the current model (= /repo HEAD) reports it *)
Lemma ex_empty_dups_before_3e47c8c :
  dup_n_before_3e47c8c (sorted_n (FGroup ex_empty2)) = Exn IndexError
  /\ dup_n (sorted_n (FGroup ex_empty2)) = Ok [iss K_HED_TAG_REPEATED_GROUP].
Proof. split; vm_compute; reflexivity. Qed.
