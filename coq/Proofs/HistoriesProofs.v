(* Histories (Model/Histories.v): the answers of a schema object are those of a table rebuilt from the names
   it holds, whatever was looked up before; a mutated HedTag agrees with a freshly parsed tag of its text. *)
From Coq Require Import List NArith Bool Arith Lia.
From HV Require Import Base.Str Base.Res Model.Schema Model.Resolve Model.Histories.
From HV Require Import Proofs.SchemaProofs Proofs.ResolveProofs.
Import ListNotations.

Section Hist.
  Variable foldc : N -> str.
  Variable fx : fixes.

  Lemma add_all_app T a b :
    add_all foldc T (a ++ b) = (let* T' := add_all foldc T a in add_all foldc T' b).
  Proof.
    revert T. induction a as [|n a IH]; intro T; [reflexivity|].
    cbn [app add_all]. destruct (add_tag foldc T n) as [T1|e]; cbn [bind]; [apply IH | reflexivity].
  Qed.

  Lemma build_table_app S more :
    build_table foldc (S ++ more) = (let* T := build_table foldc S in add_all foldc T more).
  Proof. apply add_all_app. Qed.

  (* after any history of lookups and merges, every answer is resolve on the names held at that moment *)
  Lemma schema_history ops : forall S, srun foldc fx (build_table foldc S) ops = sref foldc fx S ops.
  Proof.
    induction ops as [|o r IH]; intro S; [reflexivity|]. destruct o as [sns t|more]; cbn [srun sstep sref].
    - rewrite IH. reflexivity.
    - rewrite <- build_table_app. apply IH.
  Qed.

  Lemma sref_app S a b : sref foldc fx S (a ++ b) = sref foldc fx S a ++ sref foldc fx (S ++ merged a) b.
  Proof.
    revert S. induction a as [|o a IH]; intro S; cbn [app sref merged].
    - rewrite app_nil_r. reflexivity.
    - destruct o as [sns t|more]; cbn [sref merged].
      + rewrite IH. reflexivity.
      + rewrite IH, app_assoc. reflexivity.
  Qed.

  (* the answer to a lookup after the history [a] *)
  Lemma lookup_after_history S a sns t b :
    exists pre post,
      srun foldc fx (build_table foldc S) (a ++ SLookup sns t :: b)
      = pre ++ resolve foldc fx (S ++ merged a) sns t :: post /\ length pre = length (sref foldc fx S a).
  Proof.
    rewrite schema_history, sref_app. cbn [sref]. eexists _, _. split; reflexivity.
  Qed.

  (* identification under a schema namespace is the identification of the text behind the prefix: a
     namespaced configuration (also several libraries merged under one prefix) answers like the un-prefixed
     one, with the prefix put in front of the forms *)
  Lemma find_tag_entry_prefix T ns clean :
    find_tag_entry_ foldc fx T (ns ++ clean) ns = find_tag_entry_ foldc fx T clean [].
  Proof. unfold find_tag_entry_. rewrite skipn_app_exact. reflexivity. Qed.

  Lemma namespace_transparent T sns t :
    get_schema_namespace (sns ++ t) = sns -> get_schema_namespace t = [] ->
    let h := hedtag_init foldc fx T sns (sns ++ t) in
    let h0 := hedtag_init foldc fx T [] t in
    ht_entry h = ht_entry h0 /\ ht_ext h = ht_ext h0 /\
    short_tag h = sns ++ short_tag h0 /\ long_tag h = sns ++ long_tag h0.
  Proof.
    intros N1 N0. cbv zeta. unfold hedtag_init, find_tag_entry. rewrite N1, N0, !str_eqb_refl.
    rewrite find_tag_entry_prefix.
    destruct (find_tag_entry_ foldc fx T t []) as [e ext|err]; unfold short_tag, long_tag;
      cbn [ht_entry ht_ext ht_ns ht_text app]; repeat split; reflexivity.
  Qed.

  (* reading forms and copying never matter *)
  Lemma tag_reads_invisible T sns ops : forall h,
    trun foldc T sns h ops = trun foldc T sns h (filter mutating ops).
  Proof.
    induction ops as [|o r IH]; intro h; [reflexivity|].
    destruct o.
    - cbn [filter mutating trun tstep bind]. apply IH.
    - cbn [filter mutating trun]. destruct (tstep foldc T sns h (TReplacePlaceholder v)); cbn [bind]; [apply IH | reflexivity].
    - cbn [filter mutating trun]. destruct (tstep foldc T sns h (TSetExtension x)); cbn [bind]; [apply IH | reflexivity].
    - cbn [filter mutating trun]. destruct (tstep foldc T sns h (TSetShortBase y)); cbn [bind]; [apply IH | reflexivity].
    - cbn [filter mutating trun tstep bind]. apply IH.
  Qed.
End Hist.

Section Mutated.
  Variable foldc : N -> str.
  Hypothesis fold_slash : foldc ch_slash = [ch_slash] /\ forall c, In ch_slash (foldc c) -> c = ch_slash.
  Hypothesis fold_hash : foldc ch_hash = [ch_hash] /\ (forall c, foldc c = [ch_hash] -> c = ch_hash) /\
                         forall c, foldc c <> [].
  Notation fold := (Schema.fold foldc).
  Variable S : list str.
  Hypothesis HWF : WFschema foldc S = true.
  Variable T : table.
  Hypothesis HB : build_table foldc S = Ok T.
  Variable fx : fixes.
  Hypothesis FI : fix_index fx = true.
  Notation L := (long_form_tags T).

  Let wf : WF foldc S := WFschema_WF foldc fold_slash fold_hash S HWF.
  Let HT : Inv foldc S L := table_inv foldc fold_slash fold_hash S HWF T HB.

  (* A HedTag on node n (or on its '#' child) whose value/extension is now "/r" -- however it got there:
     replace_placeholder, the extension setter, the short_base_tag setter -- and the tag freshly parsed
     from its short or its long form are the same tag. *)
  Lemma mutated_tag_reparses n r sns t0 text :
    In n S -> is_value n = false ->
    no_longer_form foldc T (last_comp n) r = true ->
    (takes_value_child foldc T (ent n) <> None \/ ext_terms_free foldc T r = true) ->
    str_eqb (get_schema_namespace t0) sns = true ->
    let e' := match takes_value_child foldc T (ent n) with Some v => v | None => ent n end in
    let h := mkHedTag text (get_schema_namespace t0) (Some e') (ch_slash :: r) in
    hedtag_init foldc fx T sns (short_tag h)
      = mkHedTag (short_tag h) (get_schema_namespace t0) (Some e') (ch_slash :: r) /\
    hedtag_init foldc fx T sns (long_tag h)
      = mkHedTag (long_tag h) (get_schema_namespace t0) (Some e') (ch_slash :: r).
  Proof.
    intros Hn V NL SC NS. cbv zeta.
    pose proof (wf_names _ _ wf n Hn) as Hok. pose proof (wf_nothash _ _ wf n Hn) as Hnh.
    pose proof (last_comp_form n V) as Fs. pose proof (self_form n Hnh) as Fl.
    assert (NL' : no_longer_form foldc T n r = true).
    { unfold no_longer_form in *. rewrite forallb_forall in *. intros q Hq. specialize (NL q Hq).
      rewrite (form_ext_lookup_eq foldc fold_slash fold_hash S wf T HT n (last_comp n) n q Hn Fs Fl). exact NL. }
    assert (Enames : e_long (match takes_value_child foldc T (ent n) with Some v => v | None => ent n end) = n /\
                     e_short (match takes_value_child foldc T (ent n) with Some v => v | None => ent n end)
                     = last_comp n).
    { destruct (takes_value_child foldc T (ent n)) as [v|] eqn:TV.
      - destruct (value_child_shape foldc fold_slash fold_hash S wf T HT n v Hn V TV) as (_ & A & B). auto.
      - apply ent_nonvalue. exact V. }
    destruct Enames as [EL ES].
    unfold short_tag, long_tag. cbn [ht_entry ht_ns ht_ext]. rewrite EL, ES.
    set (ns := get_schema_namespace t0) in *.
    assert (C1 : ~ In ch_colon (last_comp n))
      by (apply (colon_free_ssuffix foldc S wf n _ Hn), last_comp_ssuffix).
    assert (C2 : ~ In ch_colon n) by (apply (colon_free_ssuffix foldc S wf n _ Hn); left; reflexivity).
    assert (N1 : get_schema_namespace (ns ++ last_comp n ++ ch_slash :: r) = ns)
      by (apply ns_stable; [exact C1 | right; eexists; reflexivity]).
    assert (N2 : get_schema_namespace (ns ++ n ++ ch_slash :: r) = ns)
      by (apply ns_stable; [exact C2 | right; eexists; reflexivity]).
    assert (R : forall p, is_form p n -> no_longer_form foldc T p r = true ->
                find_tag_entry_ foldc fx T (ns ++ p ++ ch_slash :: r) ns
                = Found (match takes_value_child foldc T (ent n) with Some v => v | None => ent n end)
                        (ch_slash :: r)).
    { intros p Fp NLp.
      destruct (remainder_verbatim foldc fold_slash fold_hash S HWF T HB fx FI n (last_comp n) (forms_of n) p
                  (ent n) p r ns Hn V (get_tag_forms_ok n Hok) (proj2 (in_forms_of p n) Fp)
                  (create_tag_entry_ok n Hok Hnh) eq_refl NLp SC) as [H _].
      unfold find_tag_entry in H. rewrite str_eqb_refl in H. exact H. }
    split.
    - apply (hedtag_init_found foldc T fx sns _ ns _ _ N1 NS). apply R; assumption.
    - apply (hedtag_init_found foldc T fx sns _ ns _ _ N2 NS). apply R; assumption.
  Qed.
End Mutated.
