(* Lemmas about the tree as translated NOW (/repo with b484e3c and adebd46); see Props/C17Now.v. *)
From Coq Require Import List NArith ZArith Bool.
From HV Require Import Base.Res Base.Str Model.RemodelJson Gen.RemodelParams Model.Remodel
  Proofs.RemodelProofs.
Import ListNotations.

Lemma now_event_fetch_safe : event_fetch_safe = true.
Proof. vm_compute. reflexivity. Qed.

Lemma now_match_columns_default :
  forall p, lookup k_match_columns p = None ->
    (exists a, merge_consecutive_init (JObj p) = Ok a) ->
    exists a, merge_consecutive_init (JObj p) = Ok a /\ lookup k_match_columns a = Some (JArr []).
Proof.
  intros p Hnone [a Ha]. exists a. split; [exact Ha|].
  cbv beta iota delta [merge_consecutive_init jget_req jget_opt] in Ha.
  repeat (match type of Ha with context [lookup ?k p] => destruct (lookup k p) eqn:? end;
          cbn [bind] in Ha; try discriminate; try congruence).
  injection Ha as <-. vm_compute. reflexivity.
Qed.
