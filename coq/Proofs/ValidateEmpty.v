(* C01: the empty-group rule ("()" -> TAG_EMPTY), also for annotations whose other groups may be empty, and a
   declarative form of the tag-character condition used by Conforming. *)
From Coq Require Import List NArith Arith Bool Lia.
From HV Require Import Base.Res Base.Str Model.ValKinds Model.ValStr Model.Validate.
From HV Require Import Gen.ValidationCodes Proofs.ValidateProofs.
Import ListNotations.

Lemma sub_groups_where f x :
  In x (sub_groups f) -> exists g, In g (groups_of f) /\ (x = g \/ In x (sub_groups g)).
Proof.
  unfold sub_groups. intros H. apply in_flat_map in H as (n & Hn & Hx). destruct n as [t | ch]; [contradiction|].
  exists ch. split; [apply groups_of_in; exact Hn|]. cbn [groups_n] in Hx. destruct Hx as [<- | Hx]; [left; reflexivity|].
  right. exact Hx.
Qed.

(* EMPTY GROUP: an empty parenthesised group anywhere in the annotation is reported (HED_GROUP_EMPTY -> TAG_EMPTY)
   whenever the basic phase is clean; the full phase cannot raise (fix commit 3e47c8c) *)
Lemma rule_empty_group cfg s f :
  basic_clean cfg s f -> In [] (sub_groups f) -> reports cfg s f (kind_code K_HED_GROUP_EMPTY).
Proof.
  intros Hb Hin.
  apply (reports_full cfg s f (iss K_HED_GROUP_EMPTY) Hb (full_checks_total_all cfg f)); [|reflexivity].
  intros fl Hfl. destruct (sub_groups_where f [] Hin) as (g & Hg & [E | Hs]).
  - subst g. apply (in_top_level cfg f fl [] _ Hfl Hg). apply in_or_app. left. left. reflexivity.
  - apply (in_top_level cfg f fl g _ Hfl Hg). apply in_or_app. right.
    apply in_flat_map. exists []. split; [exact Hs | left; reflexivity].
Qed.

(* ... derived from per-tag conformity alone: the tags are individually conforming, groups MAY be empty *)
Theorem empty_group_reported cfg f :
  Forall (wfg_n true (tag_basic_ok cfg)) f -> In [] (sub_groups f) ->
  reports cfg (fprint f) f (kind_code K_HED_GROUP_EMPTY).
Proof.
  intros H Hin. apply rule_empty_group; [|exact Hin]. eapply basic_clean_of_tags. exact H.
Qed.

(* declarative form of the condition [check_tag_invalid_chars cfg t = []] of tag_basic_ok: no namespace or an
   alphabetic one, and every character of the base tag is alphanumeric, one of "-_/" ("#" too when placeholders
   are allowed) or ':' *)
Definition base_char_ok (cfg : config) (c : N) : bool :=
  isalnum c || memb c (if c_ph cfg then c_TAG_ALLOWED_CHARS ++ [ch_hash] else c_TAG_ALLOWED_CHARS) || N.eqb c 58.

Lemma tag_chars_declarative cfg t :
  (tag_namespace (tf_org t) = [] \/ str_isalpha (removelast (tag_namespace (tf_org t))) = true) ->
  forallb (base_char_ok cfg) (org_base t) = true ->
  check_tag_invalid_chars cfg t = [].
Proof.
  intros Hns Hch. unfold check_tag_invalid_chars. cbv zeta.
  assert (E1 : match tag_namespace (tf_org t) with
               | [] => []
               | _ :: _ => if str_isalpha (removelast (tag_namespace (tf_org t))) then []
                           else [iss K_TAG_NAMESPACE_PREFIX_INVALID]
               end = []).
  { destruct Hns as [-> | Ha]; [reflexivity|]. rewrite Ha. destruct (tag_namespace (tf_org t)); reflexivity. }
  rewrite E1. simpl. unfold invalid_chars. apply flat_map_nil. intros c Hc.
  rewrite forallb_forall in Hch. specialize (Hch c Hc). unfold base_char_ok in Hch.
  match goal with |- (if ?b then _ else _) = _ => replace b with true by (symmetry; exact Hch); reflexivity end.
Qed.
