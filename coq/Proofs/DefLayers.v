(* C09: relation between the heap layer (Model/DefStore.v) and the ownership-tree
   layer (Model/DefObj.v).
   Proved for ALL heaps: HedString.copy (deepcopy) yields an object that prints as the
   original and leaves the original printing as before.
   expand_defs / shrink_defs: the two layers are compared by kernel evaluation on a
   systematically enumerated family (text, _expandable/_expanded flags of every
   reachable tag, exceptions) -- see [layers_agree_family]. *)
From Coq Require Import List NArith Arith Bool Lia.
From HV Require Import Base.Res Base.Str Model.Defs Model.DefStore Model.DefObj
  Proofs.DefsProofs Proofs.DefObjProofs.
Import ListNotations.

(* ------------------------------------------------------------------ copy, all heaps *)

Lemma nth_copy cs i :
  nth_error (cs ++ map (shift_cell (length cs)) cs) (i + length cs) =
  option_map (shift_cell (length cs)) (nth_error cs i).
Proof.
  rewrite nth_error_app2 by lia. replace (i + length cs - length cs) with i by lia.
  apply nth_error_map.
Qed.

Lemma abs_node_copy cs fuel : forall i,
  abs_node fuel (cs ++ map (shift_cell (length cs)) cs) (i + length cs) = abs_node fuel cs i.
Proof.
  induction fuel as [|k IH]; intro i; [reflexivity|].
  cbn [abs_node]. unfold get. rewrite nth_copy.
  destruct (nth_error cs i) as [[t p e x h | ch p]|]; cbn [option_map shift_cell bind]; try reflexivity.
  assert (H : mapM (abs_node k (cs ++ map (shift_cell (length cs)) cs)) (map (fun j => j + length cs) ch)
              = mapM (abs_node k cs) ch).
  { induction ch as [|c ch IHc]; [reflexivity|]. cbn [map mapM]. rewrite IH, IHc. reflexivity. }
  rewrite H. reflexivity.
Qed.

Lemma mapM_ext_ok {A B} (f g : A -> res B) l r :
  (forall x v, In x l -> f x = Ok v -> g x = Ok v) -> mapM f l = Ok r -> mapM g l = Ok r.
Proof.
  revert r. induction l as [|x l IH]; intros r H Hm; cbn [mapM] in *; [exact Hm|].
  destruct (f x) as [y|] eqn:Ef; [|discriminate]. cbn [bind] in Hm.
  destruct (mapM f l) as [ys|] eqn:Em; [|discriminate]. cbn [bind] in Hm.
  rewrite (H x y (or_introl eq_refl) Ef). cbn [bind].
  rewrite (IH ys (fun x0 v Hin => H x0 v (or_intror Hin)) eq_refl). exact Hm.
Qed.

(* more fuel never changes a successful reading *)
Lemma abs_node_mono cs k : forall i v, abs_node k cs i = Ok v -> abs_node (S k) cs i = Ok v.
Proof.
  induction k as [|k IH]; intros i v H; [discriminate|].
  cbn [abs_node] in H. change (abs_node (S (S k)) cs i) with
    (let* c := get cs i in
     match c with
     | CTag t _ _ _ _ => Ok (T t)
     | CGroup ch _ => let* l := mapM (abs_node (S k) cs) ch in Ok (G l)
     end).
  destruct (get cs i) as [[t p e x h | ch p]|]; cbn [bind] in *; try exact H; try discriminate.
  destruct (mapM (abs_node k cs) ch) as [l|] eqn:Em; [|discriminate]. cbn [bind] in H.
  rewrite (mapM_ext_ok _ (abs_node (S k) cs) ch l (fun x v _ => IH x v) Em). exact H.
Qed.

Lemma abs_node_mono_le cs k k' i v : k <= k' -> abs_node k cs i = Ok v -> abs_node k' cs i = Ok v.
Proof. induction 1 as [|m Hle IH]; [auto|]. intro Ha. apply abs_node_mono. auto. Qed.

(* new objects never change a successful reading of old ones *)
Lemma abs_node_ext cs ext k : forall i v, abs_node k cs i = Ok v -> abs_node k (cs ++ ext) i = Ok v.
Proof.
  induction k as [|k IH]; intros i v H; [discriminate|].
  cbn [abs_node] in *. unfold get in *.
  destruct (nth_error cs i) as [c|] eqn:En; [|discriminate].
  rewrite nth_error_app1 by (apply nth_error_Some; congruence). rewrite En.
  destruct c as [t p e x h | ch p]; cbn [bind] in *; [exact H|].
  destruct (mapM (abs_node k cs) ch) as [l|] eqn:Em; [|discriminate]. cbn [bind] in H.
  rewrite (mapM_ext_ok _ (abs_node k (cs ++ ext)) ch l (fun x v _ => IH x v) Em). exact H.
Qed.

(* HedString.copy(): the copy prints as the original, and the original (still
   reachable: [swap]) prints as before *)
Lemma copy_abs s f :
  abs s = Ok f -> abs (copy s) = Ok f /\ abs (swap (copy s)) = Ok f.
Proof.
  unfold abs, copy, swap. cbn [cells root saved]. intro H.
  destruct (abs_node (S (length (cells s))) (cells s) (root s)) as [n|] eqn:E; [|discriminate].
  cbn [bind] in H.
  assert (Hl : S (length (cells s)) <= S (length (cells s ++ map (shift_cell (length (cells s))) (cells s)))).
  { rewrite app_length. lia. }
  split.
  - rewrite (abs_node_mono_le _ _ _ _ n Hl); [exact H|]. rewrite abs_node_copy. exact E.
  - rewrite (abs_node_mono_le _ _ _ _ n Hl); [exact H|]. apply abs_node_ext. exact E.
Qed.

(* ------------------------------------------------------------------ expand / shrink: enumerated family *)

Definition s_p : str := [80]%N.                       (* "P" *)
Definition s_p3 : str := [80;47;51]%N.                (* "P/3" *)
Definition s_phash : str := [80;47;35]%N.             (* "P/#" *)
Definition s_unknown : str := [85]%N.
(* (Definition/MyDef,(Red,Blue)) ; (Definition/P/#,(Label/#,(Red))) *)
Definition fam_defs : list forest :=
  [[G [T (tg BDefinition s_mydef); G [t_red; t_blue]]];
   [G [T (tg BDefinition s_phash); G [T (tg (BOther s_label true false) [35]%N); G [t_red]]]]].
Definition fam_dict : dict := fst (add_definitions [] fam_defs).

(* Def/MyDef, Def/P/3, Def/P (value missing), Def/U (no definition), Def-expand/MyDef, Red *)
Definition fam_leaves : list node :=
  [T (tg BDef s_mydef); T (tg BDef s_p3); T (tg BDef s_p); T (tg BDef s_unknown);
   T (tg BDefExpand s_mydef); t_red].
(* written Def-expand groups: matching, mismatching, with value, two Def-expand tags *)
Definition fam_written : list node :=
  [G [T (tg BDefExpand s_mydef); G [t_blue; t_red]];
   G [T (tg BDefExpand s_mydef); G [t_red]];
   G [T (tg BDefExpand s_p3); G [T (tg (BOther s_label true false) [51]%N); G [t_red]]];
   G [T (tg BDefExpand s_mydef); T (tg BDefExpand s_p3); G [t_red]]].
Definition fam_nodes : list node :=
  fam_leaves ++ fam_written
  ++ map (fun a => G [a]) (fam_leaves ++ fam_written)
  ++ flat_map (fun a => map (fun b => G [a; b]) fam_leaves) (fam_leaves ++ fam_written)
  ++ map (fun a => G [t_red; G [a; G [a]]]) (fam_leaves ++ fam_written).
Definition fam_forests : list forest :=
  map (fun a => [a]) fam_nodes
  ++ flat_map (fun a => map (fun b => [a; b]) (fam_leaves ++ fam_written)) (fam_leaves ++ fam_written).

Definition flags_eqb (a b : list (str * (bool * bool))) : bool :=
  (length a =? length b) &&
  forallb (fun p => str_eqb (fst (fst p)) (fst (snd p)) &&
                    Bool.eqb (fst (snd (fst p))) (fst (snd (snd p))) &&
                    Bool.eqb (snd (snd (fst p))) (snd (snd (snd p)))) (combine a b).

(* text, flags of every reachable tag, and exceptions agree *)
Definition layers_agree2 (fx : bool) (D : dict) (f : forest) (ops : list op) : bool :=
  match run fx D ops (load f), run_os fx D ops (load_o f, []) with
  | Ok s, Ok (o, _) =>
      res_forest_eqb (abs s) (abs_of o) &&
      match tag_flags s, abs_of o with
      | Ok fl, Ok _ => flags_eqb fl (flat_map flags_o o)
      | Exn _, Exn _ => true
      | _, _ => false
      end
  | Exn KeyError, Exn KeyError => true
  | Exn Unmodelled, Exn Unmodelled => true
  | _, _ => false
  end.

Lemma layers_agree_family :
  length fam_forests = 190 /\
  (forall f ops, In f fam_forests -> In ops (all_ops 4) -> layers_agree2 true fam_dict f ops = true) /\
  (forall f ops, In f fam_forests -> In ops (all_ops 3) -> layers_agree2 false fam_dict f ops = true).
Proof.
  split; [vm_compute; reflexivity|]. split.
  - assert (H : forallb (fun f => forallb (layers_agree2 true fam_dict f) (all_ops 4)) fam_forests = true)
      by (vm_compute; reflexivity).
    intros f ops Hf Hops. rewrite forallb_forall in H. specialize (H f Hf).
    rewrite forallb_forall in H. exact (H ops Hops).
  - assert (H : forallb (fun f => forallb (layers_agree2 false fam_dict f) (all_ops 3)) fam_forests = true)
      by (vm_compute; reflexivity).
    intros f ops Hf Hops. rewrite forallb_forall in H. specialize (H f Hf).
    rewrite forallb_forall in H. exact (H ops Hops).
Qed.
