(* Proofs about Model/Dups.v (property C04), part 6: the shape rule of Onset /
   Inset / Offset groups (DefValidator.validate_onset_offset).

   The rule is written in an order-sensitive way (first temporal tag, first
   child, identity of the def member); the number of issues it reports -- all
   of them carry the published code TEMPORAL_TAG_ERROR -- nevertheless only
   depends on the multiset of the members, provided the definitions resolve
   (t_def = 0, which is what the basic phase guarantees before the full-string
   checks run) and the temporal keys are recognised consistently. *)
From Coq Require Import List NArith Arith Bool Lia Permutation.
From HV Require Import Base.Res Base.Str Model.Dups Gen.C04Codes
  Proofs.DupsProofs Proofs.DupsCount Proofs.DupsRules.
Import ListNotations.

(* ------------------------------------------------------------------ *)
(* list facts                                                          *)
(* ------------------------------------------------------------------ *)

Lemma find_map {A B} (f : A -> B) (p : B -> bool) l :
  find p (map f l) = option_map f (find (fun x => p (f x)) l).
Proof. induction l as [|x l IH]; [reflexivity|]. simpl. destruct (p (f x)); auto. Qed.

Lemma remove_first_map {A B} (f : A -> B) (p : B -> bool) l :
  remove_first p (map f l) = map f (remove_first (fun x => p (f x)) l).
Proof. induction l as [|x l IH]; [reflexivity|]. simpl. destruct (p (f x)); simpl; congruence. Qed.

Lemma remove_first_ext {A} (p q : A -> bool) l :
  (forall x, p x = q x) -> remove_first p l = remove_first q l.
Proof. intro H. induction l as [|x l IH]; [reflexivity|]. simpl. rewrite H, IH. reflexivity. Qed.

Lemma find_ext {A} (p q : A -> bool) l : (forall x, p x = q x) -> find p l = find q l.
Proof. intro H. induction l as [|x l IH]; [reflexivity|]. simpl. rewrite H, IH. reflexivity. Qed.

Lemma find_perm_cons {A} (p : A -> bool) l f :
  find p l = Some f -> Permutation l (f :: remove_first p l).
Proof.
  induction l as [|x l IH]; simpl; intro H; [discriminate|].
  destruct (p x).
  - inversion H; subst. reflexivity.
  - rewrite (IH H) at 1. apply perm_swap.
Qed.

Lemma list_sum_perm l l' : Permutation l l' -> list_sum l = list_sum l'.
Proof. induction 1; simpl; lia. Qed.

Lemma forall_perm {A} (P : A -> Prop) l l' : Permutation l l' -> Forall P l -> Forall P l'.
Proof.
  intros Hp H. rewrite Forall_forall in *. intros x Hx. apply H.
  eapply Permutation_in; [apply Permutation_sym; exact Hp|exact Hx].
Qed.

Lemma null_length {A} (l : list A) : null l = (length l =? 0).
Proof. destruct l; reflexivity. Qed.

(* ------------------------------------------------------------------ *)
(* what the rule sees of a member, and the number of issues            *)
(* ------------------------------------------------------------------ *)

Record msum := mkMs { ms_tmp : bool; ms_off : bool; ms_nd : nat; ms_dly : bool; ms_tag : bool }.

Definition ms (c : tree) : msum :=
  mkMs (is_temporal_tag c)
       (match c with T a => t_base a =? B_OFFSET | G _ => false end)
       (length (def_entries_of c))
       (is_delay_tag c)
       (match c with T _ => true | G _ => false end).

Definition mkeep (s : msum) : bool := (ms_nd s =? 0) && negb (ms_dly s).

Definition ocount (l : list msum) : nat :=
  match find ms_tmp l with
  | None => 0
  | Some f =>
      match list_sum (map ms_nd l) with
      | 0 => 1
      | 1 => let ch := filter mkeep (remove_first ms_tmp l) in
             if (if ms_off f then 0 else 1) <? length ch then 1
             else match ch with s :: _ => if ms_tag s then 1 else 0 | [] => 0 end
      | _ => 1
      end
  end.

Lemma ndsum_spec g : list_sum (map ms_nd (map ms g)) = length (find_def_tags g).
Proof.
  unfold find_def_tags. induction g as [|c g IH]; [reflexivity|].
  change (list_sum (map ms_nd (map ms (c :: g)))) with (ms_nd (ms c) + list_sum (map ms_nd (map ms g))).
  cbn [flat_map]. rewrite app_length, IH. reflexivity.
Qed.

Lemma onset_group_count g :
  (forall d, In d (find_def_tags g) -> t_def d = 0) ->
  length (onset_group g) = ocount (map ms g).
Proof.
  intro Hd. unfold onset_group, ocount.
  rewrite find_map.
  rewrite (find_ext (fun x => ms_tmp (ms x)) is_temporal_tag g (fun x => eq_refl)).
  rewrite ndsum_spec.
  destruct (find is_temporal_tag g) as [found|]; [|reflexivity]. cbn [option_map].
  destruct (find_def_tags g) as [|d [|d2 r]] eqn:Edefs; [reflexivity| |reflexivity].
  cbn [length].
  rewrite remove_first_map.
  rewrite (remove_first_ext (fun x => ms_tmp (ms x)) is_temporal_tag g (fun x => eq_refl)).
  rewrite (filter_map_comm ms mkeep).
  rewrite map_length.
  assert (Hk : forall c, mkeep (ms c) = null (def_entries_of c) && negb (is_delay_tag c)).
  { intro c. unfold mkeep, ms. cbn [ms_nd ms_dly]. rewrite null_length. reflexivity. }
  rewrite (filter_ext _ _ Hk).
  set (children := filter (fun c => null (def_entries_of c) && negb (is_delay_tag c))
                          (remove_first is_temporal_tag g)).
  assert (Hoff : (match found with T a => if t_base a =? B_OFFSET then 0 else 1 | G _ => 1 end)
                 = (if ms_off (ms found) then 0 else 1)).
  { destruct found as [a|l]; reflexivity. }
  rewrite Hoff.
  destruct ((if ms_off (ms found) then 0 else 1) <? length children); [reflexivity|].
  assert (Hh : handle_onset_or_offset d = []).
  { unfold handle_onset_or_offset. rewrite (Hd d); [reflexivity|left; reflexivity]. }
  rewrite Hh, app_nil_r.
  destruct children as [|[a|l] rest]; reflexivity.
Qed.

(* consistency at the level of summaries: a temporal member is a tag, has no
   def entry and is not a Delay tag *)
Definition scons (s : msum) : Prop :=
  ms_tmp s = true -> ms_tag s = true /\ ms_nd s = 0 /\ ms_dly s = false.

Lemma ocount_many f R x :
  Forall scons R -> In x R -> ms_tmp x = true ->
  (if (if ms_off f then 0 else 1) <? length (filter mkeep R) then 1
   else match filter mkeep R with s :: _ => if ms_tag s then 1 else 0 | [] => 0 end) = 1.
Proof.
  intros Hs Hx Ht.
  rewrite Forall_forall in Hs. destruct (Hs x Hx Ht) as (Htag & Hnd & Hdl).
  assert (Hin : In x (filter mkeep R)).
  { apply filter_In. split; [exact Hx|]. unfold mkeep. rewrite Hnd, Hdl. reflexivity. }
  destruct ((if ms_off f then 0 else 1) <? length (filter mkeep R)) eqn:E; [reflexivity|].
  apply Nat.ltb_ge in E.
  destruct (filter mkeep R) as [|s [|s2 r]].
  - destruct Hin.
  - destruct Hin as [He|[]]. subst s. rewrite Htag. reflexivity.
  - exfalso. simpl in E. destruct (ms_off f); lia.
Qed.

Lemma ocount_perm l l' : Forall scons l -> Permutation l l' -> ocount l = ocount l'.
Proof.
  intros Hs Hp. assert (Hs' : Forall scons l') by (eapply forall_perm; eauto).
  unfold ocount.
  rewrite <- (list_sum_perm _ _ (Permutation_map ms_nd Hp)).
  destruct (find ms_tmp l) as [f|] eqn:Ef; destruct (find ms_tmp l') as [f'|] eqn:Ef'.
  - destruct (list_sum (map ms_nd l)) as [|[|n]]; try reflexivity.
    pose proof (find_perm_cons _ _ _ Ef) as P1. pose proof (find_perm_cons _ _ _ Ef') as P2.
    set (R := remove_first ms_tmp l) in *. set (R' := remove_first ms_tmp l') in *.
    assert (HsR : Forall scons R).
    { apply (forall_perm _ _ _ P1) in Hs. inversion Hs; assumption. }
    assert (HsR' : Forall scons R').
    { apply (forall_perm _ _ _ P2) in Hs'. inversion Hs'; assumption. }
    destruct (find_some _ _ Ef) as [_ Tf]. destruct (find_some _ _ Ef') as [_ Tf'].
    assert (Hcnt : length (filter ms_tmp R) = length (filter ms_tmp R')).
    { assert (H1 : Permutation (filter ms_tmp (f :: R)) (filter ms_tmp (f' :: R'))).
      { apply perm_filter. rewrite <- P1, <- P2. exact Hp. }
      apply Permutation_length in H1. cbn [filter] in H1. rewrite Tf, Tf' in H1. simpl in H1. lia. }
    destruct (filter ms_tmp R) as [|x fr] eqn:EfR.
    + (* exactly one temporal member: it is the same in both orders *)
      destruct (filter ms_tmp R') as [|x' fr'] eqn:EfR'; [|discriminate].
      assert (Hff : f = f').
      { assert (H1 : Permutation (filter ms_tmp (f :: R)) (filter ms_tmp (f' :: R'))).
        { apply perm_filter. rewrite <- P1, <- P2. exact Hp. }
        cbn [filter] in H1. rewrite Tf, Tf', EfR, EfR' in H1.
        apply Permutation_length_1_inv in H1. inversion H1. reflexivity. }
      subst f'.
      assert (HR : Permutation R R').
      { eapply Permutation_cons_inv. rewrite <- P1, <- P2. exact Hp. }
      pose proof (perm_filter mkeep _ _ HR) as Hch.
      rewrite <- (Permutation_length Hch).
      destruct ((if ms_off f then 0 else 1) <? length (filter mkeep R)) eqn:E; [reflexivity|].
      apply Nat.ltb_ge in E.
      destruct (filter mkeep R) as [|s [|s2 r]].
      * apply Permutation_nil in Hch. rewrite Hch. reflexivity.
      * apply Permutation_length_1_inv in Hch. rewrite Hch. reflexivity.
      * exfalso. simpl in E. destruct (ms_off f); lia.
    + (* a second temporal member: one issue in any order *)
      destruct (filter ms_tmp R') as [|x' fr'] eqn:EfR'; [discriminate|].
      assert (Hx : In x R /\ ms_tmp x = true).
      { apply filter_In. rewrite EfR. left. reflexivity. }
      assert (Hx' : In x' R' /\ ms_tmp x' = true).
      { apply filter_In. rewrite EfR'. left. reflexivity. }
      cbv zeta.
      rewrite (ocount_many f R x HsR (proj1 Hx) (proj2 Hx)).
      rewrite (ocount_many f' R' x' HsR' (proj1 Hx') (proj2 Hx')). reflexivity.
  - exfalso. destruct (find_some _ _ Ef) as [If Tf].
    pose proof (find_none _ _ Ef' f (Permutation_in _ Hp If)). congruence.
  - exfalso. destruct (find_some _ _ Ef') as [If Tf].
    pose proof (find_none _ _ Ef f' (Permutation_in _ (Permutation_sym Hp) If)). congruence.
  - reflexivity.
Qed.

(* ------------------------------------------------------------------ *)
(* members under sibling permutation                                   *)
(* ------------------------------------------------------------------ *)

Lemma ms_perm_mut :
  (forall t t', PermTree t t' -> ms t = ms t') /\
  (forall l l', PermForest l l' -> Permutation (map ms l) (map ms l')).
Proof.
  apply PermTF_mind.
  - reflexivity.
  - intros l l' Hp _. unfold ms. cbn [is_temporal_tag is_delay_tag def_entries_of].
    destruct (proj2 obs_perm_mut _ _ Hp) as (_ & _ & _ & Q4 & _).
    rewrite (Permutation_length (perm_filter _ _ _ Q4)). reflexivity.
  - constructor.
  - intros t t' l l' _ E _ P. cbn [map]. rewrite E. constructor. exact P.
  - intros a b l. cbn [map]. apply perm_swap.
  - intros l1 l2 l3 _ P1 _ P2. etransitivity; eauto.
Qed.

(* hypotheses on the tags: temporal keys recognised consistently, definitions resolve *)
Definition tcons (a : tag) : bool := implb (is_temporal (t_basef a)) (is_temporal (t_base a)).
Definition okp (a : tag) : bool := tcons a && (t_def a =? 0).
Definition okl (l : list tree) : bool := forallb okp (all_tags l).

Lemma tags_of_all_tags l a : In a (tags_of l) -> In a (all_tags l).
Proof.
  unfold tags_of, all_tags. rewrite !in_flat_map. intros (c & Hc & Ha).
  exists c. split; [exact Hc|]. destruct c as [b|g]; [exact Ha|destruct Ha].
Qed.

Lemma member_all_tags g l a : In (G l) g -> In a (all_tags l) -> In a (all_tags g).
Proof.
  intros Hg Ha. unfold all_tags in *. rewrite in_flat_map. exists (G l). split; [exact Hg|]. exact Ha.
Qed.

Lemma okl_scons g : okl g = true -> Forall scons (map ms g).
Proof.
  intro H. unfold okl in H. rewrite forallb_forall in H.
  apply Forall_forall. intros s Hs. rewrite in_map_iff in Hs. destruct Hs as (c & Ec & Hc). subst s.
  intro Ht. destruct c as [a|l]; [|discriminate].
  cbn [ms ms_tmp ms_tag ms_nd ms_dly is_temporal_tag is_delay_tag def_entries_of] in *.
  assert (Ha : In a (all_tags g)).
  { apply tags_of_all_tags. unfold tags_of. rewrite in_flat_map. exists (T a). split; [exact Hc|left; reflexivity]. }
  specialize (H a Ha). unfold okp, tcons in H. apply andb_true_iff in H as [H _].
  rewrite Ht in H. simpl in H. unfold is_temporal, B_ONSET, B_OFFSET, B_INSET in H.
  unfold B_DEF, B_DELAY.
  destruct (t_base a =? 7) eqn:E7; [apply Nat.eqb_eq in E7; rewrite E7 in H; discriminate|].
  destruct (t_base a =? 6) eqn:E6; [apply Nat.eqb_eq in E6; rewrite E6 in H; discriminate|].
  auto.
Qed.

Lemma okl_defs g : okl g = true -> forall d, In d (find_def_tags g) -> t_def d = 0.
Proof.
  intros H d Hd. unfold okl in H. rewrite forallb_forall in H.
  assert (Ha : In d (all_tags g)).
  { unfold find_def_tags in Hd. rewrite in_flat_map in Hd. destruct Hd as (c & Hc & Hd).
    destruct c as [a|l]; cbn [def_entries_of] in Hd.
    - destruct (t_base a =? B_DEF); [|destruct Hd]. destruct Hd as [E|[]]. subst d.
      apply tags_of_all_tags. unfold tags_of. rewrite in_flat_map. exists (T a). split; [exact Hc|left; reflexivity].
    - apply filter_In in Hd. destruct Hd as [Hd _].
      eapply member_all_tags; [exact Hc|]. apply tags_of_all_tags. exact Hd. }
  specialize (H d Ha). unfold okp in H. apply andb_true_iff in H as [_ H]. apply Nat.eqb_eq. exact H.
Qed.

Definition ons_t (t : tree) : list kind := match t with T _ => [] | G g => onset_group g end.

Lemma validate_onset_ons_t top : validate_onset_offset top = flat_map ons_t top.
Proof.
  unfold validate_onset_offset, groups_of. induction top as [|t top IH]; [reflexivity|].
  cbn [flat_map]. rewrite flat_map_app, IH. destruct t; simpl; [reflexivity|].
  rewrite app_nil_r. reflexivity.
Qed.

Lemma okl_perm l l' : PermForest l l' -> okl l = okl l'.
Proof.
  intro Hp. destruct (proj2 obs_perm_mut _ _ Hp) as (Q1 & _). unfold okl. apply forallb_perm. exact Q1.
Qed.

Lemma onset_count_perm_mut :
  (forall t t', PermTree t t' -> okl [t] = true -> length (ons_t t) = length (ons_t t')) /\
  (forall l l', PermForest l l' -> okl l = true ->
                length (flat_map ons_t l) = length (flat_map ons_t l')).
Proof.
  apply PermTF_mind.
  - reflexivity.
  - intros l l' Hp _ Hok. cbn [ons_t].
    assert (Hok1 : okl l = true).
    { unfold okl, all_tags in *. cbn [flat_map all_tags_t] in Hok. rewrite app_nil_r in Hok. exact Hok. }
    assert (Hok2 : okl l' = true) by (rewrite <- (okl_perm _ _ Hp); exact Hok1).
    rewrite (onset_group_count l (okl_defs l Hok1)), (onset_group_count l' (okl_defs l' Hok2)).
    apply ocount_perm; [apply okl_scons; exact Hok1|]. apply (proj2 ms_perm_mut). exact Hp.
  - reflexivity.
  - intros t t' l l' _ IHt _ IHl Hok. cbn [flat_map]. rewrite !app_length.
    unfold okl, all_tags in *. cbn [flat_map] in Hok. rewrite forallb_app in Hok.
    apply andb_true_iff in Hok as [H1 H2].
    rewrite IHt, IHl; [reflexivity|exact H2|]. cbn [flat_map]. rewrite app_nil_r. exact H1.
  - intros a b l _. cbn [flat_map]. rewrite !app_length. lia.
  - intros l1 l2 l3 H12 IH1 _ IH2 Hok. rewrite IH1 by exact Hok. apply IH2.
    rewrite <- (okl_perm _ _ H12). exact Hok.
Qed.

(* every issue of the rule is published as TEMPORAL_TAG_ERROR (translated table) *)
Lemma onset_group_codes g : map code_of (onset_group g) = repeat 4 (length (onset_group g)).
Proof.
  unfold onset_group. destruct (find is_temporal_tag g) as [found|]; [|reflexivity].
  destruct (find_def_tags g) as [|d [|d2 r]]; try reflexivity.
  match goal with |- context [if ?c then _ else _] => destruct c end; [reflexivity|].
  unfold handle_onset_or_offset.
  match goal with |- context [match ?ch with [] => _ | _ :: _ => _ end] => destruct ch as [|[a|l] rest] end;
    destruct (t_def d) as [|[|n]]; reflexivity.
Qed.

Lemma onset_codes top :
  map code_of (validate_onset_offset top) = repeat 4 (length (validate_onset_offset top)).
Proof.
  rewrite validate_onset_ons_t. induction top as [|t top IH]; [reflexivity|].
  cbn [flat_map]. rewrite map_app, app_length, repeat_app, IH. f_equal.
  destruct t; [reflexivity|]. apply onset_group_codes.
Qed.

(* THEOREM: the published codes of the Onset/Inset/Offset shape rule do not
   depend on the order of siblings at any level *)
Lemma onset_perm top top' :
  PermForest top top' -> okl top = true ->
  map code_of (validate_onset_offset top) = map code_of (validate_onset_offset top').
Proof.
  intros Hp Hok. rewrite !onset_codes. f_equal. rewrite !validate_onset_ons_t.
  apply (proj2 onset_count_perm_mut); assumption.
Qed.

(* without the hypothesis on the definitions the rule is order dependent
   (not reachable through HedString.validate, where the basic phase reports an
   undeclared Def first): (Def/Nope, Onset, Offset) vs (Def/Nope, Offset, Onset) *)
Definition mk_plain (base basef def : nat) : tree :=
  T (mkTag [] [] [] false false base basef [] [] def).
Definition w_onset_1 : list tree := [G [mk_plain B_DEF 9 1; mk_plain B_ONSET B_ONSET 0; mk_plain B_OFFSET B_OFFSET 0]].
Definition w_onset_2 : list tree := [G [mk_plain B_DEF 9 1; mk_plain B_OFFSET B_OFFSET 0; mk_plain B_ONSET B_ONSET 0]].

Lemma onset_order_refuted_unresolved_def :
  PermForest w_onset_1 w_onset_2 /\
  validate_onset_offset w_onset_1 = [K_ONSET_TAG_OUTSIDE_OF_GROUP; K_ONSET_DEF_UNMATCHED] /\
  validate_onset_offset w_onset_2 = [K_ONSET_WRONG_NUMBER_GROUPS].
Proof.
  split; [|vm_compute; auto]. unfold w_onset_1, w_onset_2.
  apply PF_skip; [|apply PF_nil]. apply PT_group. apply PF_skip; [apply PT_refl|]. apply PF_swap.
Qed.

(* ------------------------------------------------------------------ *)
(* respelling                                                          *)
(* ------------------------------------------------------------------ *)

Lemma def_entries_strip c : def_entries_of (strip c) = map strip_tag (def_entries_of c).
Proof.
  destruct c as [a|l]; cbn [strip def_entries_of].
  - cbn [strip_tag t_base]. destruct (t_base a =? B_DEF); reflexivity.
  - rewrite tags_of_strip. apply filter_strip. reflexivity.
Qed.

Lemma onset_group_strip g : onset_group (map strip g) = onset_group g.
Proof.
  unfold onset_group, find_def_tags.
  rewrite find_map. rewrite (find_ext _ is_temporal_tag g) by (intros [a|l]; reflexivity).
  rewrite flat_map_map. rewrite (flat_map_ext _ (fun c => map strip_tag (def_entries_of c))) by apply def_entries_strip.
  rewrite remove_first_map. rewrite (remove_first_ext _ is_temporal_tag g) by (intros [a|l]; reflexivity).
  rewrite filter_map_comm, map_length.
  rewrite (filter_ext _ (fun c => null (def_entries_of c) && negb (is_delay_tag c))).
  2:{ intro c. rewrite def_entries_strip. f_equal; [destruct (def_entries_of c); reflexivity|destruct c; reflexivity]. }
  destruct (find is_temporal_tag g) as [found|]; [|reflexivity]. cbn [option_map].
  assert (Hfm : flat_map (fun c => map strip_tag (def_entries_of c)) g = map strip_tag (flat_map def_entries_of g)).
  { induction g as [|c g IH]; [reflexivity|]. cbn [flat_map]. rewrite map_app, IH. reflexivity. }
  rewrite Hfm.
  destruct (flat_map def_entries_of g) as [|d [|d2 r]]; try reflexivity. cbn [map].
  assert (Hmx : match strip found with T a => if t_base a =? B_OFFSET then 0 else 1 | G _ => 1 end
                = match found with T a => if t_base a =? B_OFFSET then 0 else 1 | G _ => 1 end).
  { destruct found; reflexivity. }
  rewrite Hmx.
  match goal with |- context [if ?c then _ else _] => destruct c end; [reflexivity|].
  f_equal.
  match goal with |- context [filter ?p ?l] => destruct (filter p l) as [|[a|l0] rest] end; reflexivity.
Qed.

Lemma onset_strip top : validate_onset_offset (map strip top) = validate_onset_offset top.
Proof.
  unfold validate_onset_offset. rewrite groups_of_strip, flat_map_map.
  apply flat_map_ext. intro g. apply onset_group_strip.
Qed.

Lemma onset_respell top top' :
  Respell top top' -> validate_onset_offset top = validate_onset_offset top'.
Proof.
  intro H. rewrite <- (onset_strip top), <- (onset_strip top'). unfold Respell in H. rewrite H. reflexivity.
Qed.

(* ------------------------------------------------------------------ *)
(* HedValidator.run_full_string_checks as a whole (code as it is)      *)
(* ------------------------------------------------------------------ *)

Lemma full_checks_perm_fixed nr nu top top' :
  PermForest top top' -> forallb wft top = true -> okl top = true ->
  exists l l', full_string_checks Fx nr nu top = Ok l /\ full_string_checks Fx nr nu top' = Ok l' /\
               Permutation (map code_of l) (map code_of l').
Proof.
  intros Hp Hw Hok.
  destruct (group_checks_perm_fixed nr nu _ _ Hp Hw) as (l & l' & E & E' & P).
  unfold full_string_checks. rewrite E, E'. cbn [bind].
  eexists; eexists; split; [reflexivity|split; [reflexivity|]].
  rewrite !map_app. apply Permutation_app; [apply Permutation_map; exact P|].
  rewrite (onset_perm _ _ Hp Hok). reflexivity.
Qed.

Lemma full_checks_respell_fixed nr nu top top' :
  Respell top top' -> forallb wft top = true ->
  exists l, full_string_checks Fx nr nu top = Ok l /\ full_string_checks Fx nr nu top' = Ok l.
Proof.
  intros Hr Hw.
  destruct (group_checks_respell_fixed nr nu _ _ Hr Hw) as (l & E & E').
  unfold full_string_checks. rewrite E, E'. cbn [bind]. rewrite (onset_respell _ _ Hr).
  eexists; split; reflexivity.
Qed.

(* the code as it is: the full-string checks never raise *)
Lemma full_checks_never_raise nr nu top : exists iss, full_string_checks Fx nr nu top = Ok iss.
Proof.
  destruct (group_checks_never_raise nr nu top) as [l E].
  unfold full_string_checks. rewrite E. cbn [bind]. eexists. reflexivity.
Qed.

Lemma empty_group_code : code_of K_GROUP_EMPTY = 1.
Proof. reflexivity. Qed.
