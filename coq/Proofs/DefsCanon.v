(* C09: completeness of the sorted Def-expand comparison.
   Canonical forms of nodes are the [cview]s of the C04 development; its theorem
   [ckey_inj] (printing of canonical forms is injective when tag texts are non-empty
   and free of ',', '(' and ')') and its stable-sort lemmas give that HedGroup.sorted()
   computes a canonical form: two groups that are equal up to sibling order sort to
   element-wise equal lists. *)
From Coq Require Import List NArith Arith Bool Lia Permutation Sorted.
From HV Require Import Base.Res Base.Str Gen.C09Fold Model.Defs Model.DefStore Proofs.DefsProofs.
From HV Require Model.Dups Proofs.DupsProofs.
Import ListNotations.

Module DM := HV.Model.Dups.
Module DP := HV.Proofs.DupsProofs.

(* ------------------------------------------------------------------ canonical view of a node *)

Fixpoint cn (n : node) : DP.cview :=
  match n with
  | T t => DP.CT (lower (short_tag t))
  | G ch => DP.CL (map cn ch)
  end.

(* what the parser guarantees of a tag text: non-empty, no comma / parenthesis *)
Definition wf_text (s : str) : bool := DP.wf_name s.
Definition wft (n : node) : bool := forallb (fun t => wf_text (short_tag t)) (all_tags n).
Definition wfl (l : list node) : bool := forallb (fun t => wf_text (short_tag t)) (all_tags_f l).

Lemma lower_c_delim c : DP.is_delim (lower_c c) = DP.is_delim c.
Proof.
  unfold lower_c, DP.is_delim, ch_comma, ch_open, ch_close.
  destruct ((65 <=? c) && (c <=? 90))%N eqn:E; [|reflexivity].
  apply andb_true_iff in E as [E1 E2]. apply N.leb_le in E1. apply N.leb_le in E2.
  assert (H : forall k, (k < 65)%N -> N.eqb (c + 32) k = false /\ N.eqb c k = false).
  { intros k Hk. split; apply N.eqb_neq; lia. }
  destruct (H 44%N ltac:(lia)) as [-> ->]. destruct (H 40%N ltac:(lia)) as [-> ->].
  destruct (H 41%N ltac:(lia)) as [-> ->]. reflexivity.
Qed.

(* the generated casefold table never touches a delimiter and never folds to nothing *)
Definition fold_entry_ok (e : N * list N) : bool :=
  negb (DP.is_delim (fst e)) && negb (DM.null (snd e)) && forallb (fun c => negb (DP.is_delim c)) (snd e).

Lemma fold_table_ok : forallb fold_entry_ok c09_fold_table = true.
Proof. vm_compute. reflexivity. Qed.

Lemma assoc_fold_in c tb l : assoc_fold c tb = Some l -> In (c, l) tb.
Proof.
  induction tb as [|[k l'] tb IH]; cbn [assoc_fold]; [discriminate|].
  destruct (N.eqb c k) eqn:E; [|intro H; right; auto].
  intro H. inversion H; subst. apply N.eqb_eq in E. subst. left. reflexivity.
Qed.

Lemma fold_c_ok c :
  DM.null (fold_c c) = false /\
  forallb (fun x => negb (DP.is_delim x)) (fold_c c) = negb (DP.is_delim c).
Proof.
  unfold fold_c. destruct (assoc_fold c c09_fold_table) as [l|] eqn:E.
  - apply assoc_fold_in in E. pose proof fold_table_ok as Hk. rewrite forallb_forall in Hk.
    specialize (Hk _ E). unfold fold_entry_ok in Hk. cbn [fst snd] in Hk.
    apply andb_true_iff in Hk as [Hk H3]. apply andb_true_iff in Hk as [H1 H2].
    apply negb_true_iff in H2. rewrite H1, H2, H3. split; reflexivity.
  - cbn. rewrite lower_c_delim, andb_true_r. split; reflexivity.
Qed.

Lemma wf_text_lower s : wf_text (lower s) = wf_text s.
Proof.
  unfold wf_text, DP.wf_name, lower. f_equal.
  - f_equal. destruct s as [|c s]; [reflexivity|]. cbn [flat_map].
    destruct (fold_c_ok c) as [Hn _]. destruct (fold_c c); [discriminate | reflexivity].
  - induction s as [|c s IH]; [reflexivity|]. cbn [flat_map forallb]. rewrite forallb_app, IH.
    destruct (fold_c_ok c) as [_ Hd]. rewrite Hd. reflexivity.
Qed.

Lemma wfc_cn n : DP.wfc (cn n) = wft n.
Proof.
  unfold wft. induction n as [t | ch IH] using node_ind2; cbn [cn DP.wfc all_tags forallb].
  - rewrite andb_true_r. apply wf_text_lower.
  - rewrite forallb_flat_map. induction IH as [|x l Hx Hl IHl]; [reflexivity|].
    cbn [map forallb]. rewrite Hx, IHl. reflexivity.
Qed.

Lemma wfc_cn_list l : forallb DP.wfc (map cn l) = wfl l.
Proof.
  unfold wfl, all_tags_f. rewrite forallb_flat_map.
  induction l as [|x l IH]; [reflexivity|]. cbn [map forallb]. rewrite wfc_cn, IH. reflexivity.
Qed.

(* ------------------------------------------------------------------ the sort key is the canonical key *)

Lemma lower_app a b : lower (a ++ b) = lower a ++ lower b.
Proof. apply flat_map_app. Qed.

Lemma lower_join sep l : lower (join sep l) = join (lower sep) (map lower l).
Proof.
  induction l as [|x l IH]; [reflexivity|].
  destruct l as [|y l]; [reflexivity|].
  change (join sep (x :: y :: l)) with (x ++ sep ++ join sep (y :: l)).
  change (map lower (x :: y :: l)) with (lower x :: map lower (y :: l)).
  change (join (lower sep) (lower x :: map lower (y :: l)))
    with (lower x ++ lower sep ++ join (lower sep) (map lower (y :: l))).
  rewrite !lower_app, IH. reflexivity.
Qed.

Lemma key2_ckey n : key2 n = DP.ckey (cn n).
Proof.
  unfold key2. induction n as [t | ch IH] using node_ind2; [reflexivity|].
  cbn [str_node cn DP.ckey].
  change (lower (ch_open :: join [ch_comma] (map str_node ch) ++ [ch_close]))
    with (ch_open :: lower (join [ch_comma] (map str_node ch) ++ [ch_close])).
  rewrite lower_app, lower_join. f_equal. f_equal. f_equal.
  rewrite !map_map. induction IH as [|x l Hx Hl IHl]; [reflexivity|].
  cbn [map]. rewrite Hx, IHl. reflexivity.
Qed.

(* ------------------------------------------------------------------ our insertion sort is the C04 sort *)

Lemma insert_by_k key x s :
  map (fun n => (key n, n)) (insert_by key x s) = DM.insert_k (key x, x) (map (fun n => (key n, n)) s).
Proof.
  induction s as [|y s IH]; [reflexivity|]. cbn [insert_by map DM.insert_k fst].
  destruct (str_leb (key x) (key y)); [reflexivity|]. cbn [map]. rewrite IH. reflexivity.
Qed.

Lemma sort_by_k key l :
  map (fun n => (key n, n)) (sort_by key l) = DM.sort_k (map (fun n => (key n, n)) l).
Proof.
  induction l as [|x l IH]; [reflexivity|].
  cbn [sort_by fold_right map DM.sort_k]. fold (sort_by key l). rewrite insert_by_k, IH. reflexivity.
Qed.

Definition ksort (cs : list DP.cview) : list (str * DP.cview) :=
  DM.sort_k (map (fun c => (DP.ckey c, c)) cs).

Lemma cn_sort2 L : map cn (sort2 L) = map snd (ksort (map cn (sort_by key1 L))).
Proof.
  unfold sort2, ksort. set (P := sort_by key1 L).
  transitivity (map snd (map (fun p : str * node => (fst p, cn (snd p)))
                             (map (fun n => (key2 n, n)) (sort_by key2 P)))).
  { rewrite !map_map. reflexivity. }
  rewrite sort_by_k, <- DP.sort_k_map. f_equal. f_equal.
  rewrite !map_map. apply map_ext. intro n. cbn [fst snd]. rewrite key2_ckey. reflexivity.
Qed.

Lemma ksort_perm cs1 cs2 :
  forallb DP.wfc cs1 = true -> Permutation cs1 cs2 -> ksort cs1 = ksort cs2.
Proof.
  intros Hw Hp. unfold ksort. apply DP.sorted_perm_unique.
  - apply DP.sort_k_sorted.
  - apply DP.sort_k_sorted.
  - rewrite !DP.sort_k_perm. apply Permutation_map. exact Hp.
  - intros p q Hin1 Hin2 Hk.
    apply (Permutation_in _ (DP.sort_k_perm _)) in Hin1. apply (Permutation_in _ (DP.sort_k_perm _)) in Hin2.
    apply in_map_iff in Hin1 as (c & <- & Hc). apply in_map_iff in Hin2 as (d & <- & Hd).
    cbn [fst] in Hk. rewrite forallb_forall in Hw.
    rewrite (DP.ckey_inj c d (Hw c Hc) (Hw d Hd) Hk). reflexivity.
Qed.

Lemma sort_by_perm' key l : Permutation (sort_by key l) l.
Proof. symmetry. apply sort_by_perm. Qed.

Lemma sort2_canon L1 L2 :
  forallb DP.wfc (map cn L1) = true -> Permutation (map cn L1) (map cn L2) ->
  map cn (sort2 L1) = map cn (sort2 L2).
Proof.
  intros Hw Hp. rewrite !cn_sort2. f_equal. apply ksort_perm.
  - rewrite <- Hw. apply DP.forallb_perm. apply Permutation_map. apply sort_by_perm'.
  - rewrite (Permutation_map cn (sort_by_perm' key1 L1)), (Permutation_map cn (sort_by_perm' key1 L2)). exact Hp.
Qed.

Lemma is_tag_is_ct n : is_tag_node n = DP.is_ct (cn n).
Proof. destruct n; reflexivity. Qed.

Lemma cn_filter (p : DP.cview -> bool) (q : node -> bool) L :
  (forall n, q n = p (cn n)) -> map cn (filter q L) = filter p (map cn L).
Proof.
  intro H. rewrite DP.filter_map_comm. f_equal. apply filter_ext. intro n. apply H.
Qed.

Lemma forallb_filter {A} (p q : A -> bool) l : forallb p l = true -> forallb p (filter q l) = true.
Proof.
  rewrite !forallb_forall. intros H x Hx. apply filter_In in Hx. apply H. tauto.
Qed.

(* HedGroup._sorted on members that are equal as multisets of canonical forms *)
Lemma sort_children_canon L1 L2 :
  forallb DP.wfc (map cn L1) = true -> Permutation (map cn L1) (map cn L2) ->
  map cn (sort_children L1) = map cn (sort_children L2).
Proof.
  intros Hw Hp. unfold sort_children. rewrite !map_app. f_equal.
  - apply sort2_canon.
    + rewrite (cn_filter DP.is_ct); [apply forallb_filter; exact Hw | apply is_tag_is_ct].
    + rewrite !(cn_filter DP.is_ct) by apply is_tag_is_ct. apply DP.perm_filter. exact Hp.
  - apply sort2_canon.
    + rewrite (cn_filter (fun c => negb (DP.is_ct c))); [apply forallb_filter; exact Hw|].
      intro n. rewrite is_tag_is_ct. reflexivity.
    + rewrite !(cn_filter (fun c => negb (DP.is_ct c))) by (intro n; rewrite is_tag_is_ct; reflexivity).
      apply DP.perm_filter. exact Hp.
Qed.

(* ------------------------------------------------------------------ sorting computes a canonical form *)

Lemma wft_sort_node n : wft (sort_node n) = wft n.
Proof. unfold wft. symmetry. apply forallb_perm. apply sort_node_tags. Qed.

Lemma wft_members l x : wft (G l) = true -> In x l -> wft x = true.
Proof.
  unfold wft. cbn [all_tags]. rewrite forallb_flat_map, forallb_forall. auto.
Qed.

Lemma nsim_canon a : forall b, nsim a b -> wft a = true -> wft b = true ->
  cn (sort_node a) = cn (sort_node b).
Proof.
  induction a as [t | l1 IH] using node_ind2; intros b H Ha Hb;
    inversion H as [? u Ht | ? l2 l2' HF Hp]; subst.
  - cbn [sort_node cn]. unfold tag_eq in Ht. apply str_eqb_spec in Ht. rewrite Ht. reflexivity.
  - cbn [sort_node cn]. f_equal. apply sort_children_canon.
    + rewrite wfc_cn_list. unfold wfl, all_tags_f. rewrite forallb_flat_map, forallb_forall.
      intros x Hx. apply in_map_iff in Hx as (y & <- & Hy). fold (wft (sort_node y)).
      rewrite wft_sort_node. exact (wft_members l1 y Ha Hy).
    + assert (He : map cn (map sort_node l1) = map cn (map sort_node l2')).
      { assert (Hb' : forall y, In y l2' -> wft y = true).
        { intros y Hy. apply (wft_members l2 y Hb). eapply Permutation_in; [exact Hp | exact Hy]. }
        assert (Ha' : forall x, In x l1 -> wft x = true) by (intros x Hx; exact (wft_members l1 x Ha Hx)).
        clear H Hp Ha Hb. induction HF as [|x y l1 l2' Hxy HF IHF]; [reflexivity|].
        apply Forall_cons_iff in IH as [IHx IHl]. cbn [map]. f_equal.
        - apply IHx; [exact Hxy | apply Ha'; left; reflexivity | apply Hb'; left; reflexivity].
        - apply IHF; [exact IHl | intros; apply Hb'; right; assumption | intros; apply Ha'; right; assumption]. }
      rewrite He. apply Permutation_map. apply Permutation_map. exact Hp.
Qed.

Lemma cn_node_eq a : forall b, cn a = cn b -> node_eq a b = true.
Proof.
  induction a as [t | l1 IH] using node_ind2; intros [u | l2] H; cbn [cn] in H; try discriminate.
  - inversion H as [H1]. cbn [node_eq]. unfold tag_eq. rewrite H1. apply str_eqb_refl.
  - inversion H as [H1]. cbn [node_eq]. clear H.
    revert l2 H1. induction IH as [|x l Hx Hl IHl]; intros [|y l2] H1; try discriminate; [reflexivity|].
    cbn [map] in H1. inversion H1 as [[H2 H3]]. rewrite (Hx y H2), (IHl l2 H3). reflexivity.
Qed.

Lemma cn_nodes_eq l1 : forall l2, map cn l1 = map cn l2 -> nodes_eq l1 l2 = true.
Proof.
  induction l1 as [|x l IH]; intros [|y l2] H; try discriminate; [reflexivity|].
  cbn [map] in H. inversion H as [[H1 H2]]. cbn [nodes_eq]. rewrite (cn_node_eq x y H1), (IH l2 H2). reflexivity.
Qed.

(* well-formedness carries over to anything equal up to order and case *)
Lemma nsim_wft a : forall b, nsim a b -> wft a = true -> wft b = true.
Proof.
  induction a as [t | l1 IH] using node_ind2; intros b H Ha; inversion H as [? u Ht | ? l2 l2' HF Hp]; subst.
  - unfold wft in *. cbn [all_tags forallb] in *. rewrite andb_true_r in *.
    unfold tag_eq in Ht. apply str_eqb_spec in Ht.
    rewrite <- wf_text_lower, <- Ht, wf_text_lower. exact Ha.
  - assert (H2 : wft (G l2') = true).
    { assert (Ha' : forall x, In x l1 -> wft x = true) by (intros x Hx; exact (wft_members l1 x Ha Hx)).
      unfold wft. cbn [all_tags]. rewrite forallb_flat_map.
      clear H Hp Ha. induction HF as [|x y l1 l2' Hxy HF IHF]; [reflexivity|].
      apply Forall_cons_iff in IH as [IHx IHl]. cbn [forallb].
      fold (wft y). rewrite (IHx y Hxy (Ha' x (or_introl eq_refl))). cbn [andb].
      apply IHF; [exact IHl | intros; apply Ha'; right; assumption]. }
    unfold wft in *. cbn [all_tags] in *. rewrite <- H2. apply forallb_perm.
    apply flat_map_perm. symmetry. exact Hp.
Qed.

Lemma lsim_canon g ch : wfl g = true -> lsim g ch ->
  nodes_eq (sorted_children g) (sorted_children ch) = true.
Proof.
  intros Hw (l2' & HF & Hp).
  assert (Hn : nsim (G g) (G ch)) by (eapply NS_G; eauto).
  assert (Hg : wft (G g) = true) by exact Hw.
  pose proof (nsim_wft _ _ Hn Hg) as Hc.
  pose proof (nsim_canon _ _ Hn Hg Hc) as He. cbn [sort_node cn] in He. inversion He as [He'].
  apply cn_nodes_eq. exact He'.
Qed.

(* defexpand_valid_iff: validation accepts a Def-expand group exactly when its content
   equals the expansion of its definition up to sibling order at every level, for every
   group whose tag texts are non-empty and free of ',', '(' and ')' (what the parser
   produces) *)
Theorem defexpand_valid_iff D t g :
  wfl g = true ->
  (defexpand_accepted current_fs D t g = true <->
   exists e ch, def_entry D t = Some e /\
                get_definition e t (def_placeholder t) = Ok (Some ch) /\
                lsim g ch).
Proof.
  intro Hw. split; [apply defexpand_valid_sound|].
  intros (e & ch & He & Hg & Hs). unfold defexpand_accepted, validate_def_contents.
  rewrite He, Hg, (lsim_canon g ch Hw Hs). reflexivity.
Qed.
