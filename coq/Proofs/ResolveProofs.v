(* Lemmas about tag identification (Model/Resolve.v) over well-formed schemas. *)
From Coq Require Import List NArith Bool Arith Lia.
From HV Require Import Base.Str Base.Res Model.Schema Model.Resolve Proofs.SchemaProofs.
Import ListNotations.

Lemma skipn_app_exact {A} (a b : list A) : skipn (length a) (a ++ b) = b.
Proof. rewrite skipn_app, skipn_all, Nat.sub_diag. reflexivity. Qed.

Lemma skipn_app_len {A} n (a b : list A) : n = length a -> skipn n (a ++ b) = b.
Proof. intro; subst; apply skipn_app_exact. Qed.

(* ------------------------------------------------------------------ namespace *)

Lemma get_ns_some t ns : get_ns t = Some ns ->
  (exists rest, t = ns ++ rest) /\ forall X, get_ns (ns ++ X) = Some ns.
Proof.
  revert ns. induction t as [|c r IH]; intros ns H; cbn [get_ns] in H; [discriminate|].
  destruct (N.eqb c ch_colon) eqn:E1.
  - inversion H; subst. split; [exists r; reflexivity|]. intro X. cbn [app get_ns]. rewrite E1. reflexivity.
  - destruct (N.eqb c ch_slash) eqn:E2; [discriminate|].
    destruct (get_ns r) as [ns'|] eqn:G; [|discriminate]. inversion H; subst.
    destruct (IH ns' eq_refl) as [[rest Hr] HX]. split.
    + exists rest. rewrite Hr at 1. reflexivity.
    + intro X. cbn [app get_ns]. rewrite E1, E2, HX. reflexivity.
Qed.

Lemma get_ns_none_app a ext :
  ~ In ch_colon a -> (ext = [] \/ exists r, ext = ch_slash :: r) -> get_ns (a ++ ext) = None.
Proof.
  intros Ha He. induction a as [|c a IH]; cbn [app].
  - destruct He as [He|[r He]]; subst; reflexivity.
  - cbn [get_ns]. destruct (N.eqb c ch_colon) eqn:E1.
    + exfalso. apply Ha. left. apply N.eqb_eq in E1. auto.
    + destruct (N.eqb c ch_slash); [reflexivity|]. rewrite IH; [reflexivity|].
      intro H. apply Ha. right. exact H.
Qed.

Lemma ns_stable t a ext :
  ~ In ch_colon a -> (ext = [] \/ exists r, ext = ch_slash :: r) ->
  get_schema_namespace (get_schema_namespace t ++ a ++ ext) = get_schema_namespace t.
Proof.
  intros Ha He. unfold get_schema_namespace at 2 3. destruct (get_ns t) as [ns|] eqn:G.
  - apply get_ns_some in G as [_ G]. unfold get_schema_namespace. rewrite G. reflexivity.
  - cbn [app]. unfold get_schema_namespace. rewrite get_ns_none_app; auto.
Qed.

Lemma ns_prefix t : exists clean, t = get_schema_namespace t ++ clean.
Proof.
  unfold get_schema_namespace. destruct (get_ns t) as [ns|] eqn:G.
  - apply get_ns_some in G as [G _]. exact G.
  - exists t. reflexivity.
Qed.

Section WithFold.
  Variable foldc : N -> str.
  Hypothesis fold_slash : foldc ch_slash = [ch_slash] /\ forall c, In ch_slash (foldc c) -> c = ch_slash.
  Hypothesis fold_hash : foldc ch_hash = [ch_hash] /\ (forall c, foldc c = [ch_hash] -> c = ch_hash) /\
                         forall c, foldc c <> [].
  Notation fold := (Schema.fold foldc).

  Variable S : list str.
  Hypothesis wf : WF foldc S.
  Variable T : table.
  Hypothesis HT : Inv foldc S (long_form_tags T).
  Notation L := (long_form_tags T).

  Let F_app := fold_app foldc.
  Let F_app_slash := fold_app_slash foldc fold_slash.
  Let F_eq_hash := fold_eq_hash foldc fold_hash.
  Let F_eq_app_slash := fold_eq_app_slash foldc fold_slash.
  Let F_sp := sp_fold foldc fold_slash.
  Let F_s_hash := fold_s_hash foldc fold_hash.
  Let F_s_slash_hash := fold_s_slash_hash foldc fold_slash fold_hash.
  Let F_last_comp := last_comp_fold foldc fold_slash.
  Let forms_disjoint := forms_disjoint foldc fold_slash fold_hash S wf.

  Lemma lookup_form n f p :
    In n S -> is_form f n -> fold p = fold f -> lookup (fold p) L = Some (ent n).
  Proof. intros Hn Hf E. rewrite E. apply (proj2 HT); assumption. Qed.

  Lemma lookup_inv k e :
    lookup k L = Some e -> exists n f, In n S /\ e = ent n /\ is_form f n /\ fold f = k.
  Proof. apply (proj1 HT). Qed.

  (* a slash-prefix of a registered name that is not the name itself is a non-value registered name *)
  Lemma anc_ok n2 anc b : In n2 S -> n2 = anc ++ ch_slash :: b -> In anc S /\ is_value anc = false.
  Proof.
    intros H2 E. assert (Hq : In anc (slash_prefixes n2)) by (apply in_sp; right; eexists; exact E).
    split; [exact (wf_closed _ _ wf n2 anc H2 Hq)|].
    apply (wf_hash _ _ wf n2 anc H2 Hq). intro Z. rewrite <- Z in E.
    apply (f_equal (@length N)) in E. rewrite app_length in E. cbn in E. lia.
  Qed.

  Lemma nonvalue_ssuffix_form a anc : is_value anc = false -> ssuffix a anc -> is_form a anc.
  Proof.
    intros V Hs. split; [exact Hs|]. intro E. subst a. apply is_value_false in V. apply V.
    apply hash_ssuffix_last. exact Hs.
  Qed.

  (* every slash-prefix of a form is a form of the corresponding ancestor *)
  Lemma prefix_found n f q :
    In n S -> is_form f n -> In q (slash_prefixes f) ->
    exists a, In a S /\ is_form q a /\ (q = f -> a = n) /\ (q <> f -> is_value a = false).
  Proof.
    intros Hn Hf Hq. apply in_sp in Hq as [Hq|[rest Hq]].
    - subst q. exists n. repeat split; auto; try apply Hf. intro Z. contradiction.
    - destruct Hf as [Hs Hne]. apply ssuffix_iff in Hs as [Hs|[pre Hs]].
      + subst f. destruct (anc_ok n q rest Hn Hq) as [A1 A2]. exists q. split; [exact A1|]. split; [|split].
        * apply nonvalue_ssuffix_form; [exact A2 | left; reflexivity].
        * intro Z. exfalso. rewrite <- Z in Hq. apply (f_equal (@length N)) in Hq.
          rewrite app_length in Hq. cbn in Hq. lia.
        * intros _. exact A2.
      + subst f. assert (E : n = (pre ++ ch_slash :: q) ++ ch_slash :: rest)
          by (rewrite Hs, <- app_assoc; reflexivity).
        destruct (anc_ok n _ rest Hn E) as [A1 A2]. exists (pre ++ ch_slash :: q). split; [exact A1|].
        split; [|split].
        * apply nonvalue_ssuffix_form; [exact A2 | apply ssuffix_app_slash].
        * intro Z. exfalso. apply (f_equal (@length N)) in Z. rewrite app_length in Z. cbn in Z. lia.
        * intros _. exact A2.
  Qed.

  Lemma form_nonempty n f : In n S -> is_form f n -> f <> [].
  Proof. intros Hn [Hs _]. exact (ssuffix_nonempty n f (wf_names _ _ wf n Hn) Hs). Qed.

  (* a registered form g/y of anything, where g is a form of n, belongs to a registered descendant n/b *)
  Lemma deeper_form n g y e :
    In n S -> is_form g n -> lookup (fold g ++ ch_slash :: y) L = Some e ->
    exists b, fold b = y /\ In (n ++ ch_slash :: b) S /\ e = ent (n ++ ch_slash :: b).
  Proof.
    intros Hn Hg Lk. apply lookup_inv in Lk as (n2 & f2 & H2 & Ee & [S2 N2] & E2).
    apply F_eq_app_slash in E2 as (a & b & Ef & Ea & Eb). subst f2.
    assert (exists anc, n2 = anc ++ ch_slash :: b /\ ssuffix a anc) as (anc & En2 & Sa).
    { apply ssuffix_iff in S2 as [S2|[pre S2]].
      - exists a. split; [auto | left; reflexivity].
      - exists (pre ++ ch_slash :: a). split; [rewrite S2, <- app_assoc; reflexivity | apply ssuffix_app_slash]. }
    destruct (anc_ok n2 anc b H2 En2) as [A1 A2].
    assert (anc = n) by (apply (forms_disjoint anc n a g A1 Hn (nonvalue_ssuffix_form a anc A2 Sa) Hg Ea)).
    subst anc. exists b. subst n2. auto.
  Qed.

  Lemma deeper_form_conv n f b :
    In n S -> is_form f n -> In (n ++ ch_slash :: b) S ->
    lookup (fold f ++ ch_slash :: fold b) L = Some (ent (n ++ ch_slash :: b)).
  Proof.
    intros Hn Hf Hb. rewrite <- F_app_slash. apply (proj2 HT); [exact Hb|].
    split.
    - destruct Hf as [Hs _]. apply ssuffix_iff in Hs as [Hs|[pre Hs]].
      + subst f. left. reflexivity.
      + rewrite Hs at 1. rewrite <- app_assoc. apply ssuffix_app_slash.
    - pose proof (form_nonempty n f Hn Hf) as Hne. destruct f as [|c [|d f]]; [contradiction| |]; discriminate.
  Qed.

  Lemma form_ext_lookup_eq n f g y :
    In n S -> is_form f n -> is_form g n ->
    lookup (fold g ++ ch_slash :: y) L = lookup (fold f ++ ch_slash :: y) L.
  Proof.
    intros Hn Hf Hg.
    destruct (lookup (fold g ++ ch_slash :: y) L) as [e|] eqn:L1.
    - destruct (deeper_form n g y e Hn Hg L1) as (b & Eb & Hb & Ee). subst y e.
      symmetry. apply deeper_form_conv; assumption.
    - destruct (lookup (fold f ++ ch_slash :: y) L) as [e|] eqn:L2; [|reflexivity].
      destruct (deeper_form n f y e Hn Hf L2) as (b & Eb & Hb & Ee). subst y e.
      rewrite (deeper_form_conv n g b Hn Hg Hb) in L1. discriminate.
  Qed.

  Lemma fold_eq_slash_hash s : fold s = s_slash_hash -> s = s_slash_hash.
  Proof.
    intro H. change s_slash_hash with ([] ++ ch_slash :: s_hash) in H.
    apply F_eq_app_slash in H as (s1 & s2 & E & H1 & H2).
    apply (fold_eq_nil foldc fold_hash) in H1. apply F_eq_hash in H2. subst. reflexivity.
  Qed.

  Lemma ends_slash_hash_name n : In n S -> ends_slash_hash n = is_value n.
  Proof.
    intro Hn. destruct (ends_slash_hash_value n) as [E|E]; [exact E|].
    exfalso. exact (wf_nothash _ _ wf n Hn E).
  Qed.

  Lemma ent_nonvalue n : is_value n = false -> e_long (ent n) = n /\ e_short (ent n) = last_comp n.
  Proof. intro V. unfold ent. rewrite V. auto. Qed.

  Lemma ent_value m : e_long (ent (m ++ s_slash_hash)) = m /\ e_short (ent (m ++ s_slash_hash)) = last_comp m.
  Proof. unfold ent. rewrite value_of_app. cbn [e_long e_short]. rewrite drop_last2_app. auto. Qed.

  (* the value child of a non-value registered name n, when present, is the entry of n/# *)
  Lemma value_child_shape n v :
    In n S -> is_value n = false -> takes_value_child foldc T (ent n) = Some v ->
    v = ent (n ++ s_slash_hash) /\ e_long v = n /\ e_short v = last_comp n.
  Proof.
    intros Hn V H. unfold takes_value_child, get_entry in H. rewrite ent_name in H.
    change (n ++ s_slash_hash) with (n ++ ch_slash :: s_hash) in H.
    rewrite F_app_slash in H.
    destruct (deeper_form n n (fold s_hash) v Hn (self_form n (wf_nothash _ _ wf n Hn)) H) as (b & Eb & Hb & Ev).
    rewrite F_s_hash in Eb. apply F_eq_hash in Eb. subst b v.
    change (n ++ ch_slash :: s_hash) with (n ++ s_slash_hash).
    split; [reflexivity|]. unfold ent. rewrite value_of_app. cbn [e_long e_short]. rewrite drop_last2_app. auto.
  Qed.

  (* ---------------------------------------------------------------- direct hits *)

  Lemma direct_ext n f :
    In n S -> is_form f n ->
    (if ends_slash_hash (fold f) then skipn (length (fold f) - 2) (fold f) else [])
    = if is_value n then s_slash_hash else [].
  Proof.
    intros Hn [Hs Hne]. destruct (ends_slash_hash (fold f)) eqn:E.
    - pose proof E as E'. unfold ends_slash_hash in E'. apply str_eqb_spec in E'. rewrite E'.
      apply ends_slash_hash_inv in E as [m E].
      assert (V : is_value n = true).
      { apply is_value_true. rewrite <- (last_comp_of_ssuffix _ _ Hs).
        apply F_eq_hash. rewrite <- F_last_comp, E.
        apply hash_ssuffix_last. apply ssuffix_app_slash. }
      rewrite V. reflexivity.
    - destruct (is_value n) eqn:V; [|reflexivity]. exfalso.
      destruct (wf_value foldc S wf n Hn V) as (m & En & _). subst n.
      apply ssuffix_value in Hs as [Hs|(g & Eg & _)]; [contradiction|]. subst f.
      rewrite F_app, F_s_slash_hash, ends_slash_hash_app in E.
      discriminate.
  Qed.

  Section WithFixes.
    Variable fx : fixes.

    Lemma suffix_resolves_ n f p ns :
      In n S -> is_form f n -> fold p = fold f ->
      find_tag_entry_ foldc fx T (ns ++ p) ns = Found (ent n) (if is_value n then s_slash_hash else []).
    Proof.
      intros Hn Hf E. unfold find_tag_entry_. cbv zeta. rewrite skipn_app_exact, (lookup_form n f p Hn Hf E), E.
      f_equal. apply (direct_ext n f Hn Hf).
    Qed.

    (* ---------------------------------------------------------------- the walk *)

    Notation wentry := (walk_entry fx T).

    Lemma wentry_none k : lookup k L = None -> wentry k = None.
    Proof. intro H. unfold walk_entry. rewrite H. reflexivity. Qed.

    Lemma wentry_congr k1 k2 : lookup k1 L = lookup k2 L -> wentry k1 = wentry k2.
    Proof. intro H. unfold walk_entry. rewrite H. reflexivity. Qed.

    Lemma wentry_some_inv k e : wentry k = Some e ->
      lookup k L = Some e /\ (fix_hash fx = true -> ends_slash_hash (e_name e) = false).
    Proof.
      unfold walk_entry. destruct (lookup k L) as [e0|]; [|discriminate].
      destruct (fix_hash fx && ends_slash_hash (e_name e0))%bool eqn:B; [discriminate|].
      intro H. inversion H; subst. split; [reflexivity|]. intro Hx. rewrite Hx in B. exact B.
    Qed.

    Lemma wentry_nonvalue k a :
      In a S -> (fix_hash fx = true -> is_value a = false) -> lookup k L = Some (ent a) ->
      wentry k = Some (ent a).
    Proof.
      intros Ha V H. unfold walk_entry. rewrite H, ent_name, (ends_slash_hash_name a Ha).
      destruct (fix_hash fx); [rewrite (V eq_refl)|]; reflexivity.
    Qed.

    Definition cur_after (ps : list (str * nat)) (cur : option (entry * nat)) : option (entry * nat) :=
      fold_left (fun c p => match wentry (fst p) with Some e => Some (e, snd p) | None => c end) ps cur.

    Lemma walk_found_all ps1 ps2 cur :
      (forall p, In p ps1 -> wentry (fst p) <> None) ->
      walk fx T (ps1 ++ ps2) cur = walk fx T ps2 (cur_after ps1 cur).
    Proof.
      revert cur. induction ps1 as [|[k i] ps1 IH]; intros cur H; [reflexivity|].
      cbn [app walk cur_after fold_left fst snd]. destruct (wentry k) as [e|] eqn:E.
      - apply IH. intros p Hp. apply H. right. exact Hp.
      - exfalso. apply (H (k, i)); [left; reflexivity | exact E].
    Qed.

    Lemma cur_after_snoc l k i cur e : wentry k = Some e -> cur_after (l ++ [(k, i)]) cur = Some (e, i).
    Proof. intro H. unfold cur_after. rewrite fold_left_app. cbn. rewrite H. reflexivity. Qed.

    Lemma walk_inv ps : forall cur e idx m,
      walk fx T ps cur = (Some (e, idx), m) -> ps <> [] -> wentry (fst (last ps ([], 0))) = None ->
      (cur = Some (e, idx) /\ exists p' ps2, ps = p' :: ps2 /\ wentry (fst p') = None) \/
      (exists ps1 p p' ps2, ps = ps1 ++ p :: p' :: ps2 /\ wentry (fst p) = Some e /\ idx = snd p /\
                            wentry (fst p') = None).
    Proof.
      induction ps as [|[k0 i0] rest IH]; intros cur e idx m W Hne Hl; [contradiction|].
      cbn [walk] in W. destruct (wentry k0) as [e0|] eqn:E0.
      - destruct rest as [|q1 rest'].
        + cbn in Hl. congruence.
        + destruct (IH _ _ _ _ W) as [[C (q' & ps2 & Eq & Lq)]|(ps1 & q & q' & ps2 & Eq & Lq & Ei & Lq')].
          * discriminate.
          * exact Hl.
          * inversion C; subst. inversion Eq; subst. right. exists [], (k0, idx), q', ps2. auto.
          * right. exists ((k0, i0) :: ps1), q, q', ps2. rewrite Eq. auto.
      - inversion W; subst. left. split; [reflexivity|]. exists (k0, i0), rest. auto.
    Qed.

    Hypothesis FI : fix_index fx = true.

    (* result of identification when the walk stops right after a form of n *)
    Definition post (n r : str) : found :=
      match takes_value_child foldc T (ent n) with
      | Some v => Found v (ch_slash :: r)
      | None =>
          if ext_terms_free foldc T r then Found (ent n) (ch_slash :: r) else NotFound InvalidParentNode
      end.

    Lemma resolve_ext n g g' r ns :
      In n S -> is_form g n -> (fix_hash fx = true -> is_value n = false) -> fold g' = fold g ->
      lookup (fold g ++ ch_slash :: fold r) L = None ->
      wentry (fold g ++ ch_slash :: fold (hd [] (slash_prefixes r))) = None ->
      find_tag_entry_ foldc fx T (ns ++ g' ++ ch_slash :: r) ns = post n r.
    Proof.
      intros Hn Hg Vn Eg L1 L2. unfold find_tag_entry_. rewrite skipn_app_exact, F_app_slash, Eg, L1.
      set (f := fun q : str => (fold q, length q)).
      assert (W : walk fx T (walk_keys foldc fx (g' ++ ch_slash :: r)) None = (Some (ent n, length g'), true)).
      { unfold walk_keys. rewrite FI. fold f. rewrite sp_app_slash, map_app, walk_found_all.
        - destruct (sp_snoc g') as [l El]. rewrite El, map_app. cbn [map]. change (f g') with (fold g', length g').
          rewrite (cur_after_snoc (map f l) (fold g') (length g') None (ent n)).
          2:{ apply (wentry_nonvalue _ n Hn Vn). apply (lookup_form n g g' Hn Hg Eg). }
          destruct (slash_prefixes r) as [|x1 xs] eqn:Ex; [exfalso; exact (sp_nonempty _ Ex)|].
          cbn [map walk hd] in *. change (f (g' ++ ch_slash :: x1)) with (fold (g' ++ ch_slash :: x1), length (g' ++ ch_slash :: x1)).
          rewrite F_app_slash, Eg, L2. reflexivity.
        - intros p Hp. apply in_map_iff in Hp as (q' & Ep & Hq'). subst p. unfold f. cbn [fst].
          assert (Hin : In (fold q') (map fold (slash_prefixes g))).
          { rewrite <- F_sp, <- Eg, F_sp. apply in_map. exact Hq'. }
          apply in_map_iff in Hin as (q0 & Eq & Hq0).
          destruct (prefix_found n g q0 Hn Hg Hq0) as (a & Ha & Fa & Ea & Va).
          rewrite <- Eq.
          rewrite (wentry_nonvalue (fold q0) a Ha); [discriminate| |exact (lookup_form a q0 q0 Ha Fa eq_refl)].
          intro Hx. destruct (list_eq_dec N.eq_dec q0 g) as [Z|Z]; [rewrite (Ea Z); exact (Vn Hx) | exact (Va Z)]. }
      unfold find_tag_subfunction. rewrite W. unfold post, validate_remaining_terms, remaining_terms. rewrite FI.
      replace (skipn (length g' + 1) (g' ++ ch_slash :: r)) with r.
      2:{ change (g' ++ ch_slash :: r) with (g' ++ [ch_slash] ++ r).
          rewrite app_assoc. symmetry. apply skipn_app_len. rewrite app_length. reflexivity. }
      change (forallb (fun name => match lookup name L with Some _ => false | None => true end)
                      (map fold (split_slash r))) with (ext_terms_free foldc T r).
      destruct (takes_value_child foldc T (ent n)) as [v|] eqn:V; cbn [negb andb].
      - rewrite skipn_app_exact, V. reflexivity.
      - destruct (ext_terms_free foldc T r); cbn [negb]; [|reflexivity].
        rewrite skipn_app_exact, V. reflexivity.
    Qed.

    (* ---------------------------------------------------------------- re-identifying the canonical forms *)

    Lemma colon_free_ssuffix n a : In n S -> ssuffix a n -> ~ In ch_colon a.
    Proof.
      intros Hn Hs Hin. destruct (name_ok_parts n (wf_names _ _ wf n Hn)) as (_ & _ & Hc). apply Hc.
      apply ssuffix_iff in Hs as [Hs|[pre Hs]]; subst; [exact Hin|].
      apply in_or_app. right. right. exact Hin.
    Qed.

    Lemma ssuffix_app_r g m b : ssuffix g m -> ssuffix (g ++ ch_slash :: b) (m ++ ch_slash :: b).
    Proof.
      intro H. apply ssuffix_iff in H as [H|[pre H]]; subst; [left; reflexivity|].
      rewrite <- app_assoc. apply ssuffix_app_slash.
    Qed.

    Lemma reresolve clean ns e ext :
      (fix_hash fx = false -> ~ has_hash_mid clean) ->
      find_tag_entry_ foldc fx T (ns ++ clean) ns = Found e ext ->
      (ext = [] \/ exists r, ext = ch_slash :: r) /\ ~ In ch_colon (e_short e) /\ ~ In ch_colon (e_long e) /\
      find_tag_entry_ foldc fx T (ns ++ e_short e ++ ext) ns = Found e ext /\
      find_tag_entry_ foldc fx T (ns ++ e_long e ++ ext) ns = Found e ext.
    Proof.
      intros NH H0. pose proof H0 as H. unfold find_tag_entry_ in H. cbv zeta in H. rewrite skipn_app_exact in H.
      destruct (lookup (fold clean) L) as [e0|] eqn:D.
      - (* direct hit *)
        destruct (lookup_inv _ _ D) as (n & f & Hn & Ee & Hf & Ef). subst e0.
        assert (Hx : ext = if is_value n then s_slash_hash else []).
        { rewrite <- Ef in H. inversion H as [[H1 H2]]. apply (direct_ext n f Hn Hf). }
        assert (He : e = ent n) by (inversion H; reflexivity).
        subst e. clear H.
        destruct (is_value n) eqn:V.
        + destruct (wf_value foldc S wf n Hn V) as (m & En & Hm & Vm). subst n ext.
          destruct (ent_value m) as [EL ES]. rewrite EL, ES.
          assert (F1 : is_form (last_comp m ++ s_slash_hash) (m ++ s_slash_hash)).
          { split; [apply (ssuffix_app_r _ _ s_hash), last_comp_ssuffix|].
            intro Z. apply (f_equal (@length N)) in Z. rewrite app_length in Z. cbn in Z. lia. }
          assert (F2 : is_form (m ++ s_slash_hash) (m ++ s_slash_hash)) by (apply self_form, (wf_nothash _ _ wf _ Hn)).
          split; [right; exists s_hash; reflexivity|].
          split; [apply (colon_free_ssuffix m _ Hm), last_comp_ssuffix|].
          split; [apply (colon_free_ssuffix m _ Hm); left; reflexivity|].
          split.
          * rewrite (suffix_resolves_ _ _ _ ns Hn F1 eq_refl), V. reflexivity.
          * rewrite (suffix_resolves_ _ _ _ ns Hn F2 eq_refl), V. reflexivity.
        + subst ext. destruct (ent_nonvalue n V) as [EL ES]. rewrite EL, ES, !app_nil_r.
          split; [left; reflexivity|].
          split; [apply (colon_free_ssuffix n _ Hn), last_comp_ssuffix|].
          split; [apply (colon_free_ssuffix n _ Hn); left; reflexivity|].
          split.
          * rewrite (suffix_resolves_ _ _ _ ns Hn (last_comp_form n V) eq_refl), V. reflexivity.
          * rewrite (suffix_resolves_ _ _ _ ns Hn (self_form n (wf_nothash _ _ wf n Hn)) eq_refl), V. reflexivity.
      - (* walk *)
        destruct (find_tag_subfunction foldc fx T clean) as [err|[e0 idx]] eqn:F; [discriminate|].
        clear H. unfold find_tag_subfunction in F.
        destruct (walk fx T (walk_keys foldc fx clean) None) as [[[e1 idx1]|] missed] eqn:W; [|discriminate].
        unfold walk_keys in W. rewrite FI in W.
        set (f := fun q : str => (fold q, length q)) in W.
        assert (Hne : map f (slash_prefixes clean) <> []).
        { intro Z. apply map_eq_nil in Z. exact (sp_nonempty _ Z). }
        assert (Hlast : wentry (fst (last (map f (slash_prefixes clean)) ([], 0))) = None).
        { destruct (sp_snoc clean) as [l El]. rewrite El, map_app. cbn [map]. rewrite last_last.
          apply wentry_none. exact D. }
        destruct (walk_inv _ _ _ _ _ W Hne Hlast)
          as [[C _]|(ps1 & p & p' & ps2 & Eps & Lq & Ei & Lq')]; [discriminate|].
        apply map_eq_app in Eps as (l1 & l2 & Esp & _ & M2).
        apply map_eq_cons in M2 as (q & l3 & E2 & Ep & M3). subst l2.
        apply map_eq_cons in M3 as (q' & l4 & E3 & Ep' & _). subst l3 p p'.
        destruct (sp_split _ _ _ _ Esp) as (rest & Ec & Emap); [discriminate|].
        destruct (slash_prefixes rest) as [|x1 xs] eqn:Ex; [discriminate|].
        cbn [map] in Emap. assert (Eq' : q' = q ++ ch_slash :: x1) by congruence. subst q'.
        unfold f in Lq, Lq'. cbn [fst] in Lq, Lq'.
        destruct (wentry_some_inv _ _ Lq) as [Lq0 Hnv].
        destruct (lookup_inv _ _ Lq0) as (n & f0 & Hn & Ee & Hf & Ef). subst e1 clean.
        assert (Lwhole : lookup (fold f0 ++ ch_slash :: fold rest) L = None).
        { rewrite Ef, <- F_app_slash. exact D. }
        assert (Lnext : wentry (fold f0 ++ ch_slash :: fold (hd [] (slash_prefixes rest))) = None).
        { rewrite Ex. cbn [hd]. rewrite Ef, <- F_app_slash. exact Lq'. }
        assert (V : is_value n = false).
        { destruct (fix_hash fx) eqn:FH.
          - rewrite <- (ends_slash_hash_name n Hn). rewrite ent_name in Hnv. exact (Hnv eq_refl).
          - destruct (is_value n) eqn:V; [|reflexivity]. exfalso. apply (NH eq_refl).
            destruct (wf_value foldc S wf n Hn V) as (m & En & _). subst n.
            destruct Hf as [Hs Hne']. apply ssuffix_value in Hs as [Hs|(g & Eg & _)]; [contradiction|]. subst f0.
            change (g ++ s_slash_hash) with (g ++ ch_slash :: s_hash) in Ef. rewrite F_app_slash in Ef.
            symmetry in Ef. apply F_eq_app_slash in Ef as (qa & qb & Eq & _ & E2).
            rewrite F_s_hash in E2. apply F_eq_hash in E2. subst qb q. exists qa, rest.
            rewrite <- app_assoc. reflexivity. }
        rewrite (resolve_ext n f0 q rest ns Hn Hf (fun _ => V) (eq_sym Ef) Lwhole Lnext) in H0.
        assert (Hres : e_long e = n /\ e_short e = last_comp n /\ ext = ch_slash :: rest).
        { unfold post in H0. destruct (takes_value_child foldc T (ent n)) as [v|] eqn:TV.
          - inversion H0; subst. destruct (value_child_shape n _ Hn V TV) as (_ & A & B). auto.
          - destruct (ext_terms_free foldc T rest); [|discriminate].
            inversion H0; subst. destruct (ent_nonvalue n V). auto. }
        destruct Hres as (EL & ES & Ex'). rewrite EL, ES. subst ext.
        split; [right; eexists; reflexivity|].
        split; [apply (colon_free_ssuffix n _ Hn), last_comp_ssuffix|].
        split; [apply (colon_free_ssuffix n _ Hn); left; reflexivity|].
        pose proof (last_comp_form n V) as Fs. pose proof (self_form n (wf_nothash _ _ wf n Hn)) as Fl.
        split.
        + rewrite (resolve_ext n (last_comp n) (last_comp n) rest ns Hn Fs (fun _ => V) eq_refl); [exact H0| |].
          * rewrite (form_ext_lookup_eq n f0 (last_comp n) _ Hn Hf Fs). exact Lwhole.
          * rewrite (wentry_congr _ _ (form_ext_lookup_eq n f0 (last_comp n) _ Hn Hf Fs)). exact Lnext.
        + rewrite (resolve_ext n n n rest ns Hn Fl (fun _ => V) eq_refl); [exact H0| |].
          * rewrite (form_ext_lookup_eq n f0 n _ Hn Hf Fl). exact Lwhole.
          * rewrite (wentry_congr _ _ (form_ext_lookup_eq n f0 n _ Hn Hf Fl)). exact Lnext.
    Qed.

    Lemma hedtag_init_found sns t' ns e ext :
      get_schema_namespace t' = ns -> str_eqb ns sns = true ->
      find_tag_entry_ foldc fx T t' ns = Found e ext ->
      hedtag_init foldc fx T sns t' = mkHedTag t' ns (Some e) ext.
    Proof.
      intros H1 H2 H3. unfold hedtag_init, find_tag_entry. rewrite H1, H2, H3. reflexivity.
    Qed.

    Lemma hedtag_cases sns t :
      (exists e ext, str_eqb (get_schema_namespace t) sns = true /\
          find_tag_entry_ foldc fx T t (get_schema_namespace t) = Found e ext /\
          hedtag_init foldc fx T sns t = mkHedTag t (get_schema_namespace t) (Some e) ext) \/
      hedtag_init foldc fx T sns t = mkHedTag t (get_schema_namespace t) None [].
    Proof.
      unfold hedtag_init, find_tag_entry.
      destruct (str_eqb (get_schema_namespace t) sns) eqn:NS; [|right; reflexivity].
      destruct (find_tag_entry_ foldc fx T t (get_schema_namespace t)) as [e ext|err] eqn:F; [|right; reflexivity].
      left. exists e, ext. auto.
    Qed.

    Lemma long_short_inverse_ sns t :
      (fix_hash fx = false -> ~ has_hash_mid t) ->
      let h := hedtag_init foldc fx T sns t in
      let hs := hedtag_init foldc fx T sns (short_tag h) in
      let hl := hedtag_init foldc fx T sns (long_tag h) in
      long_tag hs = long_tag h /\ short_tag hl = short_tag h /\
      short_tag hs = short_tag h /\ long_tag hl = long_tag h /\
      ht_entry hs = ht_entry h /\ ht_entry hl = ht_entry h /\
      ht_ext hs = ht_ext h /\ ht_ext hl = ht_ext h.
    Proof.
      intro NH. cbv zeta.
      destruct (hedtag_cases sns t) as [(e & ext & NS & F & Hh)|Hh].
      - rewrite Hh.
        change (short_tag (mkHedTag t (get_schema_namespace t) (Some e) ext))
          with (get_schema_namespace t ++ e_short e ++ ext).
        change (long_tag (mkHedTag t (get_schema_namespace t) (Some e) ext))
          with (get_schema_namespace t ++ e_long e ++ ext).
        cbn [ht_entry ht_ns ht_ext ht_text].
        destruct (ns_prefix t) as [clean Et].
        remember (get_schema_namespace t) as ns eqn:Ens.
        assert (NHc : fix_hash fx = false -> ~ has_hash_mid clean).
        { intros FH (a & b & E). apply (NH FH). exists (ns ++ a), b. rewrite Et, E, <- app_assoc. reflexivity. }
        rewrite Et in F. destruct (reresolve clean ns e ext NHc F) as (Hx & C1 & C2 & R1 & R2).
        assert (N1 : get_schema_namespace (ns ++ e_short e ++ ext) = ns) by (rewrite Ens; apply ns_stable; assumption).
        assert (N2 : get_schema_namespace (ns ++ e_long e ++ ext) = ns) by (rewrite Ens; apply ns_stable; assumption).
        rewrite (hedtag_init_found sns _ ns e ext N1 NS R1), (hedtag_init_found sns _ ns e ext N2 NS R2).
        unfold short_tag, long_tag. cbn [ht_entry ht_ns ht_ext ht_text]. repeat split; reflexivity.
      - rewrite Hh.
        change (short_tag (mkHedTag t (get_schema_namespace t) None [])) with t.
        change (long_tag (mkHedTag t (get_schema_namespace t) None [])) with t.
        rewrite Hh. repeat split; reflexivity.
    Qed.
  End WithFixes.
End WithFold.

(* ------------------------------------------------------------------ foldings given by a table *)

Lemma ascii_lower_keeps c d : (d < 65)%N -> N.eqb (ascii_lower c) d = N.eqb c d.
Proof.
  intro Hd. unfold ascii_lower. destruct (N.leb 65 c && N.leb c 90)%bool eqn:E; [|reflexivity].
  apply andb_true_iff in E as [E1 E2]. apply N.leb_le in E1, E2.
  rewrite (proj2 (N.eqb_neq _ _)) by lia. rewrite (proj2 (N.eqb_neq _ _)) by lia. reflexivity.
Qed.

Lemma assoc_n_in c tbl s : assoc_n c tbl = Some s -> In (c, s) tbl.
Proof.
  induction tbl as [|[k v] r IH]; cbn [assoc_n]; [discriminate|].
  destruct (N.eqb c k) eqn:E.
  - intro H. inversion H; subst. apply N.eqb_eq in E. subst. left. reflexivity.
  - intro H. right. apply IH. exact H.
Qed.

Section TableFold.
  Variable tbl : list (N * str).
  Hypothesis OK : table_ok tbl = true.

  Lemma table_entry c s : assoc_n c tbl = Some s ->
    s <> [] /\ ~ In ch_slash s /\ ~ In ch_hash s.
  Proof.
    intro A. apply assoc_n_in in A. unfold table_ok in OK. rewrite forallb_forall in OK.
    specialize (OK _ A). cbn [snd] in OK. apply andb_true_iff in OK as [OK H3].
    apply andb_true_iff in OK as [H1 H2]. repeat split.
    - destruct s; [discriminate | discriminate].
    - intro Hin. apply negb_true_iff in H2.
      assert (existsb (N.eqb ch_slash) s = true) by (apply existsb_exists; exists ch_slash; split; [exact Hin | reflexivity]).
      congruence.
    - intro Hin. apply negb_true_iff in H3.
      assert (existsb (N.eqb ch_hash) s = true) by (apply existsb_exists; exists ch_hash; split; [exact Hin | reflexivity]).
      congruence.
  Qed.

  Lemma table_fold_slash :
    table_fold tbl ch_slash = [ch_slash] /\ forall c, In ch_slash (table_fold tbl c) -> c = ch_slash.
  Proof.
    split; [reflexivity|]. intros c. unfold table_fold. destruct (N.ltb c 128) eqn:Lt.
    - intros [H|[]]. apply N.eqb_eq. rewrite <- (ascii_lower_keeps c ch_slash) by reflexivity.
      apply N.eqb_eq. exact H.
    - destruct (assoc_n c tbl) as [s|] eqn:A.
      + intro H. exfalso. exact (proj1 (proj2 (table_entry c s A)) H).
      + intros [H|[]]. subst c. discriminate.
  Qed.

  Lemma table_fold_hash :
    table_fold tbl ch_hash = [ch_hash] /\ (forall c, table_fold tbl c = [ch_hash] -> c = ch_hash) /\
    forall c, table_fold tbl c <> [].
  Proof.
    split; [reflexivity|]. split.
    - intros c. unfold table_fold. destruct (N.ltb c 128) eqn:Lt.
      + intro H. apply N.eqb_eq. rewrite <- (ascii_lower_keeps c ch_hash) by reflexivity.
        apply N.eqb_eq. congruence.
      + destruct (assoc_n c tbl) as [s|] eqn:A.
        * intro H. exfalso. apply (proj2 (proj2 (table_entry c s A))). rewrite H. left. reflexivity.
        * intro H. assert (c = ch_hash) by congruence. subst c. discriminate.
    - intros c. unfold table_fold. destruct (N.ltb c 128); [discriminate|].
      destruct (assoc_n c tbl) as [s|] eqn:A; [exact (proj1 (table_entry c s A)) | discriminate].
  Qed.
End TableFold.

(* ------------------------------------------------------------------ the index repair is invisible for
   foldings that map every code point to one code point *)

Section Len1.
  Variable foldc : N -> str.
  Hypothesis fold_slash : foldc ch_slash = [ch_slash] /\ forall c, In ch_slash (foldc c) -> c = ch_slash.
  Hypothesis len1 : forall c, length (foldc c) = 1.
  Notation fold := (Schema.fold foldc).

  Lemma fold_length1 s : length (fold s) = length s.
  Proof.
    induction s as [|c s IH]; [reflexivity|]. rewrite (fold_cons foldc), app_length, len1, IH. reflexivity.
  Qed.

  Lemma skipn_fold1 k : forall s, skipn k (fold s) = fold (skipn k s).
  Proof.
    induction k as [|k IH]; intro s; [reflexivity|]. destruct s as [|c s]; [reflexivity|].
    rewrite (fold_cons foldc). pose proof (len1 c) as H. destruct (foldc c) as [|x [|y w]]; try discriminate.
    cbn [app skipn]. apply IH.
  Qed.

  Lemma walk_keys_same h clean :
    walk_keys foldc (mkFixes false h) clean = walk_keys foldc (mkFixes true h) clean.
  Proof.
    unfold walk_keys. cbn [fix_index]. rewrite (sp_fold foldc fold_slash), map_map.
    apply map_ext. intro q. rewrite fold_length1. reflexivity.
  Qed.

  Lemma remaining_terms_same h clean idx :
    remaining_terms foldc (mkFixes false h) clean idx = remaining_terms foldc (mkFixes true h) clean idx.
  Proof.
    unfold remaining_terms. cbn [fix_index]. rewrite skipn_fold1. apply (split_fold foldc fold_slash).
  Qed.

  Lemma unrepaired_index_same h T tag ns :
    find_tag_entry_ foldc (mkFixes false h) T tag ns = find_tag_entry_ foldc (mkFixes true h) T tag ns.
  Proof.
    unfold find_tag_entry_, find_tag_subfunction, validate_remaining_terms.
    rewrite walk_keys_same.
    assert (R : forall c i, remaining_terms foldc (mkFixes false h) c i = remaining_terms foldc (mkFixes true h) c i)
      by (intros; apply remaining_terms_same).
    destruct (lookup (fold (skipn (length ns) tag)) (long_form_tags T)); [reflexivity|].
    change (walk (mkFixes false h) T) with (walk (mkFixes true h) T).
    destruct (walk (mkFixes true h) T (walk_keys foldc (mkFixes true h) (skipn (length ns) tag)) None) as [[[e idx]|] m];
      [|reflexivity].
    rewrite R. reflexivity.
  Qed.

  Lemma unrepaired_index_same_hedtag h T sns t :
    hedtag_init foldc (mkFixes false h) T sns t = hedtag_init foldc (mkFixes true h) T sns t.
  Proof. unfold hedtag_init, find_tag_entry. rewrite unrepaired_index_same. reflexivity. Qed.
End Len1.

(* ------------------------------------------------------------------ statements over the model's own notions *)

Section Top.
  Variable foldc : N -> str.
  Hypothesis fold_slash : foldc ch_slash = [ch_slash] /\ forall c, In ch_slash (foldc c) -> c = ch_slash.
  Hypothesis fold_hash : foldc ch_hash = [ch_hash] /\ (forall c, foldc c = [ch_hash] -> c = ch_hash) /\
                         forall c, foldc c <> [].
  Notation fold := (Schema.fold foldc).
  Variable S : list str.
  Hypothesis HWF : WFschema foldc S = true.

  Let wf : WF foldc S := WFschema_WF foldc fold_slash fold_hash S HWF.

  (* loading a well-formed schema never raises and records no duplicate *)
  Lemma table_total : exists T, build_table foldc S = Ok T /\ duplicate_names T = [].
  Proof.
    destruct (build_table_wf foldc fold_slash fold_hash S wf) as (t & B & _ & D). exists t. auto.
  Qed.

  Variable T : table.
  Hypothesis HB : build_table foldc S = Ok T.

  Lemma table_inv : Inv foldc S (long_form_tags T).
  Proof.
    destruct (build_table_wf foldc fold_slash fold_hash S wf) as (t & B & I & _).
    rewrite HB in B. inversion B. exact I.
  Qed.

  Lemma model_form n k forms f e :
    In n S -> get_tag_forms n = Ok (k, forms) -> In f forms -> create_tag_entry n = Ok e ->
    is_form f n /\ e = ent n.
  Proof.
    intros Hn G Hf Ce. pose proof (wf_names _ _ wf n Hn) as Hok.
    rewrite (get_tag_forms_ok n Hok) in G. inversion G; subst.
    rewrite (create_tag_entry_ok n Hok (wf_nothash _ _ wf n Hn)) in Ce. inversion Ce.
    split; [apply in_forms_of; exact Hf | reflexivity].
  Qed.

  (* the table holds exactly the folded forms of the schema's names, each mapped to its own entry *)
  Lemma table_exact k e :
    lookup k (long_form_tags T) = Some e <->
    exists n nk forms f, In n S /\ get_tag_forms n = Ok (nk, forms) /\ In f forms /\
                         create_tag_entry n = Ok e /\ fold f = k.
  Proof.
    split.
    - intro H. destruct (proj1 table_inv _ _ H) as (n & f & Hn & Ee & Hf & Ef).
      pose proof (wf_names _ _ wf n Hn) as Hok.
      exists n, (last_comp n), (forms_of n), f. repeat split; auto.
      + apply get_tag_forms_ok. exact Hok.
      + apply in_forms_of. exact Hf.
      + subst e. apply create_tag_entry_ok; [exact Hok | exact (wf_nothash _ _ wf n Hn)].
    - intros (n & nk & forms & f & Hn & G & Hf & Ce & Ef).
      destruct (model_form n nk forms f e Hn G Hf Ce) as [F E]. subst e k.
      apply (proj2 table_inv); assumption.
  Qed.

  Variable fx : fixes.

  Lemma suffix_resolves n k forms f e p ns :
    In n S -> get_tag_forms n = Ok (k, forms) -> In f forms -> create_tag_entry n = Ok e ->
    fold p = fold f ->
    find_tag_entry foldc fx T ns (ns ++ p) ns = Found e (if is_value n then s_slash_hash else []).
  Proof.
    intros Hn G Hf Ce E. destruct (model_form n k forms f e Hn G Hf Ce) as [F Ee]. subst e.
    unfold find_tag_entry. rewrite str_eqb_refl.
    apply (suffix_resolves_ foldc fold_slash fold_hash S wf T table_inv fx n f); assumption.
  Qed.

  Lemma hedtag_suffix n k forms f e p sns :
    In n S -> get_tag_forms n = Ok (k, forms) -> In f forms -> create_tag_entry n = Ok e ->
    fold p = fold f -> get_schema_namespace (sns ++ p) = sns ->
    hedtag_init foldc fx T sns (sns ++ p)
    = mkHedTag (sns ++ p) sns (Some e) (if is_value n then s_slash_hash else []).
  Proof.
    intros Hn G Hf Ce E NS. destruct (model_form n k forms f e Hn G Hf Ce) as [F Ee]. subst e.
    apply hedtag_init_found; [exact NS | apply str_eqb_refl|].
    apply (suffix_resolves_ foldc fold_slash fold_hash S wf T table_inv fx n f); assumption.
  Qed.

  Hypothesis FI : fix_index fx = true.

  Lemma remainder_verbatim n k forms f e p r ns :
    In n S -> is_value n = false ->
    get_tag_forms n = Ok (k, forms) -> In f forms -> create_tag_entry n = Ok e ->
    fold p = fold f ->
    no_longer_form foldc T p r = true ->
    (takes_value_child foldc T e <> None \/ ext_terms_free foldc T r = true) ->
    find_tag_entry foldc fx T ns (ns ++ p ++ ch_slash :: r) ns
    = Found (match takes_value_child foldc T e with Some v => v | None => e end) (ch_slash :: r)
    /\ (forall v, takes_value_child foldc T e = Some v ->
          create_tag_entry (n ++ s_slash_hash) = Ok v /\ In (n ++ s_slash_hash) S /\
          e_long v = e_long e /\ e_short v = e_short e).
  Proof.
    intros Hn V G Hf Ce E NL SC. destruct (model_form n k forms f e Hn G Hf Ce) as [F Ee]. subst e.
    split.
    - unfold find_tag_entry. rewrite str_eqb_refl.
      unfold no_longer_form in NL. rewrite forallb_forall in NL.
      assert (NLq : forall q, In q (slash_prefixes (fold r)) ->
                lookup (fold f ++ ch_slash :: q) (long_form_tags T) = None).
      { intros q Hq. specialize (NL q Hq). rewrite E in NL.
        destruct (lookup (fold f ++ ch_slash :: q) (long_form_tags T)); [discriminate | reflexivity]. }
      assert (L1 : lookup (fold f ++ ch_slash :: fold r) (long_form_tags T) = None).
      { apply NLq. apply in_sp. left. reflexivity. }
      assert (L2 : walk_entry fx T (fold f ++ ch_slash :: fold (hd [] (slash_prefixes r))) = None).
      { apply wentry_none. apply NLq. rewrite (sp_fold foldc fold_slash).
        destruct (slash_prefixes r) eqn:X; [exfalso; exact (sp_nonempty _ X) | left; reflexivity]. }
      rewrite (resolve_ext foldc fold_slash S wf T table_inv fx FI n f p r ns Hn F (fun _ => V) E L1 L2).
      unfold post. destruct (takes_value_child foldc T (ent n)) as [v|] eqn:TV; [reflexivity|].
      destruct SC as [SC|SC]; [contradiction|]. rewrite SC. reflexivity.
    - intros v TV.
      destruct (value_child_shape foldc fold_slash fold_hash S wf T table_inv n v Hn V TV) as (Ev & EL & ES).
      destruct (ent_nonvalue n V) as [EL' ES']. rewrite EL, ES, EL', ES'.
      assert (Hin : In (n ++ s_slash_hash) S).
      { unfold takes_value_child, get_entry in TV. rewrite ent_name in TV.
        change (n ++ s_slash_hash) with (n ++ ch_slash :: s_hash) in TV.
        rewrite (fold_app_slash foldc fold_slash) in TV.
        destruct (deeper_form foldc fold_slash fold_hash S wf T table_inv n n _ v Hn
                    (self_form n (wf_nothash _ _ wf n Hn)) TV) as (b & Eb & Hb & _).
        rewrite (fold_s_hash foldc fold_hash) in Eb. apply (fold_eq_hash foldc fold_hash) in Eb. subst b. exact Hb. }
      repeat split; auto. subst v.
      apply create_tag_entry_ok; [exact (wf_names _ _ wf _ Hin) | exact (wf_nothash _ _ wf _ Hin)].
  Qed.

  Lemma long_short_inverse sns t :
    (fix_hash fx = false -> ~ has_hash_mid t) ->
    let h := hedtag_init foldc fx T sns t in
    let hs := hedtag_init foldc fx T sns (short_tag h) in
    let hl := hedtag_init foldc fx T sns (long_tag h) in
    long_tag hs = long_tag h /\ short_tag hl = short_tag h /\
    short_tag hs = short_tag h /\ long_tag hl = long_tag h /\
    ht_entry hs = ht_entry h /\ ht_entry hl = ht_entry h /\
    ht_ext hs = ht_ext h /\ ht_ext hl = ht_ext h.
  Proof. exact (long_short_inverse_ foldc fold_slash fold_hash S wf T table_inv fx FI sns t). Qed.
End Top.
