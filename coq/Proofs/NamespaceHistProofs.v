(* C13 -- history theorems about Model/NamespaceHist.v *)
From Coq Require Import List NArith Arith Bool Lia.
From HV Require Import Base.Res Base.Str Base.SchemaData Model.Namespace Model.NamespaceHist Proofs.NamespaceProofs.
Import ListNotations.

Section H.
Variable isalpha_c isprint_c : N -> bool.
Variable foldc titlec lowerc : N -> N.
Variable fixed : bool.
Variable R1 R2 R3 : bool -> ann rtag -> list code.
Variable fill : hgroup -> ann str -> bool.
Notation verdict := (verdict isalpha_c isprint_c foldc titlec lowerc fixed R1 R2 R3).
Notation h_run := (h_run isalpha_c isprint_c foldc titlec lowerc fixed R1 R2 R3 fill).
Notation s_run := (s_run isalpha_c isprint_c foldc titlec lowerc fixed R1 R2 R3).

(* the verdict sees a configuration only through find_tag_entry, the two attribute lists and the flag *)
Lemma verdict_ext (c c' : cfg) a :
  c_find c = c_find c' -> c_flag c = c_flag c' ->
  c_twa c Required = c_twa c' Required -> c_twa c Unique = c_twa c' Unique ->
  verdict c a = verdict c' a.
Proof.
  destruct c as [f t b], c' as [f' t' b']. simpl. intros -> -> Hr Hu.
  unfold Namespace.verdict, resolve_tag. simpl. rewrite Hr, Hu. reflexivity.
Qed.

(* every cached list is the list of the schema's entries with that attribute *)
Definition CacheOK (G : hgroup) : Prop :=
  Forall (fun h => forall a l, h_cache h a = Some l -> l = s_twa (h_sch h) a) G.

Lemma h_names_ok h a : (forall a l, h_cache h a = Some l -> l = s_twa (h_sch h) a) -> h_names h a = s_twa (h_sch h) a.
Proof. intro H. unfold h_names. destruct (h_cache h a) eqn:E; [exact (H a l E) | reflexivity]. Qed.

Lemma h_twa_ok G a : CacheOK G -> h_twa G a = group_twa (strip G) a.
Proof.
  induction 1 as [|h G Hh _ IH]; [reflexivity|]. unfold h_twa, group_twa, strip in *. simpl.
  rewrite IH. unfold schema_twa. simpl. rewrite (h_names_ok h a Hh). reflexivity.
Qed.

Lemma h_verdict_ok G a : CacheOK G -> verdict (h_cfg G) a = verdict (cfg_group (strip G)) a.
Proof.
  intro H. apply verdict_ext; try reflexivity; simpl; apply h_twa_ok; exact H.
Qed.

Lemma CacheOK_fill G : CacheOK G -> CacheOK (map fill_cache G).
Proof.
  induction 1 as [|h G Hh _ IH]; simpl; constructor; [|exact IH].
  intros a l Hl. simpl in Hl. injection Hl as <-. simpl. apply h_names_ok. exact Hh.
Qed.

Lemma CacheOK_upd G i ns : CacheOK G -> CacheOK (upd_nth i (h_reprefix isalpha_c fixed ns) G).
Proof.
  intro H. revert i. induction H as [|h G Hh HG IH]; intro i; [destruct i; constructor|].
  destruct i as [|j]; simpl; constructor.
  - unfold h_reprefix. destruct (set_schema_prefix isalpha_c fixed ns); simpl; exact Hh.
  - exact HG.
  - exact Hh.
  - apply IH.
Qed.

Lemma strip_fill G : strip (map fill_cache G) = strip G.
Proof. unfold strip. rewrite map_map. reflexivity. Qed.

Lemma strip_upd G i ns :
  strip (upd_nth i (h_reprefix isalpha_c fixed ns) G) = upd_nth i (s_reprefix isalpha_c fixed ns) (strip G).
Proof.
  revert i. induction G as [|h G IH]; intro i; [destruct i; reflexivity|].
  destruct i as [|j]; simpl.
  - unfold h_reprefix, s_reprefix. destruct (set_schema_prefix isalpha_c fixed ns); reflexivity.
  - unfold strip in *. simpl. rewrite IH. reflexivity.
Qed.

(* History theorem (b): whatever sequence of set_schema_prefix and validate operations is applied to loaded
   schema objects, every verdict is the verdict of a freshly assembled group with the current prefixes --
   the caches never show. *)
Theorem reprefix_history_irrelevant ops : forall G,
  CacheOK G -> h_run G ops = s_run (strip G) ops.
Proof.
  induction ops as [|o ops IH]; intros G HG; [reflexivity|].
  destruct o as [i ns | a]; simpl.
  - rewrite (IH _ (CacheOK_upd G i ns HG)), strip_upd. reflexivity.
  - rewrite (h_verdict_ok G a HG). f_equal.
    destruct (fill G a); [rewrite (IH _ (CacheOK_fill G HG)), strip_fill; reflexivity | apply IH; exact HG].
Qed.

Lemma fresh_cache_ok (l : list loaded) : CacheOK (map (fun L => mkH (fst L) (snd L) (fun _ => None)) l).
Proof. induction l; simpl; constructor; [intros a0 l0 H; discriminate | assumption]. Qed.

(* ------------------------------------------------------------------ (a) *)
Variable fixed5 : bool.
Notation verdict_cross := (verdict_cross isalpha_c isprint_c foldc titlec lowerc fixed R1 R2 R3).

(* re-identification of the A-built tag under B gives what a fresh identification under B gives *)
Definition CleanReident (cA cB : cfg) (a : ann str) : Prop :=
  Forall (fun t => reidentify cB t (fst (resolve_tag cA t)) = resolve_tag cB t) (ann_tags a).

Lemma ann_map_fst_snd {A B} (f : A -> B) (a : ann A) : ann_map snd (ann_map (fun t => (t, f t)) a) = ann_map f a.
Proof. rewrite ann_map_map. reflexivity. Qed.

(* History theorem (a): an annotation object built under configuration A and judged by a validator for B gets the
   verdict of a freshly built object, provided re-identification is clean (C13-F6 excluded) and either the
   tags are re-identified before the character check (the code since fix commit 02f8597) or that check does not
   see a difference (needed only for the behaviour before that commit). *)
Theorem cross_validation_fresh cA cB a :
  CleanReident cA cB a ->
  (fixed5 = true \/ R1 (c_flag cB) (ann_map (fun t => fst (resolve_tag cA t)) a)
                    = R1 (c_flag cB) (ann_map (fun t => fst (resolve_tag cB t)) a)) ->
  verdict_cross fixed5 cA cB a = verdict cB a.
Proof.
  intros Hc H5. unfold NamespaceHist.verdict_cross, Namespace.verdict.
  set (built := ann_map (fun t => (t, fst (resolve_tag cA t))) a).
  assert (E1 : ann_map (fun tr => fst (reidentify cB (fst tr) (snd tr))) built
               = ann_map (fun t => fst (resolve_tag cB t)) a).
  { unfold built. rewrite ann_map_map. apply ann_map_ext_in.
    eapply Forall_impl; [|exact Hc]. intros t Ht. simpl in *. rewrite Ht. reflexivity. }
  assert (E2 : flat_map (fun tr => snd (reidentify cB (fst tr) (snd tr))) (ann_tags built)
               = flat_map (fun t => snd (resolve_tag cB t)) (ann_tags a)).
  { unfold built. rewrite ann_tags_map, flat_map_map. apply flat_map_ext_in.
    eapply Forall_impl; [|exact Hc]. intros t Ht. simpl in *. rewrite Ht. reflexivity. }
  assert (E3 : ann_map snd built = ann_map (fun t => fst (resolve_tag cA t)) a) by apply ann_map_fst_snd.
  rewrite E1, E2, E3.
  assert (E4 : R1 (c_flag cB) (if fixed5 then ann_map (fun t => fst (resolve_tag cB t)) a
                               else ann_map (fun t => fst (resolve_tag cA t)) a)
               = R1 (c_flag cB) (ann_map (fun t => fst (resolve_tag cB t)) a)).
  { destruct H5 as [-> | H5]; [reflexivity|]. destruct fixed5; [reflexivity | exact H5]. }
  rewrite E4. reflexivity.
Qed.

End H.

(* ------------------------------------------------------------------ witnesses for (a) *)
From HV Require Import Model.NamespaceX.
Local Open Scope N_scope.

(* the slice of check_tag_invalid_chars that matters here: a blank in org_base_tag is an invalid tag character *)
Definition r1_blank : bool -> ann rtag -> list code :=
  fun _ t => flat_map (fun r => if mem_char 32 (org_base_tag r) then [OtherCode 1 true] else []) (ann_tags t).

Definition x_cross (fixed5 : bool) :=
  verdict_cross x_isalpha x_isprint lower_ascii upper_ascii lower_ascii true r1_blank no_rules no_rules fixed5.
Definition x_fresh := verdict x_isalpha x_isprint lower_ascii upper_ascii lower_ascii true r1_blank no_rules no_rules.

(* a resolver that knows the first component and returns the rest as the extension *)
Definition toy_find_ext (t : str) : fres :=
  match partition_at ch_slash t with
  | Some (b, r) => (Some (toy_entry b), Some (ch_slash :: r), [])
  | None => (Some (toy_entry t), Some [], [])
  end.
Definition s_ext : sch := toy_sch toy_find_ext None true (8, 3, 0)%nat true.

Definition s_tl_r_ab : str := [116; 108; 58; 82; 47; 97; 32; 98].          (* "tl:R/a b" *)

(* C13-F5, REPAIRED by fix commit 02f8597.  Record of the behaviour before it (fixed5 = false): "tl:R/a b" built where
   tl: is loaded, judged where it is not: the blank went unnoticed.  Third conjunct: the code as it is now
   (fixed5 = true) gives the verdict of a fresh object on this witness. *)
Lemma cross_refuted_char_check_before_reidentification :
  let cA := cfg_group [([], s_ext); (ns_tl, s_ext)] in
  let cB := cfg_group [([], s_ext)] in
  let a := AGrp [ATag s_tl_r_ab] in
  x_cross false cA cB a = [LibraryUnmatched] /\ x_fresh cB a = [OtherCode 1 true; LibraryUnmatched]
  /\ x_cross true cA cB a = x_fresh cB a.
Proof. repeat split; vm_compute; reflexivity. Qed.

(* C13-F6 (OPEN, in both modes): "I/O" is a full tag (short form "O") under A, and "I" + extension "/O" under B, where "O" alone is
   unknown: re-identification starts from the short form "O" and fails, a fresh object is clean *)
Definition s_I_O : str := [73; 47; 79].
Definition s_O : str := [79].
Definition s_I : str := [73].
Definition find_A (t : str) : fres :=
  if str_eqb t s_I_O || str_eqb t s_O then (Some (mkEntry s_I_O s_I_O s_O []), Some [], [])
  else (None, None, [NoValidTagFound]).
Definition find_B (t : str) : fres :=
  if str_eqb t s_I_O then (Some (mkEntry s_I s_I s_I []), Some [ch_slash; 79], [])
  else if str_eqb t s_I then (Some (mkEntry s_I s_I s_I []), Some [], [])
  else (None, None, [NoValidTagFound]).

Lemma cross_refuted_reidentification_from_short_form :
  let cA := cfg_single ([], toy_sch find_A None true (8, 3, 0)%nat true) in
  let cB := cfg_single ([], toy_sch find_B None true (8, 3, 0)%nat true) in
  let a := AGrp [ATag s_I_O] in
  x_fresh cB a = [] /\ x_cross false cA cB a = [NoValidTagFound] /\ x_cross true cA cB a = [NoValidTagFound].
Proof. repeat split; vm_compute; reflexivity. Qed.

(* non-vacuity of cross_validation_fresh: same tag texts as short forms, no extension: clean re-identification *)
Lemma cross_nonvacuous :
  let cA := cfg_group [([], s_ext); (ns_tl, s_ext)] in
  let cB := cfg_group [([], s_ext); (ns_tl, std83)] in
  let a := AGrp [ATag [82]; AGrp [ATag (ns_tl ++ [82])]] in
  CleanReident cA cB a /\ x_cross true cA cB a = x_fresh cB a.
Proof.
  split; [repeat constructor | vm_compute; reflexivity].
Qed.

(* ------------------------------------------------------------------ several libraries merged under one prefix *)
Local Close Scope N_scope.

Definition set_ns_l (ns : str) (L : lschema) : lschema :=
  mkL ns (l_library L) (l_version L) (l_with_std L) (l_merged L) (l_elem_domain L) (l_table L).

(* equal except for the namespace *)
Definition same_but_ns (L L' : lschema) : Prop := set_ns_l [] L = set_ns_l [] L'.

Definition opt_same (a b : option lschema) : Prop :=
  match a, b with
  | Some x, Some y => same_but_ns x y
  | None, None => True
  | _, _ => False
  end.

Lemma load_file_same isa rp f into into' :
  opt_same into into' ->
  match load_file isa rp f into, load_file isa rp f into' with
  | LOk a, LOk b => same_but_ns a b
  | LErr e, LErr e' => e = e'
  | _, _ => False
  end.
Proof.
  destruct into as [x|], into' as [y|]; intro H; simpl in H; try contradiction.
  - destruct x as [ns lib ver ws mg ed T], y as [ns' lib' ver' ws' mg' ed' T'].
    unfold same_but_ns, set_ns_l in H. simpl in H. injection H as H1 H2 H3 H4 H5 H6. subst.
    unfold load_file. cbn [l_with_std l_table l_library l_version l_elem_domain l_ns].
    destruct ws' as [|c w]; [reflexivity|].
    destruct (negb (str_eqb (f_with_std f) (c :: w))); [reflexivity|].
    destruct (add_nodes (f_library f) true (negb (f_unmerged f)) _ true (f_nodes f) [] T'); simpl; try unfold same_but_ns, set_ns_l; reflexivity.
  - destruct (load_file isa rp f None); try unfold same_but_ns; reflexivity.
Qed.

Section Merged.
Variable isa : N -> bool.
Variable fixed : bool.
Variable rp : repo.

Lemma load_sub_same v ns into into' L :
  opt_same into into' ->
  load_sub isa fixed rp v ns into = LOk L ->
  exists L', load_sub isa fixed rp v [] into' = LOk L' /\ same_but_ns L L'.
Proof.
  intros Hs. unfold load_sub. destruct v as [|c v']; [discriminate|].
  destruct (negb (valid_version _)); [discriminate|].
  destruct (lookup (c :: v') rp) as [f|]; [|discriminate].
  pose proof (load_file_same isa rp f into into' Hs) as Hf.
  destruct (load_file isa rp f into) as [a|e]; [|discriminate].
  destruct (load_file isa rp f into') as [b|e']; [|contradiction]. simpl.
  destruct ns as [|d ns'].
  - intro H. injection H as <-. exists b. split; [reflexivity | exact Hf].
  - destruct (set_schema_prefix isa fixed (d :: ns')) as [p|]; [|discriminate].
    intro H. injection H as <-. exists b. split; [reflexivity|].
    unfold same_but_ns in *. unfold set_ns_l in *. simpl. exact Hf.
Qed.

Lemma load_rest_same vs ns : forall first first' L,
  same_but_ns first first' ->
  load_rest isa fixed rp vs ns first = LOk L ->
  exists L', load_rest isa fixed rp vs [] first' = LOk L' /\ same_but_ns L L'.
Proof.
  induction vs as [|v vs IH]; intros first first' L Hs H; simpl in *.
  - injection H as <-. exists first'. split; [reflexivity | exact Hs].
  - destruct (load_sub isa fixed rp v ns (Some first)) as [a|] eqn:Ea; [|discriminate]. simpl in H.
    destruct (load_sub_same v ns (Some first) (Some first') a Hs Ea) as [b [Eb Hab]]. rewrite Eb. simpl.
    assert (Ht : l_table b = l_table a).
    { unfold same_but_ns, set_ns_l in Hab. injection Hab as _ _ _ _ _ Ht. symmetry. exact Ht. }
    rewrite Ht. destruct (t_dups (l_table a)); [|discriminate]. exact (IH a b L Hab H).
Qed.

(* _load_schema_version for "ns:v0,v1,..." and for "v0,v1,...": the merged schema is the same except for its
   namespace -- in particular the same tag table (same entries, same lookups, same recorded duplicates).
   (Only the tag section is modelled; the unit sections are covered by the implementation-side oracle.) *)
Theorem merged_under_prefix_same_schema v0 vs ns L :
  lbind (load_sub isa fixed rp v0 ns None) (load_rest isa fixed rp vs ns) = LOk L ->
  exists L', lbind (load_sub isa fixed rp v0 [] None) (load_rest isa fixed rp vs []) = LOk L' /\
             same_but_ns L L' /\ l_table L' = l_table L.
Proof.
  intro H. destruct (load_sub isa fixed rp v0 ns None) as [a|] eqn:Ea; [|discriminate]. simpl in H.
  destruct (load_sub_same v0 ns None None a I Ea) as [b [Eb Hab]]. rewrite Eb. simpl.
  destruct (load_rest_same vs ns a b L Hab H) as [L' [E' HL]]. exists L'. split; [exact E'|]. split; [exact HL|].
  unfold same_but_ns, set_ns_l in HL. injection HL as _ _ _ _ _ Ht. symmetry. exact Ht.
Qed.
End Merged.

(* ------------------------------------------------------------------ audit follow-up *)

(* (a) for the code as it is now (fixed5 = true, fix commit 02f8597 in /repo): one hypothesis is left, the absence
   of the open finding C13-F6 *)
Theorem cross_validation_fresh_now isalpha_c isprint_c foldc titlec lowerc fixed R1 R2 R3 cA cB a :
  CleanReident cA cB a ->
  verdict_cross isalpha_c isprint_c foldc titlec lowerc fixed R1 R2 R3 true cA cB a =
  verdict isalpha_c isprint_c foldc titlec lowerc fixed R1 R2 R3 cB a.
Proof.
  intro H.
  exact (cross_validation_fresh isalpha_c isprint_c foldc titlec lowerc fixed R1 R2 R3 true cA cB a H (or_introl eq_refl)).
Qed.

(* RUniform is not an empty assumption: two classes of rules that satisfy it *)
(* 1. every rule that reads only entry, remainder and body of the tags (the namespace erased) *)
Lemma RUniform_erased (f : bool -> ann rtag -> list code) : RUniform (fun b t => f b (ann_map (set_ns []) t)).
Proof.
  intros b p t _ _. rewrite ann_map_map. reflexivity.
Qed.

(* 2. a rule that DOES read the namespace, through equality of whole tag texts: "the same tag text twice" *)
Definition org_text (r : rtag) : str := rt_ns r ++ rt_body r.
Definition repeated_text_rule : bool -> ann rtag -> list code :=
  fun _ t => if has_dup (map org_text (ann_tags t)) then [OtherCode 2 true] else [].

Lemma str_eqb_app_same p x y : str_eqb (p ++ x) (p ++ y) = str_eqb x y.
Proof. induction p as [|c p IH]; simpl; [reflexivity | rewrite N.eqb_refl; exact IH]. Qed.

Lemma mem_str_app_same p x l : mem_str (p ++ x) (map (app p) l) = mem_str x l.
Proof. induction l as [|y l IH]; simpl; [reflexivity | rewrite str_eqb_app_same, IH; reflexivity]. Qed.

Lemma has_dup_app_same p l : has_dup (map (app p) l) = has_dup l.
Proof. induction l as [|x l IH]; simpl; [reflexivity | rewrite mem_str_app_same, IH; reflexivity]. Qed.

Lemma RUniform_repeated_text : RUniform repeated_text_rule.
Proof.
  intros b p t _ Hns. unfold repeated_text_rule. rewrite ann_tags_map, map_map.
  assert (E : map (fun r => org_text (set_ns p r)) (ann_tags t) = map (app p) (map org_text (ann_tags t))).
  { rewrite map_map. apply map_ext_Forall. eapply Forall_impl; [|exact Hns]. intros r Hr. simpl in Hr.
    unfold org_text, set_ns. simpl. rewrite Hr. reflexivity. }
  rewrite E, has_dup_app_same. reflexivity.
Qed.

(* partner merge: if no duplicate was recorded, EVERY ordinary standard name resolves as before -- unconditional
   in the library's entries (names ending in "#" are covered only by merge_keeps_standard and the bundled data) *)
Corollary standard_kept_if_no_dups es B k x v :
  KeyInv B -> km_get k (t_keys B) = Some v -> rev k = x :: tl (rev k) -> x <> hash_comp ->
  t_dups (fold_left add_tag es B) = [] ->
  km_get k (t_keys (fold_left add_tag es B)) = Some v.
Proof.
  intros HI HB Hr Hx Hd. destruct (standard_kept_or_clash es B k x v HI HB Hr Hx) as [H|H]; [exact H | contradiction].
Qed.

(* history (b): non-vacuity and contrast *)
Local Open Scope N_scope.
Definition s_E : str := [69].
Definition uniq_sch : sch :=
  mkSch toy_find_all (fun _ => None) (fun a => match a with Unique => [s_E] | Required => [] end)
        None true (8, 3, 0)%nat true.
Definition hist_ops : list op :=
  [OpValidate (AGrp [ATag s_E; ATag s_E]); OpPrefix 0 [116; 108];
   OpValidate (AGrp [ATag (ns_tl ++ s_E); ATag (ns_tl ++ s_E)]); OpPrefix 0 [116; 49];
   OpValidate (AGrp [ATag (ns_tl ++ s_E)])].
Definition hist_G : hgroup := [mkH [] uniq_sch (fun _ => None)].
Definition always_fill : hgroup -> ann str -> bool := fun _ _ => true.

Definition x_h_run := h_run x_isalpha x_isprint lower_ascii upper_ascii lower_ascii true no_rules no_rules no_rules always_fill.
Definition x_s_run := s_run x_isalpha x_isprint lower_ascii upper_ascii lower_ascii true no_rules no_rules no_rules.
Definition x_h_run_stale :=
  h_run_stale x_isalpha x_isprint lower_ascii upper_ascii lower_ascii true no_rules no_rules no_rules always_fill.

(* a freshly loaded group satisfies CacheOK; on this history (validate, re-prefix to "tl:", validate, refused
   re-prefix "t1", validate) the modelled code gives the memory-less verdicts, TAG_NOT_UNIQUE included ... *)
Lemma reprefix_history_nonvacuous :
  CacheOK hist_G /\
  x_h_run hist_G hist_ops = [Some [TagNotUnique]; None; Some [TagNotUnique]; None; Some []] /\
  x_s_run (strip hist_G) hist_ops = [Some [TagNotUnique]; None; Some [TagNotUnique]; None; Some []].
Proof. split; [exact (fresh_cache_ok [([], uniq_sch)]) | split; vm_compute; reflexivity]. Qed.

(* ... while the variant that caches the formatted names (seeded change C13/4) loses TAG_NOT_UNIQUE after the
   re-prefix: the history theorem is false of it *)
Lemma stale_name_cache_refuted :
  CacheOK hist_G /\ x_h_run_stale hist_G hist_ops <> x_s_run (strip hist_G) hist_ops
  /\ x_h_run_stale hist_G hist_ops = [Some [TagNotUnique]; None; Some []; None; Some []].
Proof.
  split; [exact (fresh_cache_ok [([], uniq_sch)]) | split; [vm_compute; discriminate | vm_compute; reflexivity]].
Qed.

(* ------------------------------------------------------------------ construction routes (load_schema(..., schema=lib)) *)
Local Close Scope N_scope.
Lemma load_file_keeps_ns isa rp f first L : load_file isa rp f (Some first) = LOk L -> l_ns L = l_ns first.
Proof.
  unfold load_file. destruct (l_with_std first) as [|c w]; [discriminate|].
  destruct (negb (str_eqb (f_with_std f) (c :: w))); [discriminate|].
  destruct (add_nodes _ _ _ _ _ _ _ _) as [T|]; simpl; [|discriminate].
  intro H. injection H as <-. reflexivity.
Qed.

Lemma lschema_eta L : mkL (l_ns L) (l_library L) (l_version L) (l_with_std L) (l_merged L) (l_elem_domain L) (l_table L) = L.
Proof. destruct L; reflexivity. Qed.

(* merging through the public `schema=` parameter WITHOUT repeating the namespace keeps the namespace ... *)
Theorem merge_route_keeps_prefix isa fixed rp f first L :
  load_schema_pub isa fixed rp f [] (Some first) = LOk L -> l_ns L = l_ns first.
Proof.
  unfold load_schema_pub. destruct (load_file isa rp f (Some first)) as [L0|] eqn:E; [|discriminate]. simpl.
  intro H. injection H as <-. exact (load_file_keeps_ns isa rp f first L0 E).
Qed.

(* ... and gives exactly the schema that _load_schema_version builds for "ns:v0,...,v" at the same step *)
Theorem merge_route_equals_version_list isa fixed rp v f ns first L :
  lookup v rp = Some f ->
  (ns = [] /\ l_ns first = [] \/ set_schema_prefix isa fixed ns = Ok (l_ns first) /\ ns <> []) ->
  load_sub isa fixed rp v ns (Some first) = LOk L ->
  load_schema_pub isa fixed rp f [] (Some first) = LOk L.
Proof.
  intros Hl Hns. unfold load_sub, load_schema_pub. destruct v as [|c v']; [discriminate|].
  destruct (negb (valid_version _)); [discriminate|]. rewrite Hl.
  destruct (load_file isa rp f (Some first)) as [L0|] eqn:E; [|discriminate]. simpl.
  pose proof (load_file_keeps_ns isa rp f first L0 E) as Hk.
  destruct Hns as [[-> Hf] | [Hs Hne]].
  - intro H. exact H.
  - destruct ns as [|d ns']; [contradiction|]. rewrite Hs. intro H. injection H as <-.
    rewrite <- Hk. rewrite lschema_eta. reflexivity.
Qed.

(* repeating the namespace on the merge step gives the same result as not repeating it *)
Theorem merge_route_repeat_same isa fixed rp f ns first L :
  set_schema_prefix isa fixed ns = Ok (l_ns first) -> ns <> [] ->
  load_schema_pub isa fixed rp f [] (Some first) = LOk L ->
  load_schema_pub isa fixed rp f ns (Some first) = LOk L.
Proof.
  intros Hs Hne. unfold load_schema_pub. destruct (load_file isa rp f (Some first)) as [L0|] eqn:E; [|discriminate]. simpl.
  pose proof (load_file_keeps_ns isa rp f first L0 E) as Hk.
  intro H. injection H as <-. destruct ns as [|d ns']; [contradiction|]. rewrite Hs, <- Hk, lschema_eta. reflexivity.
Qed.

(* ------------------------------------------------------------------ the place named by INVALID_PARENT_NODE *)

Definition shift_span (adj : nat) (ab : nat * nat) : nat * nat := (adj + fst ab, adj + snd ab).

Lemma first_schema_word_shift T names : forall adj pos,
  first_schema_word T names (adj + pos) = option_map (shift_span adj) (first_schema_word T names pos).
Proof.
  induction names as [|nm r IH]; intros adj pos; simpl; [reflexivity|].
  destruct (km_get [nm] (t_keys T)).
  - unfold shift_span. simpl. f_equal. f_equal. lia.
  - replace (adj + pos + length nm + 1) with (adj + (pos + length nm + 1)) by lia. apply IH.
Qed.

(* the place reported for a prefixed tag is the place reported for the unprefixed tag moved by the length of the
   namespace -- for every table, text and namespace length *)
Theorem invalid_parent_span_shift T clean adj :
  invalid_parent_span T clean adj = option_map (shift_span adj) (invalid_parent_span T clean 0).
Proof.
  unfold invalid_parent_span. destruct (km_get _ (t_keys T)); [reflexivity|].
  destruct (walk T _ 0 _ None) as [[e|] k]; [|reflexivity].
  destruct (Nat.ltb k _ && _); [|reflexivity].
  exact (first_schema_word_shift T _ adj _).
Qed.

(* ... and it is the place of the FIRST extension word that is a tag of the schema *)
Theorem first_schema_word_points T names : forall pos a b,
  first_schema_word T names pos = Some (a, b) ->
  exists i nm, nth_error names i = Some nm /\ km_get [nm] (t_keys T) <> None /\
               (forall j x, j < i -> nth_error names j = Some x -> km_get [x] (t_keys T) = None) /\
               a = pos + words_offset (firstn i names) /\ b = a + length nm.
Proof.
  induction names as [|nm r IH]; intros pos a b H; simpl in H; [discriminate|].
  destruct (km_get [nm] (t_keys T)) eqn:E.
  - injection H as <- <-. exists 0, nm. repeat split; try reflexivity.
    + rewrite E. discriminate.
    + intros j x Hj. lia.
    + simpl. lia.
  - destruct (IH _ a b H) as [i [x [Hn [Hk [Hf [Ha Hb]]]]]]. exists (S i), x. repeat split; try assumption.
    + intros j y Hj Hy. destruct j as [|j]; simpl in Hy; [injection Hy as <-; exact E | apply (Hf j y); [lia | exact Hy]].
    + simpl. lia.
Qed.
