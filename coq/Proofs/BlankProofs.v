(* Proofs about blanks-only texts (property C06): which texts the final per-row join skips
   (fix commit 8227060), and what replace_ref does with a blanks-only replacement. *)
From Coq Require Import List NArith Arith Bool Lia.
From HV Require Import Base.Res Base.Str Model.RefSplice Model.Assemble Proofs.AssembleProofs.
Import ListNotations.

Lemma is_blank_spec (e : str) : is_blank e = true <-> Forall (fun c => c = ch_space) e.
Proof.
  unfold is_blank. rewrite forallb_forall, Forall_forall. split; intros H c Hc.
  - symmetry. apply N.eqb_eq. apply H. exact Hc.
  - apply N.eqb_eq. symmetry. apply H. exact Hc.
Qed.

(* the final join skips EXACTLY: the empty text, texts holding only blanks (U+0020), and the
   text "n/a" -- every other text (" n/a", "n/a ", "Red ", a tab, ...) is listed as it is *)
Theorem keep_part_spec (e : str) :
  keep_part e = false <-> (e = ch_na \/ Forall (fun c => c = ch_space) e).
Proof.
  unfold keep_part. rewrite andb_false_iff, !negb_false_iff, str_eqb_spec, is_blank_spec. tauto.
Qed.

(* record of the behaviour before fix commit 8227060: bool(e) and e != "n/a" *)
Definition keep_part_pre (e : str) : bool := negb (is_empty e) && negb (str_eqb e ch_na).

Example blank_part_before_and_now :
  keep_part_pre [32]%N = true /\ keep_part [32]%N = false /\ keep_part [32; 32]%N = false /\
  keep_part [] = false /\ keep_part ch_na = false /\
  keep_part [32; 110; 47; 97]%N = true /\ keep_part [82; 32]%N = true /\ keep_part [9]%N = true /\
  combine_row [[82]%N; [32]%N; [66]%N] = [82; 44; 32; 66]%N.
Proof. repeat split; reflexivity. Qed.

(* a row whose parts are all skipped assembles to the empty annotation *)
Lemma combine_row_all_skipped cells :
  Forall (fun e => keep_part e = false) cells -> combine_row cells = [].
Proof.
  unfold combine_row. induction 1 as [|e l He Hl IH]; simpl; [reflexivity|].
  rewrite He. exact IH.
Qed.

(* ---------- blanks-only text of a REFERENCED column (defect C06-F8, repaired by d53ebab) ---------- *)

(* FULL STATEMENT: a reference whose column text for the row is skipped by the join (n/a,
   empty or blanks only) disappears with the delimiters that only surrounded it:
     forall text ref v, keep_part v = false ->
       replace_ref true text ref v = Ok (remove_ref_fixed (brace ref) text).
   RECORD: it was FALSE of the behaviour before fix commit d53ebab ([replace_ref_gen false]): a
   blanks-only text was substituted literally, "{h}, S" with " " gave " , S". *)
Lemma current_blank_mode : replace_ref = replace_ref_gen true.
Proof. reflexivity. Qed.

Theorem blank_reference_refuted :
  exists text ref v r, keep_part v = false /\ replace_ref_gen false true text ref v = Ok r /\
                       wf_delim text = true /\ wf_delim r = false.
Proof.
  exists [123; 104; 125; 44; 32; 83]%N, [104]%N, [32]%N, [32; 44; 32; 83]%N.
  repeat split; reflexivity.
Qed.

(* It holds, for all inputs, since d53ebab (replace_ref_gen with blank = true) *)
Theorem blank_reference_removed_gen (text ref v : str) :
  keep_part v = false ->
  replace_ref_gen true true text ref v = Ok (remove_ref_fixed (brace ref) text).
Proof.
  intros H. apply keep_part_spec in H. unfold replace_ref_gen.
  assert (Hb : str_eqb v ch_na || is_empty v || (true && is_blank v) = true).
  { destruct H as [H|H].
    - subst. reflexivity.
    - apply is_blank_spec in H. rewrite H. simpl. apply orb_true_r. }
  rewrite Hb. reflexivity.
Qed.

Example blank_reference_repaired :
  replace_ref_gen true true [123; 104; 125; 44; 32; 83]%N [104]%N [32]%N = Ok [83]%N.
Proof. vm_compute. reflexivity. Qed.

(* everything else was untouched by that repair *)
Theorem replace_ref_gen_agrees (text ref v : str) :
  is_blank v = false -> replace_ref_gen true true text ref v = replace_ref_gen false true text ref v.
Proof.
  intros H. unfold replace_ref_gen. rewrite H. simpl.
  rewrite ?andb_false_r, ?orb_false_r. reflexivity.
Qed.

(* na_is_removed for the code as it is (since d53ebab): every text the join skips -- n/a, empty,
   blanks only -- sends the reference through the remover *)
Theorem na_is_removed_current (text ref v : str) :
  keep_part v = false -> replace_ref true text ref v = Ok (remove_ref_fixed (brace ref) text).
Proof. rewrite current_blank_mode. apply blank_reference_removed_gen. Qed.
